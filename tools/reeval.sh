#!/bin/bash
# usage: reeval.sh <seed-name>...   re-run the property's quick check against a scratch copy of /repo with seeded/<name>/patch.diff applied
cd /verif
for name in "$@"; do
  prop=${name%%-*}
  copy=$(mktemp -d /tmp/seedrepo.XXXXXX)
  cp -r /repo/. $copy/
  if (cd $copy && git apply /verif/seeded/$name/patch.diff 2>/dev/null); then
    res=$(A5_REPO=$copy ./check $prop quick 2>&1 | grep -E "VIOLATION|^$prop quick|no longer checks \[(translator|proof)" | cut -c1-260)
    echo "== $name"; echo "$res"
  else
    echo "== $name: patch does not apply"
  fi
  rm -rf $copy
done
/venv/bin/python tools/gen_tables.py >/dev/null; /venv/bin/python tools/py2lean.py >/dev/null
