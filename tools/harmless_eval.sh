#!/bin/bash
# usage: harmless_eval.sh <worktree> <name>
# a behaviour-preserving change: run EVERY quick check against a scratch copy with the patch applied and list the checks that raise an alarm
wt=$1; name=$2
out=/verif/seeded/harmless/$name
mkdir -p $out
cp $wt/patch.diff $out/patch.diff; cp $wt/notes.txt $out/notes.txt 2>/dev/null
cd /verif
copy=$(mktemp -d /tmp/seedrepo.XXXXXX)
cp -r /repo/. $copy/
(cd $copy && git apply $out/patch.diff) || { echo "cannot apply"; rm -rf $copy; exit 1; }
tests=$(cd $copy && /venv/bin/python -m pytest -q -p no:cacheprovider 2>&1 | tail -1)
echo "tests: $tests"
: > $out/all_checks.txt
for p in $(python3 -c "import json;print(' '.join(c['property_id'] for c in json.load(open('MANIFEST.json'))['checks']))"); do
  A5_REPO=$copy VERIF_ESCALATE_BUDGET=${VERIF_ESCALATE_BUDGET:-20} ./check $p quick 2>&1 | grep -E "VIOLATION|no longer checks|^$p quick" | cut -c1-330 >> $out/all_checks.txt
done
rm -rf $copy
/venv/bin/python tools/gen_tables.py >/dev/null; /venv/bin/python tools/py2lean.py > /dev/null
grep -E "VIOLATION|no longer checks" $out/all_checks.txt | sed 's/ replay=[^ ]*//' | head -40
echo "alarms: $(grep -c VIOLATION $out/all_checks.txt) of 20"
