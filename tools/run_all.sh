#!/bin/bash
# run every claimed check (quick by default) on the current /repo tree; prints one summary line per check
cd "$(dirname "$0")/.."
tier=${1:-quick}
rc=0
for p in $(python3 -c "import json;print(' '.join(c['property_id'] for c in json.load(open('MANIFEST.json'))['checks']))"); do
  ./check $p $tier | tail -1 || rc=1
done
exit $rc
