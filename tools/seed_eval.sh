#!/bin/bash
# usage: seed_eval.sh <worktree> <property> <seed-name>   — confirm a seeded change and run the check against it
wt=$1; prop=$2; name=$3
set -u
out=/verif/seeded/$name
mkdir -p $out
cp $wt/patch.diff $out/patch.diff
cp $wt/demo.py $out/demo.py 2>/dev/null
cp $wt/notes.txt $out/notes.txt 2>/dev/null
cd $wt
# 1. tests with the change
git diff --quiet -- a5 && { echo "patch not applied in worktree"; git apply patch.diff; }
tests=$(/venv/bin/python -m pytest -q -p no:cacheprovider 2>&1 | tail -1)
PYTHONPATH=$wt /venv/bin/python demo.py >/dev/null 2>&1; demo_with=$?
git apply -R patch.diff
PYTHONPATH=$wt /venv/bin/python demo.py >/dev/null 2>&1; demo_without=$?
git apply patch.diff
echo "tests_with_change: $tests | demo rc with=$demo_with without=$demo_without"
# 2. run the check against it
cd /repo && git apply $out/patch.diff || { echo "cannot apply to /repo"; exit 1; }
cd /verif
res=$(./check $prop quick 2>&1 | grep -E "VIOLATION|^$prop quick" | head -3)
rc=$?
cd /repo && git checkout -- . && cd /verif
/venv/bin/python tools/gen_tables.py >/dev/null
echo "$res"
python3 - <<PY
import json
json.dump({"property":"$prop","breaks":"see notes.txt","tests_with_change":"""$tests""","demo_rc_with_change":$demo_with,"demo_rc_without_change":$demo_without,
 "ran":["pytest in a scratch worktree with the change","demo.py with and without the change","./check $prop quick with the patch applied to /repo, then git checkout"],
 "check_output":"""$res"""}, open("$out/meta.json","w"), indent=1)
PY
