#!/bin/bash
# usage: seed_eval.sh <worktree> <property> <seed-name> [--live]
# confirm a seeded change (tests pass with it, demo fails with it and passes without it) and run the check against it.
# By default the check runs against a scratch copy of /repo with the patch applied (A5_REPO=<copy>), so that nothing else running on this
# machine (vp run, background sweeps) ever sees a patched /repo; --live applies the patch to /repo itself and undoes it afterwards.
wt=$1; prop=$2; name=$3; live=${4:-}
set -u
out=/verif/seeded/$name
mkdir -p $out
cp $wt/patch.diff $out/patch.diff
cp $wt/demo.py $out/demo.py 2>/dev/null
cp $wt/notes.txt $out/notes.txt 2>/dev/null
cd $wt
git diff --quiet -- a5 && { echo "patch not applied in worktree"; git apply patch.diff; }
tests=$(/venv/bin/python -m pytest -q -p no:cacheprovider 2>&1 | tail -1)
PYTHONPATH=$wt /venv/bin/python demo.py >/dev/null 2>&1; demo_with=$?
git apply -R patch.diff
PYTHONPATH=$wt /venv/bin/python demo.py >/dev/null 2>&1; demo_without=$?
git apply patch.diff
echo "tests_with_change: $tests | demo rc with=$demo_with without=$demo_without"
cd /verif
if [ "$live" = "--live" ]; then
  (cd /repo && git apply $out/patch.diff) || { echo "cannot apply to /repo"; exit 1; }
  res=$(./check $prop quick 2>&1 | grep -E "VIOLATION|^$prop quick" | head -3)
  (cd /repo && git checkout -- .)
  how="./check $prop quick with the patch applied to /repo, then git checkout"
else
  copy=$(mktemp -d /tmp/seedrepo.XXXXXX)
  cp -r /repo/. $copy/
  (cd $copy && git apply $out/patch.diff) || { echo "cannot apply to the copy"; rm -rf $copy; exit 1; }
  res=$(A5_REPO=$copy ./check $prop quick 2>&1 | grep -E "VIOLATION|^$prop quick" | head -3)
  rm -rf $copy
  how="A5_REPO=<scratch copy of /repo with the patch applied> ./check $prop quick (copy removed afterwards)"
fi
/venv/bin/python tools/gen_tables.py >/dev/null
echo "$res"
python3 - <<PY
import json
json.dump({"property":"$prop","breaks":"see notes.txt","tests_with_change":"""$tests""","demo_rc_with_change":$demo_with,"demo_rc_without_change":$demo_without,
 "ran":["pytest in a scratch worktree with the change","demo.py with and without the change","$how"],
 "check_output":"""$res"""}, open("$out/meta.json","w"), indent=1)
PY
