#!/bin/bash
# usage: harmless_par.sh <worktree> <name>     like harmless_eval.sh, but in a private scratch copy of /verif and of /repo (safe to run several at once)
wt=$1; name=$2
out=/verif/seeded/harmless/$name
mkdir -p $out
cp $wt/patch.diff $out/patch.diff; cp $wt/notes.txt $out/notes.txt 2>/dev/null
base=$(mktemp -d /tmp/hv.XXXXXX)
rsync -a --exclude .git --exclude seeded --exclude design-probes /verif/ $base/verif/
mkdir $base/repo; cp -r /repo/. $base/repo/
(cd $base/repo && git apply $out/patch.diff) || { echo "cannot apply"; rm -rf $base; exit 1; }
tests=$(cd $base/repo && /venv/bin/python -m pytest -q -p no:cacheprovider 2>&1 | tail -1)
echo "tests: $tests" > $out/all_checks.txt
cd $base/verif
for p in $(python3 -c "import json;print(' '.join(c['property_id'] for c in json.load(open('MANIFEST.json'))['checks']))"); do
  A5_REPO=$base/repo VERIF_ESCALATE_BUDGET=${VERIF_ESCALATE_BUDGET:-20} ./check $p quick 2>&1 | grep -E "VIOLATION|^$p quick" | cut -c1-330 >> $out/all_checks.txt
  if grep -q "VIOLATION property=$p" $out/all_checks.txt; then
    python3 -c "
import json,glob
for f in glob.glob('replays/$p-quick-*.json'):
    r=json.load(open(f)); print('  replay:', json.dumps(r)[:1500])" >> $out/all_checks.txt
  fi
done
rm -rf $base
echo "$name alarms: $(grep -c '^VIOLATION' $out/all_checks.txt) of 20"
