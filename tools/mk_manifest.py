#!/usr/bin/env python3
"""Regenerate MANIFEST.json from the property modules present in harness/props (claimed) and NOT_APPLICABLE below."""
import json, os, sys, importlib
V = os.path.dirname(os.path.dirname(os.path.abspath(__file__)))
sys.path.insert(0, os.path.join(V, 'harness'))
props = [json.loads(l) for l in open(os.path.join(V, 'properties.jsonl'))]
NOT_APPLICABLE = {}
checks, na = [], []
for p in props:
    pid = p['id']
    path = os.path.join(V, 'harness', 'props', pid.lower() + '.py')
    if os.path.exists(path) and pid not in NOT_APPLICABLE:
        m = importlib.import_module('props.' + pid.lower())
        checks.append({
            'property_id': pid,
            'quick_cmd': f'./check {pid} quick',
            'thorough_cmd': f'./check {pid} thorough',
            'evidence_file': f'evidence/{pid}.json',
            'replay_cmd_template': f'./check {pid} --replay {{path}}',
            'engine': 'lean4-model',
            'level_claimed': {'category': m.LEVEL, 'text': m.LEVEL_TEXT, 'design_ref': m.DESIGN_REF},
            'level_note': m.LEVEL_NOTE,
            'technique': m.TECHNIQUE,
        })
    else:
        na.append({'property_id': pid, 'reason': NOT_APPLICABLE.get(pid, 'check not built yet (work in progress)')})
man = {
    'version': 1,
    'setup_cmd': '/venv/bin/python tools/gen_tables.py && /venv/bin/python tools/py2lean.py && cd lean && lake build',
    'hooks': {'guard': 'A5_PY_VERIF', 'enable': 'no in-source hooks: the harness wraps/proxies objects of the imported package at run time',
              'baseline_off_cmd': 'cd /repo && /venv/bin/python -m pytest -ra -q -p no:cacheprovider --timeout=900 --continue-on-collection-errors',
              'source_commits': [], 'add_only': True},
    'engines': [{'name': 'lean4-model', 'path': 'lean/', 'serves_properties': [c['property_id'] for c in checks],
                 'kind_free_text': 'hand-written Lean 4 model of a5-py (A5/Model), property theorems (A5/Props), tables regenerated from /repo each run (tools/gen_tables.py), the integer core translated from the source each run (tools/py2lean.py -> A5/Gen/Src.lean) with kernel-checked bridge theorems to the model (A5/Proofs/SrcBridge*, A5/Props/SrcTie), model/implementation correspondence over a line protocol (lean/Main.lean, lean/SrcMain.lean vs harness/py_driver.py), failing-input search on the real code (harness/props/*.py)'}],
    'checks': checks,
    'notes': 'Every check: regenerate tables from /repo -> lake build of the property cone -> axiom audit -> correspondence -> failing-input search. Genuine defects: known_findings.json.',
    'not_applicable': na,
}
json.dump(man, open(os.path.join(V, 'MANIFEST.json'), 'w'), indent=1)
print('claimed:', [c['property_id'] for c in checks])
