#!/bin/bash
# usage: reeval_par.sh <workers> <seed-name>...   like reeval.sh, but every worker owns a scratch copy of /verif (and each seed a scratch copy of /repo),
# so that several seeded changes are re-evaluated at once and nothing registered is touched.  One line per seed on stdout.
w=$1; shift
printf '%s\n' "$@" | xargs -P $w -n 8 bash -c '
  base=$(mktemp -d /tmp/rv.XXXXXX)
  rsync -a --exclude .git --exclude seeded --exclude design-probes /verif/ $base/verif/
  for name in "$@"; do
    prop=${name%%-*}
    judged=$(python3 -c "import json;m=json.load(open(\"/verif/seeded/$name/meta.json\"));p=m[\"property\"];print(p.split(\"judged by \")[-1] if \"judged by\" in p else \"$prop\")" 2>/dev/null || echo $prop)
    rm -rf $base/repo; mkdir $base/repo; cp -r /repo/. $base/repo/
    if (cd $base/repo && git apply /verif/seeded/$name/patch.diff 2>/dev/null); then
      res=$(cd $base/verif && A5_REPO=$base/repo ./check $judged quick 2>&1 | grep -E "^VIOLATION|^$judged quick" | sed "s/replay=[^ ]*//" | tr "\n" " " | cut -c1-300)
      echo "$name [$judged] $res"
    else
      echo "$name: patch does not apply"
    fi
  done
  rm -rf $base' _
