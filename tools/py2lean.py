#!/venv/bin/python
"""Translate the integer core of a5-py (current /repo working tree) into Lean 4 definitions.

    py2lean.py [--repo /repo] [--out lean/A5/Gen/Src.lean]

The output `A5/Gen/Src.lean` is a *shallow* embedding: one Lean `def` per Python function, every `int`
an unbounded `Int`, every call that can raise in `PyM = Except Err`, the Python operators given by
`A5/Model/PySem.lean`.  The translation is purely syntax-directed (no knowledge of what the functions are
for); the hand-written model is connected to it by the kernel-checked bridge theorems of
`A5/Proofs/SrcBridge*.lean` (`Src.f = Model.f` on the domain the properties quantify over), so that the
property theorems are re-checked against what the source says *now*.

Scheme
  * statements are translated with an explicit continuation; an `if` whose branches fall through becomes a
    join point over the variables assigned in it (no duplication of the continuation); an `if` containing a
    `return` duplicates the continuation (only done for guards, where one side terminates);
  * a `while` loop becomes an auxiliary structurally recursive `def` over a fuel argument whose state is the
    set of variables assigned in the body; running out of fuel is `Err.other` (never a value) and the bridge
    theorems prove it cannot happen.  The fuel expression comes from FUEL below;
  * sub-expressions that can raise (`<<`, `>>`, `**`, `//` and `%` by a non-literal, indexing, calls) are
    hoisted in evaluation order and bound with `>>=` (A-normal form);
  * exceptions are modelled by class only (`ValueError` → `Err.value`, …), messages are dropped.

exit 0: written/unchanged; exit 3: a construct outside the supported subset was met (`PY2LEAN-FAIL: …`):
the check then treats the source-level tie as broken and searches for a failing input.
"""
import re, ast, sys, os, argparse, traceback

class Unsupported(Exception):
    pass

# module constants the bridge theorems know by name (they are compared with the regenerated tables); every other module-level int
# constant is substituted by its value, so that introducing or renaming a named constant leaves the translation unchanged
NAMED_CONSTS = set()   # (every module-level int constant is substituted by its value: literal <-> named-constant rewrites leave the translation unchanged)

FAILED = []   # functions that could not be translated (reason), filled by translate()

# (function, ordinal of the loop inside it) -> Lean expression for the fuel (may mention the function's variables)
FUEL = {
    ('get_resolution', 1): '(({MAX_RESOLUTION} : Int) + 2).toNat',
    ('compact', 1): '(Int.ofNat current_cells.length + 2).toNat',
    ('compact', 2): '(Int.ofNat current_cells.length + 2).toNat',
}

# modules and the functions taken from each, in dependency order
PLAN = [
    ('a5/core/cell_info.py', 'cell_info', ['get_num_cells', 'get_num_children']),
    ('a5/core/serialization.py', 'serialization',
     ['get_resolution', 'deserialize', 'serialize', 'cell_to_children', 'cell_to_parent', 'get_res0_cells',
      'is_first_child', 'get_stride']),
    ('a5/core/compact.py', 'compact', ['_hierarchical_key', 'uncompact', 'compact']),
    ('a5/core/hex.py', 'hex', ['hex_to_u64', 'u64_to_hex']),
]

ERR = {'ValueError': '.value', 'IndexError': '.index', 'TypeError': '.type', 'ZeroDivisionError': '.zerodiv',
       'OverflowError': '.overflow'}

T_INT, T_BOOL, T_OPTINT, T_CELL, T_ORIGIN, T_LISTINT, T_LISTORIGIN, T_PROP, T_NONE, T_STR = \
    'Int', 'Bool', 'Option Int', 'Py.SCell', 'Int', 'List Int', 'List Int', 'Prop', 'Unit', 'String'

def ann_type(a):
    s = ast.unparse(a) if a is not None else None
    return {'int': T_INT, 'bool': T_BOOL, 'Optional[int]': T_OPTINT, 'A5Cell': T_CELL, 'Origin': T_ORIGIN,
            'List[int]': T_LISTINT, 'str': T_STR, None: None}.get(s, None) or (_ for _ in ()).throw(Unsupported(f'type annotation {s}'))

def lname(n):
    """Lean identifier for a Python name (no clashes with Lean keywords used here)."""
    return {'end': 'end_', 'from': 'from_', 'at': 'at_', 'fun': 'fun_', 'let': 'let_', 'open': 'open_', 'then': 'then_',
            'do': 'do_', 'show': 'show_', 'have': 'have_', 'match': 'match_', 'with': 'with_'}.get(n, n)

class Fn:
    """translation state for one function"""
    def __init__(self, mod, name, consts, sigs):
        self.mod, self.name, self.consts, self.sigs = mod, name, consts, sigs
        self.const_values = {}
        self.helpers = {}      # simple private helpers of the module (inlined at their call sites)
        self.aux = []          # auxiliary loop defs (Lean text), emitted before the function
        self.nloops = 0
        self.ntmp = 0
        self.ret_type = None

    def tmp(self):
        self.ntmp += 1
        return f't{self.ntmp}_'

# ---------------------------------------------------------------------------------------------------------
# expressions.  tr_expr returns (binds, text, type): `binds` is a list of (name, monadic Lean expr) to be bound,
# in order, before `text` (a pure Lean expression) is meaningful.

def paren(s):
    return s if s.replace('_', 'a').replace('.', 'a').isalnum() else f'({s})'

def tr_expr(fn, e, env):
    if isinstance(e, ast.Constant):
        if isinstance(e.value, bool):
            return [], ('true' if e.value else 'false'), T_BOOL
        if isinstance(e.value, int):
            return [], (f'({e.value} : Int)'), T_INT
        if e.value is None:
            return [], 'none', T_OPTINT
        raise Unsupported(f'constant {e.value!r}')
    if isinstance(e, ast.Name):
        if e.id in env:
            return [], lname(e.id), env[e.id]
        if e.id in fn.consts:
            if e.id in NAMED_CONSTS:
                return [], e.id, fn.consts[e.id]
            return [], f'({fn.const_values[e.id]} : Int)', T_INT
        if e.id == 'origins':
            return [], 'Py.origins', T_LISTORIGIN
        raise Unsupported(f'name {e.id} (line {e.lineno})')
    if isinstance(e, ast.UnaryOp) and isinstance(e.op, ast.USub):
        b, t, ty = tr_expr(fn, e.operand, env)
        return b, f'(-{paren(t)})', T_INT
    if isinstance(e, ast.UnaryOp) and isinstance(e.op, ast.Not):
        b, t, ty = tr_cond(fn, e.operand, env)
        return b, f'(¬ {paren(t)})', T_PROP
    if isinstance(e, ast.BinOp):
        bl, l, tl = tr_expr(fn, e.left, env)
        br, r, trr = tr_expr(fn, e.right, env)
        binds = bl + br
        op = e.op
        if isinstance(op, ast.Mult) and isinstance(e.left, ast.List) :
            # [x] * n
            if len(e.left.elts) != 1:
                raise Unsupported('list repetition of a non-singleton')
            bx, x, tx = tr_expr(fn, e.left.elts[0], env)
            return bx + br, f'(Py.replicate {paren(r)} {paren(x)})', T_LISTINT
        if tl != T_INT or trr != T_INT:
            raise Unsupported(f'binary operator on {tl}, {trr} (line {e.lineno})')
        if isinstance(op, ast.Add):
            return binds, f'({l} + {r})', T_INT
        if isinstance(op, ast.Sub):
            return binds, f'({l} - {r})', T_INT
        if isinstance(op, ast.Mult):
            return binds, f'({l} * {r})', T_INT
        if isinstance(op, ast.BitAnd):
            return binds, f'(Py.band {paren(l)} {paren(r)})', T_INT
        if isinstance(op, ast.BitOr):
            return binds, f'(Py.bor {paren(l)} {paren(r)})', T_INT
        lit_nonzero = (isinstance(e.right, ast.Constant) and isinstance(e.right.value, int) and e.right.value != 0) or \
                      (isinstance(e.right, ast.Name) and e.right.id not in env and e.right.id not in NAMED_CONSTS and fn.const_values.get(e.right.id, 0) != 0)
        if isinstance(op, ast.FloorDiv):
            if lit_nonzero:
                return binds, f'(Int.fdiv {paren(l)} {paren(r)})', T_INT
            t = fn.tmp()
            return binds + [(t, f'Py.floordiv {paren(l)} {paren(r)}')], t, T_INT
        if isinstance(op, ast.Mod):
            if lit_nonzero:
                return binds, f'(Int.fmod {paren(l)} {paren(r)})', T_INT
            t = fn.tmp()
            return binds + [(t, f'Py.mod {paren(l)} {paren(r)}')], t, T_INT
        if isinstance(op, (ast.LShift, ast.RShift, ast.Pow)):
            f = {ast.LShift: 'Py.shl', ast.RShift: 'Py.shr', ast.Pow: 'Py.pow'}[type(op)]
            t = fn.tmp()
            return binds + [(t, f'{f} {paren(l)} {paren(r)}')], t, T_INT
        raise Unsupported(f'operator {type(op).__name__}')
    if isinstance(e, ast.BoolOp) and isinstance(e.op, ast.Or) and len(e.values) == 2:
        # `a or b` on ints (value, not condition)
        try:
            ba, a, ta = tr_expr(fn, e.values[0], env)
            bb, b, tb = tr_expr(fn, e.values[1], env)
        except Unsupported:
            ta = tb = None
        if ta == T_INT and tb == T_INT:
            if bb:
                raise Unsupported('right operand of `or` that can raise')
            return ba, f'(Py.orInt {paren(a)} {paren(b)})', T_INT
    if isinstance(e, (ast.Compare, ast.BoolOp)):
        return tr_cond(fn, e, env)
    if isinstance(e, ast.IfExp):
        res = {}
        def br(which, sub):
            def f(env2):
                b, t, ty = tr_expr(fn, sub, env2)
                res[which] = (b, t, ty)
                return '\0' + which + '\0'
            return f
        bc, skeleton = ite(fn, e.test, env, br('A', e.body), br('B', e.orelse))
        (ba, a, ta), (bb, b, tb) = res['A'], res['B']
        if ta != tb:
            raise Unsupported(f'conditional expression of types {ta} / {tb}')
        if not ba and not bb:
            return bc, skeleton.replace('\0A\0', a).replace('\0B\0', b), ta
        t = fn.tmp()
        return bc + [(t, skeleton.replace('\0A\0', bind_all(ba, "pure " + paren(a))).replace('\0B\0', bind_all(bb, "pure " + paren(b))))], t, ta
    if isinstance(e, ast.Subscript):
        # cell["field"]  |  xs[i]
        if isinstance(e.slice, ast.Constant) and isinstance(e.slice.value, str):
            bv, v, tv = tr_expr(fn, e.value, env)
            if tv != T_CELL:
                raise Unsupported('string subscript on a non-cell')
            fld = e.slice.value
            if fld not in ('origin', 'segment', 'S', 'resolution'):
                raise Unsupported(f'cell field {fld}')
            return bv, f'{paren(v)}.{fld}', T_INT
        if isinstance(e.slice, ast.Slice):
            bv, v, tv = tr_expr(fn, e.value, env)
            sl = e.slice
            low = sl.lower.value if isinstance(sl.lower, ast.Constant) else (fn.const_values.get(sl.lower.id) if isinstance(sl.lower, ast.Name) and sl.lower.id not in env else None)
            if tv != T_STR or sl.upper is not None or sl.step is not None or not (isinstance(low, int) and low >= 0):
                raise Unsupported('slice other than <str>[<non-negative literal>:]')
            return bv, f'(Py.strFrom {paren(v)} {low})', T_STR
        bv, v, tv = tr_expr(fn, e.value, env)
        bi, i, ti = tr_expr(fn, e.slice, env)
        if tv not in (T_LISTINT,) or ti != T_INT:
            raise Unsupported(f'subscript on {tv}')
        t = fn.tmp()
        if isinstance(e.value, ast.Name) and e.value.id == 'origins':
            return bv + bi + [(t, f'Py.originsGet {paren(i)}')], t, T_ORIGIN
        return bv + bi + [(t, f'Py.listGet {paren(v)} {paren(i)}')], t, T_INT
    if isinstance(e, ast.Attribute):
        bv, v, tv = tr_expr(fn, e.value, env)
        if e.attr == 'id':
            return bv, f'(Py.originId {paren(v)})', T_INT
        if e.attr == 'first_quintant':
            return bv, f'(Py.firstQuintant {paren(v)})', T_INT
        raise Unsupported(f'attribute .{e.attr}')
    if isinstance(e, ast.List):
        binds, parts = [], []
        for x in e.elts:
            b, t, ty = tr_expr(fn, x, env)
            if ty != T_INT:
                raise Unsupported('list literal of non-ints')
            binds += b
            parts.append(t)
        return binds, '([' + ', '.join(parts) + '] : List Int)', T_LISTINT
    if isinstance(e, ast.Call):
        return tr_call(fn, e, env)
    raise Unsupported(f'expression {type(e).__name__} (line {getattr(e, "lineno", "?")})')

def tr_call(fn, e, env):
    if e.keywords and not (isinstance(e.func, ast.Name) and e.func.id in ('A5Cell', 'sorted')):
        raise Unsupported('keyword arguments')
    if not isinstance(e.func, ast.Name):
        raise Unsupported(f'call of {ast.unparse(e.func)}')
    f = e.func.id
    if f == 'A5Cell':
        kw = {k.arg: k.value for k in e.keywords}
        if set(kw) != {'origin', 'segment', 'S', 'resolution'} or e.args:
            raise Unsupported('A5Cell(...) shape')
        binds, parts = [], []
        for k in ('origin', 'segment', 'S', 'resolution'):
            b, t, ty = tr_expr(fn, kw[k], env)
            if ty != T_INT:
                raise Unsupported('A5Cell field type')
            binds += b
            parts.append(t)
        return binds, '({ origin := %s, segment := %s, S := %s, resolution := %s } : Py.SCell)' % tuple(parts), T_CELL
    if f == 'sorted':
        kw = {k.arg: k.value for k in e.keywords}
        if len(e.args) == 1 and set(kw) == {'key'} and isinstance(kw['key'], ast.Name) and kw['key'].id in fn.sigs \
                and fn.sigs[kw['key'].id] == ([T_INT], T_INT) \
                and isinstance(e.args[0], ast.Call) and isinstance(e.args[0].func, ast.Name) and e.args[0].func.id == 'set' \
                and len(e.args[0].args) == 1 and not e.args[0].keywords:
            b, t, ty = tr_expr(fn, e.args[0].args[0], env)
            if ty != T_LISTINT:
                raise Unsupported('sorted(set(x)) of a non-list')
            tmp = fn.tmp()
            return b + [(tmp, f'Py.sortedSetBy {kw["key"].id} {paren(t)}')], tmp, T_LISTINT
        raise Unsupported('sorted(...) other than sorted(set(xs), key=<translated function>)')
    args = [tr_expr(fn, a, env) for a in e.args]
    binds = [b for a in args for b in a[0]]
    texts = [a[1] for a in args]
    types = [a[2] for a in args]
    if f == 'hex' and types == [T_INT]:
        return binds, f'(Py.hex {paren(texts[0])})', T_STR
    if f == 'int' and types == [T_STR, T_INT] and (isinstance(e.args[1], ast.Constant) or (isinstance(e.args[1], ast.Name) and e.args[1].id in fn.const_values and e.args[1].id not in env)):
        t = fn.tmp()
        return binds + [(t, f'Py.intOfStr {paren(texts[0])} {paren(texts[1])}')], t, T_INT
    if f in ('max', 'min') and len(args) == 2 and types == [T_INT, T_INT]:
        return binds, f'({f} {paren(texts[0])} {paren(texts[1])})', T_INT
    if f == 'len' and types == [T_LISTINT]:
        return binds, f'(Int.ofNat {paren(texts[0])}.length)', T_INT
    if f == 'range' and types == [T_INT]:
        return binds, f'(Py.range {paren(texts[0])})', T_LISTINT
    if f == 'range' and types == [T_INT, T_INT]:
        return binds, f'(Py.range2 {paren(texts[0])} {paren(texts[1])})', T_LISTINT
    if f == 'list' and types == [T_LISTINT]:
        return binds, texts[0], T_LISTINT
    if f in fn.sigs:
        ptypes, rtype = fn.sigs[f]
        # optional trailing parameters omitted -> none
        if len(texts) > len(ptypes):
            raise Unsupported(f'too many arguments to {f}')
        full = []
        for i, pt in enumerate(ptypes):
            if i < len(texts):
                a, ta = texts[i], types[i]
                if pt == T_OPTINT and ta == T_INT:
                    a = f'(some {paren(a)})'
                elif pt != ta:
                    raise Unsupported(f'argument {i} of {f}: {ta} for {pt}')
                full.append(paren(a))
            elif pt == T_OPTINT:
                full.append('none')
            else:
                raise Unsupported(f'missing argument {i} of {f}')
        t = fn.tmp()
        return binds + [(t, f'{f} ' + ' '.join(full))], t, rtype
    if f in fn.helpers:
        # a private helper of the same module whose body is straight-line (assignments, then `return <expr>`): substituted at the call site
        h = fn.helpers[f]
        body = [st for st in h.body if not (isinstance(st, ast.Expr) and isinstance(st.value, ast.Constant))]
        ok = body and isinstance(body[-1], ast.Return) and body[-1].value is not None and \
            all(isinstance(st, ast.Assign) and len(st.targets) == 1 and isinstance(st.targets[0], ast.Name) for st in body[:-1]) and \
            not h.decorator_list and not h.args.defaults and not h.args.vararg and not h.args.kwarg and len(h.args.args) == len(args)
        if not ok:
            raise Unsupported(f'call of the helper {f}, which is not a straight-line function (line {e.lineno})')
        sub = {}
        for p_, (b_, t_, ty_) in zip(h.args.args, args):
            sub[p_.arg] = (t_, ty_)
        env2 = dict(env)
        binds2 = list(binds)
        # evaluate the helper's assignments in order, as pure substitutions (they must not raise: checked by requiring no binds)
        class _Sub(ast.NodeTransformer):
            def visit_Name(self, node):
                return node
        local_txt = {}
        def tr_h(expr):
            # translate with parameters/locals of the helper mapped to already translated text
            names = {n.id for n in ast.walk(expr) if isinstance(n, ast.Name)}
            envh = dict(env2)
            for nme in names:
                if nme in sub:
                    envh['\0' + nme] = sub[nme][1]
            class R(ast.NodeTransformer):
                def visit_Name(self, node):
                    if node.id in sub:
                        return ast.copy_location(ast.Name(id='\0' + node.id, ctx=node.ctx), node)
                    return node
            e2 = R().visit(ast.parse(ast.unparse(expr), mode='eval').body)
            b3, t3, ty3 = tr_expr(fn, e2, envh)
            for nme in sub:
                t3 = t3.replace(lname('\0' + nme), paren(sub[nme][0]))
                b3 = [(bn, bt.replace(lname('\0' + nme), paren(sub[nme][0]))) for bn, bt in b3]
            return b3, t3, ty3
        for st in body[:-1]:
            b3, t3, ty3 = tr_h(st.value)
            binds2 += b3
            sub[st.targets[0].id] = (t3, ty3)
        b3, t3, ty3 = tr_h(body[-1].value)
        return binds2 + b3, t3, ty3
    raise Unsupported(f'call of {f} (line {e.lineno})')

def tr_cond(fn, e, env):
    """a Python condition as a decidable Lean Prop"""
    if isinstance(e, ast.BoolOp):
        parts, binds = [], []
        for i, v in enumerate(e.values):
            b, t, ty = tr_cond(fn, v, env)
            if b and i > 0:
                raise Unsupported('operand of and/or that can raise (short-circuit would matter)')
            binds += b
            parts.append(t)
        op = ' ∧ ' if isinstance(e.op, ast.And) else ' ∨ '
        return binds, '(' + op.join(parts) + ')', T_PROP
    if isinstance(e, ast.UnaryOp) and isinstance(e.op, ast.Not):
        b, t, ty = tr_cond(fn, e.operand, env)
        return b, f'(¬ {t})', T_PROP
    if isinstance(e, ast.Compare):
        if len(e.ops) != 1:
            raise Unsupported('chained comparison')
        op, rhs = e.ops[0], e.comparators[0]
        if isinstance(op, (ast.Is, ast.IsNot)):
            if not (isinstance(rhs, ast.Constant) and rhs.value is None):
                raise Unsupported('`is` with something other than None')
            b, t, ty = tr_expr(fn, e.left, env)
            if ty == T_OPTINT:
                return b, (f'({t} = none)' if isinstance(op, ast.Is) else f'({t} ≠ none)'), T_PROP
            # a value whose static type has no None inhabitant
            return b, ('False' if isinstance(op, ast.Is) else 'True'), T_PROP
        bl, l, tl = tr_expr(fn, e.left, env)
        br, r, trr = tr_expr(fn, rhs, env)
        if tl != trr or tl not in (T_INT,):
            raise Unsupported(f'comparison of {tl} with {trr} (line {e.lineno})')
        sym = {ast.Eq: '=', ast.NotEq: '≠', ast.Lt: '<', ast.LtE: '≤', ast.Gt: '>', ast.GtE: '≥'}.get(type(op))
        if sym is None:
            raise Unsupported(f'comparison {type(op).__name__}')
        return bl + br, f'({l} {sym} {r})', T_PROP
    if isinstance(e, ast.Name) and env.get(e.id) == T_BOOL:
        return [], f'({lname(e.id)} = true)', T_PROP
    if isinstance(e, ast.Constant) and isinstance(e.value, bool):
        return [], ('True' if e.value else 'False'), T_PROP
    if isinstance(e, ast.Call):
        b, t, ty = tr_expr(fn, e, env)
        if ty == T_BOOL:
            return b, f'({t} = true)', T_PROP
    raise Unsupported(f'condition {ast.unparse(e)} (line {getattr(e, "lineno", "?")})')

def narrowing(test, env):
    """`x is None` / `x is not None` on an Optional[int] variable: (x, branch in which x is an int)"""
    if isinstance(test, ast.Compare) and len(test.ops) == 1 and isinstance(test.ops[0], (ast.Is, ast.IsNot)) \
            and isinstance(test.left, ast.Name) and env.get(test.left.id) == T_OPTINT \
            and isinstance(test.comparators[0], ast.Constant) and test.comparators[0].value is None:
        return test.left.id, ('else' if isinstance(test.ops[0], ast.Is) else 'then')
    return None

def ite(fn, test, env, then_f, else_f, nl=' '):
    """if-then-else on a Python condition, as a `match` when the condition narrows an Optional variable.
    then_f/else_f: env -> Lean text.  Returns (binds, text)."""
    nw = narrowing(test, env)
    if nw:
        v, where = nw
        env_some = dict(env); env_some[v] = T_INT
        a = then_f(env_some if where == 'then' else env)
        b = else_f(env_some if where == 'else' else env)
        some_txt, none_txt = (a, b) if where == 'then' else (b, a)
        return [], f'(match {lname(v)} with{nl}| some {lname(v)} => {some_txt}{nl}| none => {none_txt})'
    bc, c, _ = tr_cond(fn, test, env)
    return bc, f'(if {c} then{nl}{then_f(env)}{nl}else{nl}{else_f(env)})'

def bind_all(binds, body):
    out = body
    for name, m in reversed(binds):
        out = f'({m}) >>= fun {name} => {out}'
    return out

# ---------------------------------------------------------------------------------------------------------
# statements

def assigned(stmts):
    """names assigned anywhere in the statements (in order of first assignment)"""
    out = []
    def add(n):
        if n not in out:
            out.append(n)
    def tgt(t):
        if isinstance(t, ast.Name):
            add(t.id)
        elif isinstance(t, (ast.Tuple, ast.List)):
            for x in t.elts:
                tgt(x)
        elif isinstance(t, ast.Subscript):
            tgt(t.value)
    for s in stmts:
        for n in ast.walk(s):
            if isinstance(n, ast.Assign):
                for t in n.targets:
                    tgt(t)
            elif isinstance(n, ast.AugAssign):
                tgt(n.target)
            elif isinstance(n, ast.AnnAssign) and n.value is not None:
                tgt(n.target)
            elif isinstance(n, ast.For):
                tgt(n.target)
            elif isinstance(n, ast.Expr) and isinstance(n.value, ast.Call) and isinstance(n.value.func, ast.Attribute) \
                    and n.value.func.attr == 'append' and isinstance(n.value.func.value, ast.Name):
                add(n.value.func.value.id)
    return out

def contains(stmts, kinds):
    return any(isinstance(n, kinds) for s in stmts for n in ast.walk(s))

def has_jump(stmts):
    """a return anywhere, or a break/continue that belongs to the enclosing loop (not to a loop nested in the statements)"""
    def walk(n, in_loop):
        if isinstance(n, ast.Return):
            return True
        if isinstance(n, (ast.Break, ast.Continue)) and not in_loop:
            return True
        if isinstance(n, (ast.For, ast.While)):
            return any(walk(c, True) for c in ast.iter_child_nodes(n))
        if isinstance(n, (ast.FunctionDef, ast.Lambda)):
            return False
        return any(walk(c, in_loop) for c in ast.iter_child_nodes(n))
    return any(walk(s, False) for s in stmts)

def terminates(stmts):
    """every path through the statements ends in return / raise / continue / break"""
    if not stmts:
        return False
    s = stmts[-1]
    if isinstance(s, (ast.Return, ast.Raise, ast.Continue, ast.Break)):
        return True
    if isinstance(s, ast.If):
        return terminates(s.body) and terminates(s.orelse)
    return False

def tuple_of(names):
    return '()' if not names else (lname(names[0]) if len(names) == 1 else '(' + ', '.join(lname(n) for n in names) + ')')

def canon_if(fn, s, env):
    def single_assign(body):
        body = [x for x in body if not isinstance(x, ast.Pass)]
        if len(body) == 1 and isinstance(body[0], ast.If):
            inner = canon_if(fn, body[0], env)
            if inner is not None:
                return inner
        if len(body) == 1 and isinstance(body[0], ast.Assign) and len(body[0].targets) == 1 and isinstance(body[0].targets[0], ast.Name):
            return body[0]
        if len(body) == 1 and isinstance(body[0], ast.AugAssign) and isinstance(body[0].target, ast.Name):
            return body[0]
        return None
    a, b = single_assign(s.body), single_assign(s.orelse)
    if isinstance(a, ast.AugAssign) and isinstance(b, ast.AugAssign):
        # `if c: x op= u  else: x op= v`   ==   `x op= (u if c else v)`   (u, v, c pure)
        if a.target.id != b.target.id or type(a.op) is not type(b.op):
            return None
        saved = fn.ntmp
        try:
            for v in (a.value, b.value):
                binds, _, ty = tr_expr(fn, v, env)
                if binds or ty != T_INT:
                    return None
            bc, _, _ = tr_cond(fn, s.test, env)
            if bc or narrowing(s.test, env):
                return None
        except Unsupported:
            return None
        finally:
            fn.ntmp = saved
        new = ast.AugAssign(target=ast.Name(id=a.target.id, ctx=ast.Store()), op=a.op, value=ast.IfExp(test=s.test, body=a.value, orelse=b.value), lineno=s.lineno)
        return ast.fix_missing_locations(ast.copy_location(new, s))
    if a is None or b is None or isinstance(a, ast.AugAssign) or isinstance(b, ast.AugAssign) or a.targets[0].id != b.targets[0].id:
        return None
    saved = fn.ntmp
    try:
        for v in (a.value, b.value):
            binds, _, ty = tr_expr(fn, v, env)
            if binds or ty not in (T_INT, T_BOOL, T_PROP):
                return None
        bc, _, _ = tr_cond(fn, s.test, env)
        if bc or narrowing(s.test, env):
            return None
    except Unsupported:
        return None
    finally:
        fn.ntmp = saved       # the trial translations must not consume temporaries
    new = ast.Assign(targets=[ast.Name(id=a.targets[0].id, ctx=ast.Store())], value=ast.IfExp(test=s.test, body=a.value, orelse=b.value), lineno=s.lineno)
    return ast.fix_missing_locations(ast.copy_location(new, s))

class K:
    """continuations: what to do at the end of a block, on continue and on break (Lean text using current names)"""
    def __init__(self, end, cont=None, brk=None):
        self.end, self.cont, self.brk = end, cont, brk

def tr_block(fn, stmts, env, k, ind):
    """Lean text of type `PyM <result>` for the statement list followed by continuation k.end (a function env -> text)"""
    if not stmts:
        return k.end(env)
    s, rest = stmts[0], stmts[1:]
    pad = '  ' * ind
    nl = '\n' + pad
    if isinstance(s, ast.Expr) and isinstance(s.value, ast.Constant) and isinstance(s.value.value, str):
        return tr_block(fn, rest, env, k, ind)          # docstring
    if isinstance(s, ast.Pass):
        return tr_block(fn, rest, env, k, ind)
    if isinstance(s, ast.Return):
        if s.value is None:
            raise Unsupported('bare return')
        b, t, ty = tr_expr(fn, s.value, env)
        if ty == T_PROP:
            t, ty = f'(Py.ofProp {t})', T_BOOL
        if fn.ret_type == T_OPTINT and ty == T_INT:
            t = f'(some {t})'
        elif ty != fn.ret_type:
            raise Unsupported(f'return of {ty} from a function declared {fn.ret_type} (line {s.lineno})')
        # `return f(x)` where the last bind is the call itself: return the call directly
        if b and t == b[-1][0]:
            return bind_all(b[:-1], b[-1][1])
        return bind_all(b, f'pure {paren(t)}')
    if isinstance(s, ast.Raise):
        exc = s.exc
        cls = exc.func.id if isinstance(exc, ast.Call) and isinstance(exc.func, ast.Name) else (exc.id if isinstance(exc, ast.Name) else None)
        if cls not in ERR:
            raise Unsupported(f'raise {ast.unparse(exc)[:40]}')
        return f'(.error {ERR[cls]})'
    if isinstance(s, ast.Continue):
        if k.cont is None:
            raise Unsupported('continue outside a loop')
        return k.cont(env)
    if isinstance(s, ast.Break):
        if k.brk is None:
            raise Unsupported('break outside a loop')
        return k.brk(env)
    if isinstance(s, ast.Assign):
        if len(s.targets) != 1:
            raise Unsupported('chained assignment')
        tg = s.targets[0]
        if isinstance(tg, ast.Name):
            b, t, ty = tr_expr(fn, s.value, env)
            if ty == T_PROP:
                t, ty = f'(Py.ofProp {t})', T_BOOL
            env2 = dict(env); env2[tg.id] = ty
            return bind_all(b, f'let {lname(tg.id)} : {ty} := {t};' + nl + tr_block(fn, rest, env2, k, ind))
        if isinstance(tg, ast.Tuple) and isinstance(s.value, ast.Tuple) and len(tg.elts) == len(s.value.elts) \
                and all(isinstance(x, ast.Name) for x in tg.elts):
            names = [x.id for x in tg.elts]
            used = {n.id for v in s.value.elts for n in ast.walk(v) if isinstance(n, ast.Name)}
            if used & set(names):
                raise Unsupported('simultaneous assignment whose right side mentions a target')
            binds, lets, env2 = [], [], dict(env)
            for nme, v in zip(names, s.value.elts):
                b, t, ty = tr_expr(fn, v, env)
                binds += b
                lets.append(f'let {lname(nme)} : {ty} := {t};')
                env2[nme] = ty
            return bind_all(binds, nl.join(lets) + nl + tr_block(fn, rest, env2, k, ind))
        if isinstance(tg, ast.Subscript) and isinstance(tg.value, ast.Name) and env.get(tg.value.id) == T_LISTINT:
            bi, i, ti = tr_expr(fn, tg.slice, env)
            bv, v, tv = tr_expr(fn, s.value, env)
            if ti != T_INT or tv != T_INT:
                raise Unsupported('list store types')
            nme = lname(tg.value.id)
            return bind_all(bi + bv, f'(Py.listSet {nme} {paren(i)} {paren(v)}) >>= fun {nme} =>' + nl + tr_block(fn, rest, env, k, ind))
        raise Unsupported(f'assignment target {ast.unparse(tg)} (line {s.lineno})')
    if isinstance(s, ast.AnnAssign):
        # `x: T = v` is `x = v` (the annotation is not evaluated into anything the function uses); a bare `x: T` declares nothing
        if s.value is None:
            return tr_block(fn, rest, env, k, ind)
        if not isinstance(s.target, ast.Name):
            raise Unsupported('annotated assignment to a non-name')
        new = ast.Assign(targets=[ast.Name(id=s.target.id, ctx=ast.Store())], value=s.value, lineno=s.lineno)
        return tr_block(fn, [ast.copy_location(new, s)] + rest, env, k, ind)
    if isinstance(s, ast.AugAssign):
        if not isinstance(s.target, ast.Name):
            raise Unsupported('augmented assignment to a non-name')
        new = ast.Assign(targets=[ast.Name(id=s.target.id, ctx=ast.Store())],
                         value=ast.BinOp(left=ast.Name(id=s.target.id, ctx=ast.Load()), op=s.op, right=s.value), lineno=s.lineno)
        ast.copy_location(new.value, s)
        return tr_block(fn, [new] + rest, env, k, ind)
    if isinstance(s, ast.Expr) and isinstance(s.value, ast.Call) and isinstance(s.value.func, ast.Attribute) \
            and s.value.func.attr == 'append' and isinstance(s.value.func.value, ast.Name) and len(s.value.args) == 1:
        lst = s.value.func.value.id
        if env.get(lst) != T_LISTINT:
            raise Unsupported(f'append to {lst}')
        b, t, ty = tr_expr(fn, s.value.args[0], env)
        if ty != T_INT:
            raise Unsupported('append of a non-int')
        return bind_all(b, f'let {lname(lst)} : List Int := {lname(lst)} ++ [{t}];' + nl + tr_block(fn, rest, env, k, ind))
    if isinstance(s, ast.If):
        # canonical form: `if c: v = a  else: v = b` (one assignment to the same name on each side, nothing that can raise) is the
        # conditional expression `v = a if c else b`, whichever way the source spells it
        cs = canon_if(fn, s, env)
        if cs is not None:
            return tr_block(fn, [cs] + rest, env, k, ind)
        if not has_jump(s.body) and not has_jump(s.orelse) and not (terminates(s.body) or terminates(s.orelse)):
            # join point over the variables assigned in the branches that are (or become) defined on both sides
            av = [v for v in assigned([s]) if v in env or (v in assigned(s.body) and v in assigned(s.orelse))]
            envs = []
            def endk(e2):
                envs.append(e2)
                return f'pure {tuple_of(av)}'
            bc, skeleton = ite(fn, s.test, env, lambda e2: tr_block(fn, s.body, e2, K(endk), ind + 2),
                               lambda e2: tr_block(fn, s.orelse, e2, K(endk), ind + 2), nl + '    ')
            env2 = dict(env)
            for v in av:
                tys = {e2.get(v) for e2 in envs}
                if len(tys) != 1 or None in tys:
                    raise Unsupported(f'variable {v} has no single type after the if (line {s.lineno})')
                env2[v] = tys.pop()
            pat = tuple_of(av)
            return bind_all(bc, f'{skeleton} >>= fun {pat} =>' + nl + tr_block(fn, rest, env2, k, ind))
        # guard form / branches with jumps: duplicate the continuation where a branch falls through
        if not terminates(s.body) and not terminates(s.orelse) and len(rest) > 3:
            raise Unsupported(f'if with a jump in one branch and a long continuation (line {s.lineno})')
        bc, txt = ite(fn, s.test, env, lambda e2: '  ' + tr_block(fn, s.body + ([] if terminates(s.body) else rest), e2, k, ind + 1),
                      lambda e2: tr_block(fn, s.orelse + ([] if terminates(s.orelse) else rest), e2, k, ind + 1), nl)
        return bind_all(bc, txt)
    if isinstance(s, ast.While):
        if s.orelse:
            raise Unsupported('while-else')
        if contains(s.body, (ast.Return,)):
            raise Unsupported('return inside a while loop')
        fn.nloops += 1
        ordinal = fn.nloops
        lname_ = f'{fn.name}_loop{ordinal}'
        fuel = FUEL.get((fn.name, ordinal))
        if fuel is None:
            raise Unsupported(f'no fuel bound configured for loop {ordinal} of {fn.name}')
        try:
            fuel = fuel.format(**fn.const_values)      # `{NAME}` in a fuel expression = the value of that module constant
        except KeyError as e_:
            raise Unsupported(f'fuel bound of loop {ordinal} of {fn.name} mentions the missing constant {e_}')
        state = [v for v in assigned(s.body) if v in env]
        free = [v for v in env if v not in state and any(isinstance(n, ast.Name) and n.id == v for x in [s] for n in ast.walk(x))]
        params = ' '.join(f'({lname(v)} : {env[v]})' for v in free + state)
        sty = ' × '.join(env[v] for v in state) if state else 'Unit'
        call = lambda e2: f'{lname_} fuel ' + ' '.join(lname(v) for v in free + state)
        exitk = lambda e2: f'pure {tuple_of(state)}'
        bc, c, _ = tr_cond(fn, s.test, env)
        body = tr_block(fn, s.body, env, K(call, cont=call, brk=exitk), 3)
        loop_body = bind_all(bc, f'if {c} then\n      {body}\n    else pure {tuple_of(state)}')
        fn.aux.append(f'def {lname_} (fuel : Nat) {params} : PyM ({sty}) :=\n  match fuel with\n  | 0 => .error .other\n  | fuel + 1 =>\n    {loop_body}\n')
        args = ' '.join(lname(v) for v in free + state)
        return f'({lname_} {fuel} {args}) >>= fun {tuple_of(state)} =>' + nl + tr_block(fn, rest, env, k, ind)
    if isinstance(s, ast.For):
        if s.orelse:
            raise Unsupported('for-else')
        if contains(s.body, (ast.Return,)):
            raise Unsupported('return inside a for loop')
        # iterable: a list expression, or enumerate(list)
        it = s.iter
        enum = isinstance(it, ast.Call) and isinstance(it.func, ast.Name) and it.func.id == 'enumerate' and len(it.args) == 1
        bi, lst, tl = tr_expr(fn, it.args[0] if enum else it, env)
        if tl != T_LISTINT:
            raise Unsupported(f'for over {tl}')
        if enum:
            if not (isinstance(s.target, ast.Tuple) and len(s.target.elts) == 2 and all(isinstance(x, ast.Name) for x in s.target.elts)):
                raise Unsupported('enumerate target')
            ivar, xvar = s.target.elts[0].id, s.target.elts[1].id
        else:
            if not isinstance(s.target, ast.Name):
                raise Unsupported('for target')
            ivar, xvar = None, s.target.id
        fn.nloops += 1
        lname_ = f'{fn.name}_for{fn.nloops}'
        state = [v for v in assigned(s.body) if v in env and v not in (ivar, xvar)]
        envb = dict(env); envb[xvar] = T_INT
        if ivar:
            envb[ivar] = T_INT
        free = [v for v in env if v not in state and v not in (ivar, xvar)
                and any(isinstance(n, ast.Name) and n.id == v for x in s.body for n in ast.walk(x))]
        params = ' '.join(f'({lname(v)} : {env[v]})' for v in free + state)
        sty = ' × '.join(env[v] for v in state) if state else 'Unit'
        idx = f' (Int.ofNat idx_)' if ivar else ''
        recur = lambda e2: f'{lname_} rest_ ' + ('(idx_ + 1) ' if ivar else '') + ' '.join(lname(v) for v in free + state)
        exitk = lambda e2: f'pure {tuple_of(state)}'
        body = tr_block(fn, s.body, envb, K(recur, cont=recur, brk=exitk), 3)
        head = f'let {lname(xvar)} : Int := x_;' + (f'\n    let {lname(ivar)} : Int := Int.ofNat idx_;' if ivar else '')
        fn.aux.append(f'def {lname_} (items_ : List Int) ' + ('(idx_ : Nat) ' if ivar else '') + f'{params} : PyM ({sty}) :=\n'
                      f'  match items_ with\n  | [] => pure {tuple_of(state)}\n  | x_ :: rest_ =>\n    {head}\n    {body}\n')
        args = ' '.join(lname(v) for v in free + state)
        env2 = dict(env)
        # the loop variable stays bound after the loop in Python; the translated code does not use it afterwards
        return bind_all(bi, f'({lname_} {paren(lst)} ' + ('0 ' if ivar else '') + f'{args}) >>= fun {tuple_of(state)} =>' + nl + tr_block(fn, rest, env2, k, ind))
    raise Unsupported(f'statement {type(s).__name__} (line {s.lineno})')

# ---------------------------------------------------------------------------------------------------------

def module_consts(tree):
    """module-level `NAME = <int literal>` (and names imported from sibling modules are resolved by the caller)"""
    out = {}
    for s in tree.body:
        if isinstance(s, ast.Assign) and len(s.targets) == 1 and isinstance(s.targets[0], ast.Name):
            v = s.value
            if isinstance(v, ast.Constant) and isinstance(v.value, int) and not isinstance(v.value, bool):
                out[s.targets[0].id] = v.value
    return out

class _DesugarListComp(ast.NodeTransformer):
    """`x = [e for a in A for b in B if c]` / `return [e for ...]`  ->  the equivalent `x = []` + nested `for` + `x.append(e)`
    (what the comprehension means when `e`, `A`, `B`, `c` have no side effects on `x`), so that both spellings translate alike"""
    def __init__(self):
        self.n = 0
    def _loops(self, comp, target):
        body = [ast.Expr(ast.Call(func=ast.Attribute(value=ast.Name(id=target, ctx=ast.Load()), attr='append', ctx=ast.Load()), args=[comp.elt], keywords=[]))]
        for g in reversed(comp.generators):
            if g.is_async:
                raise Unsupported('async comprehension')
            for c in reversed(g.ifs):
                body = [ast.If(test=c, body=body, orelse=[])]
            body = [ast.For(target=g.target, iter=g.iter, body=body, orelse=[])]
        return body
    def _expand(self, stmts):
        out = []
        for st in stmts:
            for fld in ('body', 'orelse'):
                if isinstance(getattr(st, fld, None), list) and not isinstance(st, (ast.FunctionDef, ast.ClassDef)):
                    setattr(st, fld, self._expand(getattr(st, fld)))
            if isinstance(st, ast.Return) and isinstance(st.value, ast.ListComp):
                self.n += 1
                nm = f'result{self.n}' if self.n > 1 else 'result'
                out.append(ast.Assign(targets=[ast.Name(id=nm, ctx=ast.Store())], value=ast.List(elts=[], ctx=ast.Load())))
                out += self._loops(st.value, nm)
                out.append(ast.Return(value=ast.Name(id=nm, ctx=ast.Load())))
            elif isinstance(st, ast.Assign) and len(st.targets) == 1 and isinstance(st.targets[0], ast.Name) and isinstance(st.value, ast.ListComp):
                nm = st.targets[0].id
                if any(isinstance(n, ast.Name) and n.id == nm for n in ast.walk(st.value)):
                    out.append(st); continue
                out.append(ast.Assign(targets=[ast.Name(id=nm, ctx=ast.Store())], value=ast.List(elts=[], ctx=ast.Load())))
                out += self._loops(st.value, nm)
            else:
                out.append(st)
        for o in out:
            ast.copy_location(o, stmts[0]) if stmts else None
            ast.fix_missing_locations(o)
        return out

def desugar(f):
    f.body = _DesugarListComp()._expand(f.body)
    return f

_BIND_LET = re.compile(r">>= fun (t\d+_) => let ([A-Za-z_][A-Za-z0-9_']*) : ([A-Za-z][A-Za-z0-9_. ]*?) := \1;\s*")

def name_binds(txt):
    """`m >>= fun tN_ => let x : T := tN_; rest`  is  `m >>= fun x => rest` (tN_ is fresh and used nowhere else): a local that merely names
    the result of a call leaves no trace, so introducing or removing such a local in the source does not change the translation"""
    while True:
        done = False
        for m in _BIND_LET.finditer(txt):
            t = m.group(1)
            # the temporary must occur exactly twice inside this definition (binder and let)
            start = txt.rfind('\ndef ', 0, m.start())
            end = txt.find('\ndef ', m.end())
            seg = txt[start if start >= 0 else 0: end if end >= 0 else len(txt)]
            if len(re.findall(r'\b' + re.escape(t) + r'\b', seg)) != 2:
                continue
            txt = txt[:m.start()] + f'>>= fun {m.group(2)} => ' + txt[m.end():]
            done = True
            break
        if not done:
            return txt

def translate(repo):
    out = ['/- GENERATED by tools/py2lean.py from the current /repo working tree. DO NOT EDIT. -/',
           'import A5.Model.PySem', '', 'set_option linter.unusedVariables false', '']
    sigs_all = {}
    consts_by_mod = {}
    for path, ns, names in PLAN:
        src = open(os.path.join(repo, path)).read()
        tree = ast.parse(src)
        consts = module_consts(tree)
        # constants imported from sibling modules of the plan
        for s in tree.body:
            if isinstance(s, ast.ImportFrom) and s.module in ('serialization', 'cell_info') and s.level == 1:
                for a in s.names:
                    if a.name in consts_by_mod.get(s.module, {}):
                        consts[a.asname or a.name] = consts_by_mod[s.module][a.name]
        consts_by_mod[ns] = consts
        funcs = {s.name: s for s in tree.body if isinstance(s, ast.FunctionDef)}
        imported = set()
        for s in tree.body:
            if isinstance(s, ast.ImportFrom) and s.level == 1:
                for a in s.names:
                    imported.add(a.asname or a.name)
        out.append(f'namespace A5.Src.{ns}')
        out.append('open A5')
        for prev in consts_by_mod:
            if prev != ns:
                out.append(f'open A5.Src.{prev} (' + ' '.join(sorted(n for n in sigs_all if sigs_all[n][2] == prev and n in imported)) + ')'
                           if any(sigs_all[n][2] == prev and n in imported for n in sigs_all) else f'-- nothing imported from {prev}')
        out.append('')
        used_consts = set()
        body_txt = []
        sigs = {n: (v[0], v[1]) for n, v in sigs_all.items() if n in imported}
        for name in names:
            try:
                if name not in funcs:
                    raise Unsupported(f'{path}: function {name} not found')
                f = funcs[name]
                if f.decorator_list:
                    raise Unsupported(f'decorators ({ast.unparse(f.decorator_list[0])[:40]}) change what a call means')
                for n in ast.walk(f):
                    if isinstance(n, (ast.Global, ast.Nonlocal)):
                        raise Unsupported(f'`{"global" if isinstance(n, ast.Global) else "nonlocal"} {", ".join(n.names)}`: the function keeps state between calls')
                a = f.args
                if a.vararg or a.kwarg or a.kwonlyargs or a.posonlyargs:
                    raise Unsupported('parameter kinds')
                ptypes, env = [], {}
                ndef = len(a.defaults)
                for i, p in enumerate(a.args):
                    ty = ann_type(p.annotation)
                    d = a.defaults[i - (len(a.args) - ndef)] if i >= len(a.args) - ndef else None
                    if d is not None and not (isinstance(d, ast.Constant) and d.value is None and ty == T_OPTINT):
                        raise Unsupported(f'default value of {p.arg}')
                    ptypes.append(ty)
                    env[p.arg] = ty
                rtype = ann_type(f.returns)
                fn = Fn(ns, name, {k: T_INT for k in consts}, dict(sigs))
                fn.const_values = dict(consts)
                fn.helpers = {k: v for k, v in funcs.items() if k not in names and k != name}
                fn.ret_type = rtype
                fn.sigs[name] = (ptypes, rtype)      # (recursion is not expected, but the signature is known)
                desugar(f)
                body = tr_block(fn, f.body, env, K(lambda e2: (_ for _ in ()).throw(Unsupported('control reaches the end without return'))), 1)
                params = ' '.join(f'({lname(p.arg)} : {env[p.arg]})' for p in a.args)
            except Unsupported as e:
                # this function (and, through the missing signature, its callers) is left out; the bridge theorems about them no longer build
                FAILED.append(f'{ns}.{name}: {e}')
                body_txt.append(f'-- NOT TRANSLATED `{name}`: {str(e)[:200]}\n')
                sigs.pop(name, None)
                sigs_all.pop(name, None)
                continue
            for aux in fn.aux:
                body_txt.append(aux)
            body_txt.append(f'/-- `{name}` — {path}:{f.lineno} -/\ndef {name} {params} : PyM ({rtype}) :=\n  {body}\n')
            sigs[name] = (ptypes, rtype)
            sigs_all[name] = (ptypes, rtype, ns)
        for cname, cval in consts.items():
            out.append(f'def {cname} : Int := {cval}' if cval >= 0 else f'def {cname} : Int := ({cval})')
        out.append('')
        out += body_txt
        out.append(f'end A5.Src.{ns}')
        out.append('')
    return name_binds('\n'.join(out))

def main():
    ap = argparse.ArgumentParser()
    ap.add_argument('--repo', default=os.environ.get('A5_REPO', '/repo'))
    ap.add_argument('--out', default=os.path.join(os.path.dirname(os.path.dirname(os.path.abspath(__file__))), 'lean', 'A5', 'Gen', 'Src.lean'))
    a = ap.parse_args()
    try:
        del FAILED[:]
        txt = translate(a.repo)
    except Exception as e:  # noqa  (a module that cannot be read/parsed at all)
        traceback.print_exc()
        print('PY2LEAN-FAIL: translator could not process the source:', repr(e)[:300])
        txt = ('/- GENERATED by tools/py2lean.py: the current source could not be processed. -/\n'
               'import A5.Model.PySem\n\n'
               f'-- {repr(e)[:300]}\n'
               'namespace A5.Src\n/-- marker: nothing was translated, so everything that depends on it fails to build -/\n'
               'def translationFailed : Unit := ()\nend A5.Src\n')
        write_if_changed(a.out, txt)
        return 3
    if FAILED:
        write_if_changed(a.out, txt)
        for f in FAILED:
            print('PY2LEAN-FAIL: outside the translated subset:', f)
        return 3
    print('src:', write_if_changed(a.out, txt))
    return 0

def write_if_changed(path, txt):
    try:
        if open(path).read() == txt:
            return 'unchanged'
    except OSError:
        pass
    os.makedirs(os.path.dirname(path), exist_ok=True)
    open(path, 'w').write(txt)
    return 'written'

if __name__ == '__main__':
    sys.exit(main())
