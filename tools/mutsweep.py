#!/venv/bin/python
"""Operator-mutation sweep (support tooling, never a verdict): how good are the generators of the correspondence and of the
failing-input search at seeing *small* changes to /repo?

  tools/mutsweep.py list  [--n N] [--seed S] > mutants.json     enumerate/sample single-token mutants of a5/*.py
  tools/mutsweep.py run   mutants.json out.jsonl [--workers K]  per mutant: pytest in a scratch copy; if the suite still passes,
                                                                the quick checks whose cone contains the mutated file, until one
                                                                reports a concrete failing input

Every worker owns a scratch copy of /repo and of /verif under --scratch (default /tmp/mutsweep), removed at the end.
A mutant that survives the suite *and* every check is either equivalent (no property can tell) or a hole in a generator;
the triage is manual and recorded in DESIGN.md.
"""
import ast, json, os, random, shutil, subprocess, sys, time, argparse, multiprocessing

VERIF = os.path.dirname(os.path.dirname(os.path.abspath(__file__)))
REPO = '/repo'
SKIP_FILES = {'a5/core/warp.py', 'a5/__init__.py'}

CMP = {ast.Lt: [ast.LtE, ast.Gt], ast.LtE: [ast.Lt], ast.Gt: [ast.GtE, ast.Lt], ast.GtE: [ast.Gt], ast.Eq: [ast.NotEq], ast.NotEq: [ast.Eq]}
BIN = {ast.Add: [ast.Sub], ast.Sub: [ast.Add], ast.Mult: [ast.Div, ast.Add], ast.Div: [ast.Mult], ast.FloorDiv: [ast.Div], ast.Mod: [ast.FloorDiv],
       ast.LShift: [ast.RShift], ast.RShift: [ast.LShift], ast.BitAnd: [ast.BitOr], ast.BitOr: [ast.BitAnd]}


def sites(path):
    """yield (description, lineno, col, mutate(tree)->None) for one file, deterministic order"""
    src = open(path).read()
    tree = ast.parse(src)
    out = []
    idx = 0
    for node in ast.walk(tree):
        if isinstance(node, ast.Constant) and not isinstance(node.value, (str, bytes, bool, type(None), type(Ellipsis))):
            v = node.value
            if isinstance(v, int):
                alts = [v + 1, v - 1] if v not in (0, 1) else [1 - v, v + 2]
            else:
                alts = [v * 1.001, v * 2.0 if v else 1.0, -v if v else 0.5]
            for a in alts:
                out.append(('const', node.lineno, node.col_offset, repr(v), repr(a)))
        elif isinstance(node, ast.Compare) and len(node.ops) == 1 and type(node.ops[0]) in CMP:
            for a in CMP[type(node.ops[0])]:
                out.append(('cmp', node.lineno, node.col_offset, type(node.ops[0]).__name__, a.__name__))
        elif isinstance(node, ast.BinOp) and type(node.op) in BIN:
            for a in BIN[type(node.op)]:
                out.append(('bin', node.lineno, node.col_offset, type(node.op).__name__, a.__name__))
        elif isinstance(node, ast.BoolOp):
            out.append(('bool', node.lineno, node.col_offset, type(node.op).__name__, 'Or' if isinstance(node.op, ast.And) else 'And'))
        elif isinstance(node, ast.UnaryOp) and isinstance(node.op, (ast.USub, ast.Not)):
            out.append(('unary', node.lineno, node.col_offset, type(node.op).__name__, 'removed'))
        elif isinstance(node, ast.If):
            out.append(('if', node.lineno, node.col_offset, 'cond', 'True'))
            out.append(('if', node.lineno, node.col_offset, 'cond', 'False'))
    return out


def apply(path, m):
    """return the mutated source of `path` for mutant m (kind, line, col, old, new)"""
    kind, line, col, old, new = m
    tree = ast.parse(open(path).read())
    done = False
    for node in ast.walk(tree):
        if getattr(node, 'lineno', None) != line or getattr(node, 'col_offset', None) != col:
            continue
        if kind == 'const' and isinstance(node, ast.Constant) and repr(node.value) == old:
            node.value = ast.literal_eval(new); done = True
        elif kind == 'cmp' and isinstance(node, ast.Compare) and type(node.ops[0]).__name__ == old:
            node.ops = [getattr(ast, new)()]; done = True
        elif kind == 'bin' and isinstance(node, ast.BinOp) and type(node.op).__name__ == old:
            node.op = getattr(ast, new)(); done = True
        elif kind == 'bool' and isinstance(node, ast.BoolOp):
            node.op = getattr(ast, new)(); done = True
        elif kind == 'unary' and isinstance(node, ast.UnaryOp) and type(node.op).__name__ == old:
            node.__class__ = ast.Expr  # placeholder, replaced below
            done = 'unary'
        elif kind == 'if' and isinstance(node, ast.If):
            node.test = ast.Constant(value=(new == 'True')); done = True
        if done:
            break
    if done == 'unary':
        # redo with a transformer (changing a node's class in place is not safe)
        tree = ast.parse(open(path).read())
        class T(ast.NodeTransformer):
            def visit_UnaryOp(self, n):
                self.generic_visit(n)
                if n.lineno == line and n.col_offset == col and type(n.op).__name__ == old:
                    return n.operand
                return n
        tree = T().visit(tree)
    if not done:
        return None
    ast.fix_missing_locations(tree)
    return ast.unparse(tree) + '\n'


def cmd_list(args):
    rng = random.Random(args.seed)
    allm = []
    for dp, _, fns in sorted(os.walk(os.path.join(REPO, 'a5'))):
        for fn in sorted(fns):
            rel = os.path.relpath(os.path.join(dp, fn), REPO)
            if not fn.endswith('.py') or rel in SKIP_FILES or fn == '__init__.py':
                continue
            for s in sites(os.path.join(REPO, rel)):
                allm.append([rel] + list(s))
    rng.shuffle(allm)
    if args.files:
        allm = [m for m in allm if any(f in m[0] for f in args.files.split(','))]
    json.dump(allm[:args.n], sys.stdout)
    print(f'{len(allm)} sites, {min(args.n, len(allm))} sampled', file=sys.stderr)


def props_for(rel):
    """claimed properties ordered: anchors list the file first, then those whose import cone contains it; effects last"""
    sys.path.insert(0, os.path.join(VERIF, 'harness'))
    import drift
    props = [json.loads(l) for l in open(os.path.join(VERIF, 'properties.jsonl'))]
    g = drift.import_graph(REPO)
    direct, cone = [], []
    for p in props:
        files = p['anchors']['files']
        if p['id'] in ('C16', 'C17'):
            continue
        if rel in files:
            direct.append(p['id'])
        else:
            seen, todo = set(), [f for f in files if f in g]
            while todo:
                f = todo.pop()
                if f in seen:
                    continue
                seen.add(f); todo += list(g.get(f, ()))
            if rel in seen:
                cone.append(p['id'])
    return direct + cone


def worker(job):
    k, mutants, scratch, budget, maxchecks = job
    w = os.path.join(scratch, f'w{k}')
    shutil.rmtree(w, ignore_errors=True)
    os.makedirs(w)
    repo, verif = os.path.join(w, 'repo'), os.path.join(w, 'verif')
    shutil.copytree(REPO, repo, ignore=shutil.ignore_patterns('.git', '__pycache__', '.pytest_cache'))
    shutil.copytree(VERIF, verif, ignore=shutil.ignore_patterns('.git', 'seeded', 'design-probes', '__pycache__'), symlinks=True)
    res = []
    env = dict(os.environ, A5_REPO=repo, VERIF_ESCALATE_BUDGET=str(budget), VERIF_SEED='0')
    for m in mutants:
        rel = m[0]
        path = os.path.join(repo, rel)
        orig = open(os.path.join(REPO, rel)).read()
        new = apply(os.path.join(REPO, rel), m[1:])
        r = {'mutant': m}
        if new is None or new == ast.unparse(ast.parse(orig)) + '\n':
            r['status'] = 'not-applied'; res.append(r); continue
        open(path, 'w').write(new)
        try:
            t0 = time.time()
            try:
                p = subprocess.run(['/venv/bin/python', '-m', 'pytest', '-x', '-q', '-p', 'no:cacheprovider'], cwd=repo, capture_output=True, text=True, timeout=300)
                tests_ok = p.returncode == 0
            except subprocess.TimeoutExpired:
                tests_ok = False
            r['tests_pass'] = tests_ok
            r['t_tests'] = round(time.time() - t0, 1)
            if not tests_ok:
                r['status'] = 'killed-by-tests'; res.append(r); continue
            r['checks'] = []
            status = 'survived'
            for pid in props_for(rel)[:maxchecks]:
                t0 = time.time()
                try:
                    p = subprocess.run([os.path.join(verif, 'check'), pid, 'quick'], cwd=verif, capture_output=True, text=True, timeout=1500, env=env)
                    out = p.stdout
                    rc = p.returncode
                except subprocess.TimeoutExpired:
                    out, rc = 'timeout', 2
                viol = [l for l in out.splitlines() if l.startswith('VIOLATION')]
                last = out.strip().splitlines()[-1] if out.strip() else ''
                kind = 'quiet'
                if viol:
                    kind = 'no-input' if viol[0].rstrip().endswith('no-failing-input-found') else 'input'
                r['checks'].append({'id': pid, 'rc': rc, 'kind': kind, 'last': last[-160:], 't': round(time.time() - t0, 1)})
                if kind == 'input':
                    status = 'caught'; break
                if kind == 'no-input' and status == 'survived':
                    status = 'flagged'
            r['status'] = status
            res.append(r)
        finally:
            open(path, 'w').write(orig)
        with open(os.path.join(scratch, f'out{k}.jsonl'), 'a') as f:
            f.write(json.dumps(r) + '\n')
    shutil.rmtree(w, ignore_errors=True)
    return res


def cmd_run(args):
    mutants = json.load(open(args.mutants))
    os.makedirs(args.scratch, exist_ok=True)
    jobs = [(k, mutants[k::args.workers], args.scratch, args.budget, args.maxchecks) for k in range(args.workers)]
    with multiprocessing.Pool(args.workers) as pool:
        allres = [r for rs in pool.map(worker, jobs) for r in rs]
    with open(args.out, 'w') as f:
        for r in allres:
            f.write(json.dumps(r) + '\n')
    from collections import Counter
    print(Counter(r['status'] for r in allres))


if __name__ == '__main__':
    ap = argparse.ArgumentParser()
    sub = ap.add_subparsers(dest='cmd')
    a = sub.add_parser('list'); a.add_argument('--n', type=int, default=400); a.add_argument('--seed', type=int, default=0); a.add_argument('--files', default='')
    b = sub.add_parser('run'); b.add_argument('mutants'); b.add_argument('out'); b.add_argument('--workers', type=int, default=8)
    b.add_argument('--scratch', default='/tmp/mutsweep'); b.add_argument('--budget', type=int, default=40); b.add_argument('--maxchecks', type=int, default=8)
    args = ap.parse_args()
    {'list': cmd_list, 'run': cmd_run}[args.cmd](args)
