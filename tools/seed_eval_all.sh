#!/bin/bash
# usage: seed_eval_all.sh <worktree> <seed-name>
# cross-cutting seeded change: confirm it (tests pass, demo fails with / passes without), then run EVERY check (quick) against a scratch
# copy of /repo with the patch applied and report which properties raise a VIOLATION.
wt=$1; name=$2
set -u
out=/verif/seeded/$name
mkdir -p $out
cp $wt/patch.diff $out/patch.diff
cp $wt/demo.py $out/demo.py 2>/dev/null
cp $wt/notes.txt $out/notes.txt 2>/dev/null
cd $wt
git diff --quiet -- a5 && { echo "patch not applied in worktree"; git apply patch.diff; }
tests=$(/venv/bin/python -m pytest -q -p no:cacheprovider 2>&1 | tail -1)
PYTHONPATH=$wt /venv/bin/python demo.py >/dev/null 2>&1; demo_with=$?
git apply -R patch.diff
PYTHONPATH=$wt /venv/bin/python demo.py >/dev/null 2>&1; demo_without=$?
git apply patch.diff
echo "tests_with_change: $tests | demo rc with=$demo_with without=$demo_without"
cd /verif
copy=$(mktemp -d /tmp/seedrepo.XXXXXX)
cp -r /repo/. $copy/
(cd $copy && git apply $out/patch.diff) || { echo "cannot apply to the copy"; rm -rf $copy; exit 1; }
: > $out/all_checks.txt
for p in $(python3 -c "import json;print(' '.join(c['property_id'] for c in json.load(open('MANIFEST.json'))['checks']))"); do
  A5_REPO=$copy ./check $p quick 2>&1 | grep -E "VIOLATION|^$p quick" >> $out/all_checks.txt
done
rm -rf $copy
/venv/bin/python tools/gen_tables.py >/dev/null
grep VIOLATION $out/all_checks.txt | sed 's/ replay=.*\.json//'
python3 - <<PY
import json,re
txt=open("$out/all_checks.txt").read()
flag=re.findall(r'VIOLATION property=(C\d+)[^\n]*', txt)
nf=re.findall(r'VIOLATION property=(C\d+) [^\n]*no-failing-input-found', txt)
json.dump({"property":"(cross-cutting; see notes.txt)","breaks":"see notes.txt","tests_with_change":"""$tests""","demo_rc_with_change":$demo_with,"demo_rc_without_change":$demo_without,
 "ran":["pytest in a scratch worktree with the change","demo.py with and without the change","every check (quick) with A5_REPO=<scratch copy of /repo with the patch applied>"],
 "checks_raising_violation":flag,"of_which_without_failing_input":nf}, open("$out/meta.json","w"), indent=1)
PY
