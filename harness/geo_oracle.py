"""Independent geometric oracles for the failing-input searches (share no code with a5).

* closed-form WGS84 authalic latitude, pole-safe (the colatitude is obtained from an integral of the smooth
  integrand, not from a difference of nearly equal numbers);
* unit vector on the authalic sphere for a (lon, lat) in degrees;
* point-in-spherical-polygon by winding number in a gnomonic chart centred on the query point;
* great-circle distance; spherical polygon area (Van Oosterom–Strackee triangle formula).
"""
import math

A_ = 6378137.0
F_ = 1 / 298.257223563
E2 = F_ * (2 - F_)
E_ = math.sqrt(E2)
AUTHALIC_RADIUS = 6371007.2

def _q(s):
    es = E_ * s
    return (1 - E2) * (s / (1 - es * es) + math.atanh(es) / E_)

QP = _q(1.0)

# 12-point Gauss–Legendre nodes/weights on [-1, 1]
_GL_X = [0.1252334085114689, 0.3678314989981802, 0.5873179542866175, 0.7699026741943047, 0.9041172563704749, 0.9815606342467192]
_GL_W = [0.2491470458134028, 0.2334925365383548, 0.2031674267230659, 0.1600783285433462, 0.1069393259953184, 0.0471753363865118]

def _qp_minus_q(one_minus_s):
    """q(1) - q(s) = 2(1-e^2) * integral_s^1 dt / (1 - e^2 t^2)^2, with 1-s given accurately"""
    h = one_minus_s / 2.0
    mid = 1.0 - h
    tot = 0.0
    for x, w in zip(_GL_X, _GL_W):
        for sgn in (1, -1):
            t = mid + sgn * h * x
            tot += w / (1 - E2 * t * t) ** 2
    return 2 * (1 - E2) * tot * h

def authalic_lat(phi):
    """exact (closed form) authalic latitude of the geodetic latitude phi [rad], accurate to ~1e-15 rad everywhere"""
    a = abs(phi)
    colat = math.pi / 2 - a
    if colat > 0.4:
        x = _q(math.sin(a)) / QP
        xi = math.asin(max(-1.0, min(1.0, x)))
    else:
        one_minus_s = 2 * math.sin(colat / 2) ** 2          # 1 - sin(a), no cancellation
        d = _qp_minus_q(one_minus_s)                          # qp - q
        cosxi = math.sqrt(max(0.0, d * (2 * QP - d))) / QP
        sinxi = (QP - d) / QP
        xi = math.atan2(sinxi, cosxi)
    return math.copysign(xi, phi) if phi != 0 else 0.0

def authalic_colat(phi):
    """pi/2 - authalic latitude, accurate near the north pole (phi close to +pi/2)"""
    colat = math.pi / 2 - phi
    if colat > 0.4:
        return math.pi / 2 - authalic_lat(phi)
    one_minus_s = 2 * math.sin(colat / 2) ** 2
    d = _qp_minus_q(one_minus_s)
    return math.atan2(math.sqrt(max(0.0, d * (2 * QP - d))), QP - d)

def to_vec(lon, lat):
    """unit vector on the authalic sphere; pole-safe"""
    l = math.radians(lon)
    phi = math.radians(lat)
    if lat >= 0:
        c = authalic_colat(phi)
        s, z = math.sin(c), math.cos(c)
    else:
        c = authalic_colat(-phi)
        s, z = math.sin(c), -math.cos(c)
    return (s * math.cos(l), s * math.sin(l), z)

def dot(a, b):
    return a[0] * b[0] + a[1] * b[1] + a[2] * b[2]

def cross(a, b):
    return (a[1] * b[2] - a[2] * b[1], a[2] * b[0] - a[0] * b[2], a[0] * b[1] - a[1] * b[0])

def norm(a):
    n = math.sqrt(dot(a, a))
    return (a[0] / n, a[1] / n, a[2] / n)

def angle(a, b):
    """great-circle distance [rad] between unit vectors, accurate for small and large angles"""
    c = cross(a, b)
    return math.atan2(math.sqrt(dot(c, c)), dot(a, b))

def tangent_basis(p):
    ref = (0.0, 0.0, 1.0) if abs(p[2]) < 0.9 else (1.0, 0.0, 0.0)
    e1 = norm(cross(ref, p))
    return e1, cross(p, e1)

def winding(p, ring):
    """(winding number of the open ring of unit vectors around p, distance [rad, approx] from p to the ring) in the gnomonic chart at p"""
    e1, e2 = tangent_basis(p)
    pts = []
    for v in ring:
        d = dot(v, p)
        if d <= 0.05:
            return None, None
        # chart coordinates from the difference vector (accurate when v is close to p)
        dv = (v[0] - p[0], v[1] - p[1], v[2] - p[2])
        pts.append((dot(dv, e1) / d, dot(dv, e2) / d))
    w = 0.0
    dmin = 1e9
    n = len(pts)
    for i in range(n):
        x1, y1 = pts[i]
        x2, y2 = pts[(i + 1) % n]
        w += math.atan2(x1 * y2 - x2 * y1, x1 * x2 + y1 * y2)
        dx, dy = x2 - x1, y2 - y1
        L2 = dx * dx + dy * dy
        t = 0 if L2 == 0 else max(0.0, min(1.0, -(x1 * dx + y1 * dy) / L2))
        dmin = min(dmin, math.hypot(x1 + t * dx, y1 + t * dy))
    return round(w / (2 * math.pi)), dmin

def contains(lonlat, ring_lonlat):
    p = to_vec(*lonlat)
    ring = [to_vec(*v) for v in ring_lonlat]
    return winding(p, ring)

def tri_area(a, b, c):
    """signed area of the spherical triangle (unit vectors), Van Oosterom–Strackee"""
    return 2 * math.atan2(dot(a, cross(b, c)), 1 + dot(a, b) + dot(b, c) + dot(c, a))

def ring_area(ring):
    """signed area [sr] of an open ring of unit vectors (positive = counter-clockwise seen from outside), fan from the centroid"""
    cx = norm((sum(v[0] for v in ring), sum(v[1] for v in ring), sum(v[2] for v in ring)))
    tot = 0.0
    n = len(ring)
    for i in range(n):
        tot += tri_area(cx, ring[i], ring[(i + 1) % n])
    return tot
