"""hash-seed independence (C17): the same single call made in several fresh interpreters with different PYTHONHASHSEED values must give
bit-identical answers.  Option dictionaries are built from the string literals found in the current source of a5/core/cell.py (so that a
newly accepted option spelling is exercised as soon as it exists), with conflicting values for pairs of keys."""
import ast, os, sys, json, subprocess, itertools, re

REPO = os.environ.get('A5_REPO', '/repo')

def option_literals():
    src = open(os.path.join(REPO, 'a5', 'core', 'cell.py')).read()
    tree = ast.parse(src)
    doc = set()
    for n in ast.walk(tree):
        if isinstance(n, (ast.FunctionDef, ast.ClassDef, ast.Module)) and n.body and isinstance(n.body[0], ast.Expr) \
                and isinstance(getattr(n.body[0], 'value', None), ast.Constant) and isinstance(n.body[0].value.value, str):
            doc.add(id(n.body[0].value))
    keys = []
    for n in ast.walk(tree):
        if isinstance(n, ast.Constant) and isinstance(n.value, str) and id(n) not in doc and re.fullmatch(r'[A-Za-z_][A-Za-z_0-9]{2,24}', n.value):
            if n.value not in keys:
                keys.append(n.value)
    return keys[:8]

CHILD = r'''
import sys, json, struct
sys.path.insert(0, sys.argv[1])
import a5
def fb(x): return struct.unpack('<Q', struct.pack('<d', float(x)))[0]
def canon(v):
    if isinstance(v, float): return ['f', fb(v)]
    if isinstance(v, (list, tuple)): return [canon(x) for x in v]
    return v
out = []
for name, args in json.load(sys.stdin):
    try:
        args = [tuple(a) if isinstance(a, list) and len(a) == 2 and all(isinstance(x, float) for x in a) else a for a in args]
        out.append(canon(getattr(a5, name)(*args)))
    except Exception as e:
        out.append(['EXC', type(e).__name__])
print(json.dumps(out))
'''

def calls(rng):
    from refids import random_valid_id, ref_id
    keys = option_literals()
    vals = [True, False, 1, 2, 'auto', None]
    cs = [ref_id(rng.randrange(60), 0, 1), random_valid_id(rng, 2, 9)]
    out = []
    for c in cs:
        for k in keys:
            out.append(('cell_to_boundary', [c, {k: rng.choice(vals)}]))
        for k1, k2 in itertools.combinations(keys, 2):
            for _ in range(2):
                v1, v2 = rng.sample(vals, 2)
                out.append(('cell_to_boundary', [c, {k1: v1, k2: v2}]))
                out.append(('cell_to_boundary', [c, {k2: v2, k1: v1}]))
    # set-valued inputs and order-sensitive functions
    ids = [random_valid_id(rng, 2, 6) for _ in range(8)]
    out.append(('compact', [ids + ids[:3]]))
    out.append(('uncompact', [ids[:3], 7]))
    out.append(('lonlat_to_cell', [[rng.uniform(-180, 180), rng.uniform(-90, 90)], rng.randint(0, 29)]))
    return out

def check(rng, seeds=(0, 1, 2, 3)):
    cl = calls(rng)
    payload = json.dumps(cl)
    answers = []
    for hs in seeds:
        env = dict(os.environ); env['PYTHONHASHSEED'] = str(hs)
        p = subprocess.run([sys.executable, '-c', CHILD, REPO], input=payload, capture_output=True, text=True, env=env, timeout=300)
        if p.returncode != 0:
            return [], {'hashseed_calls': 0, 'hashseed_note': 'child failed: ' + p.stderr[-200:]}
        answers.append(json.loads(p.stdout))
    fails = []
    for i, c in enumerate(cl):
        vals = [json.dumps(a[i]) for a in answers]
        if len(set(vals)) > 1:
            j = next(k for k in range(1, len(vals)) if vals[k] != vals[0])
            fails.append({'what': f'{c[0]}{tuple(c[1])!r} returns different values in fresh interpreters that differ only in PYTHONHASHSEED '
                                  f'({seeds[0]}: {vals[0][:70]}… vs {seeds[j]}: {vals[j][:70]}…)', 'call': c, 'seeds': [seeds[0], seeds[j]]})
    return fails, {'hashseed_calls': len(cl), 'hashseed_interpreters': len(seeds), 'option_literals': option_literals()}

def replay(call, seeds):
    payload = json.dumps([call])
    outs = []
    for hs in seeds:
        env = dict(os.environ); env['PYTHONHASHSEED'] = str(hs)
        p = subprocess.run([sys.executable, '-c', CHILD, REPO], input=payload, capture_output=True, text=True, env=env, timeout=300)
        outs.append(p.stdout)
    return len(set(outs)) > 1
