"""C13 — dodecahedral projection and its inverse are mutual inverses on every face (partial, thin)."""
import math, common, geo_checks as K, geo_gens
from common import Failure
from props._geo import *  # noqa

LEAN_MODULES = ['A5.Props.C13']
LEVEL = 'other'
EXPLANATION = ("NEW: the polar stage is a theorem over the reals: to_face(to_polar(x,y)) = (x,y) for every face point (atan2 = Complex.arg), and to_polar(to_face(rho,gamma)) = (rho,gamma) for rho > 0, gamma in (-pi,pi] (`polar_roundtrip`, `polar_roundtrip'`). "
               'PROVED (Lean, exact arithmetic): the affine stage (face <-> barycentric coordinates on any non-degenerate triangle) and the gnomonic stage (tan/atan) are mutual inverses; both directions of the model select the face triangle and the reflection flag with the same functions. ' + TIE +
               'ASSUMED (numeric, swept every run): the closed-form inverse of the slice-and-dice stage inverts its forward map and accumulated rounding stays below 1e-11 — forward/inverse on the nearest face and on the edge-adjacent face through the unfolded triangle, inverse/forward on the face pentagon and its mirror triangles. '
               'This property is in itself a numeric hypothesis of the development; what the family of technique contributes is the bit-exact executable model and the exact stage lemmas.')
RULE = 'unit vectors: frame-point/pole neighbourhoods at log scales 1e-12..1e-1 rad, seams, face edges/vertices/centres, random; nearest and edge-adjacent faces; face-plane points inside the pentagon and the five mirror triangles'
ASSUMPTIONS = ['H-sd: slice-and-dice closed-form inverse', 'H-round: accumulated rounding below 1e-11', 'bit-exact model agreement beyond the samples']
LEVEL_TEXT = 'partial (thin): exact invertibility of the affine and gnomonic stages is machine-checked; the slice-and-dice stage and the 1e-11 tolerance are numeric hypotheses swept on adversarial inputs; the whole projection is modelled bit-exactly'
LEVEL_NOTE = 'trusted: Lean kernel + standard axioms (Mathlib real analysis for tan/arctan); bit-exact correspondence of the Float model; independent angle oracle'
TECHNIQUE = 'Lean 4 proof of the exactly invertible stages + bit-exact executable model of the whole projection + assumption sweep'
DESIGN_REF = 'DESIGN.md §6'

def gen_ops(tier, rng):
    return proj_ops(tier, rng, 300 if tier == 'quick' else 5000)

def oracle(tier, rng, seeds):
    drv = common.py_driver()
    from a5.core.coordinate_transforms import from_lonlat
    from a5.core.constants import distance_to_edge
    fails, st, n = [], {}, 0
    for p in geo_gens.points(drv, tier, rng, 500 if tier == 'quick' else 120000):
        sph = from_lonlat(p)
        o, j, gap, gap2 = K.second_nearest_face(drv, sph)
        K.check_projection_roundtrip(drv, sph, o, fails, st); n += 1
        if gap2 > 1e-3:
            K.check_projection_roundtrip(drv, sph, j, fails, st, 'adjacent'); n += 1
        if len(fails) > 20:
            break
    for _ in range(1500 if tier == 'quick' else 250000):
        o = rng.randrange(12)
        ang = rng.uniform(0, 2 * math.pi)
        th = ((ang + math.pi / 5) % (2 * math.pi / 5)) - math.pi / 5
        lim = distance_to_edge / math.cos(th)
        if rng.random() < 0.3:
            # inside a mirror triangle beyond the edge (apex at twice the apothem)
            along = rng.uniform(1.0, 1.9) * distance_to_edge
            half = distance_to_edge * math.tan(math.pi / 5) * (2 * distance_to_edge - along) / distance_to_edge
            across = rng.uniform(-0.9, 0.9) * half
            e = rng.randrange(5) * 2 * math.pi / 5
            pt = (along * math.cos(e) - across * math.sin(e), along * math.sin(e) + across * math.cos(e))
        else:
            rad = rng.choice([rng.uniform(0, 1), 1 - 10 ** rng.uniform(-12, -1), 10 ** rng.uniform(-12, -1)]) * lim
            pt = (rad * math.cos(ang), rad * math.sin(ang))
        K.check_face_roundtrip(drv, pt, o, fails, st); n += 1
        if len(fails) > 20:
            break
    return fails, {'evaluations': n, 'distinct_nontrivial': n, 'failing': len(fails), **st, 'samples': [{'sph': [1.0, 0.5], 'face': 3}]}

def replay(f):
    fails = []
    d = f['data']
    drv = common.py_driver()
    if d['kind'] == 'sph':
        K.check_projection_roundtrip(drv, tuple(d['sph']), d['o'], fails, {})
    else:
        K.check_face_roundtrip(drv, tuple(d['face']), d['o'], fails, {})
    return bool(fails)
