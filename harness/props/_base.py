"""defaults shared by the property modules"""
TRUSTED_BASE = ['Lean 4.33 kernel', 'axioms: propext, Classical.choice, Quot.sound only', 'tools/gen_tables.py (constants and exhaustive finite-domain tables by value)',
                'line-protocol correspondence harness (sampled agreement of the hand-written model with the implementation on infinite domains)',
                'CPython semantics of int/list/str builtins as modelled in A5/Model']
LEVEL_NOTE = 'trusted: Lean kernel + standard axioms; gen_tables.py; sampled model/implementation agreement on structured ops; CPython builtin semantics as modelled'
