"""shared bits of the geometric property modules"""
import common, geo_gens
from props._base import *  # noqa

TIE = ('TIED: the executable Lean model is a full IEEE-double port of cell.py, tiling.py, hilbert.py, origin.py, coordinate_transforms.py, authalic.py and the projection stack '
       '(gnomonic, polyhedral slice-and-dice, dodecahedron, frame vertices), compared bit for bit with the implementation on adversarial inputs every run; all float constants are regenerated from the source. ')

def cell_ops(tier, rng, n):
    drv = common.py_driver()
    cs = geo_gens.cells(drv, tier, rng, n)
    if len(cs) > 3 * n:
        cs = rng.sample(cs, 3 * n)
    ops = []
    for c in cs:
        ops.append(f'c2l {c}')
        if rng.random() < 0.5:
            ops.append(f'c2b {c} {rng.randint(0, 1)} {rng.choice(["1", "2", "3", "-"]) if c >> 58 else "1"}')
    return ops

def point_ops(tier, rng, n):
    drv = common.py_driver()
    ops = []
    for (lon, lat) in geo_gens.points(drv, tier, rng, n):
        ops.append(f'l2c {geo_gens.fb(lon)} {geo_gens.fb(lat)} {rng.randint(0, 29)}')
    return ops

def proj_ops(tier, rng, n):
    import math
    drv = common.py_driver()
    from a5.core.coordinate_transforms import from_lonlat
    from a5.core.origin import find_nearest_origin
    ops = []
    for p in geo_gens.points(drv, tier, rng, n):
        sph = from_lonlat(p)
        o = find_nearest_origin(sph).id
        ops.append(f'dfwd {geo_gens.fb(sph[0])} {geo_gens.fb(sph[1])} {o}')
        if rng.random() < 0.5:
            # the same point expressed on the second-nearest face (reflected mirror triangles, wrapped gamma)
            from a5.core.origin import origins, haversine
            o2 = sorted(origins, key=lambda q: haversine(sph, q.axis))[1].id
            ops.append(f'dfwd {geo_gens.fb(sph[0])} {geo_gens.fb(sph[1])} {o2}')
    for _ in range(n):
        ops.append(f'dinv {geo_gens.fb(rng.uniform(-0.7, 0.7))} {geo_gens.fb(rng.uniform(-0.7, 0.7))} {rng.randrange(12)}')
    # face-plane points at every scale down to 1e-15 around the face centre, and hugging the face edge (|.| ~ distance_to_edge) from both sides
    for k in range(1, 16):
        for _ in range(3 if tier == 'quick' else 20):
            rho, g = 10.0 ** (-k) * rng.uniform(0.3, 3), rng.uniform(-math.pi, math.pi)
            ops.append(f'dinv {geo_gens.fb(rho * math.cos(g))} {geo_gens.fb(rho * math.sin(g))} {rng.randrange(12)}')
            d = 0.6180339887498949 * (1 + rng.choice([-1, 1]) * 10.0 ** (-k))
            g0 = rng.randrange(5) * 2 * math.pi / 5 + rng.uniform(-0.5, 0.5)
            ops.append(f'dinv {geo_gens.fb(d * math.cos(g0) / math.cos(g0 - round(g0 / (2 * math.pi / 5)) * 2 * math.pi / 5))} {geo_gens.fb(d * math.sin(g0) / math.cos(g0 - round(g0 / (2 * math.pi / 5)) * 2 * math.pi / 5))} {rng.randrange(12)}')
    return ops
