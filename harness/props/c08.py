"""C08 — compact never changes the covered region."""
import gens, common
from common import Failure
from props._base import *  # noqa
TRUSTED_BASE = TRUSTED_BASE + ['tools/py2lean.py (syntax-directed translation of the Python source into A5/Gen/Src.lean, regenerated every run) and the operator semantics of A5/Model/PySem.lean — both exercised every run by executing the translated source (lean/SrcMain.lean) against the implementation on the same ops, negative ints included', 'kernel-checked bridge theorems (A5/Proofs/SrcBridge*.lean, A5/Props/SrcTie/*.lean): translated source = hand-written model for EVERY non-negative id / every list of ids / every int argument']
from refids import ref_decode, union_spans, ref_res, MAXV

LEAN_MODULES = ['A5.Props.C08', 'A5.Props.SrcTie.Compact']
SRC_TIE = True
LEVEL = 'proof'
EXPLANATION = ('Lean theorem for EVERY finite list of valid ids (mixed resolutions -1..29, duplicates, any order, ancestors next to descendants): compact is total, returns valid ids, and a cell of any '
               'level R >= all input resolutions is covered by the output iff it is covered by the input; corollary in observable form set(uncompact(compact(X),R)) = set(uncompact(X,R)). '
               'Proof: each merge is sound (first child + stride run = all children of the parent, per aperture 12/5/4), pass-level induction, loop within fuel. '
               'Tie: differential correspondence of compact (output order included), is_first_child, get_stride, cell_to_parent.'
               " SOURCE-LEVEL TIE (every run): the functions of this property's cone are translated from /repo's current source by tools/py2lean.py into Lean definitions (A5/Gen/Src.lean); bridge theorems prove, for every input (no sampling), that the translated definitions compute exactly what the hand-written model computes, and the headline theorems are restated about the translated source (`*_of_source`). A source change changes the generated definitions and the kernel re-checks the bridges; a construct outside the translated subset (decorators, global state, …) is reported as a broken tie.")
RULE = ('ops: fixed groups at every aperture, random antichains and non-antichains of bounded sub-hierarchies spanning world/12/5/4, permutations of small cases, cascading deep groups down to resolution 29, '
        'large random multisets, whole levels; search: coverage (union of finest-level index intervals, independent reference) of output vs input')
ASSUMPTIONS = ['the translator tools/py2lean.py and A5/Model/PySem.lean (incl. sorted(set(.), key=.) for an injective key) represent CPython faithfully (validated every run by executing the translated source against the implementation)', 'inputs are valid ids (the property\'s own hypothesis)']
LEVEL_TEXT = 'machine-checked proof (Lean 4 kernel) for every finite list of valid ids; model tied to the source by per-run translation + kernel-checked bridge theorems, and by differential correspondence (output compared as emitted)'
TECHNIQUE = 'Lean 4 proof (merge-step soundness per aperture + induction over pass and loop) + differential correspondence + source translated to Lean each run (py2lean) with bridge theorems Src = Model for all inputs'
LEVEL_NOTE = 'trusted: Lean kernel + standard axioms; gen_tables.py; py2lean.py + PySem.lean (translator and Python operator semantics, executed against the implementation every run); CPython int/list semantics as modelled there'
DESIGN_REF = 'DESIGN.md §3 C08'

def gen_ops(tier, rng):
    ops = gens.compact_ops(tier, rng)
    from refids import random_valid_id
    for _ in range(200):
        n = random_valid_id(rng, 0, MAXV)
        r = ref_res(n)
        ops += [f'first {n} {r}', f'stride {r}', f'parent {n} -']
    return ops

@common.guarded(lambda **a: f"coverage check of compact({a['X'][:6]}{'...' if len(a['X']) > 6 else ''})", lambda **a: {'cells': a['X']})
def check_list(drv, X, fails):
    arg = list(X)
    try:
        Y = drv.cp.compact(arg)
    except Exception as e:  # noqa
        fails.append(Failure(f'compact raises {type(e).__name__} on a list of {len(X)} valid cells', {'cells': X})); return
    if arg != list(X):
        fails.append(Failure('compact modified its argument', {'cells': X})); return
    bad = [y for y in Y if ref_decode(y) is None]
    if bad:
        fails.append(Failure(f'compact returned the invalid id {bad[0]}', {'cells': X})); return
    if union_spans(Y) != union_spans(X):
        fails.append(Failure(f'compact changed the covered region of a {len(X)}-cell input (output {len(Y)} cells)', {'cells': X}))

def oracle(tier, rng, seeds):
    drv = common.py_driver()
    fails, n, d = [], 0, set()
    lists = gens.with_structured_orders(gens.compact_inputs(tier, rng), rng)
    for op in seeds:
        t = op.split()
        try:
            if t[0] == 'compact':
                cells = [int(x) for x in t[1:]]
                if all(ref_decode(c) is not None for c in cells):
                    lists.insert(0, cells)
        except Exception:
            pass
    for X in lists:
        check_list(drv, X, fails); n += 1; d.add(tuple(X))
        if len(fails) > 50:
            break
    # shrink the first failure
    if fails:
        X = fails[0].data['cells']
        cur = list(X)
        improved = True
        while improved and len(cur) > 1:
            improved = False
            for i in range(len(cur)):
                trial = cur[:i] + cur[i + 1:]
                f2 = []
                check_list(drv, trial, f2)
                if f2:
                    cur = trial; improved = True; break
        f2 = []
        check_list(drv, cur, f2)
        if f2:
            fails.insert(0, Failure('minimised: ' + f2[0].what + f' — cells {cur[:12]}', {'cells': cur}))
    return fails, {'evaluations': n, 'distinct_nontrivial': len([x for x in d if len(x) > 1]), 'failing': len(fails),
                   'samples': [{'cells': list(x)[:8], 'len': len(x)} for x in list(d)[:3]]}

def replay(f):
    fails = []
    check_list(common.py_driver(), f['data']['cells'], fails)
    return bool(fails)
