"""C20 — cell-count and area metadata agree with the actual hierarchy."""
import math, gens, common
from common import Failure
from props._base import *  # noqa
TRUSTED_BASE = TRUSTED_BASE + ['tools/py2lean.py (syntax-directed translation of the Python source into A5/Gen/Src.lean, regenerated every run) and the operator semantics of A5/Model/PySem.lean — both exercised every run by executing the translated source (lean/SrcMain.lean) against the implementation on the same ops, negative ints included', 'kernel-checked bridge theorems (A5/Proofs/SrcBridge*.lean, A5/Props/SrcTie/*.lean): translated source = hand-written model for EVERY non-negative id / every list of ids / every int argument']
from refids import all_ids, num_cells, random_valid_id, ref_res, MAXV

LEAN_MODULES = ['A5.Props.C20', 'A5.Props.SrcTie.Tree']
SRC_TIE = True
LEVEL = 'proof'
EXPLANATION = ('Lean theorems: get_num_cells(r) = size of the duplicate-free expansion of the world cell (all r <= 29); get_num_cells(b) = get_num_cells(a)*get_num_children(a,b) = sum over level a; '
               'get_num_children(a,b) = len(cell_to_children(c,b)) for every cell (symbolic S) and every pair; the implementation\'s closed forms and cell_area bit patterns equal the model on the whole '
               'finite domain (tables produced by calling the real functions, re-decided by the kernel each run); cell_area(r)*get_num_cells(r) == authalic area exactly in IEEE binary64 for r = 0..30 and '
               'cell_area strictly decreasing on -1..30 (kernel float evaluation, complete case analysis).'
               " SOURCE-LEVEL TIE (every run): the functions of this property's cone are translated from /repo's current source by tools/py2lean.py into Lean definitions (A5/Gen/Src.lean); bridge theorems prove, for every input (no sampling), that the translated definitions compute exactly what the hand-written model computes, and the headline theorems are restated about the translated source (`*_of_source`). A source change changes the generated definitions and the kernel re-checks the bridges; a construct outside the translated subset (decorators, global state, …) is reported as a broken tie.")
RULE = 'ops: ncells/area for r = -4..35, nchildren for all pairs -3..32; search: counts against the enumerated hierarchy for low levels and against cell_to_children lengths for sampled cells'
ASSUMPTIONS = ['the translator tools/py2lean.py and A5/Model/PySem.lean represent CPython faithfully on the integer core (validated every run); IEEE-754 binary64 arithmetic of the host equals Lean\'s Float model (cell_area)']
LEVEL_TEXT = 'machine-checked proof (Lean 4 kernel): algebraic theorems for all resolutions plus kernel-evaluated exhaustive tables (counts, float areas) regenerated from the source every run; the count functions and cell_to_children are tied to the source by per-run translation + bridge theorems'
TECHNIQUE = 'Lean 4 proof + exhaustive generated tables re-decided by the kernel (decide +kernel incl. IEEE float arithmetic) + source translated to Lean each run (py2lean) with bridge theorems Src = Model for all inputs'
LEVEL_NOTE = 'trusted: Lean kernel + standard axioms; gen_tables.py; py2lean.py + PySem.lean (translator and Python operator semantics, executed against the implementation every run); CPython int/list semantics as modelled there'
DESIGN_REF = 'DESIGN.md §3 C20'

def gen_ops(tier, rng):
    ops = gens.info_ops(tier, rng)
    # len(cell_to_children(c, b)) is one side of the property: explicit child resolutions incl. 0, -1 and the cell's own
    for _ in range(60 if tier == 'quick' else 1500):
        c = random_valid_id(rng, -1, MAXV); r = ref_res(c)
        b = rng.choice([r, r, r + 1, r + 2, 0, -1, r - 1])
        if b - r <= 3:
            ops.append(f'children {c} {b}')
    return ops

def check(drv, tier, rng, fails):
    a5, ser, ci = drv.a5, drv.ser, drv.ci
    n = 0
    top = 6 if tier == 'quick' else 8
    for r in range(0, 30):
        if ci.get_num_cells(r) != num_cells(r):
            fails.append(Failure(f'get_num_cells({r}) = {ci.get_num_cells(r)}, hierarchy has {num_cells(r)}', {'kind': 'ncells', 'r': r}))
        if r <= top:
            L = ser.cell_to_children(0, r); n += len(L)
            if len(set(L)) != ci.get_num_cells(r):
                fails.append(Failure(f'expanding the world cell to {r} gives {len(set(L))} distinct cells, get_num_cells = {ci.get_num_cells(r)}', {'kind': 'ncells', 'r': r}))
        for a in range(-1, r + 1):
            tot = (ci.get_num_cells(a) or 1) * ci.get_num_children(a, r)
            if tot != ci.get_num_cells(r):
                fails.append(Failure(f'sum over level {a} of get_num_children({a},{r}) = {tot} != get_num_cells({r}) = {ci.get_num_cells(r)}', {'kind': 'sum', 'a': a, 'r': r}))
            n += 1
    for _ in range(300 if tier == 'quick' else 50000):
        c = random_valid_id(rng, -1, MAXV); r = ref_res(c)
        b = min(MAXV, r + rng.randint(0, 3))
        if r <= 0 and b > 3:
            b = 3 if r <= 0 else b
        if b < r:
            continue
        k = len(ser.cell_to_children(c, b)); n += 1
        if k != ci.get_num_children(r, b):
            fails.append(Failure(f'len(cell_to_children({c},{b})) = {k} != get_num_children({r},{b}) = {ci.get_num_children(r, b)}', {'kind': 'nchildren', 'id': c, 'b': b}))
    from refids import ref_id as _rid
    for r in range(2, MAXV):
        top = 4 ** (r - 1) - 1
        for t6 in (0, 59, rng.randrange(60)):
            for S in (0, top, top - rng.randrange(1, 300) if top > 300 else top):
                c = _rid(t6, max(0, S), r)
                for b in (r + 1, min(MAXV, r + 2)):
                    try:
                        k = len(ser.cell_to_children(c, b))
                    except Exception as e:  # noqa
                        fails.append(Failure(f'cell_to_children({c},{b}) raises {type(e).__name__} (get_num_children({r},{b}) = {ci.get_num_children(r, b)})', {'kind': 'nchildren', 'id': c, 'b': b})); continue
                    n += 1
                    if k != ci.get_num_children(r, b):
                        fails.append(Failure(f'len(cell_to_children({c},{b})) = {k} != get_num_children({r},{b}) = {ci.get_num_children(r, b)}', {'kind': 'nchildren', 'id': c, 'b': b}))
    A = 4 * math.pi * 6371007.2 * 6371007.2
    prev = None
    for r in range(-1, 31):
        ar = a5.cell_area(r); n += 1
        if r >= 0:
            prod = ar * a5.get_num_cells(r)
            if abs(prod - A) > 2 * math.ulp(A):
                fails.append(Failure(f'cell_area({r})*get_num_cells({r}) = {prod!r} differs from the authalic area {A!r} by more than rounding', {'kind': 'area', 'r': r}))
        if prev is not None and not ar < prev:
            fails.append(Failure(f'cell_area not strictly decreasing at {r}: {prev!r} -> {ar!r}', {'kind': 'area', 'r': r}))
        prev = ar
    return n

def oracle(tier, rng, seeds):
    fails = []
    n = check(common.py_driver(), tier, rng, fails)
    return fails, {'evaluations': n, 'distinct_nontrivial': n, 'failing': len(fails), 'samples': [{'r': 5, 'get_num_cells': num_cells(5)}]}

def replay(f):
    import random
    fails = []
    check(common.py_driver(), 'quick', random.Random(0), fails)
    return bool(fails)
