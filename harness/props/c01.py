"""C01 — the cell returned for a point contains that point (partial)."""
import math, common, geo_oracle as G, geo_gens
from common import Failure
from props._base import *  # noqa
from refids import ref_res, ref_decode

LEAN_MODULES = ['A5.Props.C01']
LEVEL = 'other'
EXPLANATION = ('PROVED (Lean, on the executable model of lonlat_to_cell — a full IEEE-double port of cell.py, tiling, Hilbert curve and the projection stack): resolution -1 gives the world cell; for every pair of doubles and every '
               'resolution 0..29 a returned id is a valid id of exactly that resolution; the estimator index is in range for ANY input and ANY scalar type; every estimate is a well-formed cell; 26 samples are inspected; DECISION LOGIC (`contains_or_fallback`): at resolutions 2..29 the returned id either passes the library\'s own planar containment test for the query point itself, or none of the 26 sampled candidates passes it and the id is one of them (nearest-miss fallback). '
               'TIED: the model is compared bit for bit with lonlat_to_cell on adversarial points every run. '
               'ASSUMED (numeric; exercised each run by an independent winding-number oracle in a gnomonic chart, pole-safe closed-form authalic latitude): H-contain the published ring of the returned cell encloses the point up to 1e-6 cell widths; '
               'H-noraise no float callee raises; H-periodic 360-degree periodicity.')
RULE = ('points: log-scale neighbourhoods (1e-12..1e-1 rad) of the 62 frame points and both poles, antimeridian, exact poles, area-uniform random points, longitudes in [-540,540], points just inside cell corners/edges; '
        'resolutions 0..29; non-trivial = distinct (point, resolution)')
ASSUMPTIONS = ['H-contain (containment up to 1e-6 cell widths, judged by an independent oracle)', 'H-noraise', 'H-periodic', 'bit-exact agreement of the Lean Float model with the implementation beyond the sampled points']
LEVEL_TEXT = ('partial: totality of the decision logic, resolution of the result and index ranges are machine-checked on a bit-exact executable model; geometric containment itself is numeric and is a named assumption swept against an independent oracle')
TECHNIQUE = 'Lean 4 proof of the decision logic on a bit-exact executable model + assumption sweep with an independent point-in-polygon oracle'
DESIGN_REF = 'DESIGN.md §3 C01'

def gen_ops(tier, rng):
    drv = common.py_driver()
    ops = []
    pts = geo_gens.points(drv, tier, rng, 300 if tier == 'quick' else 5000)
    for (lon, lat) in pts:
        ops.append(f'l2c {geo_gens.fb(lon)} {geo_gens.fb(lat)} {rng.randint(0, 29)}')
        if rng.random() < 0.05:
            ops.append(f'l2c {geo_gens.fb(lon)} {geo_gens.fb(lat)} {rng.choice([-1, 0, 1, 2, 29])}')
    # points just inside cell corners and edges, asked at the resolution of that cell (the containing cell is then often proposed only by one
    # of the outer samples of the neighbour search)
    for (q, c) in geo_gens.inside_corner_points(drv, rng, 500 if tier == 'quick' else 8000):
        ops.append(f'l2c {geo_gens.fb(q[0])} {geo_gens.fb(q[1])} {ref_res(c)}')
    return ops

def segs_for(r):
    return 64 if r <= 1 else 32 if r <= 3 else 8 if r <= 8 else 4

@common.guarded(lambda **a: f"lonlat_to_cell({a['p']}, {a['r']}) (containment / periodicity check)", lambda **a: {'p': list(a['p']), 'r': a['r']})
def check_point(drv, p, r, fails, expect_cell=None):
    a5 = drv.a5
    tag = f'lonlat_to_cell({p}, {r})'
    try:
        c = a5.lonlat_to_cell(p, r)
    except Exception as e:  # noqa
        fails.append(Failure(f'{tag} raises {type(e).__name__}: {e}', {'p': list(p), 'r': r})); return
    if ref_decode(c) is None or ref_res(c) != r:
        fails.append(Failure(f'{tag} = {c}: not a valid id of resolution {r}', {'p': list(p), 'r': r})); return
    exact = r <= 1   # the edges of resolution-0/1 cells are great-circle arcs (faces and face triangles of the dodecahedron; measured: every vertex of a
                     # 64-segment ring lies within 1e-15 of the great circle through the corners), i.e. straight lines in the gnomonic chart of the oracle
    try:
        ring = a5.cell_to_boundary(c, {'segments': 1 if exact else segs_for(r), 'closed_ring': False})
    except Exception as e:  # noqa
        fails.append(Failure(f'cell_to_boundary({c}) raises {type(e).__name__}', {'p': list(p), 'r': r})); return
    w, d = G.contains(p, ring)
    size = math.sqrt(4 * math.pi / a5.get_num_cells(r))
    # curved edges of the coarse cells are resolved to ~1e-4 widths by 32..64 segments; great-circle edges are judged at 1e-11 rad (float noise of the
    # library's own decision and of the published corners is ~1e-15)
    tol = 1e-11 if exact else 1e-6 if r > 3 else 2e-4
    if w is None or (w != 1 and d / size > tol):
        fails.append(Failure(f'{tag} = {hex(c)} but the point is {("%.3g" % (d / size)) if d is not None else "far"} cell widths outside that cell\'s boundary', {'p': list(p), 'r': r})); return
    # 360-degree periodicity
    c2 = a5.lonlat_to_cell((p[0] + 360.0, p[1]), r)
    if c2 != c:
        ring2 = a5.cell_to_boundary(c2, {'segments': 1 if exact else segs_for(r), 'closed_ring': False})
        w2, d2 = G.contains(p, ring2)
        if w2 is None or (w2 != 1 and d2 / size > tol):
            fails.append(Failure(f'lonlat_to_cell is not 360-degree periodic at {p}, resolution {r}: {hex(c)} vs {hex(c2)}', {'p': list(p), 'r': r}))

# inputs on which the pinned tree failed (repaired by ac2f470): exact cell corners on a face seam
REGRESSION_POINTS = [((-125.11916094236426, 46.766389527751706), 3), ((67.10721420146098, -1.1746807697173285), 25),
                     ((-165.02605289145345, -52.755541033666866), 18)]

def all_corners(drv, r):
    """every published corner of every cell of resolution r, as published (distinct spellings kept)"""
    a5 = drv.a5
    out, seen = [], set()
    for c in a5.cell_to_children(0, r):
        for q in a5.cell_to_boundary(c, {'segments': 1, 'closed_ring': False}):
            q = tuple(q)
            if q not in seen:
                seen.add(q); out.append(q)
    return out

def oracle(tier, rng, seeds):
    drv = common.py_driver()
    fails, n, seen = [], 0, set()
    for p, r in REGRESSION_POINTS:
        check_point(drv, p, r, fails); n += 1; seen.add((p, r))
    # exhaustive: every published corner of every cell at the coarsest Hilbert levels, given back unchanged
    for r in ((2, 3) if tier == 'quick' else (2, 3, 4, 5)):
        for q in all_corners(drv, r):
            check_point(drv, q, r, fails); n += 1; seen.add((q, r))
            if len(fails) > 30:
                break
    pts = geo_gens.points(drv, tier, rng, 400 if tier == 'quick' else 20000)
    work = [(p, rng.randint(0, 29)) for p in pts]
    work += [(p, rng.choice([0, 1, 2, 3])) for p in pts[::11]]
    for p, c in geo_gens.inside_corner_points(drv, rng, 400 if tier == 'quick' else 8000):
        work.append((p, ref_res(c)))
    for op in seeds:
        t = op.split()
        if t[0] == 'l2c':
            from py_driver import bits2f
            work.insert(0, ((bits2f(t[1]), bits2f(t[2])), int(t[3])))
    for p, r in work:
        if not (0 <= r <= 29):
            continue
        check_point(drv, p, r, fails); n += 1; seen.add((p, r))
        if len(fails) > 30:
            break
    return fails, {'evaluations': n, 'distinct_nontrivial': len(seen), 'failing': len(fails), 'samples': [{'p': list(work[3][0]), 'r': work[3][1]}]}

def replay(f):
    fails = []
    check_point(common.py_driver(), tuple(f['data']['p']), f['data']['r'], fails)
    return bool(fails)
