"""C06 — parent/children form a consistent tree over ids."""
import gens, common
from common import Failure
from refids import (ref_id, ref_decode, all_ids, num_cells, s_patterns, MAXV, ref_parent, ref_children_set, random_valid_id, ref_res)

LEAN_MODULES = ['A5.Props.C06', 'A5.Props.SrcTie.Tree']
SRC_TIE = True
LEVEL = 'proof'
EXPLANATION = ('Lean theorems for every cell (symbolic S) and all a <= res <= b <= 29, unbounded depth: children list = exactly the valid level-b ids whose parent at res(c) is c, '
               'Nodup, length = get_num_children; parent composes, is total and unique; for res >= 1 the children are first + i*stride and contain every valid id between first and last; '
               'out-of-order requests raise. Tie: regenerated constants + differential correspondence of cell_to_children/cell_to_parent/get_stride/is_first_child.'
               " SOURCE-LEVEL TIE (every run): the functions of this property's cone are translated from /repo's current source by tools/py2lean.py into Lean definitions (A5/Gen/Src.lean); bridge theorems prove, for every input (no sampling), that the translated definitions compute exactly what the hand-written model computes, and the headline theorems are restated about the translated source (`*_of_source`). A source change changes the generated definitions and the kernel re-checks the bridges; a construct outside the translated subset (decorators, global state, …) is reported as a broken tie.")
RULE = ('ops: structured ids (all of levels <= 3/6, S patterns to resolution 29, malformed) x parent at every a in -2..r+1 x children at r-1..r+3 (and 29..31 near the bottom); '
        'search: children vs independent reference set, parent of each child, composition chains, contiguity, errors')
TRUSTED_BASE = ['Lean 4.33 kernel', 'axioms: propext, Classical.choice, Quot.sound only', 'tools/gen_tables.py',
                'line-protocol correspondence harness (second, independent tie: sampled agreement of the hand-written model with the implementation)', 'CPython int semantics as modelled',
                'tools/py2lean.py (syntax-directed translation of the Python source into A5/Gen/Src.lean, regenerated every run) and the operator semantics of A5/Model/PySem.lean — both exercised every run by executing the translated source (lean/SrcMain.lean) against the implementation on the same ops, negative ints included',
                'kernel-checked bridge theorems (A5/Proofs/SrcBridge*.lean, A5/Props/SrcTie/*.lean): translated source = hand-written model for EVERY non-negative id / every list of ids / every int argument']
ASSUMPTIONS = ['the translator tools/py2lean.py and the operator semantics A5/Model/PySem.lean represent CPython faithfully on the integer core (validated every run by executing the translated source against the implementation)']
LEVEL_TEXT = ('machine-checked proof (Lean 4 kernel) of the tree laws for every cell with symbolic position and unbounded depth, on a model tied to the source by '
              'per-run translation of the source with kernel-checked bridge theorems, regenerated constants and differential correspondence')
LEVEL_NOTE = 'trusted: Lean kernel + standard axioms; gen_tables.py; py2lean.py + PySem.lean (translator and Python operator semantics, executed against the implementation every run); CPython int semantics as modelled there'
TECHNIQUE = 'Lean 4 proof (refinement of cell_to_parent/cell_to_children to field arithmetic) + differential correspondence + source translated to Lean each run (py2lean) with bridge theorems Src = Model for all inputs'
DESIGN_REF = 'DESIGN.md §3 C06'

def gen_ops(tier, rng):
    return gens.id_ops(tier, rng, with_children=True)

@common.guarded(lambda **a: f"tree clauses for cell {a['c']}", lambda **a: {'op': 'cell', 'id': a['c']})
def check_cell(drv, c, fails, deep=3):
    """C06 clauses for the valid id c on the real code"""
    ser, ci = drv.ser, drv.ci
    r = ref_res(c)
    def F(msg, **kw):
        fails.append(Failure(msg, {'op': 'cell', 'id': c, **kw}))
    # parents
    chain = {}
    for a in range(-1, r + 1):
        try:
            p = ser.cell_to_parent(c, a)
        except Exception as e:  # noqa
            F(f'cell_to_parent({c},{a}) raises {type(e).__name__} (res {r})'); return 1
        if p != ref_parent(c, a):
            F(f'cell_to_parent({c},{a}) = {p}, the level-{a} cell containing it is {ref_parent(c, a)}'); return 1
        chain[a] = p
    for a in range(0, r + 1):
        for a2 in (a - 1, max(-1, a - 3), -1):
            if a2 >= -1:
                try:
                    q = ser.cell_to_parent(chain[a], a2)
                except Exception as e:  # noqa
                    F(f'parent composition: cell_to_parent({chain[a]},{a2}) raises {type(e).__name__}'); return 1
                if q != chain[a2]:
                    F(f'parent of parent differs: parent(parent({c},{a}),{a2}) = {q} but parent({c},{a2}) = {chain[a2]}'); return 1
    # errors
    for bad, fn in ((r + 1, ser.cell_to_parent), (-2, ser.cell_to_parent), (r - 1, ser.cell_to_children), (31, ser.cell_to_children)):
        if fn is ser.cell_to_children and bad < -1:
            continue
        try:
            out = fn(c, bad)
            F(f'{fn.__name__}({c},{bad}) returns {str(out)[:60]} instead of raising (res {r})'); return 1
        except ValueError:
            pass
        except Exception as e:  # noqa
            F(f'{fn.__name__}({c},{bad}) raises {type(e).__name__}, not ValueError'); return 1
    # children
    n = 1
    for b in range(r, min(r + deep, MAXV) + 1):
        if r <= 0 and b > 4:
            break
        try:
            L = ser.cell_to_children(c, b)
        except Exception as e:  # noqa
            F(f'cell_to_children({c},{b}) raises {type(e).__name__} (res {r})'); return n
        n += len(L)
        ref = ref_children_set(c, b)
        if len(L) != len(set(L)):
            F(f'cell_to_children({c},{b}) repeats a cell'); return n
        if set(L) != ref:
            F(f'cell_to_children({c},{b}) is not the set of level-{b} cells inside it: {len(set(L) - ref)} foreign, {len(ref - set(L))} missing'); return n
        if len(L) != ci.get_num_children(r, b):
            F(f'len(cell_to_children({c},{b})) = {len(L)} != get_num_children({r},{b}) = {ci.get_num_children(r, b)}'); return n
        for x in (L if len(L) <= 64 else L[:8] + L[-8:]):
            if ser.cell_to_parent(x, r) != c:
                F(f'child {x} of {c} has cell_to_parent(.,{r}) = {ser.cell_to_parent(x, r)}'); return n
        if r >= 1 and b > r:
            lo, hi = min(L), max(L)
            stride = ser.get_stride(b)
            if sorted(L) != [lo + i * stride for i in range(len(L))]:
                F(f'descendants of {c} at level {b} are not a contiguous run first + i*stride'); return n
    return n

def oracle(tier, rng, seeds):
    drv = common.py_driver()
    fails, n, distinct = [], 0, 0
    ids = []
    for r in range(-1, (3 if tier == 'quick' else 5) + 1):
        ids += all_ids(r)
    for r in range(2, MAXV + 1):
        for t in rng.sample(range(60), 4 if tier == 'quick' else 20):
            for S in s_patterns(r, rng, 1 if tier == 'quick' else 6):
                ids.append(ref_id(t, S, r))
    for _ in range(300 if tier == 'quick' else 20000):
        ids.append(random_valid_id(rng))
    for op in seeds:
        t = op.split()
        try:
            v = int(t[1])
            if t[0] in ('children', 'parent', 'first', 'des', 'res') and ref_decode(v) is not None:
                ids.insert(0, v)
                if t[0] == 'children' and t[2] != '-':
                    pass
        except Exception:
            pass
    seen = set()
    for c in ids:
        if c in seen:
            continue
        seen.add(c)
        if c == 0:
            # world cell: children at 0..3, parent(-1) = itself
            for b in range(0, 4):
                L = drv.ser.cell_to_children(0, b)
                if len(L) != len(set(L)) or set(L) != set(all_ids(b)) or len(L) != drv.ci.get_num_children(-1, b):
                    fails.append(Failure(f'cell_to_children(0,{b}) is not the level-{b} id set', {'op': 'cell', 'id': 0}))
            continue
        # most cells: up to 3 levels in one call (deeper by composition); every 12th cell with a non-trivial position: 4 and 5 levels in one call
        dp = 3 if tier == 'quick' else 4
        if distinct % 12 == 5 and ref_res(c) >= 1 and ref_res(c) + 5 <= MAXV:
            dp = 5
        n += check_cell(drv, c, fails, deep=dp)
        distinct += 1
        if len(fails) > 200:
            break
    return fails, {'evaluations': n, 'distinct_nontrivial': distinct, 'failing': len(fails), 'samples': [{'id': c, 'res': ref_res(c)} for c in list(seen)[:4]]}

def replay(f):
    drv = common.py_driver()
    fails = []
    check_cell(drv, f['data']['id'], fails, deep=4) if f['data']['id'] else None
    return bool(fails)
