"""C03 — cells of one resolution tile the globe (partial, thin)."""
import common, geo_checks as K, geo_gens
from common import Failure
from props._geo import *  # noqa
from refids import ref_res, ref_decode

LEAN_MODULES = ['A5.Props.C03']
LEVEL = 'other'
EXPLANATION = ('PROVED (Lean): on every face the five segments and five quintants correspond bijectively with mutually inverse conversions that equal the implementation\'s on their whole domain (tables from the real functions, re-decided each run) and hand out only the six known curve orientations; '
               'within a segment distinct indices occupy distinct lattice cells (C18); all tiles of a level are congruent copies of one base pentagon with equal planar area (C04/C11); the cell count is get_num_cells (C20). ' + TIE +
               'ASSUMED (numeric, swept): H-edges every directed edge of every cell is matched vertex for vertex by exactly one opposite edge (manifold certificate: Euler characteristic 2, areas sum to 4*pi) ; H-neighbour the cell found just beyond an edge owns the reversed edge.')
RULE = 'complete enumeration with a manifold certificate for resolutions 0..3 (quick) / 0..5 (thorough); all five edges of sampled/adversarial cells (face edges, face vertices, poles, antimeridian) up to resolution 29'
ASSUMPTIONS = ['H-edges', 'H-neighbour', 'bit-exact model agreement beyond the samples']
LEVEL_TEXT = 'partial (thin): the combinatorial skeleton of the tiling (segment/quintant bijection, lattice bijection, congruent tiles, counts) is machine-checked; edge coincidence across lattice lines, seams and faces is numeric and swept with a manifold certificate'
LEVEL_NOTE = 'trusted: Lean kernel + standard axioms; generated tables; bit-exact correspondence of the Float model; the independent edge-matching oracle'
TECHNIQUE = 'Lean 4 proof (bijections decided on generated tables, lattice round trip, congruence) + manifold certificate sweep'
DESIGN_REF = 'DESIGN.md §3 C03/C04/C11'

def gen_ops(tier, rng):
    return cell_ops(tier, rng, 120 if tier == 'quick' else 3000) + point_ops(tier, rng, 60 if tier == 'quick' else 2000)

def oracle(tier, rng, seeds):
    drv = common.py_driver()
    a5 = drv.a5
    fails, n = [], 0
    for r in range(0, 4 if tier == 'quick' else 6):
        n += K.manifold_certificate(a5, r, fails)
    cs = geo_gens.cells(drv, tier, rng, 200 if tier == 'quick' else 8000)
    if tier == 'quick':
        cs = rng.sample(cs, min(len(cs), 450))
    for c in cs:
        if c and ref_res(c) >= 1:
            try:
                K.check_edges_of_cell(a5, c, fails); n += 1
            except Exception as e:  # noqa
                fails.append(Failure(f'{type(e).__name__} while walking the edges of cell {hex(c)}', {'kind': 'edge', 'cell': c}))
        if len(fails) > 20:
            break
    return fails, {'evaluations': n, 'distinct_nontrivial': n, 'failing': len(fails), 'samples': [{'level': 3, 'cells': 960}]}

def replay(f):
    fails = []
    d = f['data']
    a5 = common.py_driver().a5
    if d['kind'] == 'manifold':
        K.manifold_certificate(a5, d['r'], fails)
    else:
        K.check_edges_of_cell(a5, d['cell'], fails)
    return bool(fails)
