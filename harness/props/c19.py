"""C19 — hex text form of an id round-trips."""
import gens, common
from common import Failure
from props._base import *  # noqa
from refids import random_valid_id

LEAN_MODULES = ['A5.Props.C19', 'A5.Props.SrcTie.Hex']
SRC_TIE = True
LEVEL = 'proof'
EXPLANATION = ('Lean theorems for EVERY natural number n: parse(print(n)) = n; the text is non-empty, over 0-9a-f, without prefix/sign/padding ("0" only for n = 0); print is injective; '
               'upper case and leading zeros parse to the same value. hex() and int(.,16) are modelled from CPython\'s grammar (ASCII input) and tied by differential '
               'correspondence incl. a malformed-string stream. SOURCE-LEVEL TIE: hex.py is translated from the current source each run (A5/Gen/Src.lean) and proved equal to the model for every input (A5/Props/SrcTie/Hex.lean); the theorems are restated about the translated source.')
RULE = 'ops: values assembled from 2/4/8/16 lanes each drawn from {0, 1, small, sign bit, all-ones, near all-ones, random} (products of special lanes), 2^k +- j, all 16-bit lane values (step 17 quick / 1 thorough) with the other lanes 0 / all-ones, single bits and 2^k-1 up to 2^129, valid ids, random 64-bit, negative ints; parse side: fixed edge strings + random well-formed/malformed ASCII strings'
ASSUMPTIONS = ['hex()/int(s,16) behave as modelled (ASCII strings; non-ASCII digits/whitespace are outside the model)']
LEVEL_TEXT = 'machine-checked proof (Lean 4 kernel) for every natural number; the two CPython builtins the code consists of are modelled and tied by differential correspondence'
TECHNIQUE = 'Lean 4 proof (induction on the digit string) + differential correspondence of the builtin models + source translated to Lean each run (py2lean) with bridge theorems Src = Model'
DESIGN_REF = 'DESIGN.md §3 C19'

def gen_ops(tier, rng):
    return gens.hex_ops(tier, rng)

def check_n(drv, n, fails):
    a5 = drv.a5
    try:
        s = a5.u64_to_hex(n)
        back = a5.hex_to_u64(s)
    except Exception as e:  # noqa
        fails.append(Failure(f'hex round trip of {n} raises {type(e).__name__}', {'n': n})); return
    ok = back == n and s != '' and all(ch in '0123456789abcdef' for ch in s) and (s[0] != '0' or s == '0')
    if ok:
        try:
            ok = a5.hex_to_u64(s.upper()) == n and a5.hex_to_u64('000' + s) == n
        except Exception:
            ok = False
    if not ok:
        fails.append(Failure(f'u64_to_hex({n}) = {s!r}, parses back to {back}', {'n': n}))

def check_parse_then_print(drv, n, spelling, fails):
    """an id that arrives as text in any accepted spelling prints in the one canonical form (equal ids have equal strings)"""
    a5 = drv.a5
    try:
        v = a5.hex_to_u64(spelling)
        s = a5.u64_to_hex(n)
    except Exception as e:  # noqa
        fails.append(Failure(f'hex_to_u64({spelling!r}) then u64_to_hex({n}) raises {type(e).__name__}', {'n': n, 'spelling': spelling})); return
    if v != n or s != '%x' % n:
        fails.append(Failure(f'after hex_to_u64({spelling!r}) = {v}, u64_to_hex({n}) = {s!r} (canonical text is {"%x" % n!r})', {'n': n, 'spelling': spelling}))

def oracle(tier, rng, seeds):
    drv = common.py_driver()
    fails, seen = [], set()
    ns = []
    step = 257 if tier == 'quick' else 1
    for lane in (0, 16, 32, 48):
        for bg in (0, (1 << 64) - 1):
            for v in range(0, 65536, step):
                ns.append((bg & ~(0xffff << lane)) | (v << lane))
    ns += [1 << k for k in range(64)] + [(1 << k) - 1 for k in range(65)]
    ns += [gens.structured_u64(rng) for _ in range(20000 if tier == 'quick' else 2000000)]
    ns += [((1 << k) + j) % (1 << 64) for k in range(64) for j in (1, 2, 9, 10, 15, 16, 17, 255, 256, 257, 4095, 4096, 65535, 65536, -2, -16, -17, -256, -257)]
    ns += [random_valid_id(rng) for _ in range(2000)] + [rng.getrandbits(64) for _ in range(2000 if tier == 'quick' else 1500000)]
    for op in seeds:
        t = op.split()
        if t[0] == 'hex' and int(t[1]) >= 0:
            ns.insert(0, int(t[1]))
    byhex = {}
    # values that have not been printed before arrive as text first
    for _ in range(600 if tier == 'quick' else 60000):
        n = rng.getrandbits(rng.choice([8, 16, 32, 60, 64]))
        h = '%x' % n
        check_parse_then_print(drv, n, rng.choice([h.upper(), '0' * rng.randint(1, 4) + h, '0x' + h, ' ' + h.upper() + ' ', '0X' + h.upper()]), fails)
    for n in ns:
        if n in seen:
            continue
        seen.add(n)
        check_n(drv, n, fails)
        try:
            s = drv.a5.u64_to_hex(n)
            if byhex.setdefault(s, n) != n:
                fails.append(Failure(f'{n} and {byhex[s]} have the same hex text {s!r}', {'n': n}))
        except Exception:
            pass
    return fails, {'evaluations': len(seen), 'distinct_nontrivial': len(seen), 'failing': len(fails), 'samples': [{'n': n, 'hex': '%x' % n} for n in list(seen)[:3]]}

def replay(f):
    fails = []
    if 'spelling' in f['data']:
        check_parse_then_print(common.py_driver(), f['data']['n'], f['data']['spelling'], fails)
        return bool(fails)
    check_n(common.py_driver(), f['data']['n'], fails)
    return bool(fails)
