"""C18 — curve index <-> lattice position is a bijection for all orientations and levels."""
import gens, common
from common import Failure
from props._base import *  # noqa

LEAN_MODULES = ['A5.Props.C18', 'A5.Props.C02Centre']
LEVEL = 'proof'
EXPLANATION = ('Lean theorems, for EVERY level n, every index s < 4^n and all six orientations, in exact arithmetic (Q contains every double): s_to_anchor is total; '
               'ij_to_s(anchor(s) + delta) = s for ANY point delta strictly inside the anchor\'s unit triangle; distinct indices give distinct (offset, flips); every cell lies inside the '
               'segment triangle of side 2^n (all orientations); two cells never share an interior point; EVERY point of the closed segment triangle lies in the closed unit triangle of the cell whose index ij_to_s returns (`fill`: the 4^n cells exactly tile the triangle); '
               'the digit-shift transducer is a bijection of base-4 strings (both composites are the identity). Finite helpers (512-row shift step, patterns, kj table, flips) are tabulated from the '
               'real functions on their whole domain each run and re-decided by the kernel. The first former gap is now a theorem (`C02.centre_roundtrip`, exact arithmetic on the exact values of the double constants: the pentagon centroid of every cell, through face_to_ij, lies strictly inside its unit triangle with margin >= 1/10, levels <= 30). Named gap tied by the check: IEEE rounding in ij_to_s (the executable model runs on Lean Float = C double and is compared bit for bit).')
RULE = ('ops: s_to_anchor exhaustively for levels <= 5 (7 thorough) x 6 orientations, digit-pattern-directed and random indices up to level 28, out-of-range indices; ij_to_s on lattice points with '
        'adversarial offsets, random points and real cell centres; search: index -> anchor -> pentagon centre -> ij -> index round trip, distinctness, fill of the segment triangle, centre margin, prefix locality')
ASSUMPTIONS = ['floating-point rounding inside ij_to_s does not move a point across a lattice line (absolute error ~2^-24 at level 28 vs margin >= 0.1)',
               'sampled agreement of A5/Model/Hilbert.lean with a5/core/hilbert.py above the exhaustive levels']
LEVEL_TEXT = ('machine-checked proof (Lean 4 kernel) of the exact-arithmetic core for every level and orientation; finite helpers tied exhaustively via regenerated tables, the rest by differential '
              'correspondence (bit-exact floats); one numeric gap (IEEE rounding) named and measured')
TECHNIQUE = 'Lean 4 proof (transducer inverse by 256-case decide + induction; geometric decode over Q by induction) + exhaustive generated tables + differential correspondence'
DESIGN_REF = 'DESIGN.md §3 C18'

TRI = {  # unit triangle vertices relative to the anchor offset, per flips (YES = -1)
    (1, 1): ((0, 0), (1, 0), (0, 1)),
    (1, -1): ((0, 0), (-1, 1), (0, 1)),
    (-1, 1): ((0, 0), (0, -1), (1, -1)),
    (-1, -1): ((0, 0), (-1, 0), (0, -1)),
}

def centre_ij(drv, s, n, o):
    from a5.core.tiling import get_pentagon_vertices
    from a5.core.coordinate_transforms import face_to_ij
    a = drv.hb.s_to_anchor(s, n, o)
    c = get_pentagon_vertices(n, 0, a).get_center()
    ij = face_to_ij((c[0] * 2 ** n, c[1] * 2 ** n))
    return a, ij

def inside_margin(a, ij):
    """barycentric-style margin of ij inside the anchor's unit triangle (min of the three strict inequalities)"""
    u, v = ij[0] - a.offset[0], ij[1] - a.offset[1]
    f = (a.flips[0], a.flips[1])
    if f == (1, 1):
        return min(u, v, 1 - (u + v))
    if f == (1, -1):
        return min(-u, 1 - v, u + v)
    if f == (-1, 1):
        return min(u, v + 1, -(u + v))
    return min(-u, -v, u + v + 1)

def check_index(drv, s, n, o, fails, stats):
    try:
        a, ij = centre_ij(drv, s, n, o)
        back = drv.hb.ij_to_s(ij, n, o)
    except Exception as e:  # noqa
        fails.append(Failure(f'index {s} level {n} orientation {o}: {type(e).__name__} in the round trip', {'s': s, 'n': n, 'o': o})); return None
    m = inside_margin(a, ij)
    stats['min_margin'] = min(stats.get('min_margin', 9.0), m)
    if back != s:
        fails.append(Failure(f'index {s} at level {n}, orientation {o}: centre maps back to index {back}', {'s': s, 'n': n, 'o': o})); return None
    if m < 0.05:
        fails.append(Failure(f'index {s} level {n} orientation {o}: pentagon centre only {m:.4f} inside its lattice triangle', {'s': s, 'n': n, 'o': o})); return None
    return a

def check_level(drv, n, o, fails, stats):
    seen = {}
    tris = set()
    m = 2 ** n
    for s in range(4 ** n):
        a = check_index(drv, s, n, o, fails, stats)
        if a is None:
            return
        key = (a.offset[0], a.offset[1], a.flips)
        if key in seen:
            fails.append(Failure(f'indices {seen[key]} and {s} (level {n}, {o}) give the same lattice cell', {'s': s, 'n': n, 'o': o})); return
        seen[key] = s
        vs = frozenset((a.offset[0] + dx, a.offset[1] + dy) for dx, dy in TRI[a.flips])
        if any(x < 0 or y < 0 or x + y > m for x, y in vs):
            fails.append(Failure(f'index {s} (level {n}, {o}) lies outside the segment triangle', {'s': s, 'n': n, 'o': o})); return
        tris.add(vs)
    if len(tris) != 4 ** n:
        fails.append(Failure(f'level {n}, {o}: the {4 ** n} indices cover only {len(tris)} distinct unit triangles', {'s': 0, 'n': n, 'o': o}))

def check_batch(drv, n, o, q, fails):
    """all cells of a segment are built first and only then examined (a caller that keeps the shapes):
    every centre maps back to its own index and the 4^n cells are pairwise distinct"""
    from a5.core.tiling import get_pentagon_vertices
    from a5.core.coordinate_transforms import face_to_ij
    try:
        anchors = [drv.hb.s_to_anchor(s, n, o) for s in range(4 ** n)]
        shapes = [get_pentagon_vertices(n, 0, a) for a in anchors]
        centres = [sh.get_center() for sh in shapes]
        backs = [drv.hb.ij_to_s(face_to_ij((c[0] * 2 ** n, c[1] * 2 ** n)), n, o) for c in centres]
    except Exception as e:  # noqa
        fails.append(Failure(f'building the {4 ** n} cells of level {n} ({o}) raises {type(e).__name__}', {'batch': True, 'n': n, 'o': o, 'q': q})); return
    bad = [s for s, b in enumerate(backs) if b != s]
    if bad:
        fails.append(Failure(f'level {n}, orientation {o}: after building all {4 ** n} cells, the centre of the cell built for index {bad[0]} maps back to index {backs[bad[0]]} '
                             f'({len(bad)} of {4 ** n} indices affected; {len(set((round(c[0], 12), round(c[1], 12)) for c in centres))} distinct centres)',
                             {'batch': True, 'n': n, 'o': o, 'q': q}))

def oracle(tier, rng, seeds):
    drv = common.py_driver()
    fails, stats, cnt = [], {}, 0
    for n in range(1, 4 if tier == 'quick' else 6):
        for o in gens.ORIENTS:
            check_batch(drv, n, o, 0, fails); cnt += 4 ** n
    top = 4 if tier == 'quick' else 7
    for n in range(0, top + 1):
        for o in gens.ORIENTS:
            check_level(drv, n, o, fails, stats); cnt += 4 ** n
    for n in range(top + 1, 29):
        for o in gens.ORIENTS:
            sv = gens.hilbert_s_values(n, tier, rng)
            if tier == 'quick':
                sv = rng.sample(sv, min(len(sv), 40))
            for s in sv:
                a = check_index(drv, s, n, o, fails, stats); cnt += 1
                # prefix locality: the level-k ancestor (index >> 2(n-k)) is at most one cell away at level k
                if a is not None and n >= 2 and rng.random() < 0.3:
                    k = rng.randint(1, n - 1)
                    try:
                        ap = drv.hb.s_to_anchor(s >> (2 * (n - k)), k, o)
                        sc = 2 ** (n - k)
                        cx = sum(a.offset[0] + d[0] for d in TRI[a.flips]) / 3 / sc
                        cy = sum(a.offset[1] + d[1] for d in TRI[a.flips]) / 3 / sc
                        px = sum(ap.offset[0] + d[0] for d in TRI[ap.flips]) / 3
                        py = sum(ap.offset[1] + d[1] for d in TRI[ap.flips]) / 3
                        if max(abs(cx - px), abs(cy - py), abs(cx + cy - px - py)) > 1.5:
                            fails.append(Failure(f'index {s} (level {n}, {o}) is {max(abs(cx-px),abs(cy-py)):.2f} level-{k} cells away from the cell of its first {k} digits', {'s': s, 'n': n, 'o': o}))
                    except Exception:
                        pass
            if len(fails) > 50:
                break
    for op in seeds:
        t = op.split()
        try:
            if t[0] == 's2a' and int(t[1]) < 4 ** int(t[2]):
                check_index(drv, int(t[1]), int(t[2]), t[3], fails, stats); cnt += 1
        except Exception:
            pass
    return fails, {'evaluations': cnt, 'distinct_nontrivial': cnt, 'failing': len(fails), 'min_centre_margin': stats.get('min_margin'),
                   'samples': [{'s': 27, 'n': 3, 'o': 'vw'}]}

def gen_ops(tier, rng):
    drv = common.py_driver()
    centers = []
    for n in range(1, 29):
        for _ in range(6 if tier == 'quick' else 60):
            s = rng.randrange(4 ** n); o = rng.choice(gens.ORIENTS)
            try:
                a, ij = centre_ij(drv, s, n, o)
                centers.append((ij[0], ij[1], n))
            except Exception:
                pass
    ops = gens.hilbert_ops(tier, rng, centers)
    # planar placement of the cell of an index (shape vertices and centre), consecutive indices so that a shape is still held while the next is built
    for n in range(1, 29, 3):
        for o in gens.ORIENTS[:3] if tier == 'quick' else gens.ORIENTS:
            s0 = rng.randrange(4 ** n)
            for s1 in range(s0, min(4 ** n, s0 + 3)):
                ops.append(f'pent {n} {rng.randrange(5)} {s1} {o}')
    return ops

def replay(f):
    fails = []
    d = f['data']
    if d.get('batch'):
        check_batch(common.py_driver(), d['n'], d['o'], d['q'], fails)
        return bool(fails)
    check_index(common.py_driver(), d['s'], d['n'], d['o'], fails, {})
    return bool(fails)
