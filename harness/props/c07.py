"""C07 — the id hierarchy is spatially coherent (partial)."""
import common, geo_checks as K, geo_gens
from common import Failure
from props._geo import *  # noqa
from refids import ref_res

LEAN_MODULES = ['A5.Props.C07']
LEVEL = 'other'
EXPLANATION = ('PROVED (Lean, exact arithmetic, unbounded depth): telescoping — if every one-level step moves the centre by at most kappa parent widths and widths halve per level, any descendant at any depth lies within 2*kappa widths of its ancestor\'s centre; with the measured kappa <= 0.72 that is 1.44 < 1.5. '
               'Face/segment nesting at resolutions -1, 0, 1 is exact in the id tree (C06). ' + TIE +
               'ASSUMED (numeric, measured every run on the real code): H-step the one-level drift is <= 0.72 parent widths at every level (measured max 0.703); H-nest faces and their segments share corners exactly; point-to-ancestor distance <= 2.5 widths.')
RULE = 'cells at resolutions 0..28 (low levels exhaustively, structured positions, polar/frame cells) x random descent paths of 6 (quick) / 12 (thorough) levels incl. first/last children; points x ancestor levels'
ASSUMPTIONS = ['H-step (one-level drift bound)', 'H-nest', 'bit-exact model agreement beyond the samples']
LEVEL_TEXT = 'partial: the lift from a one-level drift bound to every depth is a machine-checked theorem; the one-level bound itself is numeric and measured on every run'
LEVEL_NOTE = 'trusted: Lean kernel + standard axioms; bit-exact correspondence of the Float model; the independent distance oracle'
TECHNIQUE = 'Lean 4 proof (geometric series over the descent path) + measured one-step table + assumption sweep'
DESIGN_REF = 'DESIGN.md §3 C07'

def gen_ops(tier, rng):
    return cell_ops(tier, rng, 150 if tier == 'quick' else 3000)

def oracle(tier, rng, seeds):
    drv = common.py_driver()
    a5 = drv.a5
    fails, st, n = [], {}, 0
    depth = 6 if tier == 'quick' else 12
    for c in geo_gens.cells(drv, tier, rng, 300 if tier == 'quick' else 10000):
        if c and ref_res(c) <= 28:
            for _ in range(2):
                K.check_descent(a5, c, depth, rng, fails, st); n += 1
        if len(fails) > 20:
            break
    K.check_nesting(a5, fails)
    for p in geo_gens.points(drv, tier, rng, 100 if tier == 'quick' else 5000)[: (400 if tier == 'quick' else 99999)]:
        r = rng.randint(3, 29)
        K.check_ancestor_of_point(a5, p, r, rng.randint(0, r - 1), fails); n += 1
    if st.get('max_step', 0) > 0.72:
        fails.append(Failure(f'one-level drift {st["max_step"]:.3f} parent widths exceeds the bound 0.72 used by the telescoping theorem', {'kind': 'step'}))
    return fails, {'evaluations': n, 'distinct_nontrivial': n, 'failing': len(fails), **st, 'samples': [{'cell': '0x1a80000000000000', 'depth': depth}]}

def replay(f):
    import random
    fails = []
    d = f['data']
    a5 = common.py_driver().a5
    if d['kind'] == 'descent':
        for s in range(40):
            K.check_descent(a5, d['cell'], 12, random.Random(s), fails, {})
    elif d['kind'] == 'anc':
        K.check_ancestor_of_point(a5, tuple(d['p']), d['r'], d['r2'], fails)
    else:
        K.check_nesting(a5, fails)
    return bool(fails)
