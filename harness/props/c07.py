"""C07 — the id hierarchy is spatially coherent (partial)."""
import common, geo_checks as K, geo_gens
from common import Failure
from props._geo import *  # noqa
from refids import ref_res

LEAN_MODULES = ['A5.Props.C07', 'A5.Props.C07Planar']
LEVEL = 'other'
EXPLANATION = ('PROVED (Lean, exact arithmetic on the exact values of the implementation\'s double constants, EVERY Hilbert level, every index, all six orientations, unbounded depth — `one_step`, `planar_coherence`): '
               'the planar centroid of the pentagon of index s at level n+1 lies within 0.46 parent widths of the centroid of index s/4 at level n (the parent and child anchors differ only in the last step of the digit transducer, '
               'so the displacement is one of 192 table entries, each bounded by the kernel), hence any descendant at any depth lies within 0.92 widths of its ancestor in the face plane. '
               'PROVED (abstract): telescoping — if every one-level step moves the centre by at most kappa parent widths and widths halve per level, any descendant at any depth lies within 2*kappa widths of its ancestor\'s centre; with the measured kappa <= 0.72 that is 1.44 < 1.5. '
               'Face/segment nesting at resolutions -1, 0, 1 is exact in the id tree (C06). ' + TIE +
               'ASSUMED (numeric, measured every run on the real code): H-sphere the projection from the face plane to the sphere keeps the one-level drift <= 0.72 parent widths (planar 0.46 proved; spherical measured max 0.703, i.e. a distance distortion <= 1.53 at cell scale) and the steps below the curve (resolutions -1, 0, 1); H-nest faces and their segments share corners exactly; point-to-ancestor distance <= 2.5 widths.')
RULE = 'cells at resolutions 0..28 (low levels exhaustively, structured positions, polar/frame cells) x random descent paths of 6 (quick) / 12 (thorough) levels incl. first/last children; points x ancestor levels'
ASSUMPTIONS = ['H-sphere (planar -> spherical distance distortion at cell scale; levels below the curve)', 'H-nest', 'bit-exact model agreement beyond the samples']
LEVEL_TEXT = 'partial: planar coherence (one-level bound 0.46 and its lift to every depth, all levels/orientations) is a machine-checked theorem about the model\'s own anchor and placement functions; the spherical one-level bound is numeric and measured on every run'
LEVEL_NOTE = 'trusted: Lean kernel + standard axioms; bit-exact correspondence of the Float model; the independent distance oracle'
TECHNIQUE = 'Lean 4 proof (transducer prefix structure + kernel-decided 192-entry rational step table + geometric series in C) + measured spherical step + assumption sweep'
DESIGN_REF = 'DESIGN.md §3 C07'

def gen_ops(tier, rng):
    return cell_ops(tier, rng, 150 if tier == 'quick' else 3000) + point_ops(tier, rng, 60 if tier == 'quick' else 2000)

def planar_step_max(a5, top):
    """max planar parent->child centroid displacement in parent widths, exhaustively for Hilbert levels 1..top, six orientations (the quantity bounded by C07.one_step)"""
    import math
    from a5.core import hilbert as H
    from a5.core.tiling import get_pentagon_vertices
    from a5.core.pentagon import PENTAGON
    A = abs(PENTAGON.get_area())
    def cen(res, an):
        vs = get_pentagon_vertices(res, 0, an).get_vertices()
        return (sum(v[0] for v in vs) / 5, sum(v[1] for v in vs) / 5)
    mx = 0.0
    for o in ('uv', 'vu', 'uw', 'wu', 'vw', 'wv'):
        for n in range(1, top + 1):
            W = math.sqrt(A) / 2 ** n
            pc = [cen(n, H.s_to_anchor(s, n, o)) for s in range(4 ** n)]
            for s in range(4 ** (n + 1)):
                c = cen(n + 1, H.s_to_anchor(s, n + 1, o))
                mx = max(mx, math.hypot(c[0] - pc[s >> 2][0], c[1] - pc[s >> 2][1]) / W)
    return mx

def oracle(tier, rng, seeds):
    drv = common.py_driver()
    a5 = drv.a5
    fails, st, n = [], {}, 0
    depth = 6 if tier == 'quick' else 12
    for c in geo_gens.cells(drv, tier, rng, 300 if tier == 'quick' else 10000):
        if c and ref_res(c) <= 28:
            for _ in range(2):
                K.check_descent(a5, c, depth, rng, fails, st); n += 1
        if len(fails) > 20:
            break
    K.check_nesting(a5, fails)
    for op in seeds:            # points on which model and implementation disagree: every coarser level of the cell found there
        t = op.split()
        if t[0] == 'l2c' and 1 <= int(t[3]) <= 29:
            from py_driver import bits2f
            for r2 in sorted({max(0, int(t[3]) - k) for k in (1, 2, 3, 5, 8)}):
                if r2 < int(t[3]):
                    K.check_ancestor_of_point(a5, (bits2f(t[1]), bits2f(t[2])), int(t[3]), r2, fails); n += 1
        if len(fails) > 20:
            break
    for p in geo_gens.points(drv, tier, rng, 100 if tier == 'quick' else 5000)[: (600 if tier == 'quick' else 99999)]:
        r = rng.randint(3, 29)
        # a nearby coarser level (where a misplaced fine cell shows) or any coarser level
        K.check_ancestor_of_point(a5, p, r, max(0, r - rng.choice([1, 1, 2, 4])) if rng.random() < 0.6 else rng.randint(0, r - 1), fails); n += 1
    pm = planar_step_max(a5, 3 if tier == 'quick' else 6)
    st['planar_max_step'] = pm
    if pm > 0.46 + 1e-9:
        fails.append(Failure(f'planar one-level drift {pm:.4f} parent widths exceeds the bound 0.46 proved for the model (Props/C07Planar.one_step): the anchor/placement functions no longer behave like the model', {'kind': 'planar-step'}))
    if st.get('max_step', 0) > 0.72:
        fails.append(Failure(f'one-level drift {st["max_step"]:.3f} parent widths exceeds the bound 0.72 used by the telescoping theorem', {'kind': 'step'}))
    return fails, {'evaluations': n, 'distinct_nontrivial': n, 'failing': len(fails), **st, 'samples': [{'cell': '0x1a80000000000000', 'depth': depth}]}

def replay(f):
    import random
    fails = []
    d = f['data']
    a5 = common.py_driver().a5
    if d['kind'] == 'descent':
        for s in range(40):
            K.check_descent(a5, d['cell'], 12, random.Random(s), fails, {})
    elif d['kind'] == 'anc':
        K.check_ancestor_of_point(a5, tuple(d['p']), d['r'], d['r2'], fails)
    else:
        K.check_nesting(a5, fails)
    for op in seeds:            # points on which model and implementation disagree: every coarser level of the cell found there
        t = op.split()
        if t[0] == 'l2c' and 1 <= int(t[3]) <= 29:
            from py_driver import bits2f
            for r2 in sorted({max(0, int(t[3]) - k) for k in (1, 2, 3, 5, 8)}):
                if r2 < int(t[3]):
                    K.check_ancestor_of_point(a5, (bits2f(t[1]), bits2f(t[2])), int(t[3]), r2, fails); n += 1
        if len(fails) > 20:
            break
    return bool(fails)
