"""C15 — geodetic <-> authalic latitude conversion is accurate and invertible (partial)."""
import math, struct, common, geo_oracle
from common import Failure
from props._base import *  # noqa

LEAN_MODULES = ['A5.Props.C15', 'A5.Props.C15Mono']
LEVEL = 'other'
EXPLANATION = ('PROVED (Lean, over the reals, for ANY six coefficients): the conversion is odd, fixes 0 and +-pi/2, and its correction term is sin(2 phi) times a polynomial. '
               'PROVED (Lean, over the reals, for the implementation\'s own coefficients, regenerated as exact rationals each run): both series are STRICTLY INCREASING on all of R '
               '(the correction is Lipschitz with constant 2*a4+4*l4 < 1 computed from the coefficient magnitudes), hence each maps [-pi/2, pi/2] bijectively onto itself. '
               'TIED: the executable Lean model on IEEE doubles (same operation order, same libm) is compared bit for bit with AuthalicProjection.forward/inverse on a dense grid plus log-spaced approaches to 0 and +-90 degrees; '
               'the coefficient tables are regenerated from the source each run. '
               'ASSUMED (named, exercised every run by a sweep against the closed-form WGS84 authalic latitude, pole-safe, validated against 50-digit arithmetic): H-accuracy |forward - closed form| <= 1e-10 rad, '
               'H-inverse |inverse(forward(x)) - x| <= 1e-12 rad, H-monotone-fp: rounding does not destroy strictness between the sampled doubles.')
RULE = 'grid of latitudes (2e4 quick / 1e6 thorough) plus log-spaced approaches (1e-1..1e-300 from 0, 1e-1..1e-15 from +-pi/2); from_lonlat/to_lonlat on the same latitudes'
ASSUMPTIONS = ['H-accuracy: |forward(phi) - closed-form authalic latitude| <= 1e-10 rad', 'H-inverse: |inverse(forward(phi)) - phi| <= 1e-12 rad',
               'H-monotone-fp: the real-number strict monotonicity (proved) survives IEEE rounding on the sampled latitudes', 'libm sin/cos of the host = those of the Lean runtime (checked bit for bit on every run)']
LEVEL_TEXT = ('partial: oddness, fixed points (arbitrary coefficients) and strict monotonicity + bijectivity on [-pi/2, pi/2] (the implementation coefficients) are machine-checked theorems over the reals; the floating-point function is modelled bit-exactly and compared on every run; '
              'the two tolerance clauses and the floating-point survival of monotonicity are named assumptions exercised by a sweep against an independent closed form — validated numerics over a continuum at 1e-12 is not practical in-kernel')
LEVEL_NOTE = 'trusted: Lean kernel + standard axioms (Mathlib real analysis); bit-exact correspondence of the Float model; the closed-form oracle (checked against 50-digit arithmetic while building)'
TECHNIQUE = 'Lean 4 proof of the real-number structure + bit-exact Float model correspondence + assumption sweep against the closed form'
DESIGN_REF = 'DESIGN.md §3 C15'

def fb(x):
    return struct.unpack('<Q', struct.pack('<d', float(x)))[0]

def latitudes(tier):
    N = 20001 if tier == 'quick' else 4000001
    for k in range(N):
        yield -math.pi / 2 + math.pi * k / (N - 1)
    for k in range(1, 3000, 7 if tier == 'quick' else 1):
        yield 10 ** (-k / 10); yield -10 ** (-k / 10)
    for k in range(1, 160):
        for sg in (1, -1):
            yield sg * (math.pi / 2 - 10 ** (-k / 10))
    yield 0.0; yield math.pi / 2; yield -math.pi / 2

def gen_ops(tier, rng):
    ops = []
    step = 1 if tier == 'quick' else 25
    for i, phi in enumerate(latitudes(tier)):
        if i % step == 0:
            ops.append(f'auth fwd {fb(phi)}'); ops.append(f'auth inv {fb(phi)}')
    for _ in range(2000):
        x = rng.uniform(-4, 4)
        ops.append(f'auth fwd {fb(x)}'); ops.append(f'auth inv {fb(x)}')
    return ops

def check_phi(A, phi, fails, st):
    f = A.forward(phi)
    ex = geo_oracle.authalic_lat(phi)
    d = abs(f - ex)
    st['max_accuracy_err'] = max(st.get('max_accuracy_err', 0.0), d)
    if not d <= 1e-10:
        fails.append(Failure(f'forward({phi!r}) = {f!r} differs from the closed-form authalic latitude {ex!r} by {d:.3e} rad', {'phi': phi})); return
    g = A.inverse(f)
    st['max_inverse_err'] = max(st.get('max_inverse_err', 0.0), abs(g - phi))
    if not abs(g - phi) <= 1e-12:
        fails.append(Failure(f'inverse(forward({phi!r})) = {g!r}, off by {abs(g-phi):.3e} rad', {'phi': phi})); return
    if A.forward(-phi) != -f:
        fails.append(Failure(f'forward is not odd at {phi!r}: {A.forward(-phi)!r} vs {-f!r}', {'phi': phi}))

def oracle(tier, rng, seeds):
    common.py_driver()
    from a5.projections.authalic import AuthalicProjection
    from a5.core.coordinate_transforms import from_lonlat, to_lonlat
    A = AuthalicProjection()
    fails, st, n = [], {}, 0
    prev = None
    grid = 20001 if tier == 'quick' else 4000001
    for i, phi in enumerate(latitudes(tier)):
        check_phi(A, phi, fails, st); n += 1
        if i < grid:
            f = A.forward(phi)
            if prev is not None and not f > prev[1]:
                fails.append(Failure(f'forward not strictly increasing between {prev[0]!r} and {phi!r}', {'phi': phi}))
            prev = (phi, f)
        if len(fails) > 20:
            break
    for v, want in ((0.0, 0.0), (math.pi / 2, math.pi / 2), (-math.pi / 2, -math.pi / 2)):
        for fn in (A.forward, A.inverse):
            if abs(fn(v) - want) > 1e-15:
                fails.append(Failure(f'{fn.__name__}({v!r}) = {fn(v)!r}, expected {want!r}', {'phi': v}))
    # the public conversions use it consistently
    for _ in range(500):
        lat = rng.uniform(-90, 90); lon = rng.uniform(-180, 180)
        th, ph = from_lonlat((lon, lat))
        ex = math.pi / 2 - geo_oracle.authalic_lat(math.radians(lat))
        if abs(ph - ex) > 2e-10:
            fails.append(Failure(f'from_lonlat(({lon},{lat})) colatitude {ph!r} differs from the closed form {ex!r}', {'phi': math.radians(lat)}))
        lo2, la2 = to_lonlat((th, ph))
        if abs(la2 - lat) > 1e-9:
            fails.append(Failure(f'to_lonlat(from_lonlat(.)) changes the latitude {lat} -> {la2}', {'phi': math.radians(lat)}))
        n += 1
    for op in seeds:
        t = op.split()
        try:
            x = struct.unpack('<d', struct.pack('<Q', int(t[2])))[0]
            if abs(x) <= math.pi / 2:
                check_phi(A, x, fails, st)
        except Exception:
            pass
    return fails, {'evaluations': n, 'distinct_nontrivial': n, 'failing': len(fails), **st, 'samples': [{'phi': 0.7}, {'phi': math.pi / 2 - 1e-9}]}

def replay(f):
    common.py_driver()
    from a5.projections.authalic import AuthalicProjection
    fails = []
    check_phi(AuthalicProjection(), f['data']['phi'], fails, {})
    return bool(fails)
