"""C16 — results do not depend on what other threads are doing."""
import os, json, random, common, effects
from common import Failure
from props._base import *  # noqa

LEAN_MODULES = ['A5.Props.C16']
LEVEL = 'proof'
EXPLANATION = ('Lean theorem (no bound on threads, schedule or history): a call that touches shared state only through the memo discipline (lazily filled slots holding a function of their key, an inert '
               'counter, read-only tables) returns its single-threaded value under ARBITRARY interference by other such calls and preserves the invariant; the cache pattern memo(s, compute) and '
               'sequencing are disciplined; a shared scratch register is NOT interference free (explicit witness schedule = the defect repaired by fix bb633ab). '
               'Membership of the code in the disciplined class is tied, not proved: AST inventory of every module-level mutable object and every instance attribute written outside __init__ must equal '
               'the committed shared_state.json; at run time logging proxies on the three caches check that every write stores the value a fresh instance computes for that key and that tables never change.')
RULE = ('tie: static inventory + N sampled API calls under cache proxies; search: for pairs (A, B) of API calls every/sampled line-level preemption point of A at which B runs to completion '
        '(context bound 2, sys.settrace), then 8 free-running threads with a 1 microsecond switch interval')
ASSUMPTIONS = ['the code is in the disciplined class (checked statically and on sampled calls, not proved)', 'a single list/dict operation is atomic under the GIL',
               'preemption is explored at line granularity; bytecode-level interleavings inside one line are covered only by the free-running soak']
LEVEL_TEXT = ('machine-checked proof (Lean 4 kernel) of non-interference for the protocol (any schedule, any number of threads); that the code follows the protocol is a checked tie '
              '(static inventory equality + runtime proxies), not a theorem')
TECHNIQUE = 'Lean 4 rely/guarantee non-interference proof over an effect model + static/runtime discipline tie + systematic preemption search'
DESIGN_REF = 'DESIGN.md §3 C16'

def gen_ops(tier, rng):
    return []

def inventory_tie():
    broken = []
    cur = effects.static_inventory()
    ref = json.load(open(os.path.join(common.VERIF, 'shared_state.json')))
    def norm(sect, v):
        # for an object nobody writes (a read-only table) the set of readers is irrelevant: moving a read into a helper is not a change of
        # the sharing discipline.  As soon as one use is a write, every reader matters (it can observe the write).
        # An object nobody writes is no shared *state* at all: whether it exists, what container type it is (a table turned into a tuple) and whether
        # it was deleted as dead code do not change the discipline either.
        if sect == 'module_objects' and (v is None or isinstance(v, dict)):
            uses = (v or {}).get('uses', [])
            if not any(':write' in u for u in uses):
                return '<nothing written>'
        return v
    for sect in ('module_objects', 'instance_state', 'function_state'):
        for k in sorted(set(cur[sect]) | set(ref.get(sect, {}))):
            if norm(sect, cur[sect].get(k)) != norm(sect, ref.get(sect, {}).get(k)):
                broken.append(f'shared-state inventory changed at {k}: committed {ref[sect].get(k)} now {cur[sect].get(k)}')
    return broken, {'inventory_objects': len(cur['module_objects']), 'inventory_instance_attrs': len(cur['instance_state'])}

def extra_tie(tier, rng):
    broken, st = inventory_tie()
    probs, st2 = effects.runtime_discipline(rng, 150 if tier == 'quick' else 1500)
    for p in probs[:20]:
        broken.append('cache discipline: ' + p)
    st.update(st2)
    probs3, st3 = effects.state_observation(rng, 60 if tier == 'quick' else 600, 12 if tier == 'quick' else 60)
    for p in probs3[:20]:
        broken.append('state observation: ' + p)
    st.update(st3)
    return {'broken': broken, 'seeds': [], 'discipline': st}

def oracle(tier, rng, seeds):
    fails = []
    calls = effects.api_calls(rng, 60)
    heavy = [c for c in calls if c[0] in ('lonlat_to_cell', 'cell_to_lonlat', 'cell_to_boundary')]
    pairs = []
    for i in range(10 if tier == 'quick' else 30):
        a = rng.choice(heavy)
        pairs.append((a, rng.choice(heavy)))
        pairs.append((a, a))
    for i in range(4 if tier == 'quick' else 20):
        pairs.append((rng.choice(calls), rng.choice(calls)))
    # inventory-directed pairs: calls that both run through a function touching shared state (writes, or uses the committed inventory does not list)
    ref = json.load(open(os.path.join(common.VERIF, 'shared_state.json')))
    dpairs, crit, reach = effects.directed_pairs(rng, ref, 6 if tier == 'quick' else 10)
    f0, s0 = ([], {'preemption_points': 0})
    if dpairs:
        # every line event between a touch of the shared object and the end of that frame (callees included), B running through the same code
        f0, s0 = effects.preemption_search(rng, dpairs, 400 if tier == 'quick' else 3000, hot=crit, only_hot=True, stop_after=1)
        if not f0:
            f0, s0b = effects.preemption_search(rng, dpairs, 400 if tier == 'quick' else 3000, hot=crit, only_hot=True, stop_after=1, warm=True)
            s0['preemption_points'] += s0b['preemption_points']
        if not f0:
            f0, s0b = effects.preemption_search(rng, dpairs, 200 if tier == 'quick' else 1500, hot=crit, only_hot=True, stop_after=1, busy=effects.global_workload(rng, 90))
            s0['preemption_points'] += s0b['preemption_points']
        if not f0:
            f0, s0b = effects.preemption_search(rng, dpairs, 150 if tier == 'quick' else 1000, hot=crit, only_hot=True, stop_after=1, reimport=True)
            s0['preemption_points'] += s0b['preemption_points']
    f1, s1 = effects.preemption_search(rng, ('auto', pairs, 6 if tier == 'quick' else 30), 60 if tier == 'quick' else 250, hot=crit)
    f1 = f0 + f1
    s1['preemption_points'] += s0['preemption_points']
    s1['directed_pairs'] = len(dpairs); s1['directed_points'] = s0['preemption_points']; s1['hot_functions'] = reach
    for f in f1:
        fails.append(Failure(f['what'], {'kind': 'preempt', 'A': f['A'], 'B': f['B'], 'k': f['k'], 'warm': f.get('warm', False), 'busy': f.get('busy', []), 'reimport': f.get('reimport', False)}))
    f2, s2 = effects.thread_soak(rng, 120 if tier == 'quick' else 1000, 8, 2 if tier == 'quick' else 4)
    for f in f2:
        fails.append(Failure(f['what'], {'kind': 'soak', 'call': f['call']}))
    stats = {'evaluations': s1['preemption_points'] + s2['thread_calls'], 'distinct_nontrivial': s1['preemption_points'], 'failing': len(fails), **s1, **s2,
             'samples': [{'A': str(pairs[0][0]), 'B': str(pairs[0][1])}]}
    return fails, stats

def replay(f):
    d = f['data']
    if d['kind'] == 'preempt':
        A = (d['A'][0], tuple(tuple(x) if isinstance(x, list) and len(x) == 2 and all(isinstance(y, float) for y in x) else x for x in d['A'][1]))
        B = (d['B'][0], tuple(tuple(x) if isinstance(x, list) and len(x) == 2 and all(isinstance(y, float) for y in x) else x for x in d['B'][1]))
        def _fix(c):
            return (c[0], tuple(tuple(x) if isinstance(x, list) and len(x) == 2 and all(isinstance(y, float) for y in x) else x for x in c[1]))
        fl, _ = effects.preemption_search(random.Random(0), [(A, B)], 100000, warm=d.get('warm', False), busy=[_fix(c) for c in d.get('busy', [])] or None, reimport=d.get('reimport', False))
        return bool(fl)
    fl, _ = effects.thread_soak(random.Random(0), 200)
    return bool(fl)
