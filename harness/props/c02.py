"""C02 — a cell's centre maps back to the same cell (partial)."""
import math, common, geo_oracle as G, geo_gens
from common import Failure
from props._base import *  # noqa
from refids import ref_res, ref_decode

LEAN_MODULES = ['A5.Props.C02', 'A5.Props.C02Centre', 'A5.Props.C02Inside']
LEVEL = 'other'
EXPLANATION = ('NEW: planar half of the strictly-inside clause is a theorem (C02.centre_strictly_inside_planar): for every level, anchor and invertible quintant matrix the vertex mean of the placed pentagon lies strictly on the inner side of its five edges (affine invariance + kernel-decided base case on the exact rational values of the double constants). '
               'PROVED (Lean): the world cell maps to (0,0); in exact arithmetic the repaired wrap sends every value of [-540,540] (in particular theta-93 in (-273,87]) into [-180,180] by whole turns and leaves in-range values untouched; '
               'whatever lonlat_to_cell returns for the centre has the resolution asked for; the lattice round trip holds whenever the centre lies in its unit triangle (C18); '
               'and UNCONDITIONALLY in exact arithmetic on the exact values of the double constants (`centre_roundtrip`): for every Hilbert level <= 30, every index and all six orientations the centroid of the cell\'s planar pentagon, taken through face_to_ij, is mapped by ij_to_s to the cell\'s own index (all 16 shapes keep a margin >= 1/10 from their unit triangle; BASIS_INVERSE*BASIS - I is bounded by 2^-50). '
               'TIED: cell_to_lonlat and lonlat_to_cell are compared bit for bit with their full IEEE-double Lean model every run. '
               'ASSUMED (numeric, swept each run): H-roundtrip lonlat_to_cell(cell_to_lonlat(c), res c) = c (what is left of it: the projection round trip plane -> sphere -> plane stays within the proved lattice margin, and IEEE rounding); H-inside the centre lies strictly inside the ring of c; H-range longitude/latitude ranges in floating point.')
RULE = 'cells: all of resolutions 0..2 (quick) / 0..4 (thorough); structured positions (all-0, all-3, 0333.., 1000.., alternating) on random faces/segments for resolutions 2..29; cells found at poles, frame points and the antimeridian; random cells'
ASSUMPTIONS = ['H-roundtrip', 'H-inside', 'H-range', 'bit-exact agreement of the Lean Float model with the implementation beyond the sampled cells']
LEVEL_TEXT = 'partial: range of the wrapped longitude, world cell, resolution of the round-trip result and the whole lattice half of the round trip (centre -> face_to_ij -> ij_to_s = index, every level/orientation, exact arithmetic) are machine-checked; the round trip itself is numeric and is a named assumption swept on structured and adversarial cells'
TECHNIQUE = 'Lean 4 proof (wrap range, decision logic, lattice round trip with kernel-decided shape margins) on a bit-exact executable model + assumption sweep'
DESIGN_REF = 'DESIGN.md §3 C02'

def gen_ops(tier, rng):
    drv = common.py_driver()
    cs = geo_gens.cells(drv, tier, rng, 200 if tier == 'quick' else 5000)
    if tier == 'quick' and len(cs) > 900:
        cs = rng.sample(cs, 900)
    ops = [f'c2l {c}' for c in cs] + ['c2l 0']
    # the way back: lonlat_to_cell at the implementation's own centre (ties find_nearest_origin + the sampling spiral on exactly the points the property quantifies over)
    for c in cs[:: (3 if tier == 'quick' else 2)]:
        try:
            lo, la = drv.a5.cell_to_lonlat(c)
        except Exception:  # noqa
            continue
        ops.append(f'l2c {geo_gens.fb(lo)} {geo_gens.fb(la)} {ref_res(c)}')
    return ops

@common.guarded(lambda **a: f"centre round trip of cell {hex(a['c'])}", lambda **a: {'cell': a['c']})
def check_cell(drv, c, fails):
    a5 = drv.a5
    r = ref_res(c)
    try:
        p = a5.cell_to_lonlat(c)
    except Exception as e:  # noqa
        fails.append(Failure(f'cell_to_lonlat({hex(c)}) raises {type(e).__name__}', {'cell': c})); return
    if not (-180 <= p[0] <= 180 and -90 <= p[1] <= 90):
        fails.append(Failure(f'cell_to_lonlat({hex(c)}) = {p}: outside [-180,180] x [-90,90]', {'cell': c})); return
    try:
        back = a5.lonlat_to_cell(p, r)
    except Exception as e:  # noqa
        fails.append(Failure(f'lonlat_to_cell(cell_to_lonlat({hex(c)})) raises {type(e).__name__}', {'cell': c})); return
    if back != c:
        fails.append(Failure(f'centre of {hex(c)} (resolution {r}) maps back to {hex(back)}', {'cell': c})); return
    ring = a5.cell_to_boundary(c, {'segments': 4 if r > 3 else 32, 'closed_ring': False})
    w, d = G.contains(p, ring)
    size = math.sqrt(4 * math.pi / a5.get_num_cells(r))
    if w != 1 or d / size < 0.05:
        fails.append(Failure(f'centre of {hex(c)} is not strictly inside its own boundary (winding {w}, distance {d / size if d else d} widths)', {'cell': c}))

def oracle(tier, rng, seeds):
    drv = common.py_driver()
    fails, n = [], 0
    cs = geo_gens.cells(drv, tier, rng, 300 if tier == 'quick' else 60000)
    for op in seeds:
        t = op.split()
        if t[0] == 'c2l' and ref_decode(int(t[1])) is not None:
            cs.insert(0, int(t[1]))
    seen = set()
    for c in cs:
        if c == 0 or c in seen:
            continue
        seen.add(c)
        check_cell(drv, c, fails); n += 1
        if len(fails) > 30:
            break
    if tuple(drv.a5.cell_to_lonlat(0)) != (0.0, 0.0):
        fails.append(Failure('cell_to_lonlat(world cell) != (0, 0)', {'cell': 0}))
    return fails, {'evaluations': n, 'distinct_nontrivial': len(seen), 'failing': len(fails), 'samples': [{'cell': hex(cs[7])}]}

def replay(f):
    fails = []
    check_cell(common.py_driver(), f['data']['cell'], fails)
    return bool(fails)
