"""C09 — compact output is the unique minimal, duplicate-free representation."""
import gens, common
from common import Failure
from props._base import *  # noqa
TRUSTED_BASE = TRUSTED_BASE + ['tools/py2lean.py (syntax-directed translation of the Python source into A5/Gen/Src.lean, regenerated every run) and the operator semantics of A5/Model/PySem.lean — both exercised every run by executing the translated source (lean/SrcMain.lean) against the implementation on the same ops, negative ints included', 'kernel-checked bridge theorems (A5/Proofs/SrcBridge*.lean, A5/Props/SrcTie/*.lean): translated source = hand-written model for EVERY non-negative id / every list of ids / every int argument']
from refids import ref_decode, ref_compact_set, is_antichain, ref_res, MAXV, ref_id, ref_children_set

LEAN_MODULES = ['A5.Props.C09', 'A5.Props.SrcTie.Compact']
SRC_TIE = True
LEVEL = 'proof'
EXPLANATION = ('Lean theorems for EVERY antichain of valid ids (duplicates, mixed resolutions, any order): output Nodup, antichain, same coverage, no complete sibling group (Reduced), '
               'canonical (two antichains with equal coverage compact to the same set — uniqueness of the reduced antichain, proved with a laminar family of finest-level index spans), '
               'order/duplication invariance, idempotence. Proved for the repaired algorithm (hierarchical sort key, fix c1fbec5); the sort key is shown to lie inside 4*span. '
               'Tie: differential correspondence of compact (output as emitted) incl. the initial sort.'
               " SOURCE-LEVEL TIE (every run): the functions of this property's cone are translated from /repo's current source by tools/py2lean.py into Lean definitions (A5/Gen/Src.lean); bridge theorems prove, for every input (no sampling), that the translated definitions compute exactly what the hand-written model computes, and the headline theorems are restated about the translated source (`*_of_source`). A source change changes the generated definitions and the kernel re-checks the bridges; a construct outside the translated subset (decorators, global state, …) is reported as a broken tie.")
RULE = ('ops: antichains from bounded sub-hierarchies spanning every aperture, res-0 cells mixed with finer cells of other faces (the repaired defect), arithmetic progressions with every plausible stride, '
        'cascades to resolution 29, permutations/duplications; search: output vs an independent set-based reference compaction, idempotence, order/duplication invariance')
ASSUMPTIONS = ['the translator tools/py2lean.py and A5/Model/PySem.lean (incl. sorted(set(.), key=.) for an injective key) represent CPython faithfully (validated every run by executing the translated source against the implementation)']
LEVEL_TEXT = 'machine-checked proof (Lean 4 kernel) of minimality, canonicity, order/duplication invariance and idempotence for every antichain; model tied to the source by per-run translation + kernel-checked bridge theorems, and by differential correspondence'
TECHNIQUE = 'Lean 4 proof (span-sorted invariant, adjacency of sibling groups, uniqueness of reduced antichains) + differential correspondence + source translated to Lean each run (py2lean) with bridge theorems Src = Model for all inputs'
LEVEL_NOTE = 'trusted: Lean kernel + standard axioms; gen_tables.py; py2lean.py + PySem.lean (translator and Python operator semantics, executed against the implementation every run); CPython int/list semantics as modelled there'
DESIGN_REF = 'DESIGN.md §3 C09'

def antichain_lists(tier, rng):
    out = []
    for X in gens.with_structured_orders(gens.compact_inputs(tier, rng), rng):
        if X and all(ref_decode(c) is not None for c in X) and is_antichain(X):
            out.append(X)
    # res-0 cells mixed with complete groups of other faces (the shape of the repaired defect)
    faces = [ref_id(t, 0, 0) for t in range(12)]
    for _ in range(40 if tier == 'quick' else 600):
        f = rng.randrange(12)
        r = rng.randint(1, 4)
        cells = sorted(ref_children_set(faces[f], r))
        if rng.random() < 0.5 and r >= 2:
            seg = rng.randrange(5)
            cells = sorted(ref_children_set(ref_id(5 * f + seg, 0, 1), r))
        others = [faces[t] for t in range(12) if t != f and rng.random() < 0.6]
        X = cells + others
        if rng.random() < 0.3 and len(cells) > 1:
            X.remove(rng.choice(cells))
        rng.shuffle(X)
        out.append(X)
    return gens.with_structured_orders(out, rng)

def gen_ops(tier, rng):
    ops = ['compact ' + ' '.join(map(str, l)) for l in antichain_lists(tier, rng)]
    return ops + gens.compact_ops(tier, rng)[:200]

@common.guarded(lambda **a: f"minimality check of compact({a['X'][:6]}{'...' if len(a['X']) > 6 else ''})", lambda **a: {'cells': a['X']})
def check_list(drv, X, rng, fails):
    cp = drv.cp
    try:
        Y = cp.compact(list(X))
    except Exception as e:  # noqa
        fails.append(Failure(f'compact raises {type(e).__name__} on an antichain of {len(X)} cells', {'cells': X})); return
    if len(Y) != len(set(Y)):
        fails.append(Failure(f'compact returned a cell twice for an antichain of {len(X)} cells', {'cells': X})); return
    ref = ref_compact_set(X)
    if set(Y) != ref:
        extra = 'a complete sibling group is left un-merged' if len(Y) > len(ref) else 'not the canonical cell set'
        fails.append(Failure(f'compact of an antichain of {len(X)} cells returns {len(Y)} cells, the minimal representation has {len(ref)}: {extra}', {'cells': X})); return
    Z = list(X) + [rng.choice(X) for _ in range(rng.randint(0, 3))]
    rng.shuffle(Z)
    try:
        Y2 = cp.compact(Z)
        Y3 = cp.compact(list(Y))
    except Exception as e:  # noqa
        fails.append(Failure(f'compact raises {type(e).__name__} on a permutation/duplication or on its own output', {'cells': X})); return
    if set(Y2) != set(Y):
        fails.append(Failure('compact result depends on input order/duplication', {'cells': X, 'perm': Z})); return
    for nm, W in (('ascending', sorted(X)), ('descending', sorted(X, reverse=True))):
        try:
            Y4 = cp.compact(list(W))
        except Exception as e:  # noqa
            fails.append(Failure(f'compact raises {type(e).__name__} on the same cells in {nm} id order', {'cells': W})); return
        if set(Y4) != ref or len(Y4) != len(ref):
            fails.append(Failure(f'compact of the same cells in {nm} id order returns {len(Y4)} cells, the canonical set has {len(ref)}', {'cells': W})); return
    if set(Y3) != set(Y) or len(Y3) != len(Y):
        fails.append(Failure('compacting the output again changes it', {'cells': X}))

def oracle(tier, rng, seeds):
    drv = common.py_driver()
    fails, n, d = [], 0, set()
    lists = antichain_lists(tier, rng)
    for op in seeds:
        t = op.split()
        try:
            if t[0] == 'compact':
                cells = [int(x) for x in t[1:]]
                if cells and all(ref_decode(c) is not None for c in cells) and is_antichain(cells):
                    lists.insert(0, cells)
        except Exception:
            pass
    for X in lists:
        check_list(drv, X, rng, fails); n += 1; d.add(tuple(X))
        if len(fails) > 50:
            break
    if fails:
        import random
        cur = list(fails[0].data['cells'])
        improved = True
        while improved and len(cur) > 1:
            improved = False
            for i in range(len(cur)):
                trial = cur[:i] + cur[i + 1:]
                f2 = []
                check_list(drv, trial, random.Random(1), f2)
                if f2:
                    cur = trial; improved = True; break
        f2 = []
        check_list(drv, cur, random.Random(1), f2)
        if f2:
            fails.insert(0, Failure('minimised: ' + f2[0].what + f' — cells {cur[:16]}', {'cells': cur}))
    return fails, {'evaluations': n, 'distinct_nontrivial': len([x for x in d if len(x) > 1]), 'failing': len(fails),
                   'samples': [{'cells': list(x)[:8], 'len': len(x)} for x in list(d)[:3]]}

def replay(f):
    import random
    fails = []
    check_list(common.py_driver(), f['data']['cells'], random.Random(1), fails)
    return bool(fails)
