"""C05 — cell ids are a faithful 64-bit code."""
import gens, common
from common import Failure
from refids import ref_id, ref_decode, all_ids, num_cells, s_patterns, MAXV

LEAN_MODULES = ['A5.Props.C05', 'A5.Props.SrcTie.Codec']
SRC_TIE = True
LEVEL = 'proof'
EXPLANATION = ('Lean theorems over symbolic S (every position of a resolution at once), every face/segment, r = 0..29: serialize total, '
               'range [1,2^64), get_resolution/deserialize recover the cell, injectivity, re-encoding of every valid id, rejection of unfit positions, '
               'enumeration count = get_num_cells. The statement at MAX_RESOLUTION=30 is proved FALSE in the model (known finding). '
               'Tie: constants regenerated from /repo and re-decided; model functions compared with the implementation on structured ops.'
               " SOURCE-LEVEL TIE (every run): the functions of this property's cone are translated from /repo's current source by tools/py2lean.py into Lean definitions (A5/Gen/Src.lean); bridge theorems prove, for every input (no sampling), that the translated definitions compute exactly what the hand-written model computes, and the headline theorems are restated about the translated source (`*_of_source`). A source change changes the generated definitions and the kernel re-checks the bridges; a construct outside the translated subset (decorators, global state, …) is reported as a broken tie.")
RULE = ('ops: every (origin, segment, resolution -2..32) x structured S patterns (0,1,max,max+1,-1,alternating,0333..,1000..,single digit,random), '
        'all ids of low levels, malformed ids (top6>=60, stray low bits, even marker, >=2^64); distinct = distinct op lines; '
        'search: round-trip/range/injectivity/rejection/enumeration on the real code, exhaustive for low levels')
TRUSTED_BASE = ['Lean 4.33 kernel', 'axioms: propext, Classical.choice, Quot.sound only', 'tools/gen_tables.py (constants by value)',
                'line-protocol correspondence harness (second, independent tie: sampled agreement of the hand-written model with the implementation)',
                'CPython int semantics (<<, >>, &, |, //, %) as modelled in A5/Model/Basic.lean',
                'tools/py2lean.py (syntax-directed translation of the Python source into A5/Gen/Src.lean, regenerated every run) and the operator semantics of A5/Model/PySem.lean — both exercised every run by executing the translated source (lean/SrcMain.lean) against the implementation on the same ops, negative ints included',
                'kernel-checked bridge theorems (A5/Proofs/SrcBridge*.lean, A5/Props/SrcTie/*.lean): translated source = hand-written model for EVERY non-negative id / every list of ids / every int argument']
ASSUMPTIONS = ['the translator tools/py2lean.py and the operator semantics A5/Model/PySem.lean represent CPython faithfully on the integer core (validated every run by executing the translated source against the implementation)',
               'an A5Cell carries one of the 12 Origin objects of a5.core.origin.origins; ids are non-negative ints']

def gen_ops(tier, rng):
    return gens.id_ops(tier, rng, with_children=False) + ['children 0 %d' % r for r in range(-1, 4)]

def _a5():
    drv = common.py_driver()
    return drv

@common.guarded(lambda **a: f"codec clauses for origin={a['o']} segment={a['sg']} S={a['S']} resolution={a['r']}", lambda **a: {'op': 'cell', 'cell': [a['o'], a['sg'], a['S'], a['r']]})
def check_cell(drv, o, sg, S, r, seen, fails):
    """C05 clauses for one well-formed cell on the real code"""
    from a5.core.utils import A5Cell
    ser = drv.ser
    origin = drv.org.origins[o]
    cell = A5Cell(origin=origin, segment=sg, S=S, resolution=r)
    tag = f'origin={o} segment={sg} S={S} resolution={r}'
    try:
        n = ser.serialize(cell)
    except Exception as e:  # noqa
        fails.append(Failure(f'serialize raises {type(e).__name__} for the valid cell {tag}', {'op': 'cell', 'cell': [o, sg, S, r]},
                             key=f'serialize-raises res={r}'))
        return
    if not (1 <= n < 1 << 64):
        fails.append(Failure(f'id {n} out of [1,2^64) for {tag}', {'op': 'cell', 'cell': [o, sg, S, r]})); return
    if ser.get_resolution(n) != r:
        fails.append(Failure(f'get_resolution({n})={ser.get_resolution(n)} != {r} for {tag}', {'op': 'cell', 'cell': [o, sg, S, r]})); return
    try:
        d = ser.deserialize(n)
        back = (d['origin'].id, d['segment'], d['S'], d['resolution'])
    except Exception as e:  # noqa
        fails.append(Failure(f'deserialize({n}) raises {type(e).__name__} for {tag}', {'op': 'cell', 'cell': [o, sg, S, r]})); return
    canon = (o, 0 if r == 0 else sg, S, r)
    if back != canon:
        fails.append(Failure(f'deserialize(serialize(cell)) = {back} != {canon}', {'op': 'cell', 'cell': [o, sg, S, r]})); return
    try:
        n2 = ser.serialize(d)
    except Exception as e:  # noqa
        n2 = type(e).__name__
    if n2 != n:
        fails.append(Failure(f're-encoding the decoded id {n} gives {n2}', {'op': 'cell', 'cell': [o, sg, S, r]})); return
    prev = seen.get(n)
    if prev is not None and prev != canon:
        fails.append(Failure(f'cells {prev} and {canon} share the id {n}', {'op': 'pair', 'cells': [list(prev), list(canon)]}))
    seen[n] = canon

def check_reject(drv, o, sg, S, r, fails):
    from a5.core.utils import A5Cell
    try:
        n = drv.ser.serialize(A5Cell(origin=drv.org.origins[o], segment=sg, S=S, resolution=r))
    except Exception:
        return
    fails.append(Failure(f'serialize silently encodes the unfit position S={S} at resolution {r} (origin {o}, segment {sg}) as {n}',
                         {'op': 'reject', 'cell': [o, sg, S, r]}))

@common.guarded(lambda **a: f"re-encoding of id {a['n']}", lambda **a: {'op': 'id', 'id': a['n']})
def check_valid_id(drv, n, fails):
    try:
        back = drv.ser.serialize(drv.ser.deserialize(n))
    except Exception as e:  # noqa
        back = type(e).__name__
    if back != n:
        fails.append(Failure(f'serialize(deserialize({n})) = {back}', {'op': 'id', 'id': n}))
    r = ref_decode(n)[2]
    if drv.ser.get_resolution(n) != r:
        fails.append(Failure(f'get_resolution({n}) = {drv.ser.get_resolution(n)}, layout says {r}', {'op': 'id', 'id': n}))

def check_level(drv, r, fails):
    try:
        L = drv.ser.cell_to_children(0, r)
    except Exception as e:  # noqa
        fails.append(Failure(f'cell_to_children(0,{r}) raises {type(e).__name__}', {'op': 'level', 'r': r})); return 0
    if len(L) != len(set(L)) or len(L) != drv.ci.get_num_cells(r) or len(L) != num_cells(r) or set(L) != set(all_ids(r)):
        fails.append(Failure(f'expansion of the world cell to resolution {r}: {len(L)} ids, {len(set(L))} distinct, get_num_cells={drv.ci.get_num_cells(r)}, layout={num_cells(r)}',
                             {'op': 'level', 'r': r}))
    return len(L)

def oracle(tier, rng, seeds):
    drv = _a5()
    fails, seen = [], {}
    n = 0
    # every (origin, segment, resolution) x structured S; resolution 30 is probed once per origin (known finding)
    for r in range(0, 31):
        for o in range(12):
            for sg in range(5):
                Ss = [0] if r < 2 else s_patterns(r, rng, 1 if tier == 'quick' else 8)
                if r == 30:
                    Ss = Ss[:2]
                for S in Ss:
                    check_cell(drv, o, sg, S, r, seen, fails); n += 1
                if r >= 2:
                    top = 4 ** (r - 1)
                    for S in (top, top + 1, -1, -top, 2 * top, 64 * top, 64 * top * rng.randint(1, 9) + rng.randrange(top),
                              top << rng.randint(1, 40), (1 << 64) + rng.randrange(top), 1 << rng.randint(58, 140)):
                        check_reject(drv, o, sg, S, r, fails); n += 1
                else:
                    for S in (1, -1, 3):
                        check_reject(drv, o, sg, S, r, fails); n += 1
    # exhaustive low levels through the reference layout
    top = 5 if tier == 'quick' else 8
    for r in range(0, top + 1):
        n += check_level(drv, r, fails)
        for nid in all_ids(r) if r <= (4 if tier == 'quick' else 7) else []:
            check_valid_id(drv, nid, fails); n += 1
    for _ in range(2000 if tier == 'quick' else 500000):
        from refids import random_valid_id
        check_valid_id(drv, random_valid_id(rng, 0, MAXV), fails); n += 1
    # inputs on which model and implementation disagreed
    for op in seeds:
        t = op.split()
        try:
            if t[0] == 'ser':
                o, sg, S, r = int(t[1]), int(t[2]), int(t[3]), int(t[4])
                if 0 <= o < 12 and 0 <= r <= 30:
                    fits = (S == 0) if r < 2 else (0 <= S < 4 ** (r - 1))
                    if fits and 0 <= sg < 5:
                        check_cell(drv, o, sg, S, r, seen, fails)
                    elif not fits:
                        check_reject(drv, o, sg, S, r, fails)
            elif t[0] in ('res', 'des') and ref_decode(int(t[1])) is not None and int(t[1]) != 0:
                check_valid_id(drv, int(t[1]), fails)
            n += 1
        except Exception:
            pass
    stats = {'evaluations': n, 'distinct_nontrivial': len(seen), 'failing': len(fails),
             'samples': [{'cell': list(v), 'id': k} for k, v in list(seen.items())[:3]]}
    return fails, stats

def replay(f):
    drv = _a5()
    fails = []
    d = f['data']
    if d['op'] == 'cell':
        check_cell(drv, *d['cell'], {}, fails)
    elif d['op'] == 'reject':
        check_reject(drv, *d['cell'], fails)
    elif d['op'] == 'id':
        check_valid_id(drv, d['id'], fails)
    elif d['op'] == 'level':
        check_level(drv, d['r'], fails)
    elif d['op'] == 'pair':
        seen = {}
        for c in d['cells']:
            check_cell(drv, *c, seen, fails)
    return bool(fails)

LEVEL_TEXT = ('machine-checked proof (Lean 4 kernel) of the codec laws for every face, segment, resolution 0..29 and a symbolic position S; '
              'the clause at resolution 30 is proved false and reported as a known finding; the model is tied to the source by per-run translation of the source with kernel-checked bridge theorems (every id, every record), regenerated constants and a differential correspondence')
LEVEL_NOTE = 'trusted: Lean kernel + standard axioms; gen_tables.py; py2lean.py + PySem.lean (translator and Python operator semantics, executed against the implementation every run); CPython int semantics as modelled there'
TECHNIQUE = 'Lean 4 proof over a hand-written model + generated-constant re-decision + line-protocol differential correspondence + source translated to Lean each run (py2lean) with bridge theorems Src = Model for all inputs'
DESIGN_REF = 'DESIGN.md §3 C05'
