"""C10 — uncompact expands each cell to exactly its descendants at the target level."""
import gens, common
from common import Failure
from props._base import *  # noqa
TRUSTED_BASE = TRUSTED_BASE + ['tools/py2lean.py (syntax-directed translation of the Python source into A5/Gen/Src.lean, regenerated every run) and the operator semantics of A5/Model/PySem.lean — both exercised every run by executing the translated source (lean/SrcMain.lean) against the implementation on the same ops, negative ints included', 'kernel-checked bridge theorems (A5/Proofs/SrcBridge*.lean, A5/Props/SrcTie/*.lean): translated source = hand-written model for EVERY non-negative id / every list of ids / every int argument']
from refids import ref_res, ref_children_set, ref_decode, MAXV

LEAN_MODULES = ['A5.Props.C10', 'A5.Props.SrcTie.Uncompact']
SRC_TIE = True
LEVEL = 'proof'
EXPLANATION = ('Lean theorem for every list of valid ids (any length/order/duplicates) and every target 0..29: uncompact = concatenation, in input order and with multiplicity, of '
               'cell_to_children(cell, t); length = sum of get_num_children; every output cell is valid, at resolution t and maps back to its source; a finer input cell makes it raise '
               '(no partial result); a sizing/filling mismatch would be an IndexError, never a silent gap. Purity of the argument is tied by the harness (argument compared after the call).'
               " SOURCE-LEVEL TIE (every run): the functions of this property's cone are translated from /repo's current source by tools/py2lean.py into Lean definitions (A5/Gen/Src.lean); bridge theorems prove, for every input (no sampling), that the translated definitions compute exactly what the hand-written model computes, and the headline theorems are restated about the translated source (`*_of_source`). A source change changes the generated definitions and the kernel re-checks the bridges; a construct outside the translated subset (decorators, global state, …) is reported as a broken tie.")
RULE = 'ops: random lists of 0..6 valid cells within 3 levels of the target (expansion bounded), duplicates, world cell, finer cells (error), malformed ids; distinct op lines'
ASSUMPTIONS = ['the translator tools/py2lean.py and A5/Model/PySem.lean represent CPython faithfully on the integer core (validated every run by executing the translated source against the implementation)']
LEVEL_TEXT = 'machine-checked proof (Lean 4 kernel) of order, multiplicity, size, resolution, ancestry and error behaviour of uncompact for all lists; model tied to the source by per-run translation + kernel-checked bridge theorems, and by differential correspondence'
TECHNIQUE = 'Lean 4 proof (induction over the input list, buffer-fill invariant) + differential correspondence + source translated to Lean each run (py2lean) with bridge theorems Src = Model for all inputs'
LEVEL_NOTE = 'trusted: Lean kernel + standard axioms; gen_tables.py; py2lean.py + PySem.lean (translator and Python operator semantics, executed against the implementation every run); CPython int/list semantics as modelled there'
DESIGN_REF = 'DESIGN.md §3 C10'

def gen_ops(tier, rng):
    return gens.uncompact_ops(tier, rng)

@common.guarded(lambda **a: f"uncompact({a['cells'][:6]}{'...' if len(a['cells']) > 6 else ''}, {a['t']})", lambda **a: {'t': a['t'], 'cells': a['cells']})
def check_case(drv, t, cells, fails):
    ser, cp, ci = drv.ser, drv.cp, drv.ci
    arg = list(cells)
    finer = any(ref_res(c) > t for c in cells)
    try:
        out = cp.uncompact(arg, t)
    except ValueError:
        if not finer:
            fails.append(Failure(f'uncompact({cells},{t}) raises although no cell is finer than the target', {'t': t, 'cells': cells}))
        return
    except Exception as e:  # noqa
        fails.append(Failure(f'uncompact({cells},{t}) raises {type(e).__name__}', {'t': t, 'cells': cells})); return
    if arg != list(cells):
        fails.append(Failure(f'uncompact modified its argument {cells}', {'t': t, 'cells': cells})); return
    if finer:
        fails.append(Failure(f'uncompact({cells},{t}) returns {len(out)} cells although an input cell is finer than {t}', {'t': t, 'cells': cells})); return
    pos = 0
    for c in cells:
        k = ci.get_num_children(ref_res(c), t)
        blk = out[pos:pos + k]
        ref = ref_children_set(c, t)
        if len(blk) != len(ref) or set(blk) != ref or len(set(blk)) != len(blk):
            fails.append(Failure(f'uncompact({cells},{t}): block of {c} at offset {pos} is not its descendant set at level {t}', {'t': t, 'cells': cells})); return
        for x in blk[:4] + blk[-4:]:
            if ser.get_resolution(x) != t or ser.cell_to_parent(x, ref_res(c)) != c:
                fails.append(Failure(f'uncompact({cells},{t}): output {x} does not map back to {c}', {'t': t, 'cells': cells})); return
        pos += k
    if pos != len(out):
        fails.append(Failure(f'uncompact({cells},{t}) has {len(out)} entries, sum of get_num_children is {pos}', {'t': t, 'cells': cells}))

def oracle(tier, rng, seeds):
    drv = common.py_driver()
    fails, n, d = [], 0, set()
    cases = list(gens.uncompact_inputs(tier, rng))
    for op in seeds:
        t = op.split()
        try:
            if t[0] == 'uncompact':
                cells = [int(x) for x in t[2:]]
                if all(ref_decode(c) is not None for c in cells) and 0 <= int(t[1]) <= MAXV:
                    cases.insert(0, (int(t[1]), cells))
        except Exception:
            pass
    for t, cells in cases:
        if not (0 <= t <= MAXV):
            continue
        check_case(drv, t, cells, fails); n += 1; d.add((t, tuple(cells)))
    return fails, {'evaluations': n, 'distinct_nontrivial': len([x for x in d if x[1]]), 'failing': len(fails), 'samples': [{'t': t, 'cells': list(c)} for t, c in list(d)[:3]]}

def replay(f):
    fails = []
    check_case(common.py_driver(), f['data']['t'], f['data']['cells'], fails)
    return bool(fails)
