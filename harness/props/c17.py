"""C17 — every API call is a pure function of its arguments."""
import common, effects, random
from common import Failure
from props._base import *  # noqa
from props import c16

LEAN_MODULES = ['A5.Props.C17']
LEVEL = 'proof'
EXPLANATION = ('Lean theorems: over every finite history of disciplined calls from the cold store each call returns its denotation (the fresh-interpreter value) and the invariant is kept; '
               'the slot index arithmetic of both projection caches is injective on its whole key domain (40 + 240 keys) except for the one intended alias, which stores the same value — tables observed on '
               'fresh instances every run and re-decided by the kernel. Tied, not proved: membership of the code in the disciplined class (static inventory + runtime proxies), arguments never '
               'written, returned containers not reachable from shared state.')
RULE = ('tie: static inventory + sampled calls under cache proxies + slot tables; search: random call histories over all public functions and all faces on a warm copy, calls compared bit for bit with '
        'the same call on a freshly imported (cold) copy, arguments compared before/after, returned lists mutated and calls repeated')
ASSUMPTIONS = ['the code is in the disciplined class (checked statically and on sampled calls, not proved)', 'a freshly imported copy of the package stands for a fresh interpreter']
LEVEL_TEXT = ('machine-checked proof (Lean 4 kernel) of history independence for the protocol plus kernel-decided injectivity of the cache keys on their whole domain; membership of the code in the '
              'protocol and the aliasing clauses are checked ties')
TECHNIQUE = 'Lean 4 induction over call histories on an effect model + generated slot tables re-decided by the kernel + static/runtime discipline tie + history search'
DESIGN_REF = 'DESIGN.md §3 C17'

def gen_ops(tier, rng):
    """a sample of every op family of the line protocol: the implementation driver asks each op also through reused argument objects, after the
    caller modified what an earlier call returned, and through one coordinate buffer (py_driver usage-pattern stress); an answer that depends on
    any of that differs from the model (a pure function) and is reported as a failing call sequence"""
    import gens
    from props import _geo, c08, c10
    ops = gens.id_ops('quick', rng, with_children=True)
    ops = rng.sample(ops, min(len(ops), 600 if tier == 'quick' else 6000))
    ops += _geo.point_ops(tier, rng, 60 if tier == 'quick' else 600)[: (250 if tier == 'quick' else 5000)]
    ops += _geo.cell_ops(tier, rng, 40 if tier == 'quick' else 400)[: (150 if tier == 'quick' else 3000)]
    o8 = c08.gen_ops('quick', rng); o10 = c10.gen_ops('quick', rng)
    ops += rng.sample(o8, min(len(o8), 150)) + rng.sample(o10, min(len(o10), 80))
    ops += gens.hex_ops('quick', rng)[-300:]
    return ops

def extra_tie(tier, rng):
    return c16.extra_tie(tier, rng)

def oracle(tier, rng, seeds):
    fl, st = effects.history_search(rng, 3 if tier == 'quick' else 40, 40 if tier == 'quick' else 120)
    fl2, st2 = effects.directed_history_search(rng, 90 if tier == 'quick' else 600)
    fl4, st4 = effects.warmup_history_search(rng, 120 if tier == 'quick' else 600, 60 if tier == 'quick' else 400)
    fails = [Failure(f['what'], {'history': f['history'], 'mutate_first': f.get('mutate_first', False)}) for f in fl + fl2 + fl4]
    st.update(st2); st.update(st4)
    fl5, st5 = effects.headroom_sweep(rng)
    fails += [Failure(f['what'], {'history': f['history'], 'headroom': f['headroom']}) for f in fl5]
    st.update(st5)
    import hashseed
    fl3, st3 = hashseed.check(rng)
    fails += [Failure(f['what'], {'hashseed_call': f['call'], 'hashseeds': f['seeds']}) for f in fl3]
    st.update(st3)
    return fails, {'evaluations': st['history_calls'] + st2['directed_history_calls'], 'distinct_nontrivial': st['history_calls'] + st2['directed_history_calls'], 'failing': len(fails), **st,
                   'samples': [{'history': 'random API calls, e.g. lonlat_to_cell((lon,lat),r), cell_to_boundary(c, opts), compact([...])'}]}

def replay(f):
    if f.get('data', {}).get('hashseed_call'):
        import hashseed
        return hashseed.replay(f['data']['hashseed_call'], f['data']['hashseeds'])
    h = f.get('data', {}).get('history')
    if h and f.get('data', {}).get('mutate_first'):
        return effects.run_mutate_first(h[0][0], tuple(h[0][1]))
    if h and f.get('data', {}).get('headroom'):
        return effects.run_headroom(h[0][0], tuple(tuple(a) if isinstance(a, list) and h[0][0] == 'lonlat_to_cell' else a for a in h[0][1]))
    if h:
        return effects.run_history([(c[0], tuple(c[1])) for c in h])
    fl, _ = effects.history_search(random.Random(0), 3, 40)
    return bool(fl)
