"""C11 — quantisation error and cell shape are bounded at every level (partial)."""
import common, geo_checks as K, geo_gens
from common import Failure
from props._geo import *  # noqa
from refids import ref_decode

LEAN_MODULES = ['A5.Props.C11']
LEVEL = 'other'
EXPLANATION = ('PROVED (Lean, exact arithmetic, about Planar.place): every cell\'s planar polygon is a similar copy of the base pentagon with ratio 2^-level for every anchor and every orthogonal quintant rotation, so corners stay pairwise distinct and corner-centre distances are the base\'s scaled; '
               'kernel-evaluated IEEE check: the base pentagon\'s corner-centre distances lie in (0.35, 1.0) cell widths. ' + TIE +
               'ASSUMED (numeric, swept): H-quantisation the centre of p\'s cell is within 1.0*sqrt(cell_area) of p; H-shape corner distances stay within 0.35..1.0 widths on the sphere (measured 0.41..0.92).')
RULE = 'points: frame-point and pole neighbourhoods at log scales, antimeridian, random; cells: low levels exhaustively, structured positions to resolution 29, polar/frame cells'
ASSUMPTIONS = ['H-quantisation', 'H-shape (projection distortion keeps the planar band)', 'bit-exact model agreement beyond the samples']
LEVEL_TEXT = 'partial: planar shape invariance (similarity to one base pentagon at every level) is machine-checked in exact arithmetic, the base band by kernel float evaluation; the spherical bounds are named assumptions swept against independent great-circle distances'
LEVEL_NOTE = 'trusted: Lean kernel + standard axioms; bit-exact correspondence of the Float model; the independent distance oracle'
TECHNIQUE = 'Lean 4 proof (similarity of the placement map) + kernel float evaluation + assumption sweep'
DESIGN_REF = 'DESIGN.md §3 C03/C04/C11'

def gen_ops(tier, rng):
    return cell_ops(tier, rng, 100 if tier == 'quick' else 2000) + point_ops(tier, rng, 100 if tier == 'quick' else 3000)

def oracle(tier, rng, seeds):
    drv = common.py_driver()
    fails, st, n = [], {}, 0
    for c in geo_gens.cells(drv, tier, rng, 300 if tier == 'quick' else 60000):
        if c:
            K.check_shape(drv.a5, c, fails, st); n += 1
    from py_driver import bits2f
    from refids import ref_res as _rr
    for op in seeds:
        t = op.split()
        if t[0] == 'l2c' and 0 <= int(t[3]) <= 29:
            K.check_quantisation(drv.a5, (bits2f(t[1]), bits2f(t[2])), int(t[3]), fails, st); n += 1
    # published corners / edge points given back as they are, and points just inside them
    for q, c in geo_gens.inside_corner_points(drv, rng, 200 if tier == 'quick' else 6000):
        K.check_quantisation(drv.a5, q, _rr(c), fails, st); n += 1
    for q0, r0 in (((-125.11916094236426, 46.766389527751706), 3), ((67.10721420146098, -1.1746807697173285), 25), ((-165.02605289145345, -52.755541033666866), 18)):
        K.check_quantisation(drv.a5, q0, r0, fails, st); n += 1       # exact corners on a face seam on which the pinned tree failed (ac2f470)
    for p in geo_gens.points(drv, tier, rng, 400 if tier == 'quick' else 50000):
        K.check_quantisation(drv.a5, p, rng.randint(0, 29), fails, st); n += 1
        if len(fails) > 20:
            break
    return fails, {'evaluations': n, 'distinct_nontrivial': n, 'failing': len(fails), **st, 'samples': [{'p': [12.5, 41.9], 'r': 17}]}

def replay(f):
    fails = []
    d = f['data']
    a5 = common.py_driver().a5
    if d['kind'] == 'shape':
        K.check_shape(a5, d['cell'], fails, {})
    else:
        K.check_quantisation(a5, tuple(d['p']), d['r'], fails, {})
    return bool(fails)
