"""C14 — the face projection preserves area for arbitrary regions (partial, thin)."""
import common, geo_checks as K
from common import Failure
from props._geo import *  # noqa

LEAN_MODULES = ['A5.Props.C14']
LEVEL = 'other'
EXPLANATION = ("NEW: `affine_scales_polygon`: an affine map multiplies the shoelace area of EVERY closed polygon (any number of vertices, convex or not) by its determinant - the 'arbitrary regions, not only cells' half of the planar stage. "
               'PROVED (Lean, exact arithmetic): the planar half of the map is affine in the barycentric weights and multiplies the signed area of EVERY triangle by one constant (the face triangle\'s determinant), independent of position. ' + TIE +
               'ASSUMED (numeric, swept every run with an independent spherical area formula): the barycentric weights are proportional to spherical sub-triangle areas, so that any planar polygon maps to a spherical region of area = planar area x (sphere/12)/(face pentagon area) to 1e-6, across seams and face edges. '
               'This property is in itself a numeric hypothesis of the development.')
RULE = 'triangles and quads in the face plane of all 12 faces, sizes 1e-4..0.5 face widths, inside the pentagon and straddling its edges into the mirror triangles; edges densified to 512 segments each'
ASSUMPTIONS = ['H-dice: barycentric weights proportional to spherical sub-triangle areas', 'relative tolerance 1e-6 once image edges are resolved', 'bit-exact model agreement beyond the samples']
LEVEL_TEXT = 'partial (thin): the affine stage scales every area by one constant (machine-checked); equal-area of the spherical stage is a numeric hypothesis swept against an independent area formula; the projection itself is modelled bit-exactly'
LEVEL_NOTE = 'trusted: Lean kernel + standard axioms; bit-exact correspondence of the Float model; the independent area oracle'
TECHNIQUE = 'Lean 4 proof of the affine stage + bit-exact executable model + assumption sweep'
DESIGN_REF = 'DESIGN.md §6'

def gen_ops(tier, rng):
    return proj_ops(tier, rng, 200 if tier == 'quick' else 4000)

def oracle(tier, rng, seeds):
    drv = common.py_driver()
    fails, st, n = [], {}, 0
    for _ in range(90 if tier == 'quick' else 3000):
        poly = K.random_face_polygon(rng, drv)
        if poly:
            K.check_area_preservation(drv, poly, rng.randrange(12), fails, st); n += 1
        if len(fails) > 10:
            break
    # polygons anchored at the special points of the face plane, resolved 4x finer (edges through the face centre have a kink there)
    for _ in range(40 if tier == 'quick' else 1500):
        poly = K.special_face_polygon(rng, drv)
        if poly:
            K.check_area_preservation(drv, poly, rng.randrange(12), fails, st, seg=2048); n += 1
        if len(fails) > 10:
            break
    return fails, {'evaluations': n, 'distinct_nontrivial': n, 'failing': len(fails), **st, 'samples': [{'poly': 'triangle of side 0.03 at (0.2, 0.1)', 'face': 4}]}

def replay(f):
    fails = []
    d = f['data']
    K.check_area_preservation(common.py_driver(), [tuple(p) for p in d['poly']], d['o'], fails, {})
    return bool(fails)
