"""C04 — all cells of a resolution have equal area (partial)."""
import common, geo_checks as K, geo_gens
from common import Failure
from props._geo import *  # noqa
from refids import ref_decode

LEAN_MODULES = ['A5.Props.C04']
LEVEL = 'other'
EXPLANATION = ('PROVED (Lean, exact arithmetic, about Planar.place — the very function the model runs for get_pentagon_vertices): the planar shoelace area of every cell is base/4^level for every anchor (offset, flips, k), hence equal for all cells of a level and a quarter of the previous level; '
               'kernel-evaluated IEEE check on the extracted constants: base pentagon area = base triangle area = |det BASIS| (bit-identical). ' + TIE +
               'ASSUMED (numeric = C14, swept every run): the projection multiplies planar area by one constant; ring area from cell_to_boundary (edges resolved, Richardson-extrapolated) equals 4*pi/get_num_cells to 1e-6 with the closed-form authalic latitude.')
RULE = 'cells: all of resolutions 0..2/0..4, structured positions to resolution 29, cells at poles / frame points / antimeridian, random cells; area by an independent spherical formula'
ASSUMPTIONS = ['C14 (projection multiplies planar area by one constant)', 'relative area agreement 1e-6 once edges are resolved', 'bit-exact model agreement beyond the sampled cells']
LEVEL_TEXT = 'partial: planar equal-area (congruence) theorem machine-checked in exact arithmetic on the shared placement function; the spherical half is the numeric hypothesis C14, swept against an independent area oracle'
LEVEL_NOTE = 'trusted: Lean kernel + standard axioms; bit-exact correspondence of the Float model; the independent area oracle (Van Oosterom-Strackee / local authalic chart)'
TECHNIQUE = 'Lean 4 proof (shoelace invariance under the placement transformations) + kernel float evaluation + assumption sweep'
DESIGN_REF = 'DESIGN.md §3 C03/C04/C11'

def gen_ops(tier, rng):
    return cell_ops(tier, rng, 150 if tier == 'quick' else 3000) + ['pent %d %d %d %s' % (n, rng.randrange(5), rng.randrange(4 ** n), rng.choice(['uv', 'vu', 'uw', 'wu', 'vw', 'wv'])) for n in range(1, 20) for _ in range(8)]

def oracle(tier, rng, seeds):
    drv = common.py_driver()
    fails, st, n = [], {}, 0
    cs = geo_gens.cells(drv, tier, rng, 150 if tier == 'quick' else 10000)
    if tier == 'quick':
        cs = cs[:312] + rng.sample(cs[312:], min(500, len(cs) - 312))
    for op in seeds:
        t = op.split()
        if t[0] in ('c2b', 'c2l') and ref_decode(int(t[1])):
            cs.insert(0, int(t[1]))
    for c in cs:
        if c:
            K.check_area(drv.a5, c, fails, st); n += 1
        if len(fails) > 20:
            break
    return fails, {'evaluations': n, 'distinct_nontrivial': n, 'failing': len(fails), **st, 'samples': [{'cell': hex(cs[9])}]}

def replay(f):
    fails = []
    K.check_area(common.py_driver().a5, f['data']['cell'], fails, {})
    return bool(fails)
