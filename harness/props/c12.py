"""C12 — boundary rings are well-formed polygons under every option combination (partial)."""
import math, struct, common, geo_oracle as G
from common import Failure
from props._base import *  # noqa
from refids import all_ids, random_valid_id, ref_res

LEAN_MODULES = ['A5.Props.C12', 'A5.Props.C12Planar']
LEVEL = 'other'
EXPLANATION = ('NEW: the planar half of "simple ring" is a theorem (C12.planar_ring_strictly_convex): for every level, anchor and invertible quintant matrix the planar pentagon is strictly convex (affine invariance + kernel-decided base case on the exact rational constants). '
               'PROVED (Lean, on the executable model of cell_to_boundary itself, independent of floating-point values): vertex count (3 at resolution 1 else 5) x segments (+1 iff closed_ring) for every option '
               'combination incl. omitted/None/auto (max(1, 2^(6-res))) and segments <= 1 acting as 1; closed rings repeat the first vertex last; normalisation never touches a latitude; the world cell has no boundary. '
               'PROVED in exact arithmetic: the two while loops of normalize_longitudes return the representative of the longitude mod 360 within 180 degrees of the centre. '
               'TIED: the model is a full IEEE-double port of cell.py + tiling + projection stack and is compared bit for bit with cell_to_boundary on every run. '
               'ASSUMED (numeric; exercised each run against independent spherical geometry): H-lat latitudes in [-90,90]; H-ccw counter-clockwise; H-simple no self-intersection; H-corners corner points do not depend on segments; '
               'H-span no 180-degree jump and span < 180 degrees unless a pole lies in or on the cell.')
RULE = 'cells: all of resolutions 0..2 (quick) / 0..4 (thorough), antimeridian and polar cells at sampled finer levels, random cells to resolution 29; options: closed_ring in {True, False, omitted} x segments in {omitted, None, auto, 1, 2, 3, 7, 16}'
ASSUMPTIONS = ['H-lat', 'H-ccw', 'H-simple', 'H-corners', 'H-span (away from the poles)', 'bit-exact agreement of the Lean Float model with the implementation extends beyond the sampled cells']
LEVEL_TEXT = ('partial: ring assembly (counts, closure, option defaults, latitude preservation) is machine-checked on the executable model, longitude normalisation in exact arithmetic; the geometric clauses '
              '(orientation, simplicity, span) depend on the projection and are named assumptions swept against an independent oracle')
TECHNIQUE = 'Lean 4 proof of ring structure on a bit-exact executable model + exact-arithmetic normalisation theorem + assumption sweep'
DESIGN_REF = 'DESIGN.md §3 C12'

CLOSED = [True, False, None]
SEGS = ['omit', None, 'auto', 1, 2, 3, 7, 16]

def fb(x):
    return struct.unpack('<Q', struct.pack('<d', float(x)))[0]

def options(cl, sg):
    o = {}
    if cl is not None:
        o['closed_ring'] = cl
    if sg != 'omit':
        o['segments'] = sg
    return o

def interesting_cells(drv, tier, rng):
    cells = []
    for r in range(0, 3 if tier == 'quick' else 5):
        cells += all_ids(r)
    a5 = drv.a5
    for _ in range(80 if tier == 'quick' else 2000):
        r = rng.randint(3, 29)
        k = rng.randrange(5)
        if k == 4:
            # the library's own longitude seam (theta = +-180 deg, i.e. 87 deg E / its antipode 93 deg W after the fixed offset), at every
            # latitude and in particular inside the polar caps, where the normalisation falls back to the first vertex's longitude
            lat = rng.choice([rng.uniform(-85, 85), rng.choice([-1, 1]) * (90 - 10 ** rng.uniform(-6, 0)), rng.choice([-1, 1]) * (90 - 10 ** rng.uniform(-6, -1.9))])
            p = (rng.choice([87.0, -93.0]) + rng.uniform(-1, 1) * 10 ** rng.uniform(-9, 0.5), lat)
            r = rng.randint(3, 29) if abs(lat) < 89.9 else rng.randint(12, 29)
        elif k == 0:
            p = (180.0 - rng.uniform(-1, 1) * 10 ** rng.uniform(-9, 0), rng.uniform(-85, 85))
        elif k == 1:
            p = (rng.uniform(-180, 180), rng.choice([-1, 1]) * (90 - 10 ** rng.uniform(-9, 1)))
        elif k == 2:
            p = (rng.uniform(-180, 180), rng.uniform(-90, 90))
        else:
            cells.append(random_valid_id(rng, 3, 29)); continue
        try:
            cells.append(a5.lonlat_to_cell(p, r))
        except Exception:
            pass
    return cells

def gen_ops(tier, rng):
    drv = common.py_driver()
    ops = []
    cells = interesting_cells(drv, tier, rng)
    if tier == 'quick' and len(cells) > 500:
        cells = rng.sample(cells, 500)
    for c in cells:
        for _ in range(2):
            cl = rng.choice(['0', '1', '-']); sg = rng.choice(['-', 'none', 'auto', '1', '2', '3', '7', '16', '0', '-1'])
            if ref_res(c) <= 1 and sg in ('-', 'none', 'auto') and rng.random() < 0.7:
                sg = '2'
            ops.append(f'c2b {c} {cl} {sg}')
        if ref_res(c) > 1 and rng.random() < 0.2:
            ops.append(f'c2b {c} x x')
    ops += ['c2b 0 - -', 'c2b 0 1 3', 'c2b 0 0 auto']  # the world cell has no boundary
    return ops

def seg_intersect(p1, p2, p3, p4):
    def orient(a, b, c):
        return (b[0] - a[0]) * (c[1] - a[1]) - (b[1] - a[1]) * (c[0] - a[0])
    d1, d2, d3, d4 = orient(p3, p4, p1), orient(p3, p4, p2), orient(p1, p2, p3), orient(p1, p2, p4)
    return d1 * d2 < 0 and d3 * d4 < 0

@common.guarded(lambda **a: f"boundary ring of cell {hex(a['c'])} (closed_ring={a['cl']}, segments={a['sg']})", lambda **a: {'cell': a['c'], 'closed': a['cl'], 'seg': a['sg']})
def check_ring(drv, c, cl, sg, fails, base=None):
    a5 = drv.a5
    opts = options(cl, sg)
    tag = f'cell_to_boundary({c}, {opts})'
    try:
        ring = a5.cell_to_boundary(c, opts)
    except Exception as e:  # noqa
        fails.append(Failure(f'{tag} raises {type(e).__name__}', {'cell': c, 'closed': cl, 'seg': sg})); return
    if not opts:
        # "everything omitted" has three spellings: an empty dict, None, and no options argument at all
        for how, call in (('no options argument', lambda: a5.cell_to_boundary(c)), ('options=None', lambda: a5.cell_to_boundary(c, None))):
            try:
                other = call()
            except Exception as e:  # noqa
                fails.append(Failure(f'cell_to_boundary({c}) with {how} raises {type(e).__name__}', {'cell': c, 'closed': cl, 'seg': sg})); return
            if [tuple(q) for q in other] != [tuple(q) for q in ring]:
                fails.append(Failure(f'cell_to_boundary({c}) with {how} differs from the ring for an empty options dict', {'cell': c, 'closed': cl, 'seg': sg})); return
    r = ref_res(c)
    nseg = max(1, 2 ** (6 - r)) if sg in ('omit', None, 'auto') else max(1, sg)
    closed = True if cl is None else cl
    corners = 3 if r == 1 else 5
    want = corners * nseg + (1 if closed else 0)
    def F(msg):
        fails.append(Failure(f'{tag}: {msg}', {'cell': c, 'closed': cl, 'seg': sg}))
    if len(ring) != want:
        return F(f'{len(ring)} vertices, expected {want}')
    if closed and tuple(ring[0]) != tuple(ring[-1]):
        return F('closed ring does not repeat its first vertex')
    openr = ring[1:] if closed else ring   # drop the repeated vertex at the front: the ring is reversed at the very end
    if not closed and tuple(ring[0]) == tuple(ring[-1]):
        return F('open ring repeats its first vertex')
    if any(not (-90 <= la <= 90) for _, la in openr):
        return F('latitude outside [-90, 90]')
    vecs = [G.to_vec(lo, la) for lo, la in openr]
    import geo_checks
    area = geo_checks.ring_area_precise(openr)
    if not area > 0:
        return F(f'ring is not counter-clockwise (signed area {area:.3e})')
    # simplicity in the gnomonic chart about the centroid (cells are far smaller than a hemisphere except at resolution 0)
    cen = G.norm((sum(v[0] for v in vecs), sum(v[1] for v in vecs), sum(v[2] for v in vecs)))
    e1, e2 = G.tangent_basis(cen)
    pts = []
    for v in vecs:
        d = G.dot(v, cen)
        if d <= 0.05:
            pts = None; break
        pts.append((G.dot(v, e1) / d, G.dot(v, e2) / d))
    if pts and len(pts) <= 200:
        n = len(pts)
        for i in range(n):
            for j in range(i + 2, n):
                if i == 0 and j == n - 1:
                    continue
                if seg_intersect(pts[i], pts[(i + 1) % n], pts[j], pts[(j + 1) % n]):
                    return F(f'ring intersects itself (edges {i} and {j})')
    # pole in or on the cell?
    polar = False
    for pole in ((0.0, 0.0, 1.0), (0.0, 0.0, -1.0)):
        w, dist = G.winding(pole, vecs)
        if w is not None and (w != 0 or dist < 1e-9):
            polar = True
    lons = [lo for lo, _ in openr]
    if not polar:
        n = len(lons)
        if any(abs(lons[(i + 1) % n] - lons[i]) >= 180 for i in range(n)):
            return F('consecutive vertices jump by 180 degrees of longitude although no pole is in or on the cell')
        if max(lons) - min(lons) >= 180:
            return F(f'ring spans {max(lons) - min(lons):.1f} degrees of longitude although no pole is in or on the cell')
    # corner points must not depend on segments
    if base is not None:
        # ring is reversed at the very end: corners are every nseg-th vertex of the un-reversed order
        un = openr[::-1]
        mine = un[::nseg]
        bu = base[::-1]
        if len(mine) == len(bu):
            for (a, b), (x, y) in zip(mine, bu):
                dl = abs(((a - x + 180) % 360) - 180)
                if dl * math.cos(math.radians(min(89.9, abs(b)))) > 1e-9 or abs(b - y) > 1e-9:
                    return F(f'corner points differ from the segments=1 ring ({a},{b}) vs ({x},{y})')

def oracle(tier, rng, seeds):
    drv = common.py_driver()
    fails, n, seen = [], 0, set()
    cells = interesting_cells(drv, tier, rng)
    combos = [(cl, sg) for cl in CLOSED for sg in SEGS]
    for op in seeds[:300]:
        t = op.split()
        if t[0] == 'c2b':
            c = int(t[1])
            if c == 0 or ref_res(c) is None:
                continue
            cl = {'1': True, '0': False}.get(t[2], None)
            sg = 'omit' if t[3] in ('-', 'x') else None if t[3] == 'none' else 'auto' if t[3] == 'auto' else int(t[3])
            try:
                base = drv.a5.cell_to_boundary(c, {'segments': 1, 'closed_ring': False})
            except Exception:
                continue
            # the option combination on which model and implementation disagree, then every segment count for that cell
            check_ring(drv, c, cl, sg, fails, base); n += 1; seen.add((c, cl, str(sg)))
            for sg2 in (2, 3, 7):
                check_ring(drv, c, False, sg2, fails, base); n += 1; seen.add((c, False, str(sg2)))
            if len(fails) > 30:
                break
    for idx, c in enumerate(cells):
        if c == 0 or ref_res(c) is None:
            continue
        try:
            base = drv.a5.cell_to_boundary(c, {'segments': 1, 'closed_ring': False})
        except Exception as e:  # noqa
            fails.append(Failure(f'cell_to_boundary({c}) raises {type(e).__name__}', {'cell': c, 'closed': False, 'seg': 1})); continue
        todo = combos if (tier == 'thorough' and idx % 7 == 0) else rng.sample(combos, 4) + [combos[idx % len(combos)]]
        for cl, sg in todo:
            if ref_res(c) == 0 and sg in ('omit', None, 'auto') and rng.random() < 0.8:
                continue  # 320-vertex rings: keep a sample
            check_ring(drv, c, cl, sg, fails, base); n += 1; seen.add((c, cl, str(sg)))
        if len(fails) > 30:
            break
    return fails, {'evaluations': n, 'distinct_nontrivial': len(seen), 'failing': len(fails), 'option_combinations': len(combos),
                   'samples': [{'cell': cells[5], 'options': {'closed_ring': False, 'segments': 3}}]}

def replay(f):
    drv = common.py_driver()
    d = f['data']
    fails = []
    base = drv.a5.cell_to_boundary(d['cell'], {'segments': 1, 'closed_ring': False})
    check_ring(drv, d['cell'], d['closed'], d['seg'], fails, base)
    return bool(fails)
