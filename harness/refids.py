"""Independent reference for the id layout, written from the property text / layout comment only
(6 bits face*5+segment — face alone at res 0 | 2 bits per Hilbert level | marker bit | zeros).
Shares no code with a5; used by generators and by the failing-input search oracles."""

MAXV = 29  # finest resolution whose marker fits (resolution 30 is the known finding)

def ref_id(top6, S, r):
    if r == -1:
        return 0
    if r == 0:
        return (top6 << 58) | (1 << 57)
    if r == 1:
        return (top6 << 58) | (1 << 56)
    w = 60 - 2 * r
    return (top6 << 58) | (S << w) | (1 << (w - 1))

def ref_decode(n):
    """(top6, S, r) of a *valid* id, or None if n is not a valid id."""
    if n == 0:
        return (0, 0, -1)
    if n < 0 or n >= 1 << 64:
        return None
    top6 = n >> 58
    low = n & ((1 << 58) - 1)
    if low == 0:
        return None
    tz = (low & -low).bit_length() - 1  # marker position
    if tz == 57:
        return (top6, 0, 0) if top6 < 12 else None
    if tz == 56:
        return (top6, 0, 1) if top6 < 60 and (low >> 57) == 0 else None
    if tz % 2 == 0 or tz > 55:
        return None
    r = (59 - tz) // 2
    if top6 >= 60:
        return None
    return (top6, low >> (tz + 1), r)

def is_valid(n):
    return ref_decode(n) is not None

def ref_res(n):
    d = ref_decode(n)
    return None if d is None else d[2]

def ref_parent(n, a):
    """ancestor of valid id n at resolution a <= res(n)"""
    top6, S, r = ref_decode(n)
    assert -1 <= a <= r
    if a == r:
        return n
    if a == -1:
        return 0
    if a == 0:
        return ref_id(top6 if r == 0 else top6 // 5, 0, 0)
    if a == 1:
        return ref_id(top6, 0, 1)
    return ref_id(top6, S >> (2 * (r - a)), a)

def ref_children_set(n, b):
    """set of descendants of valid id n at resolution b >= res(n)"""
    top6, S, r = ref_decode(n)
    assert b >= r
    if b == r:
        return {n}
    tops = [top6]
    if r == -1:
        tops = list(range(12)) if b == 0 else list(range(60))
    elif r == 0:
        tops = [5 * top6 + k for k in range(5)]
    if b <= 1:
        return {ref_id(t, 0, b) for t in tops}
    base_r = max(r, 1)
    d = b - base_r
    return {ref_id(t, (S << (2 * d)) + i, b) for t in tops for i in range(4 ** d)}

def ref_is_ancestor_or_self(a, d):
    ra, rd = ref_res(a), ref_res(d)
    return ra <= rd and ref_parent(d, ra) == a

def all_ids(r):
    if r == -1:
        return [0]
    if r == 0:
        return [ref_id(t, 0, 0) for t in range(12)]
    if r == 1:
        return [ref_id(t, 0, 1) for t in range(60)]
    return [ref_id(t, S, r) for t in range(60) for S in range(4 ** (r - 1))]

def num_cells(r):
    return 0 if r < 0 else 12 if r == 0 else 60 * 4 ** (r - 1)

def s_patterns(r, rng, nrand=2):
    """structured Hilbert positions for resolution r >= 2 (valid ones)"""
    n = r - 1
    top = 4 ** n - 1
    pats = {0, 1 % (top + 1), top, top - 1 if top else 0}
    pats.add(int('03' * n, 4) % (top + 1))          # alternating
    pats.add(int('12' * n, 4) % (top + 1))
    pats.add(int('3' * (n - 1), 4) if n > 1 else 0)  # 0333…
    pats.add(4 ** (n - 1))                          # 1000…
    pats.add(2 * 4 ** (n - 1))
    if n >= 1:
        k = rng.randrange(n)
        pats.add(rng.randrange(1, 4) * 4 ** k)       # single digit set
    for _ in range(nrand):
        pats.add(rng.randrange(top + 1))
    return sorted(pats)

def random_valid_id(rng, rmin=-1, rmax=MAXV):
    r = rng.randint(rmin, rmax)
    if r == -1:
        return 0
    if r == 0:
        return ref_id(rng.randrange(12), 0, 0)
    if r == 1:
        return ref_id(rng.randrange(60), 0, 1)
    return ref_id(rng.randrange(60), rng.randrange(4 ** (r - 1)), r)

# ------------------------------------------------------------------------------------------
# coverage as sets of finest-level (resolution 29) cells, represented by index intervals in hierarchical order
P28 = 4 ** 28

def span(n):
    top6, S, r = ref_decode(n)
    if r == -1:
        return (0, 60 * P28)
    if r == 0:
        return (5 * top6 * P28, 5 * (top6 + 1) * P28)
    w = 4 ** (29 - r)
    lo = top6 * P28 + S * w
    return (lo, lo + w)

def union_spans(cells):
    iv = sorted(span(c) for c in cells)
    out = []
    for lo, hi in iv:
        if out and lo <= out[-1][1]:
            if hi > out[-1][1]:
                out[-1][1] = hi
        else:
            out.append([lo, hi])
    return [tuple(x) for x in out]

def ref_compact_set(cells):
    """set-based reference compaction of an antichain (duplicates allowed): repeatedly replace complete sibling groups"""
    s = set(cells)
    changed = True
    while changed:
        changed = False
        byp = {}
        for c in s:
            r = ref_res(c)
            if r < 0:
                continue
            byp.setdefault(ref_parent(c, r - 1), []).append(c)
        for p, ch in byp.items():
            need = 12 if ref_res(p) == -1 else (5 if ref_res(p) == 0 else 4)
            if len(ch) == need:
                s -= set(ch); s.add(p); changed = True
    return s

def is_antichain(cells):
    s = set(cells)
    for c in s:
        r = ref_res(c)
        for a in range(-1, r):
            if ref_parent(c, a) in s:
                return False
    return True
