"""Implementation side of the line protocol: runs the real a5 code (from the current /repo tree) in-process.

Same ops, same canonical answers as lean/A5/Model/Driver.lean.
"""
import os, sys, struct, signal, threading

OP_TIMEOUT = float(os.environ.get('VERIF_OP_TIMEOUT', '30'))

class OpTimeout(BaseException):
    pass

def _on_alarm(signum, frame):
    raise OpTimeout()

REPO = os.environ.get('A5_REPO', '/repo')

def load_a5():
    if REPO not in sys.path:
        sys.path.insert(0, REPO)
    import a5  # noqa
    assert os.path.realpath(a5.__file__).startswith(os.path.realpath(REPO)), a5.__file__
    return a5

def err_name(e):
    for cls, nm in ((ValueError, 'ValueError'), (IndexError, 'IndexError'), (TypeError, 'TypeError'),
                    (ZeroDivisionError, 'ZeroDivisionError'), (OverflowError, 'OverflowError')):
        if isinstance(e, cls):
            return nm
    return 'Other'

def fbits(x):
    return struct.unpack('<Q', struct.pack('<d', float(x)))[0]

def bits2f(b):
    return struct.unpack('<d', struct.pack('<Q', int(b)))[0]

def opt(s):
    return None if s == '-' else int(s)

def fmt_list(l):
    return 'ok %d' % len(l) + ''.join(' %d' % x for x in l)

class PyDriver:
    def __init__(self):
        self.a5 = load_a5()
        from a5.core import serialization, cell_info, compact, hex as hexm, origin, hilbert
        self.ser, self.ci, self.cp, self.hexm, self.org, self.hb = serialization, cell_info, compact, hexm, origin, hilbert

    def run(self, line):
        t = line.split()
        if not t:
            return 'bad-op'
        timed = threading.current_thread() is threading.main_thread()
        if timed:
            old = signal.signal(signal.SIGALRM, _on_alarm)
            # after three calls that did not return, later ones get two seconds (a hanging mutation must not stall the whole check)
            signal.setitimer(signal.ITIMER_REAL, OP_TIMEOUT if getattr(self, 'timeouts', 0) < 3 else min(OP_TIMEOUT, 2.0))
        try:
            return self.dispatch(t)
        except OpTimeout:
            self.timeouts = getattr(self, 'timeouts', 0) + 1
            return 'err Timeout'       # the call did not return: the model always answers (its loops carry fuel)
        except RecursionError:
            raise
        except Exception as e:  # noqa
            return 'err ' + err_name(e)
        finally:
            if timed:
                signal.setitimer(signal.ITIMER_REAL, 0)
                signal.signal(signal.SIGALRM, old)

    def dispatch(self, t):
        op = t[0]
        ser, ci, cp = self.ser, self.ci, self.cp
        if op == 'res':
            return 'ok %d' % ser.get_resolution(int(t[1]))
        if op == 'des':
            c = ser.deserialize(int(t[1]))
            return 'ok %d %d %d %d' % (c['origin'].id, c['segment'], c['S'], c['resolution'])
        if op == 'ser':
            o, sg, s, r = int(t[1]), int(t[2]), int(t[3]), int(t[4])
            from a5.core.utils import A5Cell
            return 'ok %d' % ser.serialize(A5Cell(origin=self.org.origins[o], segment=sg, S=s, resolution=r))
        if op == 'children':
            r = opt(t[2])
            res = ser.cell_to_children(int(t[1])) if r is None else ser.cell_to_children(int(t[1]), r)
            return fmt_list(res)
        if op == 'parent':
            r = opt(t[2])
            res = ser.cell_to_parent(int(t[1])) if r is None else ser.cell_to_parent(int(t[1]), r)
            return 'ok %d' % res
        if op == 'res0':
            return fmt_list(ser.get_res0_cells())
        if op == 'first':
            r = opt(t[2])
            b = ser.is_first_child(int(t[1])) if r is None else ser.is_first_child(int(t[1]), r)
            return 'ok 1' if b else 'ok 0'
        if op == 'stride':
            return 'ok %d' % ser.get_stride(int(t[1]))
        if op == 'ncells':
            return 'ok %d' % ci.get_num_cells(int(t[1]))
        if op == 'nchildren':
            return 'ok %d' % ci.get_num_children(int(t[1]), int(t[2]))
        if op == 'area':
            return 'ok %d' % fbits(ci.cell_area(int(t[1])))
        if op == 'compact':
            arg = [int(x) for x in t[1:]]
            keep = list(arg)
            out = cp.compact(arg)
            if arg != keep:
                return 'err ArgumentMutated'
            return fmt_list(out)
        if op == 'uncompact':
            arg = [int(x) for x in t[2:]]
            keep = list(arg)
            out = cp.uncompact(arg, int(t[1]))
            if arg != keep:
                return 'err ArgumentMutated'
            return fmt_list(out)
        if op == 'key':
            return 'ok %d' % cp._hierarchical_key(int(t[1]))
        if op == 'hex':
            s = self.hexm.u64_to_hex(int(t[1]))
            return 'ok ' + ''.join('%02x' % ord(ch) for ch in s)
        if op == 'unhex':
            s = bytes.fromhex(t[1]).decode('latin-1') if len(t) > 1 else ''
            return 'ok %d' % self.hexm.hex_to_u64(s)
        if op == 's2a':
            a = self.hb.s_to_anchor(int(t[1]), int(t[2]), t[3])
            i, j = a.offset
            if float(i) != int(i) or float(j) != int(j):
                return 'err NonIntegerOffset'
            return 'ok %d %d %d %d %d' % (a.k, int(i), int(j), a.flips[0], a.flips[1])
        if op == 'ij2s':
            return 'ok %d' % self.hb.ij_to_s((bits2f(t[1]), bits2f(t[2])), int(t[3]), t[4])
        if op == 'l2c':
            return 'ok %d' % self.a5.lonlat_to_cell((bits2f(t[1]), bits2f(t[2])), int(t[3]))
        if op == 'c2l':
            lo, la = self.a5.cell_to_lonlat(int(t[1]))
            return 'ok %d %d' % (fbits(lo), fbits(la))
        if op == 'c2b':
            # option glue: `-` = key omitted, `x` = no options argument at all, `none` / `auto` = the two spellings of the automatic rule
            if t[2] == 'x' and t[3] == 'x':
                ring = self.a5.cell_to_boundary(int(t[1]))
            else:
                opts = {}
                if t[2] in ('0', '1'):
                    opts['closed_ring'] = t[2] == '1'
                if t[3] == 'none':
                    opts['segments'] = None
                elif t[3] == 'auto':
                    opts['segments'] = 'auto'
                elif t[3] not in ('-', 'x'):
                    opts['segments'] = int(t[3])
                ring = self.a5.cell_to_boundary(int(t[1]), opts)
            return 'ok %d' % len(ring) + ''.join(' %d %d' % (fbits(a), fbits(b)) for a, b in ring)
        if op == 'pent':
            from a5.core.tiling import get_pentagon_vertices
            a = self.hb.s_to_anchor(int(t[3]), int(t[1]), t[4])
            shp = get_pentagon_vertices(int(t[1]), int(t[2]), a)
            vs = list(shp.get_vertices()) + [shp.get_center()]
            return 'ok %d' % len(vs) + ''.join(' %d %d' % (fbits(x), fbits(y)) for x, y in vs)
        if op in ('dfwd', 'dinv'):
            from a5.core.cell import _dodecahedron
            fn = _dodecahedron.forward if op == 'dfwd' else _dodecahedron.inverse
            x, y = fn((bits2f(t[1]), bits2f(t[2])), int(t[3]))
            return 'ok %d %d' % (fbits(x), fbits(y))
        if op == 'auth':
            from a5.projections.authalic import AuthalicProjection
            A = AuthalicProjection()
            x = bits2f(t[2])
            return 'ok %d' % fbits(A.forward(x) if t[1] == 'fwd' else A.inverse(x))
        if op == 'q2kj':
            k, j = self.hb.quaternary_to_kj(int(t[1]), (int(t[2]), int(t[3])))
            return 'ok %d %d' % (k, j)
        return 'bad-op'

def main():
    d = PyDriver()
    out = sys.stdout
    for line in sys.stdin:
        out.write(d.run(line) + '\n')

if __name__ == '__main__':
    main()
