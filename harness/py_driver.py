"""Implementation side of the line protocol: runs the real a5 code (from the current /repo tree) in-process.

Same ops, same canonical answers as lean/A5/Model/Driver.lean.
"""
import os, sys, struct, signal, threading

OP_TIMEOUT = float(os.environ.get('VERIF_OP_TIMEOUT', '30'))

class OpTimeout(BaseException):
    pass

class StateDependent(Exception):
    pass

class _Id(int):
    """an int subclass (what enum.IntEnum members, numpy-free id wrappers and bool are): a legal cell id for every function taking ints"""
    pass

def _same_objects(a, b):
    return len(a) == len(b) and all(x is y for x, y in zip(a, b))

def _on_alarm(signum, frame):
    raise OpTimeout()

REPO = os.environ.get('A5_REPO', '/repo')

def load_a5():
    if REPO not in sys.path:
        sys.path.insert(0, REPO)
    import a5  # noqa
    assert os.path.realpath(a5.__file__).startswith(os.path.realpath(REPO)), a5.__file__
    return a5

def err_name(e):
    for cls, nm in ((ValueError, 'ValueError'), (IndexError, 'IndexError'), (TypeError, 'TypeError'),
                    (ZeroDivisionError, 'ZeroDivisionError'), (OverflowError, 'OverflowError')):
        if isinstance(e, cls):
            return nm
    return 'Other'

def fbits(x):
    return struct.unpack('<Q', struct.pack('<d', float(x)))[0]

def bits2f(b):
    return struct.unpack('<d', struct.pack('<Q', int(b)))[0]

def opt(s):
    return None if s == '-' else int(s)

def fmt_list(l):
    return 'ok %d' % len(l) + ''.join(' %d' % x for x in l)

class PyDriver:
    def __init__(self):
        self.a5 = load_a5()
        from a5.core import serialization, cell_info, compact, hex as hexm, origin, hilbert
        self.ser, self.ci, self.cp, self.hexm, self.org, self.hb = serialization, cell_info, compact, hexm, origin, hilbert
        # the public names of the package must BE the functions the properties are anchored in (a wrapper or a swapped export would make every
        # answer obtained through the submodules meaningless for a user of `import a5`)
        self.export_problems = []
        for name, (m, attr) in {'cell_to_parent': (serialization, 'cell_to_parent'), 'cell_to_children': (serialization, 'cell_to_children'),
                                'get_resolution': (serialization, 'get_resolution'), 'get_res0_cells': (serialization, 'get_res0_cells'),
                                'get_num_cells': (cell_info, 'get_num_cells'), 'cell_area': (cell_info, 'cell_area'),
                                'compact': (compact, 'compact'), 'uncompact': (compact, 'uncompact'),
                                'hex_to_u64': (hexm, 'hex_to_u64'), 'u64_to_hex': (hexm, 'u64_to_hex')}.items():
            pub = getattr(self.a5, name, None)
            if pub is not getattr(m, attr, None):
                self.export_problems.append(name)
        # every op that has a public counterpart is asked through the PUBLIC name (what `import a5` users call)
        class _Pub:
            pass
        for modobj in (serialization, cell_info, compact, hexm):
            shim = _Pub()
            for k in dir(modobj):
                if not k.startswith('__'):
                    setattr(shim, k, getattr(modobj, k))
            for name in ('cell_to_parent', 'cell_to_children', 'get_resolution', 'get_res0_cells', 'get_num_cells', 'cell_area', 'compact', 'uncompact', 'hex_to_u64', 'u64_to_hex'):
                if hasattr(modobj, name) and callable(getattr(self.a5, name, None)):
                    setattr(shim, name, getattr(self.a5, name))
            if modobj is serialization: self.ser = shim
            elif modobj is cell_info: self.ci = shim
            elif modobj is compact: self.cp = shim
            else: self.hexm = shim

    def run(self, line):
        t = line.split()
        if not t:
            return 'bad-op'
        timed = threading.current_thread() is threading.main_thread()
        if timed:
            old = signal.signal(signal.SIGALRM, _on_alarm)
            # after three calls that did not return, later ones get two seconds (a hanging mutation must not stall the whole check)
            signal.setitimer(signal.ITIMER_REAL, OP_TIMEOUT if getattr(self, 'timeouts', 0) < 3 else min(OP_TIMEOUT, 2.0))
        try:
            return self.dispatch(t)
        except OpTimeout:
            self.timeouts = getattr(self, 'timeouts', 0) + 1
            return 'err Timeout'       # the call did not return: the model always answers (its loops carry fuel)
        except RecursionError:
            raise
        except StateDependent as e:
            return 'err StateDependent ' + str(e)
        except Exception as e:  # noqa
            return 'err ' + err_name(e)
        finally:
            if timed:
                signal.setitimer(signal.ITIMER_REAL, 0)
                signal.signal(signal.SIGALRM, old)

    # -----------------------------------------------------------------------------------------------
    # usage-pattern stress (no source hook): every op is also asked in the ways a caller may legitimately use the
    # API over time - the same argument object reused after an in-place update, a returned list/dict/shape mutated
    # or still held while the next call is made.  An answer that depends on any of that is reported as
    # `err StateDependent <what>` (the model, a pure function, can never agree with it).
    PUBLIC_OF_OP = {'parent': 'cell_to_parent', 'children': 'cell_to_children', 'res': 'get_resolution', 'res0': 'get_res0_cells', 'ncells': 'get_num_cells',
                    'area': 'cell_area', 'compact': 'compact', 'uncompact': 'uncompact', 'hex': 'u64_to_hex', 'unhex': 'hex_to_u64'}

    def dispatch(self, t):
        ans = self.dispatch0(t)
        for kind, (obj, snap_fn, snap) in list(self.__dict__.setdefault('held', {}).items()):
            try:
                now = snap_fn(obj)
            except Exception as e:  # noqa
                now = 'raises ' + type(e).__name__
            if now != snap:
                del self.held[kind]
                return f'err StateDependent a value returned earlier by `{kind}` changed after a later call'
        return ans

    def hold(self, kind, obj, snap_fn):
        held = self.__dict__.setdefault('held', {})
        if kind in held:
            old, fn, snap = held.pop(kind)
            if fn(old) != snap:
                raise StateDependent(f'a value returned earlier by `{kind}` changed when `{kind}` was called again')
        held[kind] = (obj, snap_fn, snap_fn(obj))

    def twice(self, kind, fn, canon=lambda r: list(r), spoil=None):
        """call, spoil the returned object in place, call again: both answers must be the same"""
        r1 = fn()
        k1 = canon(r1)
        try:
            if spoil is not None:
                spoil(r1)
            elif isinstance(r1, list):
                for x in r1[:4] + r1[-2:]:
                    # elements that are themselves mutable (points given as lists, records) are edited in place as well
                    if isinstance(x, list) and x:
                        x[0] = 999.25; x.append(-1)
                    elif isinstance(x, dict):
                        x['spoiled'] = True
                r1.append(r1[0] if r1 else 0)
                r1.reverse()
        except Exception:  # noqa  (immutable result: nothing to spoil)
            pass
        r2 = None
        try:
            r2 = fn()
            k2 = canon(r2)
        except Exception as e:  # noqa
            k2 = 'raises ' + type(e).__name__
        if k2 != k1:
            raise StateDependent(f'`{kind}` answers differently after the list it returned was modified by the caller')
        # a result the caller still holds from an earlier op of this kind must not have changed because a later result was edited
        kept = self.__dict__.setdefault('_kept', {})
        if kind in kept:
            old, snap, cn = kept.pop(kind)
            try:
                now = cn(old)
            except Exception:  # noqa
                now = snap
            if now != snap:
                raise StateDependent(f'a result of `{kind}` that the caller still holds changed when a later result of `{kind}` was edited in place')
        if r2 is not None:
            kept[kind] = (r2, k2, canon)
        return k1

    def reused_arg(self, kind, point, fn, canon):
        """a coordinate pair is asked (1) as a new tuple and (2) through one list object that carried the previous query of this kind and was
        overwritten in place (a caller streaming points through a scratch buffer); the answers must be the same"""
        fresh = canon(fn(point))
        buf = self.__dict__.setdefault('_bufs', {}).setdefault(kind, [0.0, 0.0])
        try:
            fn(buf)                      # the query the buffer still holds
        except Exception:  # noqa
            pass
        buf[0], buf[1] = point[0], point[1]
        try:
            again = canon(fn(buf))
        except Exception as e:  # noqa
            again = 'raises ' + type(e).__name__
        if list(buf) != [point[0], point[1]]:
            raise StateDependent(f'`{kind}` modified the coordinate list passed to it')
        if again != fresh:
            raise StateDependent(f'`{kind}` answers differently for a coordinate list that was used in the previous call and overwritten in place than for a new tuple with the same values')
        return fresh

    def dispatch0(self, t):
        op = t[0]
        ser, ci, cp = self.ser, self.ci, self.cp
        if op == 'res':
            return 'ok %d' % ser.get_resolution(int(t[1]))
        if op == 'des':
            def spoil(c):
                c['S'] = -7; c['segment'] = 9; c['resolution'] = 3
            return 'ok %d %d %d %d' % self.twice('deserialize', lambda: ser.deserialize(int(t[1])),
                                                 canon=lambda c: (c['origin'].id, c['segment'], c['S'], c['resolution']), spoil=spoil)
        if op == 'ser':
            o, sg, s, r = int(t[1]), int(t[2]), int(t[3]), int(t[4])
            from a5.core.utils import A5Cell
            def attempt(cell):
                try:
                    return 'ok %d' % ser.serialize(cell)
                except Exception as e:  # noqa
                    return 'err ' + err_name(e)
            fresh = attempt(A5Cell(origin=self.org.origins[o], segment=sg, S=s, resolution=r))
            # the same record written with its keys in another order (a record is a mapping: the order of its keys carries no meaning)
            shuffled = attempt(A5Cell(resolution=r, S=s, segment=sg, origin=self.org.origins[o]))
            if shuffled != fresh:
                return (f'err StateDependent serialize answers `{fresh}` for A5Cell(origin, segment, S, resolution) and `{shuffled}` for the same record '
                        f'written as A5Cell(resolution, S, segment, origin)')
            # one record object reused across calls and updated in place, as a caller iterating over cells would do
            rec = self.__dict__.get('_rec')
            if rec is None:
                rec = self._rec = A5Cell(origin=self.org.origins[0], segment=0, S=0, resolution=0)
            prev = dict(rec)
            attempt(rec)                                       # encode what it held
            rec['origin'], rec['segment'], rec['S'], rec['resolution'] = self.org.origins[o], sg, s, r
            reused = attempt(rec)
            if (rec['origin'], rec['segment'], rec['S'], rec['resolution']) != (self.org.origins[o], sg, s, r):
                return 'err StateDependent serialize modified the record passed to it'
            if reused != fresh:
                return (f'err StateDependent serialize answers `{fresh}` for a new record and `{reused}` for a record object that was '
                        f'encoded before (holding origin={prev["origin"].id} segment={prev["segment"]} S={prev["S"]} resolution={prev["resolution"]}) and updated in place')
            return fresh
        if op == 'children':
            r = opt(t[2])
            res = self.twice('cell_to_children', lambda: ser.cell_to_children(int(t[1])) if r is None else ser.cell_to_children(int(t[1]), r))
            return fmt_list(res)
        if op == 'parent':
            r = opt(t[2])
            res = ser.cell_to_parent(int(t[1])) if r is None else ser.cell_to_parent(int(t[1]), r)
            return 'ok %d' % res
        if op == 'res0':
            return fmt_list(self.twice('get_res0_cells', lambda: ser.get_res0_cells()))
        if op == 'first':
            r = opt(t[2])
            b = ser.is_first_child(int(t[1])) if r is None else ser.is_first_child(int(t[1]), r)
            return 'ok 1' if b else 'ok 0'
        if op == 'stride':
            return 'ok %d' % ser.get_stride(int(t[1]))
        if op == 'ncells':
            return 'ok %d' % ci.get_num_cells(int(t[1]))
        if op == 'nchildren':
            return 'ok %d' % ci.get_num_children(int(t[1]), int(t[2]))
        if op == 'area':
            return 'ok %d' % fbits(ci.cell_area(int(t[1])))
        if op == 'compact':
            arg = [int(x) for x in t[1:]]
            keep = list(arg)
            out = self.twice('compact', lambda: cp.compact(arg))
            if arg != keep or not _same_objects(arg, keep):
                return 'err ArgumentMutated'
            # the same ids as int-subclass objects: same answer, and the caller's list must still hold the caller's own objects
            arg2 = [_Id(x) for x in arg]; keep2 = list(arg2)
            try:
                out2 = list(cp.compact(arg2))
            except Exception as e:  # noqa
                out2 = 'raises ' + type(e).__name__
            if not _same_objects(arg2, keep2):
                return 'err StateDependent compact replaced elements of the list passed to it (ids given as int-subclass objects)'
            if out2 != list(out):
                return 'err StateDependent compact answers differently for ids given as int-subclass objects'
            return fmt_list(out)
        if op == 'uncompact':
            arg = [int(x) for x in t[2:]]
            keep = list(arg)
            out = self.twice('uncompact', lambda: cp.uncompact(arg, int(t[1])))
            if arg != keep or not _same_objects(arg, keep):
                return 'err ArgumentMutated'
            arg2 = [_Id(x) for x in arg]; keep2 = list(arg2)
            try:
                out2 = list(cp.uncompact(arg2, int(t[1])))
            except Exception as e:  # noqa
                out2 = 'raises ' + type(e).__name__
            if not _same_objects(arg2, keep2):
                return 'err StateDependent uncompact replaced elements of the list passed to it (ids given as int-subclass objects)'
            if out2 != list(out):
                return 'err StateDependent uncompact answers differently for ids given as int-subclass objects'
            return fmt_list(out)
        if op == 'key':
            return 'ok %d' % cp._hierarchical_key(int(t[1]))
        if op == 'hex':
            s = self.hexm.u64_to_hex(int(t[1]))
            return 'ok ' + ''.join('%02x' % ord(ch) for ch in s)
        if op == 'unhex':
            s = bytes.fromhex(t[1]).decode('latin-1') if len(t) > 1 else ''
            return 'ok %d' % self.hexm.hex_to_u64(s)
        if op == 's2a':
            a = self.hb.s_to_anchor(int(t[1]), int(t[2]), t[3])
            i, j = a.offset
            if float(i) != int(i) or float(j) != int(j):
                return 'err NonIntegerOffset'
            return 'ok %d %d %d %d %d' % (a.k, int(i), int(j), a.flips[0], a.flips[1])
        if op == 'ij2s':
            return 'ok %d' % self.hb.ij_to_s((bits2f(t[1]), bits2f(t[2])), int(t[3]), t[4])
        if op == 'l2c':
            p, r = (bits2f(t[1]), bits2f(t[2])), int(t[3])
            ans = self.reused_arg('lonlat_to_cell', p, lambda q: self.a5.lonlat_to_cell(q, r), lambda v: v)
            if p[0].is_integer() and p[1].is_integer() and abs(p[0]) < 1e15:
                # whole degrees are usually written as Python ints by a caller
                try:
                    as_int = self.a5.lonlat_to_cell((int(p[0]), int(p[1])), r)
                except Exception as e:  # noqa
                    as_int = 'raises ' + type(e).__name__
                if as_int != ans:
                    raise StateDependent(f'`lonlat_to_cell` answers {as_int} for the int coordinates ({int(p[0])}, {int(p[1])}) and {ans} for the equal floats')
            return 'ok %d' % ans
        if op == 'c2l':
            lo, la = self.a5.cell_to_lonlat(int(t[1]))
            return 'ok %d %d' % (fbits(lo), fbits(la))
        if op == 'c2b':
            # option glue: `-` = key omitted, `x` = no options argument at all, `none` / `auto` = the two spellings of the automatic rule
            if t[2] == 'x' and t[3] == 'x':
                ring = self.twice('cell_to_boundary', lambda: self.a5.cell_to_boundary(int(t[1])), canon=lambda r: [tuple(p) for p in r])
            else:
                opts = {}
                if t[2] in ('0', '1'):
                    opts['closed_ring'] = t[2] == '1'
                if t[3] == 'none':
                    opts['segments'] = None
                elif t[3] == 'auto':
                    opts['segments'] = 'auto'
                elif t[3] not in ('-', 'x'):
                    opts['segments'] = int(t[3])
                keep = dict(opts)
                ring = self.twice('cell_to_boundary', lambda: self.a5.cell_to_boundary(int(t[1]), opts), canon=lambda r: [tuple(p) for p in r])
                if opts != keep:
                    return 'err StateDependent cell_to_boundary modified the options dictionary passed to it'
                # the same options object reused for another cell (updated in place)
                shared = self.__dict__.setdefault('_opts', {})
                shared.clear(); shared.update(keep)
                again = [tuple(p) for p in self.a5.cell_to_boundary(int(t[1]), shared)]
                if again != ring or shared != keep:
                    return 'err StateDependent cell_to_boundary answers differently for an options dictionary that was used in an earlier call'
            return 'ok %d' % len(ring) + ''.join(' %d %d' % (fbits(a), fbits(b)) for a, b in ring)
        if op == 'pent':
            from a5.core.tiling import get_pentagon_vertices
            a = self.hb.s_to_anchor(int(t[3]), int(t[1]), t[4])
            shp = get_pentagon_vertices(int(t[1]), int(t[2]), a)
            vs = list(shp.get_vertices()) + [shp.get_center()]
            self.hold('get_pentagon_vertices', shp, lambda sh: [tuple(v) for v in sh.get_vertices()])
            return 'ok %d' % len(vs) + ''.join(' %d %d' % (fbits(x), fbits(y)) for x, y in vs)
        if op in ('dfwd', 'dinv'):
            from a5.core.cell import _dodecahedron
            fn = _dodecahedron.forward if op == 'dfwd' else _dodecahedron.inverse
            o = int(t[3])
            x, y = self.reused_arg('forward' if op == 'dfwd' else 'inverse', (bits2f(t[1]), bits2f(t[2])), lambda q: fn(q, o), lambda v: (fbits(v[0]), fbits(v[1])))
            return 'ok %d %d' % (x, y)
        if op == 'auth':
            from a5.projections.authalic import AuthalicProjection
            A = AuthalicProjection()
            x = bits2f(t[2])
            return 'ok %d' % fbits(A.forward(x) if t[1] == 'fwd' else A.inverse(x))
        if op == 'q2kj':
            k, j = self.hb.quaternary_to_kj(int(t[1]), (int(t[2]), int(t[3])))
            return 'ok %d %d' % (k, j)
        return 'bad-op'

def main():
    d = PyDriver()
    out = sys.stdout
    for line in sys.stdin:
        out.write(d.run(line) + '\n')

if __name__ == '__main__':
    main()
