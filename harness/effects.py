"""Shared-state tie for C16/C17: static inventory of shared mutable objects (AST), runtime discipline check through
logging proxies, deterministic preemption search, free-running thread soak, history search against fresh imports."""
import ast, os, sys, json, copy, math, struct, threading, random, hashlib, importlib

REPO = os.environ.get('A5_REPO', '/repo')
MUTATING_METHODS = {'append', 'extend', 'insert', 'pop', 'clear', 'update', 'sort', 'reverse', 'remove', 'setdefault', 'add', 'discard', 'popitem',
                    'translate', 'scale', 'transform', 'transform2d', 'rotate180', 'reflect_y'}
# gl-matrix convention: first argument is the out-parameter and is written
OUT_PARAM_FUNCS = {'vec2': None, 'vec3': None, 'quat': None}

def _is_mutable_ctor(node):
    if isinstance(node, (ast.List, ast.Dict, ast.Set, ast.ListComp, ast.DictComp, ast.SetComp)):
        return True
    if isinstance(node, ast.Call):
        f = node.func
        name = f.attr if isinstance(f, ast.Attribute) else getattr(f, 'id', '')
        if name in ('create', 'clone', 'list', 'dict', 'set', 'bytearray', 'deque', 'defaultdict', 'OrderedDict', 'Counter', 'ChainMap', 'array', 'Queue', 'LifoQueue', 'SimpleQueue', 'WeakValueDictionary', 'WeakKeyDictionary', 'local') or (name[:1].isupper() and name not in ('Origin', 'NewType', 'TypeVar', 'Literal', 'Anchor')):
            return True
    return False

def _module_mutables(tree):
    mutables = {}
    for node in tree.body:
        targets = []
        if isinstance(node, ast.Assign):
            targets = [t for t in node.targets if isinstance(t, ast.Name)]
            val = node.value
        elif isinstance(node, ast.AnnAssign) and isinstance(node.target, ast.Name) and node.value is not None:
            targets = [node.target]; val = node.value
        else:
            continue
        if _is_mutable_ctor(val):
            for t in targets:
                mutables[t.id] = type(val).__name__ if not isinstance(val, ast.Call) else 'Call:' + (val.func.attr if isinstance(val.func, ast.Attribute) else getattr(val.func, 'id', '?'))
    # a module-level name that some function re-binds (`global NAME` + assignment) is shared state whatever it holds
    for func in [n for n in ast.walk(tree) if isinstance(n, (ast.FunctionDef, ast.AsyncFunctionDef))]:
        for n in ast.walk(func):
            if isinstance(n, (ast.Global, ast.Nonlocal)):
                for nm in n.names:
                    mutables.setdefault(nm, 'global-rebind')
    return mutables

HARMLESS_DECORATORS = {'staticmethod', 'classmethod', 'property', 'dataclass', 'abstractmethod', 'overload', 'wraps', 'total_ordering', 'final'}

def _function_state(mod, tree):
    """state that hides in function objects: memoising/unknown decorators, mutable default arguments, attributes stored on functions or classes"""
    out = {}
    top = {n.name for n in tree.body if isinstance(n, (ast.FunctionDef, ast.ClassDef))}
    for func in [n for n in ast.walk(tree) if isinstance(n, (ast.FunctionDef, ast.AsyncFunctionDef))]:
        for d in func.decorator_list:
            base = d.func if isinstance(d, ast.Call) else d
            name = base.attr if isinstance(base, ast.Attribute) else getattr(base, 'id', '?')
            if name not in HARMLESS_DECORATORS and not name.endswith('setter'):
                out[f'{mod}:{func.name}@{name}'] = 'decorator'
        a = func.args
        for dflt in list(a.defaults) + [x for x in a.kw_defaults if x is not None]:
            if _is_mutable_ctor(dflt):
                out[f'{mod}:{func.name}(default {ast.unparse(dflt)[:40]})'] = 'mutable-default'
    for n in ast.walk(tree):
        if isinstance(n, (ast.Assign, ast.AugAssign)):
            for t in (n.targets if isinstance(n, ast.Assign) else [n.target]):
                base = t
                while isinstance(base, ast.Subscript):
                    base = base.value
                if isinstance(base, ast.Attribute) and isinstance(base.value, ast.Name) and (base.value.id in top or base.value.id in ('cls', '__class__')):
                    out[f'{mod}:{base.value.id}.{base.attr}'] = 'attribute-on-function-or-class'
    return out

def static_inventory(repo=REPO):
    """every module-level mutable object, with the functions (in any module) that reference it and how; every instance
    attribute that is written outside __init__"""
    inv = {'module_objects': {}, 'instance_state': {}, 'function_state': {}, '_lines': {}}
    root = os.path.join(repo, 'a5')
    trees = {}
    for dp, _, fns in sorted(os.walk(root)):
        for fn in sorted(fns):
            if fn.endswith('.py'):
                path = os.path.join(dp, fn)
                mod = os.path.relpath(path, repo)[:-3].replace(os.sep, '.')
                try:
                    trees[mod] = ast.parse(open(path).read())
                except SyntaxError as e:
                    inv['module_objects'][mod + ':<syntax error>'] = {'kind': 'error', 'uses': [str(e)]}
    owned = {mod: _module_mutables(t) for mod, t in trees.items()}
    for mod, t in trees.items():
        inv['function_state'].update(_function_state(mod, t))
    inv['function_state'] = dict(sorted(inv['function_state'].items()))
    short = {}
    for mod in owned:
        short[mod.split('.')[-1]] = mod
    uses = {f'{mod}:{m}': [] for mod, ms in owned.items() for m in ms}
    for mod, tree in trees.items():
        # names visible in this module that denote a shared mutable object: own ones and `from x import NAME`
        visible = {m: f'{mod}:{m}' for m in owned[mod]}
        for node in tree.body:
            if isinstance(node, ast.ImportFrom) and node.module:
                if node.level:
                    pkg = mod.split('.')[:-1] if not mod.endswith('__init__') else mod.split('.')[:-1]
                    pkg = pkg[:len(pkg) - (node.level - 1)]
                    src = '.'.join(pkg + node.module.split('.'))
                else:
                    src = node.module
                if src not in owned:
                    src = None
                if src:
                    for al in node.names:
                        if al.name in owned[src]:
                            visible[al.asname or al.name] = f'{src}:{al.name}'
        for func in [n for n in ast.walk(tree) if isinstance(n, (ast.FunctionDef, ast.AsyncFunctionDef))]:
            local = {a.arg for a in func.args.args + func.args.kwonlyargs}
            globals_decl = set()
            for n in ast.walk(func):
                if isinstance(n, ast.Global):
                    globals_decl |= set(n.names)
            for n in ast.walk(func):
                tg = []
                if isinstance(n, ast.Assign):
                    tg = n.targets
                elif isinstance(n, (ast.AugAssign, ast.AnnAssign)):
                    tg = [n.target]
                elif isinstance(n, (ast.For, ast.comprehension)):
                    tg = [n.target]
                for t in tg:
                    for nn in ast.walk(t):
                        if isinstance(nn, ast.Name) and isinstance(nn.ctx, ast.Store) and nn.id not in globals_decl:
                            local.add(nn.id)
            # local aliases of a shared object (`x = SHARED`, possibly inside a conditional expression): what is done to x is done to SHARED
            alias = {}
            for n in ast.walk(func):
                if isinstance(n, ast.Assign) and len(n.targets) == 1 and isinstance(n.targets[0], ast.Name):
                    srcs = [v for v in ast.walk(n.value) if isinstance(v, ast.Name) and v.id in visible and v.id not in local]
                    direct = isinstance(n.value, ast.Name) or (isinstance(n.value, ast.IfExp) and any(isinstance(b, ast.Name) and b.id in visible for b in (n.value.body, n.value.orelse)))
                    if srcs and direct:
                        alias[n.targets[0].id] = visible[srcs[0].id]
            for n in ast.walk(func):
                if isinstance(n, ast.Name) and n.id in visible and n.id not in local:
                    uses[visible[n.id]].append((f'{mod.split(".")[-1]}.{func.name}', _usage_kind(func, n)))
                    inv['_lines'].setdefault(f'{mod.split(".")[-1]}.{func.name}', set()).add(n.lineno)
                elif isinstance(n, ast.Name) and n.id in alias and isinstance(n.ctx, ast.Load):
                    kind = _usage_kind(func, n)
                    if kind != 'read':
                        uses[alias[n.id]].append((f'{mod.split(".")[-1]}.{func.name}', kind + ' via alias'))
                        inv['_lines'].setdefault(f'{mod.split(".")[-1]}.{func.name}', set()).add(n.lineno)
        for cls in [n for n in tree.body if isinstance(n, ast.ClassDef)]:
            for func in [n for n in cls.body if isinstance(n, ast.FunctionDef) and n.name != '__init__' and not n.name.startswith('_add')]:
                for n in ast.walk(func):
                    attr = None
                    if isinstance(n, ast.Delete):
                        for t in n.targets:
                            base = t
                            while isinstance(base, ast.Subscript):
                                base = base.value
                            if isinstance(base, ast.Attribute) and isinstance(base.value, ast.Name) and base.value.id == 'self':
                                inv['instance_state'].setdefault(f'{mod}:{cls.name}.{base.attr}', set()).add(func.name + ':del')
                    if isinstance(n, ast.Call) and isinstance(n.func, ast.Attribute) and n.func.attr in ('pop', 'popitem', 'clear', 'remove', 'discard'):
                        base = n.func.value
                        if isinstance(base, ast.Attribute) and isinstance(base.value, ast.Name) and base.value.id == 'self':
                            inv['instance_state'].setdefault(f'{mod}:{cls.name}.{base.attr}', set()).add(func.name + ':del')
                    if isinstance(n, (ast.Assign, ast.AugAssign)):
                        tg = n.targets if isinstance(n, ast.Assign) else [n.target]
                        for t in tg:
                            base = t
                            while isinstance(base, ast.Subscript):
                                base = base.value
                            if isinstance(base, ast.Attribute) and isinstance(base.value, ast.Name) and base.value.id == 'self':
                                attr = base.attr
                    elif isinstance(n, ast.Call) and isinstance(n.func, ast.Attribute) and n.func.attr in MUTATING_METHODS:
                        base = n.func.value
                        if isinstance(base, ast.Attribute) and isinstance(base.value, ast.Name) and base.value.id == 'self':
                            attr = base.attr
                    if attr:
                        inv['instance_state'].setdefault(f'{mod}:{cls.name}.{attr}', set()).add(func.name)
    # lines at which a method mentions (reads or writes) an instance attribute that some method writes: the preemption search arms there
    for mod, tree in trees.items():
        for cls in [n for n in tree.body if isinstance(n, ast.ClassDef)]:
            attrs = {k.split('.')[-1] for k in inv['instance_state'] if k.startswith(f'{mod}:{cls.name}.')}
            if not attrs:
                continue
            for func in [n for n in cls.body if isinstance(n, ast.FunctionDef) and n.name != '__init__']:
                for n in ast.walk(func):
                    if isinstance(n, ast.Attribute) and isinstance(n.value, ast.Name) and n.value.id == 'self' and n.attr in attrs:
                        inv['_lines'].setdefault(f'{mod.split(".")[-1]}.{func.name}', set()).add(n.lineno)
    for mod, ms in owned.items():
        for m, kind in ms.items():
            if m == '__all__':
                continue
            u = sorted(set(uses[f'{mod}:{m}']))
            inv['module_objects'][f'{mod}:{m}'] = {'kind': kind, 'uses': [f'{f}:{k}' for f, k in u]}
    inv['instance_state'] = {k: sorted(v) for k, v in sorted(inv['instance_state'].items())}
    inv['module_objects'] = dict(sorted(inv['module_objects'].items()))
    return inv

def _usage_kind(func, name_node):
    """how a function uses a module-level mutable: 'write' (subscript/attr store, augmented assign, out-parameter, mutating method) or 'read'"""
    if isinstance(getattr(name_node, 'ctx', None), ast.Store):
        return 'write(rebind)'
    for n in ast.walk(func):
        if isinstance(n, ast.Call):
            # out-parameter convention of vec2/vec3/quat: first positional argument is written
            f = n.func
            if n.args and n.args[0] is name_node:
                callee = f.attr if isinstance(f, ast.Attribute) else getattr(f, 'id', '')
                owner = f.value.id if isinstance(f, ast.Attribute) and isinstance(f.value, ast.Name) else ''
                if owner in OUT_PARAM_FUNCS or callee in ('lerp', 'normalize', 'cross', 'subtract', 'scale', 'add', 'set', 'copy', 'negate', 'transformQuat', 'transformMat2', 'conjugate', 'slerp'):
                    return 'write(out-param)'
            if isinstance(f, ast.Attribute) and f.value is name_node and f.attr in MUTATING_METHODS:
                return 'write(method)'
        if isinstance(n, (ast.Assign, ast.AugAssign)):
            tg = n.targets if isinstance(n, ast.Assign) else [n.target]
            for t in tg:
                base = t
                while isinstance(base, (ast.Subscript, ast.Attribute)):
                    base = base.value
                if base is name_node and t is not name_node:
                    return 'write(item)'
                if base is name_node and isinstance(n, ast.AugAssign):
                    return 'write(aug)'
    return 'read'

# ---------------------------------------------------------------------------------------------
# runtime discipline

def fbits(x):
    return struct.unpack('<Q', struct.pack('<d', float(x)))[0]

def canon(v):
    """bit-exact canonical form of a result"""
    if isinstance(v, float):
        return ('f', fbits(v))
    if isinstance(v, (list, tuple)):
        return tuple(canon(x) for x in v)
    if isinstance(v, dict):
        return tuple(sorted((k, canon(x)) for k, x in v.items()))
    return v

class LogList(list):
    def __init__(self, log, name):
        super().__init__(); self._log = log; self._name = name
    def __setitem__(self, i, v):
        self._log.append((self._name, 'set', i, canon(v))); super().__setitem__(i, v)
    def append(self, v):
        self._log.append((self._name, 'append', len(self), canon(v))); super().append(v)
    def __delitem__(self, i):
        self._log.append((self._name, 'remove', i, None)); super().__delitem__(i)
    def pop(self, *a):
        self._log.append((self._name, 'remove', a[0] if a else -1, None)); return super().pop(*a)
    def clear(self):
        self._log.append((self._name, 'remove', 'all', None)); super().clear()

class LogDict(dict):
    def __init__(self, log, name):
        super().__init__(); self._log = log; self._name = name
    def __setitem__(self, k, v):
        self._log.append((self._name, 'set', canon(k), canon(v))); super().__setitem__(k, v)
    def __delitem__(self, k):
        self._log.append((self._name, 'remove', canon(k), None)); super().__delitem__(k)
    def pop(self, *a):
        self._log.append((self._name, 'remove', canon(a[0]) if a else None, None)); return super().pop(*a)
    def popitem(self):
        self._log.append((self._name, 'remove', 'item', None)); return super().popitem()
    def clear(self):
        self._log.append((self._name, 'remove', 'all', None)); super().clear()

def api_calls(rng, n, a5=None):
    """a sample of (name, args) API calls over all public functions, all faces, polar/antimeridian points, all resolutions"""
    from refids import random_valid_id, ref_id
    calls = []
    for _ in range(n):
        k = rng.randrange(15)
        r = rng.randint(0, 29)
        if k == 13:
            # calls that raise (a failed call must leave nothing behind either)
            c = random_valid_id(rng, 3, 20)
            from refids import ref_res as _rr
            calls.append(rng.choice([
                ('uncompact', ([random_valid_id(rng, 1, 3), random_valid_id(rng, 6, 9)], 4)),
                ('uncompact', ([c], _rr(c) - 1)),
                ('cell_to_children', (c, _rr(c) - 1)),
                ('cell_to_parent', (c, _rr(c) + 1)),
                ('lonlat_to_cell', ((rng.uniform(-180, 180), rng.uniform(-90, 90)), rng.choice([30, 31]))),
                ('cell_to_children', (c, 31)),
                # option values of the wrong type: the call fails half-way through building the ring
                ('cell_to_boundary', (c, {'segments': rng.choice([2.0, 3.5, '3', [2]])})),
                ('cell_to_boundary', (random_valid_id(rng, 0, 1), {'segments': rng.choice([2.0, '2'])})),
                ('lonlat_to_cell', ((rng.uniform(-180, 180), 'x'), rng.randint(2, 20))),
                ('lonlat_to_cell', ((rng.uniform(-180, 180), rng.uniform(-90, 90)), 5.5)),
                ('cell_to_lonlat', ('12',)),
            ]))
            # ... and what a failed call may have left behind shows on the coarsest cells (whole faces and quintants are built by code of their own)
            c01 = random_valid_id(rng, 0, 1)
            calls.append(rng.choice([('cell_to_boundary', (c01, {'segments': 1})), ('cell_to_boundary', (c01,)), ('cell_to_lonlat', (c01,)),
                                     ('cell_to_boundary', (random_valid_id(rng, 2, 6), {'segments': 2}))]))
        elif k == 14 and a5 is not None:
            # a published cell corner given back (the rare fallback path of lonlat_to_cell), then a query next to it at the same resolution
            c = random_valid_id(rng, 2, 29)
            from refids import ref_res as _rr
            try:
                ring = a5.cell_to_boundary(c, {'segments': 1, 'closed_ring': False})
                cen = a5.cell_to_lonlat(c)
                q = tuple(ring[rng.randrange(len(ring))])
                calls.append(('lonlat_to_cell', (q, _rr(c))))
                calls.append(('lonlat_to_cell', ((cen[0], cen[1]), _rr(c))))
                calls.append(('lonlat_to_cell', (q, _rr(c))))
            except Exception:
                pass
        elif k <= 2:
            lat = rng.choice([rng.uniform(-89.9, 89.9), rng.uniform(-89.9, 89.9), 90.0, -90.0, 89.9999, 0.0])
            lon = rng.choice([rng.uniform(-180, 180), 180.0, -180.0, rng.uniform(-540, 540)])
            calls.append(('lonlat_to_cell', ((lon, lat), rng.randint(0, 29))))
        elif k <= 4:
            calls.append(('cell_to_lonlat', (random_valid_id(rng, 0, 29),)))
        elif k <= 6:
            c = random_valid_id(rng, 0, 29)
            opts = rng.choice([None, {}, {'closed_ring': False}, {'segments': 1}, {'segments': 3, 'closed_ring': True}, {'segments': 'auto'}])
            calls.append(('cell_to_boundary', (c,) if opts is None else (c, opts)))
        elif k == 7:
            c = random_valid_id(rng, 0, 29)
            calls.append(('cell_to_parent', (c,)))
        elif k == 8:
            if rng.random() < 0.25:
                # the world cell (the only id that fans out over the origin table)
                calls.append(rng.choice([('cell_to_children', (0, rng.randint(0, 2))), ('get_res0_cells', ()), ('uncompact', ([0], rng.randint(0, 2)))]))
            else:
                c = random_valid_id(rng, 1, 28)
                calls.append(('cell_to_children', (c,)))
        elif k == 9:
            c = random_valid_id(rng, 2, 20)
            calls.append(('compact', (sorted([c + 0] + [random_valid_id(rng, 2, 6) for _ in range(5)]),)))
        elif k == 10:
            c = random_valid_id(rng, 1, 24)
            from refids import ref_res
            calls.append(('uncompact', ([c], min(29, ref_res(c) + rng.randint(1, 5)))))
        elif k == 11:
            calls.append(('get_resolution', (random_valid_id(rng, 0, 29),)))
        else:
            calls.append(('cell_area', (rng.randint(0, 29),)))
    return calls

def global_workload(rng, n):
    """boundary / centre calls spread over all twelve faces and all five quintants (touches most of the 240 triangle combinations)"""
    from refids import ref_id
    calls = []
    for i in range(n):
        t = (7 * i + rng.randrange(60)) % 60
        r = rng.choice([2, 3, 5, 9])
        c = ref_id(t, rng.randrange(4 ** (r - 1)), r)
        calls.append(('cell_to_boundary', (c, {'segments': 1})) if i % 2 else ('cell_to_lonlat', (c,)))
    return calls

def call(a5, name, args):
    return getattr(a5, name)(*copy.deepcopy(args))

def fresh_a5(repo=REPO):
    """a cold copy of the package (all module state re-created), leaving the main import untouched"""
    saved = {k: v for k, v in sys.modules.items() if k == 'a5' or k.startswith('a5.')}
    for k in saved:
        del sys.modules[k]
    try:
        if repo not in sys.path:
            sys.path.insert(0, repo)
        mod = importlib.import_module('a5')
        mods = {k: v for k, v in sys.modules.items() if k == 'a5' or k.startswith('a5.')}
    finally:
        for k in [k for k in sys.modules if k == 'a5' or k.startswith('a5.')]:
            del sys.modules[k]
        sys.modules.update(saved)
    return mod, mods

def table_snapshot(mods):
    """hash of every read-only module table"""
    h = hashlib.sha256()
    names = [('a5.core.origin', 'origins'), ('a5.core.origin', 'QUINTANT_ORIENTATIONS'), ('a5.core.origin', 'QUINTANT_FIRST'),
             ('a5.core.hilbert', 'PATTERN'), ('a5.core.hilbert', 'PATTERN_FLIPPED'), ('a5.core.hilbert', 'PATTERN_REVERSED'),
             ('a5.core.hilbert', 'PATTERN_FLIPPED_REVERSED'), ('a5.core.tiling', 'QUINTANT_ROTATIONS'), ('a5.core.pentagon', 'BASIS'),
             ('a5.core.pentagon', 'BASIS_INVERSE'), ('a5.core.dodecahedron_quaternions', 'quaternions')]
    for m, n in names:
        if m in mods and hasattr(mods[m], n):
            h.update(repr(canon_obj(getattr(mods[m], n))).encode())
    for m, n in (('a5.core.pentagon', 'PENTAGON'), ('a5.core.pentagon', 'TRIANGLE')):
        if m in mods and hasattr(mods[m], n):
            h.update(repr(canon(getattr(mods[m], n).get_vertices())).encode())
    if 'a5.projections.dodecahedron' in mods:
        h.update(repr(canon(mods['a5.projections.dodecahedron'].crs.vertices)).encode())
    return h.hexdigest()

def canon_obj(v):
    if isinstance(v, float):
        return ('f', fbits(v))
    if isinstance(v, (list, tuple)):
        return tuple(canon_obj(x) for x in v)
    if hasattr(v, '_asdict'):
        return tuple(canon_obj(x) for x in v)
    return v

# ---------------------------------------------------------------------------------------------
# whole-package state observation (independent of how or where state is declared)

KNOWN_CACHE_ATTRS = {'face_triangles', 'spherical_triangles', '_inverse_triangle_cache', '_invocations'}

def _deep(v, depth, seen):
    """canonical, hashable picture of a value: floats by bit pattern, containers structurally, objects by their attributes (the three
    known caches and the CRS call counter left out), cycles and depth cut"""
    import types
    if isinstance(v, float):
        return ('f', fbits(v))
    if v is None or isinstance(v, (bool, int, str, bytes)):
        return v
    if isinstance(v, (types.ModuleType, types.FunctionType, types.BuiltinFunctionType, type, types.MethodType)) or callable(v) and not hasattr(v, '__dict__'):
        return ('callable', getattr(v, '__qualname__', repr(type(v))))
    if id(v) in seen or depth <= 0:
        return ('ref', type(v).__name__)
    seen = seen | {id(v)}
    if isinstance(v, (list, tuple)):
        return (type(v).__name__, tuple(_deep(x, depth - 1, seen) for x in v))
    if isinstance(v, (set, frozenset)):
        return ('set', tuple(sorted(repr(_deep(x, depth - 1, seen)) for x in v)))
    if isinstance(v, dict):
        return ('dict', tuple(sorted((repr(k), repr(_deep(x, depth - 1, seen))) for k, x in v.items())))
    d = getattr(v, '__dict__', None)
    if isinstance(d, dict):
        return ('obj', type(v).__name__, tuple(sorted((k, repr(_deep(x, depth - 1, seen))) for k, x in d.items() if k not in KNOWN_CACHE_ATTRS)))
    if hasattr(v, '__slots__'):
        return ('obj', type(v).__name__, tuple((k, repr(_deep(getattr(v, k, None), depth - 1, seen))) for k in v.__slots__))
    return ('other', type(v).__name__, repr(v)[:80])

def package_state(mods):
    """{location: canonical picture} of everything that can hold state in the package: module globals, class attributes, function
    attributes, default arguments and closure cells of every function/method defined in it"""
    import types
    out = {}
    for mname, m in sorted(mods.items()):
        for k, v in sorted(vars(m).items()):
            if k.startswith('__') or isinstance(v, types.ModuleType):
                continue
            if isinstance(v, type) and getattr(v, '__module__', '') == mname:
                for ck, cv in sorted(vars(v).items()):
                    if ck.startswith('__'):
                        continue
                    f = cv.__func__ if isinstance(cv, (staticmethod, classmethod)) else cv
                    if isinstance(f, types.FunctionType):
                        out.update(_function_places(f'{mname}:{k}.{ck}', f))
                    elif not callable(cv) and not isinstance(cv, property):
                        out[f'{mname}:{k}.{ck} (class attribute)'] = _deep(cv, 6, frozenset())
            elif isinstance(v, types.FunctionType):
                if getattr(v, '__module__', '') == mname:
                    out.update(_function_places(f'{mname}:{k}', v))
            elif not isinstance(v, type) and not callable(v) or hasattr(v, '__dict__') and not isinstance(v, (type, types.FunctionType)):
                if getattr(type(v), '__module__', '').startswith('typing'):
                    continue
                out[f'{mname}:{k}'] = _deep(v, 7, frozenset())
    return out

def _function_places(name, f):
    out = {}
    if getattr(f, '__dict__', None):
        out[name + ' (function attributes)'] = _deep(dict(f.__dict__), 5, frozenset())
    if f.__defaults__:
        out[name + ' (default arguments)'] = _deep(f.__defaults__, 5, frozenset())
    if f.__kwdefaults__:
        out[name + ' (keyword defaults)'] = _deep(f.__kwdefaults__, 5, frozenset())
    if f.__closure__:
        cells = []
        for c in f.__closure__:
            try:
                cells.append(c.cell_contents)
            except ValueError:
                cells.append(None)
        out[name + ' (closure)'] = _deep(cells, 5, frozenset())
    return out

def state_observation(rng, ncalls, ntransient):
    """(1) persistent: no call may leave ANY package state different from before (the three fill-only caches and the CRS counter aside);
    (2) transient: while a call runs, no module-level container may be changed, even if it is restored before the call returns"""
    a5, mods = fresh_a5()
    gen_a5, _ = fresh_a5()
    problems = []
    calls = api_calls(rng, ncalls, a5=gen_a5) + global_workload(rng, 12)
    before = package_state(mods)
    changed_places = set()
    for name, args in calls:
        try:
            call(a5, name, args)
        except Exception:
            pass
        after = package_state(mods)
        for k in sorted(set(before) | set(after)):
            if before.get(k) != after.get(k) and k not in changed_places:
                changed_places.add(k)
                problems.append(f'{name}{str(args)[:60]} leaves package state changed at `{k}` (not one of the fill-only caches)')
        before = after
    # transient changes: shallow fingerprints of every module-level container at each line event inside the library
    libdir = os.path.join(os.path.realpath(REPO), 'a5')
    conts = {}
    for mname, m in mods.items():
        for k, v in vars(m).items():
            import collections.abc as _abc
            if isinstance(v, (_abc.MutableSequence, _abc.MutableMapping, _abc.MutableSet)) and not k.startswith('__'):
                conts[f'{mname}:{k}'] = v
    def fp():
        import collections.abc as _abc
        def one(c):
            try:
                if isinstance(c, _abc.MutableMapping):
                    return hash(tuple(map(id, list(c.keys()))))
                if isinstance(c, _abc.MutableSequence):
                    return hash(tuple(map(id, list(c))))
            except Exception:
                pass
            return len(c)
        return tuple((n, len(c), one(c)) for n, c in conts.items())
    seen_t = set()
    for name, args in (calls[:ntransient] + [('cell_to_children', (0, 1)), ('get_res0_cells', ()), ('uncompact', ([0], 1)), ('compact', ([c for c in a5.cell_to_children(0, 1)],))]):
        base = fp()
        hit = []
        def tr(frame, event, arg):
            if not frame.f_code.co_filename.startswith(libdir):
                return None
            if event == 'line' and not hit:
                now = fp()
                if now != base:
                    bad = [b[0] for a, b in zip(base, now) if a != b]
                    hit.append((bad, os.path.basename(frame.f_code.co_filename), frame.f_lineno))
            return tr
        sys.settrace(tr)
        try:
            call(a5, name, args)
        except Exception:
            pass
        finally:
            sys.settrace(None)
        if hit and hit[0][0] and tuple(hit[0][0]) not in seen_t:
            seen_t.add(tuple(hit[0][0]))
            problems.append(f'{name}{str(args)[:60]} modifies the shared container(s) {hit[0][0]} while it runs (seen at {hit[0][1]}:{hit[0][2]}), whether or not it restores them')
    return problems, {'state_places_observed': len(before), 'state_calls': len(calls), 'containers_watched': len(conts)}

def runtime_discipline(rng, ncalls):
    """run sampled API calls on a cold copy with logging proxies on the caches; every cache write must store the value a
    fresh instance computes for that key, no slot may be overwritten with a different value, tables must stay unchanged"""
    a5, mods = fresh_a5()
    cellmod = mods['a5.core.cell']
    dod = cellmod._dodecahedron
    log = []
    dod.face_triangles = LogList(log, 'face_triangles')
    dod.spherical_triangles = LogList(log, 'spherical_triangles')
    dod.polyhedral._inverse_triangle_cache = LogDict(log, 'inverse_cache')
    snap0 = table_snapshot(mods)
    problems = []
    slots = {}
    calls = api_calls(rng, ncalls) + global_workload(rng, 60)
    nwrites = 0
    ref_dod = mods['a5.projections.dodecahedron'].DodecahedronProjection
    for name, args in calls:
        before = copy.deepcopy(args)
        try:
            call(a5, name, args)
        except Exception as e:  # noqa
            # a call that raises the same way on an untouched copy is an error case of the API, not a discipline problem
            if '_a5ref' not in dir():
                _a5ref, _ = fresh_a5()
            try:
                call(_a5ref, name, args)
                problems.append(f'{name}{args!r} raised {type(e).__name__} (it returns normally on a fresh copy)')
            except Exception as e2:  # noqa
                if type(e2).__name__ != type(e).__name__:
                    problems.append(f'{name}{args!r} raised {type(e).__name__} ({type(e2).__name__} on a fresh copy)')
            continue
        if args != before:
            problems.append(f'{name} modified its arguments {before!r}')
    removed = set()
    for (cname, op, key, val) in log:
        if op == 'remove':
            # the protocol proved in Lean only ever fills slots (Effects: lookup / fill); an entry that disappears is outside it
            if cname not in removed:
                problems.append(f'{cname}: an entry is removed ({key!r}); the proved cache protocol only fills slots, it never evicts')
                removed.add(cname)
            continue
        if op == 'append':
            if val is not None:
                problems.append(f'{cname}: append of a non-placeholder value')
            continue
        nwrites += 1
        k = (cname, key)
        if k in slots and slots[k] != val:
            problems.append(f'{cname}[{key}] overwritten with a different value')
        slots[k] = val
    # recompute every written slot on a fresh instance: value must be a function of the key
    for (cname, key), val in slots.items():
        if cname == 'face_triangles':
            d = ref_dod()
            fti, refl, sq = key % 10, key >= 10, key >= 20
            want = canon(d.get_face_triangle(fti, refl, sq))
        elif cname == 'spherical_triangles':
            d = ref_dod()
            idx = key % 120
            want = canon(d.get_spherical_triangle(idx % 10, idx // 10, key >= 120))
        else:
            want = val
        if want != val:
            problems.append(f'{cname}[{key}] holds a value that is not a function of its key')
    if table_snapshot(mods) != snap0:
        problems.append('a read-only module table changed during the calls')
    return problems, {'calls': len(calls), 'cache_writes': nwrites, 'distinct_slots': len(slots)}


# ---------------------------------------------------------------------------------------------
# inventory-directed search: which functions touch shared state now, and which inputs reach them

IMPORT_TIME_ONLY = {'origin.add_origin', 'origin.generate_origins', 'crs._add_face_centers', 'crs._add_vertices', 'crs._add_midpoints'}

def hot_functions(cur=None, ref=None):
    """'module.func' names that (a) write a module-level mutable object outside import time, or (b) use shared state in a way the
    committed inventory does not list (any new read or write)"""
    cur = cur or static_inventory()
    hot = set()
    for k, v in cur['module_objects'].items():
        old = set((ref or {}).get('module_objects', {}).get(k, {}).get('uses', [])) if ref else None
        for u in v['uses']:
            fn, kind = u.rsplit(':', 1)
            if fn in IMPORT_TIME_ONLY:
                continue
            if kind.startswith('write') or (old is not None and u not in old):
                hot.add(fn)
    if ref:
        for k, fns in cur['instance_state'].items():
            if 'Shape' in k:
                continue
            for fn in set(fns) - set(ref.get('instance_state', {}).get(k, [])):
                hot.add(k.split(':')[0].split('.')[-1] + '.' + fn.split(':')[0])
    return hot

def hot_lines(cur, hot):
    """{(module basename, function name): line numbers at which the function touches a shared object}"""
    out = {}
    for h in hot:
        out[(h.split('.')[0], h.split('.')[-1])] = set(cur.get('_lines', {}).get(h, set()))
    return out

def tie_points(rng, n):
    """points that are, by symmetry, exactly or almost equidistant from two or three face centres (bisecting meridians, the frame's edge
    midpoints and vertices), and the poles"""
    pts = []
    lats = [0.0, 26.565051177078, -26.565051177078, 52.622631859, -52.622631859, 10.812316964, -10.812316964, 40.0, -40.0, 63.4349488, 75.0, -75.0]
    for k in range(10):
        lon = ((-93.0 + 36.0 * k + 180.0) % 360.0) - 180.0
        for la in lats:
            pts.append((lon, la))
    pts += [(0.0, 90.0), (0.0, -90.0), (123.0, 90.0)]
    rng.shuffle(pts)
    return pts[:n]

def near_frame_calls(mods, rng, n, fine=True):
    """lonlat_to_cell calls within 1e-12..1e-5 rad of the 62 frame points (face centres first) at fine resolutions, and the inverse calls on the cells found there"""
    crs = mods['a5.projections.dodecahedron'].crs
    to_lonlat = mods['a5.core.coordinate_transforms'].to_lonlat
    to_spherical = mods['a5.core.coordinate_transforms'].to_spherical
    verts = list(crs.vertices)
    calls = []
    for i in range(n):
        v = verts[i % 12] if i < 2 * n // 3 else rng.choice(verts)
        lon, lat = to_lonlat(to_spherical(v))
        e = 10.0 ** rng.uniform(-10.5, -3.5)
        p = (lon + rng.uniform(-1, 1) * e / max(0.05, math.cos(math.radians(lat))), max(-90.0, min(90.0, lat + rng.uniform(-1, 1) * e)))
        calls.append(('lonlat_to_cell', (p, rng.choice([27, 28, 29]) if fine else rng.randint(0, 29))))
    return calls

def reaching_inputs(a5, hot, pool, lines, cold_too=True):
    """{hot function: [calls of the pool whose execution runs one of the lines at which it touches shared state]} (line tracing inside the hot functions only)"""
    names = {h.split('.')[-1]: h for h in hot}
    libdir = os.path.join(os.path.realpath(REPO), 'a5')
    reach = {h: [] for h in hot}
    for c in pool:
        seen = set()
        def local(frame, event, arg):
            if event == 'line':
                key = (os.path.basename(frame.f_code.co_filename)[:-3], frame.f_code.co_name)
                if frame.f_lineno in lines.get(key, ()):
                    seen.add(names[frame.f_code.co_name])
            return local
        def tr(frame, event, arg):
            if event == 'call' and frame.f_code.co_name in names and frame.f_code.co_filename.startswith(libdir):
                key = (os.path.basename(frame.f_code.co_filename)[:-3], frame.f_code.co_name)
                if key in lines:
                    return local
            return None if not frame.f_code.co_filename.startswith(libdir) else tr
        sys.settrace(tr)
        try:
            call(a5, *c)
        except Exception:
            pass
        finally:
            sys.settrace(None)
        for h in seen:
            reach[h].append(c)
    # a hot function that no call reaches in a package that has already been used may run only at a cold start (a table built on first use):
    # ask again, each call in a package imported anew and touched by nothing else
    if cold_too and any(not v for v in reach.values()):
        heavy = [c for c in pool if c[0] in ('lonlat_to_cell', 'cell_to_lonlat', 'cell_to_boundary')]
        for c in heavy[:10]:
            a5c, _ = fresh_a5()
            cold = reaching_inputs(a5c, hot, [c], lines, cold_too=False)
            for h, cs in cold.items():
                if cs and not any(x == c for x in reach[h]) and len(reach[h]) < 6:
                    reach[h].append(c)
    return reach

def directed_pairs(rng, ref_inventory, per_fn=4):
    """pairs (A, B) of API calls that both run through a function touching shared state (see hot_functions)"""
    cur = static_inventory()
    hot = hot_functions(cur, ref_inventory)
    if not hot:
        return [], {}, {}
    lines = hot_lines(cur, hot)
    a5, mods = fresh_a5()
    pool = api_calls(rng, 80) + near_frame_calls(mods, rng, 90) + [('lonlat_to_cell', (p, rng.choice([0, 1, 5, 29]))) for p in tie_points(rng, 40)]
    from refids import ref_id as _rid
    for f_ in rng.sample(range(12), 4):
        # the coarsest cells take code paths of their own (whole face / quintant outlines)
        pool += [('cell_to_lonlat', (_rid(f_, 0, 0),)), ('cell_to_boundary', (_rid(f_, 0, 0), {'segments': 1})),
                 ('cell_to_lonlat', (_rid(5 * f_ + rng.randrange(5), 0, 1),)), ('cell_to_boundary', (_rid(5 * f_ + rng.randrange(5), 0, 1), {'segments': 1}))]
    extra = []
    for c in pool:
        if c[0] == 'lonlat_to_cell' and rng.random() < 0.3:
            try:
                cell = call(a5, *c)
                extra.append(('cell_to_lonlat', (cell,))); extra.append(('cell_to_boundary', (cell, {'segments': 1})))
            except Exception:
                pass
    pool += extra
    reach = reaching_inputs(a5, hot, pool, lines)
    pairs = []
    for h, cs in reach.items():
        if not cs:
            continue
        # stratified by call kind and resolution class (coarse cells mask or expose different things than fine ones)
        def bucket(c):
            r = c[1][1] if c[0] == 'lonlat_to_cell' else None
            if c[0] in ('cell_to_lonlat', 'cell_to_boundary'):
                from refids import ref_res as _rr
                try:
                    r = _rr(c[1][0])
                except Exception:
                    r = None
            return (c[0], None if r is None else (0 if r <= 1 else (1 if r <= 8 else 2)))
        groups = {}
        for c in cs:
            groups.setdefault(bucket(c), []).append(c)
        pick = []
        keys = sorted(groups, key=str)
        while len(pick) < min(per_fn, len(cs)):
            for kx in keys:
                if groups[kx] and len(pick) < per_fn:
                    pick.append(groups[kx].pop(rng.randrange(len(groups[kx]))))
        for i, a in enumerate(pick):
            for b in pick[i + 1:]:
                pairs.append((a, b)); pairs.append((b, a))
    return pairs, lines, {h: len(cs) for h, cs in reach.items()}

# ---------------------------------------------------------------------------------------------
# C16 searches

def writer_methods():
    """methods that write instance-held shared state, from the static inventory"""
    inv = static_inventory()
    out = set()
    for k, fns in inv['instance_state'].items():
        if 'Shape' in k:      # per-call objects, not shared
            continue
        out |= set(fns)
    return out

WRITER_METHODS = set()

def edge_cells(a5, mods, rng, n):
    """cells straddling dodecahedron edges / vertices (they use the reflected triangles): found through the frame points"""
    crs = mods['a5.projections.dodecahedron'].crs
    to_lonlat = mods['a5.core.coordinate_transforms'].to_lonlat
    to_spherical = mods['a5.core.coordinate_transforms'].to_spherical
    cells = []
    verts = list(crs.vertices)[12:]
    for _ in range(n):
        v = rng.choice(verts)
        lon, lat = to_lonlat(to_spherical(v))
        r = rng.randint(2, 12)
        try:
            c = a5.lonlat_to_cell((lon + rng.uniform(-1e-3, 1e-3), lat + rng.uniform(-1e-3, 1e-3)), r)
            cells.append(c)
        except Exception:
            pass
    return cells

def cold_reset(mods):
    """empty every lazily filled cache (fresh singleton instances), as in a fresh interpreter"""
    cellmod = mods['a5.core.cell']
    cellmod._dodecahedron = type(cellmod._dodecahedron)()

_ref_dod = [None]
def cache_corruption(mods):
    """a filled slot of the two index-addressed caches that does not hold the value a fresh instance computes for that slot (what a later
    call would read), or None"""
    try:
        dod = mods['a5.core.cell']._dodecahedron
        cls = mods['a5.projections.dodecahedron'].DodecahedronProjection
        if _ref_dod[0] is None or type(_ref_dod[0]) is not cls:
            _ref_dod[0] = cls()
        ref = _ref_dod[0]
        for key, val in enumerate(list(getattr(dod, 'spherical_triangles', []))):
            if val is None:
                continue
            idx = key % 120
            want = ref.get_spherical_triangle(idx % 10, idx // 10, key >= 120)
            if canon(val) != canon(want):
                return f'slot {key} of spherical_triangles is left holding the triangle of another slot'
        for key, val in enumerate(list(getattr(dod, 'face_triangles', []))):
            if val is None:
                continue
            want = ref.get_face_triangle(key % 10, key >= 10, key >= 20)
            if canon(val) != canon(want):
                return f'slot {key} of face_triangles is left holding the triangle of another slot'
    except Exception:  # noqa  (a changed signature etc.: not this check's business)
        return None
    return None

def preemption_search(rng, pairs, max_points, a5=None, hot=None, only_hot=False, stop_after=None, warm=False, busy=None, reimport=False):
    """for API calls A and B: run A under sys.settrace; at the k-th line event inside the library run B to completion
    (a context switch at that line boundary), then let A finish; A's result must equal its undisturbed result.
    Every k up to max_points per pair (systematic, context bound 2)."""
    global WRITER_METHODS
    WRITER_METHODS = writer_methods()
    hot = hot or {}
    a5, mods = fresh_a5()
    a5ref, _ = fresh_a5()
    fails = []
    stats = {'pairs': 0, 'preemption_points': 0}
    if pairs == 'auto' or (isinstance(pairs, tuple) and pairs[0] == 'auto'):
        extra = pairs[1] if isinstance(pairs, tuple) else []
        ec = edge_cells(a5ref, mods, rng, pairs[2] if isinstance(pairs, tuple) else 6)
        pairs = list(extra)
        for c in ec:
            a = rng.choice([('cell_to_boundary', (c, {'segments': 1})), ('cell_to_lonlat', (c,)), ('cell_to_boundary', (c,))])
            pairs.append((a, a))
    libdir = os.path.join(os.path.realpath(REPO), 'a5')
    for (A, B) in pairs:
        try:
            refA = canon(call(a5ref, *A)); refB = canon(call(a5ref, *B))
        except Exception:
            continue
        stats['pairs'] += 1
        # count line events of A; remember those inside the dynamic extent of a method that writes shared state
        nev = [0]
        critical = []
        hotcrit = []
        armed = set()
        def counter(frame, event, arg):
            if not frame.f_code.co_filename.startswith(libdir):
                return None
            if event == 'line':
                nev[0] += 1
                # a line that touches a shared object arms its frame; every later line event of that frame and of its callees is a hot point
                if frame.f_lineno in hot.get((os.path.basename(frame.f_code.co_filename)[:-3], frame.f_code.co_name), ()):
                    armed.add(id(frame))
                g = frame
                for _ in range(3):
                    if g is None:
                        break
                    if id(g) in armed:
                        critical.append(nev[0]); hotcrit.append(nev[0])
                        return counter
                    g = g.f_back
                f = frame
                depth = 0
                while f is not None and depth < 6:
                    if f.f_code.co_name in WRITER_METHODS:
                        critical.append(nev[0]); break
                    f = f.f_back; depth += 1
            return counter
        if reimport:
            # a true cold start: the package is imported anew (lazily built module-level tables are empty again)
            a5, mods = fresh_a5()
        cold_reset(mods)
        for wc in (busy or []):
            # a process that has already worked all over the globe (bounded caches are full, every lazily built table exists)
            try:
                call(a5, *wc)
            except Exception:
                pass
        if warm:
            # the caller has just made the same call (batches of nearby points): whatever A leaves behind is in place when A runs again
            try:
                call(a5, *A)
            except Exception:
                pass
        sys.settrace(counter)
        try:
            call(a5, *A)
        finally:
            sys.settrace(None)
        total = nev[0]
        if total == 0:
            continue
        ks = list(range(1, total + 1))
        if len(ks) > max_points:
            crit = critical if len(critical) <= max_points else sorted(rng.sample(critical, max_points))
            rest = rng.sample(ks, max(4, max_points // 4))
            hc = hotcrit if len(hotcrit) <= max_points else sorted(rng.sample(hotcrit, max_points))
            ks = sorted(set(crit) | set(rest) | set(hc))
        if only_hot:
            ks = hotcrit if len(hotcrit) <= max_points else sorted(rng.sample(hotcrit, max_points))
        stats['critical_points'] = stats.get('critical_points', 0) + len(critical)
        for k in ks:
            state = {'n': 0, 'done': False, 'berr': None, 'bres': None}
            def tracer(frame, event, arg):
                if not frame.f_code.co_filename.startswith(libdir):
                    return None
                if event == 'line' and not state['done']:
                    state['n'] += 1
                    if state['n'] == k:
                        state['done'] = True
                        sys.settrace(None)
                        try:
                            state['bres'] = canon(call(a5, *B))
                        except Exception as e:  # noqa
                            state['berr'] = type(e).__name__
                        sys.settrace(tracer)
                return tracer
            if reimport:
                a5, mods = fresh_a5()
            cold_reset(mods)
            for wc in (busy or []):
                try:
                    call(a5, *wc)
                except Exception:
                    pass
            if warm:
                try:
                    call(a5, *A)
                except Exception:
                    pass
            sys.settrace(tracer)
            try:
                try:
                    resA = canon(call(a5, *A)); errA = None
                except Exception as e:  # noqa
                    resA = None; errA = type(e).__name__
            finally:
                sys.settrace(None)
            stats['preemption_points'] += 1
            corrupt = None
            if not (errA or resA != refA or state['berr'] or (state['bres'] is not None and state['bres'] != refB)):
                corrupt = cache_corruption(mods)
            if corrupt:
                what = ((f'after a workload of {len(busy)} calls over all faces, ' if busy else '') + ('after the same call was made once, ' if warm else '') +
                        f'{A[0]}{A[1]!r} interrupted at its line event {k}/{total} by {B[0]}{B[1]!r}: both calls return the right value but {corrupt}')
                fails.append({'what': what, 'A': A, 'B': B, 'k': k, 'warm': warm, 'busy': [list(c) for c in (busy or [])]})
                break
            if errA or resA != refA or state['berr'] or (state['bres'] is not None and state['bres'] != refB):
                what = (('in a freshly imported package, ' if reimport else '') + (f'after a workload of {len(busy)} calls over all faces, ' if busy else '') + ('after the same call was made once, ' if warm else '') + f'{A[0]}{A[1]!r} interrupted at its line event {k}/{total} by {B[0]}{B[1]!r}: '
                        + (f'raises {errA}' if errA else ('returns a different value' if resA != refA else f'the interrupting call {"raises " + state["berr"] if state["berr"] else "returns a different value"}')))
                fails.append({'what': what, 'A': A, 'B': B, 'k': k, 'warm': warm, 'busy': [list(c) for c in (busy or [])], 'reimport': reimport})
                break
        if stop_after and len(fails) >= stop_after:
            break
    return fails, stats

def thread_soak(rng, ncalls, nthreads=8, rounds=2):
    a5, _ = fresh_a5()
    calls = [c for c in api_calls(rng, ncalls) if c[0] in ('lonlat_to_cell', 'cell_to_lonlat', 'cell_to_boundary')]
    refs = []
    for c in calls:
        try:
            refs.append(canon(call(a5, *c)))
        except Exception:
            refs.append('EXC')
    bad = []
    old = sys.getswitchinterval()
    sys.setswitchinterval(1e-6)
    def work(seed):
        order = list(range(len(calls)))
        random.Random(seed).shuffle(order)
        for _ in range(rounds):
            for i in order:
                try:
                    r = canon(call(a5, *calls[i]))
                except Exception as e:  # noqa
                    r = 'EXC'
                if r != refs[i]:
                    bad.append(i)
    ts = [threading.Thread(target=work, args=(s,)) for s in range(nthreads)]
    try:
        [t.start() for t in ts]; [t.join() for t in ts]
    finally:
        sys.setswitchinterval(old)
    fails = []
    for i in sorted(set(bad))[:5]:
        fails.append({'what': f'{calls[i][0]}{calls[i][1]!r} returned a different value (or raised) while {nthreads} threads were calling the library', 'call': calls[i]})
    return fails, {'thread_calls': nthreads * rounds * len(calls), 'threads': nthreads, 'wrong': len(bad)}

# ---------------------------------------------------------------------------------------------
# C17 search

def typed(v):
    """structure with the exact type of every element (`[False] == [0]` but a caller can tell them apart)"""
    if isinstance(v, (list, tuple)):
        return (type(v).__name__, tuple(typed(x) for x in v))
    if isinstance(v, dict):
        return (type(v).__name__, tuple((k, typed(x)) for k, x in v.items()))
    if isinstance(v, float):
        return ('float', fbits(v))
    return (type(v).__name__, repr(v))

def history_search(rng, nhist, hist_len):
    """random call histories on a warm copy, each call compared bit for bit with the same call on a cold copy"""
    fails, n = [], 0
    transient = []
    for _ in range(nhist):
        a5w, _ = fresh_a5()
        gen_a5, _ = fresh_a5()          # inputs that need the library (published corners) are produced on a copy of their own
        hist = api_calls(rng, hist_len, a5=gen_a5)
        for idx, (name, args) in enumerate(hist):
            before = copy.deepcopy(args)
            try:
                rw = canon(call_keep(a5w, name, args))
            except Exception as e:  # noqa
                rw = ('EXC', type(e).__name__)
            n += 1
            if args != before or typed(args) != typed(before):
                fails.append({'what': f'{name} modified its argument {before!r}', 'history': hist[:idx + 1]}); break
            if idx % 3 == 0 or idx == len(hist) - 1:
                a5c, _ = fresh_a5()
                try:
                    rc = canon(call(a5c, name, args))
                except Exception as e:  # noqa
                    rc = ('EXC', type(e).__name__)
                if rc != rw:
                    # a violation needs a history that replays: run the same history again on a new warm copy against a new cold copy (twice)
                    if run_history(hist[:idx + 1]) and run_history(hist[:idx + 1]):
                        fails.append({'what': f'{name}{args!r} returns a different value after a history of {idx} calls than on a fresh import (warm {str(rw)[:80]}, cold {str(rc)[:80]})', 'history': hist[:idx + 1]})
                        break
                    transient.append(f'{name}{args!r} after {idx} calls: warm {str(rw)[:120]} cold {str(rc)[:120]} — not reproduced by replaying the same history')
        # the very first answer of an interpreter is modified by the caller, then the call is repeated (a first call may hand out the
        # object it has just stored); list-returning calls on coarse and fine cells with every option spelling
        from refids import random_valid_id as _rv
        firsts = [c for c in hist if c[0] in ('cell_to_boundary', 'cell_to_children', 'compact', 'uncompact')][:6]
        for _k in range(6):
            c0 = _rv(rng, 0, 1) if _k < 4 else _rv(rng, 2, 29)
            o0 = rng.choice([None, {}, {'closed_ring': False}, {'segments': 'auto'}, {'segments': None, 'closed_ring': True}, {'segments': 2}])
            firsts.append(('cell_to_boundary', (c0,) if o0 is None else (c0, o0)))
        firsts += [('cell_to_children', (_rv(rng, 0, 3),)), ('get_res0_cells', ())]
        a5f, _ = fresh_a5()
        for name, args in firsts:
            if not hasattr(a5f, name):
                continue
            try:
                args1 = copy.deepcopy(args)
                r1 = call(a5f, name, args1); c1 = canon(r1)
                if isinstance(r1, list) and r1:
                    r1.pop(); r1.reverse(); r1.append(r1[0])
                r2 = canon(call(a5f, name, copy.deepcopy(args)))
                n += 1
                if r2 != c1:
                    fails.append({'what': f'modifying the list returned by the first {name}{args!r} of an interpreter changes the answer of the next identical call', 'history': [(name, args)], 'mutate_first': True}); break
            except Exception:
                pass
        # mutate returned containers, then repeat the calls
        for name, args in hist[:10]:
            try:
                r1 = call(a5w, name, args); c1 = canon(r1)
                if isinstance(r1, list):
                    r1.append(12345); r1.reverse()
                    if r1 and isinstance(r1[0], list):
                        r1[0].append(1)
                r2 = canon(call(a5w, name, args))
                n += 1
                if r2 != c1:
                    fails.append({'what': f'mutating the list returned by {name}{args!r} changes a later result', 'history': [(name, args)]}); break
            except Exception:
                pass
        if len(fails) > 5:
            break
    return fails, {'history_calls': n, 'histories': nhist, 'transient_mismatches_not_reproduced': transient}

def face_centre_points(mods):
    crs = mods['a5.projections.dodecahedron'].crs
    to_lonlat = mods['a5.core.coordinate_transforms'].to_lonlat
    to_spherical = mods['a5.core.coordinate_transforms'].to_spherical
    out = []
    for v in list(crs.vertices)[:12]:
        lo, la = to_lonlat(to_spherical(v))
        out.append((((lo + 180) % 360) - 180, la))
    return out

def directed_history_search(rng, nq):
    """warm-up on each of the 12 faces (leaving whatever 'last used' state there may be), then queries that are the most sensitive to such
    state — points equidistant from two or three face centres, frame points at all scales, plus ordinary calls — each compared bit for bit
    with the same single call on a fresh import"""
    a5p, mods = fresh_a5()
    queries = []
    for p in tie_points(rng, max(10, nq // 3)):
        queries.append(('lonlat_to_cell', (p, rng.choice([0, 1]))))
        queries.append(('lonlat_to_cell', (p, rng.choice([2, 5, 12, 29]))))
    queries += near_frame_calls(mods, rng, nq // 4, fine=False) + api_calls(rng, nq // 4)
    queries = queries[:nq]
    cold = []
    for q in queries:
        a5c, _ = fresh_a5()
        try:
            cold.append(canon(call(a5c, *q)))
        except Exception as e:  # noqa
            cold.append(('EXC', type(e).__name__))
    fails, n = [], 0
    warm = [('lonlat_to_cell', (p, 3)) for p in face_centre_points(mods)]
    for w in warm:
        a5w, _ = fresh_a5()
        try:
            call(a5w, *w)
        except Exception:
            pass
        order = list(range(len(queries)))
        rng.shuffle(order)
        hist = [w]
        for i in order:
            q = queries[i]
            hist.append(q)
            try:
                r = canon(call(a5w, *q))
            except Exception as e:  # noqa
                r = ('EXC', type(e).__name__)
            n += 1
            if r != cold[i]:
                # shrink: the warm-up plus this query alone, if that already differs
                for short in ([w, q], hist[-2:], hist[-3:]):
                    if len(short) < len(hist) and run_history(short):
                        hist = short
                        break
                if not run_history(hist):
                    continue      # not reproduced by replaying the same history: no violation shown
                fails.append({'what': f'{q[0]}{q[1]!r} returns a different value after a history of {len(hist) - 1} calls (first: {w[0]}{w[1]!r}) than on a fresh import', 'history': hist})
                break
        if len(fails) >= 3:
            break
    return fails, {'directed_history_calls': n, 'directed_queries': len(queries), 'warmups': len(warm)}

def run_mutate_first(name, args):
    """True iff modifying the list returned by the first call of a fresh interpreter changes the answer of the next identical call"""
    a5f, _ = fresh_a5()
    r1 = call(a5f, name, copy.deepcopy(tuple(args))); c1 = canon(r1)
    if isinstance(r1, list) and r1:
        r1.pop(); r1.reverse(); r1.append(r1[0])
    return canon(call(a5f, name, copy.deepcopy(tuple(args)))) != c1

def warmup_history_search(rng, n_warm, n_probe):
    """a long run of *easy* calls (centres of cells asked back, the first sample of every search hits), then generic points: anything the library
    learns from the calls it has served (a counter, a hint, an adapted radius or sample count) shows as a probe that answers differently
    than on a fresh import"""
    fails, n = [], 0
    gen_a5, _ = fresh_a5()
    a5w, _ = fresh_a5()
    from refids import random_valid_id as _rv
    hist = []
    r0 = rng.choice([3, 5, 8])
    for _ in range(n_warm):
        c = _rv(rng, r0, r0)
        try:
            p = tuple(gen_a5.cell_to_lonlat(c))
        except Exception:
            continue
        hist.append(('lonlat_to_cell', (p, r0)))
    for name, args in hist:
        try:
            call(a5w, name, args)
        except Exception:
            pass
        n += 1
    import math as _m
    for _ in range(n_probe):
        p = (rng.uniform(-180, 180), _m.degrees(_m.asin(rng.uniform(-1, 1))))
        probe = ('lonlat_to_cell', (p, rng.choice([2, 6, 9, 15, 22, 29])))
        try:
            rw = canon(call(a5w, *probe))
        except Exception as e:  # noqa
            rw = ('EXC', type(e).__name__)
        a5c, _ = fresh_a5()
        try:
            rc = canon(call(a5c, *probe))
        except Exception as e:  # noqa
            rc = ('EXC', type(e).__name__)
        n += 1
        hist.append(probe)
        if rw != rc:
            # replay needs the warm-up and the probes made so far
            if run_history(hist) and run_history(hist):
                fails.append({'what': f'{probe[0]}{probe[1]!r} returns a different value after {len(hist) - 1} earlier calls ({n_warm} of them cell centres asked back) than on a fresh import (warm {str(rw)[:60]}, cold {str(rc)[:60]})', 'history': list(hist)})
                break
    return fails, {'warmup_history_calls': n}

def headroom_sweep(rng, span=70):
    """the same call made with less and less stack left (the last `span` frames before the recursion limit): at every depth the answer is the
    fresh-import value or a RecursionError -- never another value.  (A result must not depend on where in the caller's program the call is made.)"""
    import inspect
    from refids import random_valid_id as _rv, ref_children_set as _kids, ref_parent as _par, ref_res as _rr
    fails, n = [], 0
    a5c, _ = fresh_a5()
    c5 = _rv(rng, 4, 9)
    sib = sorted(_kids(_par(c5, _rr(c5) - 1), _rr(c5)))
    calls = [('compact', (sib + [_rv(rng, 0, 1)],)), ('uncompact', ([_rv(rng, 2, 5)], 7)), ('cell_to_children', (_rv(rng, 0, 6),)), ('cell_to_parent', (_rv(rng, 3, 29),)),
             ('lonlat_to_cell', ((rng.uniform(-180, 180), rng.uniform(-85, 85)), rng.choice([3, 9, 20]))), ('cell_to_lonlat', (_rv(rng, 2, 29),)),
             ('cell_to_boundary', (_rv(rng, 2, 29), {'segments': 2})), ('u64_to_hex', (_rv(rng, 0, 29),)), ('get_num_cells', (7,))]
    lim = sys.getrecursionlimit()
    for name, args in calls:
        try:
            ref = canon(call(a5c, name, copy.deepcopy(args)))
        except Exception:
            continue
        a5w, _ = fresh_a5()
        try:
            call(a5w, name, copy.deepcopy(args))     # caches warm: the sweep is about stack depth, not about cold starts
        except Exception:
            pass
        fn_ = getattr(a5w, name)
        box = {}
        def descend(k):
            # nothing but the library call itself at the bottom: copying the arguments or canonicalising the result there would eat the very frames
            # whose absence is being tested
            if k <= 0:
                return fn_(*box['a'])
            return descend(k - 1)
        here = len(inspect.stack(0))
        for extra in range(max(0, lim - here - span), lim - here + 1):
            box['a'] = copy.deepcopy(args)
            try:
                got = canon(descend(extra))
            except RecursionError:
                n += 1
                continue
            except Exception as e:  # noqa
                got = ('EXC', type(e).__name__)
            n += 1
            if got != ref:
                fails.append({'what': f'{name}{args!r} called with {lim - here - extra} stack frames left returns {str(got)[:70]} (fresh import, shallow stack: {str(ref)[:70]}; a RecursionError would be fine, another value is not)',
                              'history': [(name, args)], 'headroom': lim - here - extra})
                break
    return fails, {'headroom_calls': n}

def run_headroom(name, args, span=90):
    import inspect
    a5c, _ = fresh_a5()
    ref = canon(call(a5c, name, copy.deepcopy(args)))
    a5w, _ = fresh_a5()
    call(a5w, name, copy.deepcopy(args))
    fn_ = getattr(a5w, name)
    box = {}
    def descend(k):
        if k <= 0:
            return fn_(*box['a'])
        return descend(k - 1)
    lim = sys.getrecursionlimit()
    here = len(inspect.stack(0))
    for extra in range(max(0, lim - here - span), lim - here + 1):
        box['a'] = copy.deepcopy(args)
        try:
            got = canon(descend(extra))
        except RecursionError:
            continue
        except Exception as e:  # noqa
            got = ('EXC', type(e).__name__)
        if got != ref:
            return True
    return False

def run_history(hist):
    """True iff the last call of the history returns something else than on a fresh import"""
    a5w, _ = fresh_a5()
    r = None
    for (name, args) in hist:
        try:
            r = canon(call(a5w, name, tuple(args)))
        except Exception as e:  # noqa
            r = ('EXC', type(e).__name__)
    a5c, _ = fresh_a5()
    name, args = hist[-1]
    try:
        rc = canon(call(a5c, name, tuple(args)))
    except Exception as e:  # noqa
        rc = ('EXC', type(e).__name__)
    return r != rc

def call_keep(a5, name, args):
    return getattr(a5, name)(*args)
