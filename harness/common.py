"""Shared machinery of the checks: table regeneration, Lean build + audit, model/implementation
correspondence over the line protocol, known findings, evidence and replay files."""
import traceback, os, sys, re, json, time, subprocess, random, hashlib, shutil

VERIF = os.path.dirname(os.path.dirname(os.path.abspath(__file__)))
LEAN = os.path.join(VERIF, 'lean')
WORK = os.path.join(VERIF, '.work')
REPO = os.environ.get('A5_REPO', '/repo')
PY = '/venv/bin/python'
DRIVER = os.path.join(LEAN, '.lake', 'build', 'bin', 'driver')
ALLOWED_AXIOMS = {'propext', 'Classical.choice', 'Quot.sound'}
FORBIDDEN = re.compile(r'\b(sorry|admit|native_decide|bv_decide|implemented_by)\b|^\s*axiom\s|unsafe\s|maxHeartbeats\s+0\b')

os.makedirs(WORK, exist_ok=True)

class Failure:
    """A concrete input on which the property fails against the real code."""
    def __init__(self, what, data, key=None):
        self.what = what          # short description
        self.data = data          # JSON-able replay payload
        self.key = key or what    # matched against known_findings.json
    def to_json(self):
        return {'what': self.what, 'data': self.data, 'key': self.key}

def guarded(what_fn, data_fn):
    """decorator for the per-item property checks of the failing-input searches: an exception that escapes the check (the implementation
    raising on a valid input in a place the check did not anticipate) is a failing input for that item, not a crash of the search.
    `what_fn(**args)` / `data_fn(**args)` build the description and the replay payload from the check's own arguments."""
    import inspect, functools
    def deco(fn):
        sig = inspect.signature(fn)
        @functools.wraps(fn)
        def wrapped(*a, **k):
            try:
                return fn(*a, **k)
            except Exception as e:  # noqa
                b = sig.bind(*a, **k); b.apply_defaults()
                args = dict(b.arguments)
                fails = args.get('fails')
                if fails is None:
                    raise
                tb = traceback.extract_tb(e.__traceback__)
                where = next((f'{os.path.basename(fr.filename)}:{fr.lineno} in {fr.name}' for fr in reversed(tb) if os.sep + 'a5' + os.sep in fr.filename), '')
                fails.append(Failure(f'{what_fn(**args)}: {type(e).__name__}: {str(e)[:160]}' + (f' (raised at {where})' if where else ''), data_fn(**args)))
                return 0
        return wrapped
    return deco

def sh(cmd, cwd=None, timeout=None, env=None):
    e = dict(os.environ)
    if env:
        e.update(env)
    p = subprocess.run(cmd, cwd=cwd, shell=isinstance(cmd, str), stdout=subprocess.PIPE, stderr=subprocess.STDOUT,
                       timeout=timeout, env=e, text=True)
    return p.returncode, p.stdout

# ---------------------------------------------------------------------------------------------
# step 1: tables
def regenerate_tables():
    rc, out = sh([PY, os.path.join(VERIF, 'tools', 'gen_tables.py'), '--repo', REPO])
    return rc == 0, out.strip()

def regenerate_src():
    """translate the integer core of the current source into lean/A5/Gen/Src.lean (tools/py2lean.py)"""
    rc, out = sh([PY, os.path.join(VERIF, 'tools', 'py2lean.py'), '--repo', REPO])
    return rc == 0, out.strip()

SRC_OPS = {'res', 'des', 'ser', 'children', 'parent', 'res0', 'first', 'stride', 'ncells', 'nchildren', 'compact', 'uncompact', 'key', 'hex', 'unhex'}
SRCDRIVER = os.path.join(LEAN, '.lake', 'build', 'bin', 'srcdriver')

def src_correspondence(ops, tag='src', cap=25000):
    """run the *translated source* (srcdriver) and the implementation on the integer-core ops: validates the translator and the
    operator semantics of A5/Model/PySem.lean, the trusted base of the source-level tie"""
    sel = [o for o in ops if o.split(' ', 1)[0] in SRC_OPS and len(o) < 20000]
    if len(sel) > cap:
        step = len(sel) / cap
        sel = [sel[int(i * step)] for i in range(cap)]
    if not sel:
        return {'src_ops': 0, 'src_mismatches': 0}, []
    drv = py_driver()
    impl = [drv.run(l) for l in sel]
    path = os.path.join(WORK, f'{tag}_{os.getpid()}.txt')
    with open(path, 'w') as f:
        f.write('\n'.join(sel) + '\n')
    try:
        with open(path) as fin:
            p = subprocess.run([SRCDRIVER], stdin=fin, stdout=subprocess.PIPE, stderr=subprocess.PIPE, text=True, timeout=3000)
    finally:
        os.unlink(path)
    if p.returncode != 0:
        raise RuntimeError('translated-source driver failed: rc=%s %s' % (p.returncode, p.stderr[-300:]))
    out = p.stdout.split('\n')[:-1]
    if len(out) != len(sel):
        raise RuntimeError(f'translated-source driver returned {len(out)} answers for {len(sel)} ops')
    mism = [{'op': o[:400], 'impl': a[:400], 'model': b[:400], 'full_op': o} for o, a, b in zip(sel, impl, out) if b != 'skip' and a != b]
    return {'src_ops': len(sel), 'src_mismatches': len(mism)}, mism

# ---------------------------------------------------------------------------------------------
# step 2: build
def lake_build(targets, timeout=3000):
    """Build the given module/exe targets. Returns (ok, log, broken) where broken lists
    (file, line, message) of each error."""
    t0 = time.time()
    # checks may be started side by side: one build of the shared workspace at a time
    import fcntl
    os.makedirs(WORK, exist_ok=True)
    with open(os.path.join(WORK, 'build.lock'), 'w') as lk:
        fcntl.flock(lk, fcntl.LOCK_EX)
        try:
            rc, out = sh(['lake', 'build'] + list(targets), cwd=LEAN, timeout=timeout)
        finally:
            fcntl.flock(lk, fcntl.LOCK_UN)
    broken = []
    for m in re.finditer(r'^error: (\S+?\.lean):(\d+):(\d+): (.*)$', out, re.M):
        broken.append((m.group(1), int(m.group(2)), m.group(4)[:300]))
    if rc != 0 and not broken:
        broken.append(('lake', 0, out[-600:]))
    return rc == 0, out, broken, time.time() - t0

def decl_at(path, line):
    """Name of the theorem/def enclosing `line` of a Lean file (for reporting which obligation broke)."""
    try:
        src = open(os.path.join(LEAN, path)).read().split('\n')
    except OSError:
        return None
    for i in range(min(line, len(src)) - 1, -1, -1):
        m = re.match(r'\s*(?:@\[[^\]]*\]\s*)?(?:private\s+|protected\s+)?(theorem|lemma|def|example|instance|abbrev)\s+([^\s:({\[]+)?', src[i])
        if m:
            return (m.group(1), m.group(2) or '(example)')
    return None

def theorems_in(module):
    """(names of theorems, count of examples) declared in a Lean module of the library."""
    path = os.path.join(LEAN, *module.split('.')) + '.lean'
    src = open(path).read()
    src_nc = strip_comments(src)
    ns = []
    names = []
    for line in src_nc.split('\n'):
        m = re.match(r'\s*namespace\s+(\S+)', line)
        if m:
            ns.append(m.group(1)); continue
        m = re.match(r'\s*end\s+(\S+)', line)
        if m and ns and ns[-1] == m.group(1):
            ns.pop(); continue
        m = re.match(r'\s*(?:@\[[^\]]*\]\s*)?(?:private\s+|protected\s+)?theorem\s+([^\s:({\[]+)', line)
        if m:
            names.append('.'.join(ns + [m.group(1)]))
    examples = len(re.findall(r'^\s*example\b', src_nc, re.M))
    return names, examples

def strip_comments(src):
    # remove /- ... -/ (nested) and -- comments
    out = []
    i, depth = 0, 0
    while i < len(src):
        if src.startswith('/-', i):
            depth += 1; i += 2; continue
        if depth and src.startswith('-/', i):
            depth -= 1; i += 2; continue
        if depth:
            if src[i] == '\n':
                out.append('\n')
            i += 1; continue
        if src.startswith('--', i):
            while i < len(src) and src[i] != '\n':
                i += 1
            continue
        out.append(src[i]); i += 1
    return ''.join(out)

def module_cone(modules):
    """Transitive closure of `import A5.…` from the given modules (library files only)."""
    seen, todo = [], list(modules)
    while todo:
        m = todo.pop()
        if m in seen:
            continue
        seen.append(m)
        path = os.path.join(LEAN, *m.split('.')) + '.lean'
        if not os.path.exists(path):
            continue
        for mm in re.findall(r'^import\s+(A5\.\S+)', open(path).read(), re.M):
            todo.append(mm)
    return seen

# ---------------------------------------------------------------------------------------------
# step 3: audit
def audit(prop_modules):
    """Forbidden-token scan over the cone + `#print axioms` of every property theorem.
    Returns (ok, report dict)."""
    cone = module_cone(prop_modules)
    hits = []
    for m in cone + ['Main']:
        path = os.path.join(LEAN, *m.split('.')) + '.lean'
        if not os.path.exists(path):
            continue
        for ln, line in enumerate(strip_comments(open(path).read()).split('\n'), 1):
            if FORBIDDEN.search(line):
                hits.append(f'{m}:{ln}: {line.strip()[:120]}')
    thms = []
    for m in prop_modules:
        thms += theorems_in(m)[0]
    axioms = {}
    bad = []
    if thms:
        auditfile = os.path.join(WORK, 'Audit_%s.lean' % hashlib.md5(' '.join(prop_modules).encode()).hexdigest()[:8])
        with open(auditfile, 'w') as f:
            for m in prop_modules:
                f.write(f'import {m}\n')
            for t in thms:
                f.write(f'#print axioms {t}\n')
        rc, out = sh(['lake', 'env', 'lean', auditfile], cwd=LEAN, timeout=1200)
        cur = None
        # output: "'name' depends on axioms: [a, b]" (may wrap) or "'name' does not depend on any axioms"
        flat = re.sub(r'\n\s+', ' ', out)
        for line in flat.split('\n'):
            m = re.search(r"'(.+)' depends on axioms: \[(.*?)\]", line)
            if m:
                axioms[m.group(1)] = [a.strip() for a in m.group(2).split(',') if a.strip()]
                continue
            m = re.search(r"'(.+)' does not depend on any axioms", line)
            if m:
                axioms[m.group(1)] = []
        for t in thms:
            if t not in axioms:
                bad.append(f'{t}: no #print axioms result ({out.strip()[-200:]})')
            else:
                extra = [a for a in axioms[t] if a not in ALLOWED_AXIOMS]
                if extra:
                    bad.append(f'{t}: non-standard axioms {extra}')
    ok = not hits and not bad
    return ok, {'forbidden_hits': hits, 'axiom_problems': bad, 'theorems': thms, 'axioms': axioms, 'cone': sorted(cone)}

# ---------------------------------------------------------------------------------------------
# step 4: correspondence
_pydrv = None
def py_driver():
    global _pydrv
    if _pydrv is None:
        sys.path.insert(0, os.path.join(VERIF, 'harness'))
        import py_driver as pd
        _pydrv = pd.PyDriver()
    return _pydrv

def run_model(ops, tag='ops'):
    """Run the compiled Lean model driver over the op lines; returns list of answer lines."""
    path = os.path.join(WORK, f'{tag}_{os.getpid()}.txt')
    with open(path, 'w') as f:
        f.write('\n'.join(ops) + '\n')
    try:
        with open(path) as fin:
            p = subprocess.run([DRIVER], stdin=fin, stdout=subprocess.PIPE, stderr=subprocess.PIPE, text=True, timeout=3000)
    finally:
        os.unlink(path)
    if p.returncode != 0:
        raise RuntimeError('model driver failed: rc=%s %s' % (p.returncode, p.stderr[-300:]))
    return p.stdout.split('\n')[:-1]

def correspondence(ops, tag='ops'):
    """Run implementation and model on the same op lines. Returns dict with counts, mismatches, distribution."""
    if not ops:
        return {'ops': 0, 'mismatches': [], 'by_op': {}, 'impl_errors': {}, 'distinct_ops': 0}
    drv = py_driver()
    impl = [drv.run(l) for l in ops]
    model = run_model(ops, tag)
    if len(model) != len(impl):
        raise RuntimeError(f'model returned {len(model)} answers for {len(ops)} ops')
    mism = []
    dist = {}
    errs = {}
    for i, (op, a, b) in enumerate(zip(ops, impl, model)):
        k = op.split(' ', 1)[0]
        dist[k] = dist.get(k, 0) + 1
        if a.startswith('err'):
            errs[a[4:]] = errs.get(a[4:], 0) + 1
        if a != b:
            mism.append({'op': op if len(op) < 400 else op[:400] + '…', 'impl': a[:400], 'model': b[:400], 'full_op': op,
                         'context': [o for o in ops[max(0, i - 3):i] if len(o) < 2000]})
    return {'ops': len(ops), 'mismatches': mism, 'by_op': dist, 'impl_errors': errs,
            'distinct_ops': len(set(ops))}

# ---------------------------------------------------------------------------------------------
# known findings
def load_known():
    p = os.path.join(VERIF, 'known_findings.json')
    if not os.path.exists(p):
        return {'findings': [], 'fixed': []}
    return json.load(open(p))

def match_known(prop, failure, known):
    for k in known.get('findings', []):
        if k['property'] != prop:
            continue
        if re.fullmatch(k['key_regex'], failure.key):
            return k
    return None

# ---------------------------------------------------------------------------------------------
# evidence / replay
def write_json(path, obj):
    os.makedirs(os.path.dirname(path), exist_ok=True)
    tmp = path + '.tmp'
    with open(tmp, 'w') as f:
        json.dump(obj, f, indent=1, sort_keys=False, default=str)
    os.replace(tmp, path)

def seed_from_env():
    try:
        return int(os.environ.get('VERIF_SEED', '0'))
    except ValueError:
        return 0
