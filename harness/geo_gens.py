"""Adversarial point / cell generators for the geometric properties (inputs only; judged by geo_oracle)."""
import math, struct
from refids import random_valid_id, ref_id, all_ids, s_patterns

def fb(x):
    return struct.unpack('<Q', struct.pack('<d', float(x)))[0]

_frame = None
def frame_points(drv):
    """lon/lat of the 62 dodecahedron frame points (face centres, vertices, edge midpoints)"""
    global _frame
    if _frame is None:
        from a5.projections.dodecahedron import crs
        from a5.core.coordinate_transforms import to_lonlat, to_spherical
        out = []
        for v in crs._vertices:
            lo, la = to_lonlat(to_spherical(v))
            out.append((((lo + 180) % 360) - 180, la))
        _frame = out
    return _frame

_axes = None
def seam_points(drv, rng, n):
    """points along the 30 great-circle seams between adjacent dodecahedron faces, offset across the seam by 1e-2 .. 1e-10 degrees"""
    global _axes
    if _axes is None:
        from a5.core.origin import origins
        from a5.core.coordinate_transforms import to_cartesian
        ax = [tuple(float(x) for x in to_cartesian(o.axis)) for o in origins]
        pairs = []
        for i in range(12):
            for j in range(i + 1, 12):
                d = sum(a * b for a, b in zip(ax[i], ax[j]))
                if 0.3 < d < 0.6:      # adjacent faces: cos(63.43 deg) = 0.447
                    pairs.append((ax[i], ax[j]))
        _axes = pairs
    out = []
    for _ in range(n):
        A, B = rng.choice(_axes)
        m = [(a + b) / 2 for a, b in zip(A, B)]
        t = [A[1] * B[2] - A[2] * B[1], A[2] * B[0] - A[0] * B[2], A[0] * B[1] - A[1] * B[0]]
        tn = math.sqrt(sum(x * x for x in t))
        # half edge length is ~0.3649 rad; a third of the points near the edge midpoint, a sixth near the two end vertices
        along = rng.choice([rng.uniform(-0.36, 0.36)] * 3 + [rng.uniform(-0.01, 0.01)] * 2 + [rng.choice([-1, 1]) * 0.3648 * (1 - 10.0 ** rng.uniform(-8, -1))])
        across = rng.choice([-1, 1]) * 10.0 ** rng.uniform(-10, -2) * math.pi / 180
        v = [mi + math.tan(along) * 0.85 * ti / tn + across * (b - a) for mi, ti, a, b in zip(m, t, A, B)]
        vn = math.sqrt(sum(x * x for x in v))
        v = [x / vn for x in v]
        # v is on the authalic sphere; convert to geodetic lon/lat with the library's own inverse (inputs only, judged elsewhere)
        from a5.core.coordinate_transforms import to_lonlat, to_spherical
        lo, la = to_lonlat(to_spherical(tuple(v)))
        out.append((((lo + 180) % 360) - 180, la))
    return out

def points(drv, tier, rng, n_random):
    pts = seam_points(drv, rng, 120 if tier == 'quick' else 2000)
    fr = frame_points(drv)
    pts += list(fr)          # the 62 frame points themselves (each is a cell corner or centre at every resolution)
    reps = 1 if tier == 'quick' else 6
    for lon, lat in fr:
        for k in range(1, 13):
            for _ in range(reps):
                e = 10.0 ** (-k) * 57.3
                pts.append((lon + rng.uniform(-1, 1) * e / max(0.01, math.cos(math.radians(lat))), max(-90.0, min(90.0, lat + rng.uniform(-1, 1) * e))))
    for k in range(1, 14):
        for _ in range(4 * reps):
            e = 10.0 ** (-k) * 57.3
            pts.append((rng.uniform(-180, 180), 90 - rng.random() * e))
            pts.append((rng.uniform(-180, 180), -90 + rng.random() * e))
    pts += [(0.0, 90.0), (12.0, -90.0), (180.0, 0.0), (-180.0, 0.0), (179.999999999, 33.0), (-179.999999999, -33.0), (0.0, 0.0)]
    # whole degrees (also asked as Python ints by the implementation driver), incl. the meridians and parallels a caller types by hand
    pts += [(float(rng.choice([-180, -90, 0, 87, -93, 90, 180, rng.randint(-540, 540)])), float(rng.choice([-90, -89, 0, 45, 89, 90, rng.randint(-90, 90)]))) for _ in range(20 if tier == 'quick' else 300)]
    for _ in range(n_random):
        pts.append((rng.uniform(-180, 180), math.degrees(math.asin(rng.uniform(-1, 1)))))
    for _ in range(n_random // 4):
        pts.append((rng.uniform(-540, 540), rng.uniform(-90, 90)))
    return pts

def inside_corner_points(drv, rng, n):
    """points just inside cell corners and edges: shrink a vertex / edge midpoint slightly towards the centre"""
    a5 = drv.a5
    out = []
    for _ in range(n):
        c = random_valid_id(rng, 2, 29)
        try:
            ring = a5.cell_to_boundary(c, {'segments': 1, 'closed_ring': False})
            cen = a5.cell_to_lonlat(c)
        except Exception:
            continue
        i = rng.randrange(len(ring))
        a, b = ring[i], ring[(i + 1) % len(ring)]
        t = rng.choice([0.0, 0.0, 0.5, rng.random()])      # corners twice as often: that is where the neighbour search is stretched furthest
        q = (a[0] + t * (b[0] - a[0]), a[1] + t * (b[1] - a[1]))
        # unify longitude branch with the centre
        cl = cen[0]
        while cl - q[0] > 180: cl -= 360
        while cl - q[0] < -180: cl += 360
        f = rng.choice([1e-2, 3e-3, 1e-3, 1e-3, 1e-4, 0.0, 0.0])      # 0.0: a published corner itself, given back to the library as is
        if f == 0.0:
            # only true corners: a point on the lon/lat chord between two corners is not on the (curved) edge but ~1e-6 widths off it, which is
            # inside the oracle's own discretisation error (false alarm seen once in the thorough tier: 1.38e-6 widths at resolution 9)
            q = (a[0], a[1])
        out.append(((q[0] + f * (cl - q[0]), q[1] + f * (cen[1] - q[1])), c))
    return out

def cells(drv, tier, rng, n_random):
    cs = []
    for r in range(0, 3 if tier == 'quick' else 5):
        cs += all_ids(r)
    for r in range(2, 30):
        for _ in range(2 if tier == 'quick' else 12):
            t = rng.randrange(60)
            for S in s_patterns(r, rng, 1)[: (4 if tier == 'quick' else 99)]:
                cs.append(ref_id(t, S, r))
    for _ in range(n_random):
        cs.append(random_valid_id(rng, 0, 29))
    # cells found at poles / frame points / antimeridian / along the face seams (fine resolutions)
    a5 = drv.a5
    for (lon, lat) in seam_points(drv, rng, 40 if tier == 'quick' else 1500):
        try:
            cs.append(a5.lonlat_to_cell((lon, lat), rng.randint(10, 29)))
        except Exception:
            pass
    for (lon, lat) in points(drv, 'quick', rng, 0)[:: (9 if tier == 'quick' else 2)]:
        try:
            cs.append(a5.lonlat_to_cell((lon, lat), rng.randint(2, 29)))
        except Exception:
            pass
    return cs
