"""Structured op-line generators for the model/implementation correspondence.
Every random choice comes from the rng handed in (seeded from VERIF_SEED)."""
import itertools
from refids import ref_id, s_patterns, all_ids, random_valid_id, ref_children_set, MAXV

FQ_UNKNOWN = None

def cells_for_codec(tier, rng):
    """(origin, segment, S, r) tuples: every (origin, segment, resolution -2..32) x S patterns incl. out-of-range ones"""
    out = []
    nrand = 1 if tier == 'quick' else 6
    origins = range(12)
    for r in range(-2, 33):
        for o in origins:
            segs = range(5) if (tier == 'thorough' or r <= 3 or (o + r) % 4 == 0) else [rng.randrange(5)]
            for sg in segs:
                if r < 2:
                    Ss = [0]
                    if (o + sg + r) % 7 == 0:
                        Ss += [1, -1, 7]
                else:
                    rr = min(r, 31)
                    Ss = s_patterns(rr, rng, nrand)
                    top = 4 ** (r - 1)
                    if (o + sg) % 5 == 0:
                        Ss += [top, top + 1, -1, -top, 2 * top - 1]
                    if (o + sg) % 5 == 1 or tier == 'thorough':
                        # far out of range: multiples of the field width that wrap past bit 64, powers of two, huge values
                        k = rng.randint(1, 5)
                        Ss += [top * 64, top * 64 * k + rng.randrange(top), top << rng.randint(1, 12), (1 << 64) + rng.randrange(top),
                               1 << rng.randint(58, 130), top * (1 << rng.randint(3, 40)) + 1]
                for S in Ss:
                    out.append((o, sg, S, r))
    # odd segments
    for _ in range(40 if tier == 'quick' else 400):
        out.append((rng.randrange(12), rng.choice([-6, -5, -1, 5, 6, 9, 10, 12]), 0, rng.randint(0, 5)))
    return out

def malformed_ids(tier, rng):
    n = 300 if tier == 'quick' else 5000
    out = [1, 3, 2 ** 57, 2 ** 58, 2 ** 58 - 1, 2 ** 64 - 1, 2 ** 64, 2 ** 64 + 2, 2 ** 70 + 2 ** 57, 60 << 58, (60 << 58) | (1 << 57),
           (12 << 58) | (1 << 57), (59 << 58) | (1 << 57), (63 << 58) | 2, (63 << 58) | (1 << 56), 2 ** 57 + 2 ** 56, 2 ** 56 + 1, 6, 5, 4]
    for _ in range(n):
        k = rng.randrange(7)
        if k == 6:
            out.append(structured_u64(rng))
        elif k == 0:
            out.append(rng.getrandbits(64))
        elif k == 1:
            out.append((rng.randrange(60, 64) << 58) | (rng.getrandbits(58) | 1 << rng.randrange(58)))
        elif k == 2:  # valid id + stray low bit below the marker
            v = random_valid_id(rng, 0, MAXV - 1)
            low = (v & -v).bit_length() - 1
            out.append(v | (1 << rng.randrange(low)) if low > 0 else v)
        elif k == 3:  # marker on an even bit
            out.append((rng.randrange(60) << 58) | (rng.getrandbits(20) << 30) | (1 << (2 * rng.randrange(1, 28))))
        elif k == 4:
            out.append(rng.getrandbits(64) | (rng.getrandbits(6) << 64))
        else:
            out.append(rng.getrandbits(rng.randrange(1, 64)))
    return out

def id_ops(tier, rng, with_children=True):
    """ops over serialize/deserialize/get_resolution/children/parent/first/stride"""
    ops = []
    ids = set()
    for (o, sg, S, r) in cells_for_codec(tier, rng):
        ops.append(f'ser {o} {sg} {S} {r}')
        if 0 <= r <= MAXV and 0 <= S and (r < 2 and S == 0 or r >= 2 and S < 4 ** (r - 1)):
            ids.add((ref_id_for(o, sg, S, r), r))
    # exhaustive low levels
    top = 3 if tier == 'quick' else 6
    for r in range(-1, top + 1):
        for n in all_ids(r):
            ids.add((n, r))
    ids = sorted(ids)
    if tier == 'quick' and len(ids) > 2600:
        keep = [x for x in ids if x[1] <= 2]
        rest = [x for x in ids if x[1] > 2]
        rng.shuffle(rest)
        ids = keep + rest[:2000]
    for n, r in ids:
        ops.append(f'res {n}')
        ops.append(f'des {n}')
        ops.append(f'first {n} -')
        if with_children:
            sel = rng.random()
            for a in range(-2, r + 2):
                if r <= 3 or a in (-2, -1, 0, 1, 2, r - 1, r, r + 1) or sel < 0.15 or rng.random() < 0.1:
                    ops.append(f'parent {n} {a}')
            ops.append(f'parent {n} -')
            ops.append(f'children {n} -')
            for b in range(max(r - 1, -1), min(r + 3, 32) + 1):
                # keep outputs enumerable: from world/res0 only to res <= 3
                if r <= 0 and b > 3:
                    continue
                ops.append(f'children {n} {b}')
            if r >= 27:
                for b in (29, 30, 31):
                    ops.append(f'children {n} {b}')
            ops.append(f'first {n} {rng.randint(-1, 31)}')
    for r in range(-3, 34):
        ops.append(f'stride {r}')
    ops.append('res0')
    for n in malformed_ids(tier, rng):
        ops.append(f'res {n}')
        ops.append(f'des {n}')
        ops.append(f'parent {n} -')
        ops.append(f'parent {n} {rng.randint(-2, 30)}')
        ops.append(f'first {n} -')
        ops.append(f'first {n} {rng.randint(-1, 30)}')
        if rng.random() < 0.3:
            ops.append(f'children {n} -')
    return ops

# first_quintant is not needed to build ids: the generator works with the top-6 value directly; for `ser` ops
# (which take a segment) we only need *some* id for follow-up ops, so use the segment as the relative one.
def ref_id_for(o, sg, S, r):
    if r == 0:
        return ref_id(o, 0, 0)
    return ref_id(5 * o + (sg % 5), S, r)

def info_ops(tier, rng):
    ops = []
    for r in range(-4, 36):
        ops.append(f'ncells {r}')
        ops.append(f'area {r}')
    for a in range(-3, 33):
        for b in range(-3, 33):
            ops.append(f'nchildren {a} {b}')
    return ops

def structured_u64(rng):
    """a 64-bit value assembled from 2, 4, 8 or 16 parts, each part drawn independently from a palette of remarkable values
    (zero, one, small, sign-bit, all-ones, random): products of special parts across lanes, which neither a one-lane sweep nor a
    uniformly random value reaches"""
    parts = rng.choice([2, 4, 8, 16])
    w = 64 // parts
    top = (1 << w) - 1
    n = 0
    for _ in range(parts):
        k = rng.randrange(8)
        v = [0, 1, rng.randint(1, min(255, top)), 1 << (w - 1), (1 << (w - 1)) - 1, top, top - rng.randint(0, min(255, top)), rng.getrandbits(w)][k]
        n = (n << w) | (v & top)
    return n

def hex_ops(tier, rng):
    ops = []
    for _ in range(3000 if tier == 'quick' else 200000):
        ops.append(f'hex {structured_u64(rng)}')
    for k in range(64):
        for j in (1, 2, 9, 10, 15, 16, 17, 255, 256, 257, 4095, 4096, 65535, 65536):
            ops.append(f'hex {((1 << k) + j) & ((1 << 64) - 1)}')
            ops.append(f'hex {((1 << k) - j) % (1 << 64)}')
    lanes = [0, 16, 32, 48]
    step = 1 if tier == 'thorough' else 17
    for lane in lanes:
        for bg in (0, (1 << 64) - 1):
            for v in range(0, 65536, step):
                n = (bg & ~(0xffff << lane)) | (v << lane)
                ops.append(f'hex {n}')
    for k in range(0, 130):
        ops.append(f'hex {1 << k}')
        ops.append(f'hex {(1 << k) - 1}')
    for _ in range(500 if tier == 'quick' else 20000):
        ops.append(f'hex {random_valid_id(rng)}')
        ops.append(f'hex {rng.getrandbits(64)}')
    for n in (-1, -5, -255, -(1 << 64)):
        ops.append(f'hex {n}')
    # parse side: well-formed and malformed strings
    def enc(s):
        return 'unhex ' + s.encode('latin-1').hex() if s else 'unhex'
    alphabet = '0123456789abcdefABCDEF'
    junk = ' \t\n\r\x0b\x0c\x1c\x1f_+-xXgGzZ.#\x00\x7f'
    fixed = ['', '0', '00', '0x', '0X', '0x0', '0x_1', '0x__1', '_1', '1_', '1_2', '1__2', '+1', '-1', '+-1', ' 1f ', '\t1F\n', '0x 1', '+ 1',
             '- 1', '1 2', 'ff', 'FF', 'fF', '000ff', '0b1', '0o7', '0xg', 'g', '0x-1', '-0x1', '+0X_a', '0_x1', '0x1_', '_', '+', '-', ' ',
             '0' * 40 + 'a', 'f' * 16, 'F' * 17, '1' + '0' * 16, '\x1c1\x1f', '1\x00', '\x001', '0x0x1', '0xx1', '00x1', '-_1', '+_1', '0_0']
    for s in fixed:
        ops.append(enc(s))
    for _ in range(1500 if tier == 'quick' else 40000):
        k = rng.randrange(4)
        if k == 0:
            s = ''.join(rng.choice(alphabet) for _ in range(rng.randint(1, 18)))
        elif k == 1:
            s = ''.join(rng.choice(alphabet + junk) for _ in range(rng.randint(0, 8)))
        elif k == 2:
            body = ''.join(rng.choice(alphabet + '_') for _ in range(rng.randint(0, 10)))
            s = rng.choice(['', ' ', '\n ']) + rng.choice(['', '+', '-']) + rng.choice(['', '0x', '0X', '0x_']) + body + rng.choice(['', ' ', '\t'])
        else:
            n = rng.getrandbits(64)
            h = '%x' % n
            s = rng.choice([h, h.upper(), '0' * rng.randint(1, 5) + h, '0x' + h])
        ops.append(enc(s))
        # what was just parsed is formatted next (text -> id -> text: the printed form must not depend on the spelling that was read)
        try:
            v = int(s, 16)
            if v >= 0:
                ops.append(f'hex {v}')
        except ValueError:
            pass
    return ops

# ------------------------------------------------------------------------------------------
# compact / uncompact

def sub_hierarchy(rng):
    """a bounded sub-hierarchy spanning every aperture: world, 12 faces, the 5 segments of two faces,
    4-way Hilbert children of two segments and of one res-2 cell, and one res-3 cell's children."""
    f = rng.sample(range(12), 2)
    nodes = {0: []}
    faces = [ref_id(t, 0, 0) for t in range(12)]
    segs = [ref_id(5 * t + k, 0, 1) for t in f for k in range(5)]
    s2 = rng.sample(segs, 2)
    r2 = [c for s in s2 for c in sorted(ref_children_set(s, 2))]
    p2 = rng.choice(r2)
    r3 = sorted(ref_children_set(p2, 3))
    p3 = rng.choice(r3)
    r4 = sorted(ref_children_set(p3, 4))
    return faces, segs, r2, r3, r4

def antichains_of(universe_levels, rng, n, mix_dups=True):
    """random antichains / non-antichains drawn from a sub-hierarchy"""
    from refids import ref_is_ancestor_or_self
    allc = [c for lv in universe_levels for c in lv]
    out = []
    for _ in range(n):
        k = rng.randint(1, min(len(allc), 40))
        pick = rng.sample(allc, k)
        if rng.random() < 0.6:
            # force complete groups
            lv = rng.choice(universe_levels[1:])
            pick += lv
        if rng.random() < 0.5:
            anti = []
            for c in pick:
                if not any(ref_is_ancestor_or_self(a, c) or ref_is_ancestor_or_self(c, a) for a in anti):
                    anti.append(c)
            pick = anti
        if mix_dups and rng.random() < 0.4:
            pick += rng.sample(pick, rng.randint(1, len(pick)))
        rng.shuffle(pick)
        out.append(pick)
    return out

def compact_inputs(tier, rng):
    lists = []
    # fixed small cases: complete groups at each aperture, with and without a foreign cell
    faces = [ref_id(t, 0, 0) for t in range(12)]
    lists.append(faces)
    lists.append(faces[1:])
    for t in range(12):
        segs = [ref_id(5 * t + k, 0, 1) for k in range(5)]
        lists.append(segs)
        lists.append(segs + faces[:t] + faces[t + 1:])
        lists.append(segs[:4] + faces)
    lists.append([0]); lists.append([0] + faces); lists.append([]); lists.append([0, 0])
    for _ in range(6 if tier == 'quick' else 60):
        lv = sub_hierarchy(rng)
        lists += antichains_of(list(lv), rng, 40 if tier == 'quick' else 120)
        # all permutations of a few small cases
        small = rng.sample(lv[2] + lv[3], 4) + [rng.choice(lv[0])]
        for perm in itertools.islice(itertools.permutations(small), 0, 120 if tier == 'thorough' else 24):
            lists.append(list(perm))
    # deep cells: complete groups down a random path to 29, cascading merges
    for _ in range(20 if tier == 'quick' else 300):
        top6 = rng.randrange(60)
        r = rng.randint(3, MAXV)
        S = rng.randrange(4 ** (r - 1))
        cells = []
        cur = ref_id(top6, S, r)
        depth = rng.randint(1, min(6, r - 1))
        from refids import ref_parent
        for d in range(depth):
            rr = r - d
            p = ref_parent(cur, rr - 1)
            sib = sorted(ref_children_set(p, rr))
            if d == 0:
                cells += sib
            else:
                cells += [c for c in sib if c != cur]
            cur = p
        if rng.random() < 0.3:
            cells.pop(rng.randrange(len(cells)))
        rng.shuffle(cells)
        lists.append(cells)
    # long uniform runs: every cell of resolution r under a run of consecutive quintant slots (whole quintants side by side, within a face and across
    # two faces) -- the inputs a bulk / run-collapsing fast path is written for
    for (t0, k, r) in ([(0, 4, 5), (4, 4, 5), (56, 4, 5), (3, 5, 5), (10, 5, 5), (8, 4, 6)] if tier == 'quick' else
                       [(t, k, r) for t in range(0, 57, 4) for k in (3, 4, 5) for r in (5, 6)] + [(rng.randrange(55), 5, 6) for _ in range(10)]):
        cells = []
        for t6 in range(t0, min(60, t0 + k)):
            cells += sorted(ref_children_set(ref_id(t6, 0, 1), r))
        lists.append(cells)
        if rng.random() < 0.5:
            d = list(cells); d.pop(rng.randrange(len(d))); lists.append(d)
    # the whole globe as one split chain from the world cell down to resolution R: at every level the siblings of the chain cell, at the bottom the
    # complete group -- the deepest cascade there is (R + 1 merges), ending in the world cell
    from refids import ref_parent as _rp
    for R in ([29, 28, 12] if tier == 'quick' else [29, 29, 28, 27, 20, 12, 5, 3]):
        cur = ref_id(rng.randrange(60), rng.randrange(4 ** (R - 1)), R)
        cells = []
        for rr in range(R, -1, -1):
            par = _rp(cur, rr - 1)
            sib = sorted(ref_children_set(par, rr))
            cells += sib if rr == R else [c for c in sib if c != cur]
            cur = par
        lists.append(sorted(cells)); lists.append(sorted(cells, reverse=True))
        sh = list(cells); rng.shuffle(sh); lists.append(sh + [rng.choice(cells)])
    # arithmetic progressions of ids with every plausible stride (the algorithm is stride based): cousins that look like siblings
    from refids import ref_decode
    for _ in range(60 if tier == 'quick' else 1500):
        r = rng.randint(0, MAXV)
        top6 = rng.randrange(12 if r == 0 else 60)
        S = 0 if r < 2 else (rng.randrange(4 ** (r - 1)) // 4) * 4 if rng.random() < 0.7 else rng.randrange(4 ** (r - 1))
        if rng.random() < 0.5:
            top6 = (top6 // 5) * 5 if r >= 1 else 0
        c = ref_id(top6, S, r)
        w = 60 - 2 * r if r >= 2 else 58
        for e in {58, 56, 57, w, w + 2, w - 2, w + 4}:
            if e < 0:
                continue
            for k in (4, 5, 12):
                ap = [c + j * (1 << e) for j in range(k)]
                ap = [x for x in ap if ref_decode(x) is not None]
                if len(ap) >= 2:
                    extra = [random_valid_id(rng, 0, min(MAXV, r + 1)) for _ in range(rng.randint(0, 2))]
                    l = ap + extra
                    rng.shuffle(l)
                    lists.append(l)
    # same position in consecutive segments / faces (cousins), at every resolution
    for r in range(1, MAXV + 1):
        for _ in range(2 if tier == 'quick' else 10):
            S = 0 if r < 2 else rng.choice([0, 0, rng.randrange(4 ** (r - 1))])
            t0 = rng.randrange(56)
            lists.append([ref_id(t0 + j, S, r) for j in range(rng.choice([4, 5]))])
    # large random multisets of valid ids, all resolutions
    for _ in range(10 if tier == 'quick' else 200):
        n = rng.randint(50, 400 if tier == 'quick' else 3000)
        lists.append([random_valid_id(rng, -1, MAXV) for _ in range(n)])
    # whole levels
    lists.append(all_ids(1)); lists.append(all_ids(2)); lists.append(all_ids(3))
    if tier == 'thorough':
        lists.append(all_ids(4)); lists.append(all_ids(5))
    return lists

def with_structured_orders(lists, rng, p_up=0.35, p_down=0.15):
    """a caller's list is often *already ordered* (ascending ids, descending ids): add those orders of a share of the lists, next to the shuffled ones"""
    out = []
    for l in lists:
        out.append(l)
        if len(l) >= 2:
            u = rng.random()
            if u < p_up:
                out.append(sorted(l))
            elif u < p_up + p_down:
                out.append(sorted(l, reverse=True))
    return out

def compact_ops(tier, rng):
    ops = ['compact ' + ' '.join(map(str, l)) if l else 'compact' for l in with_structured_orders(compact_inputs(tier, rng), rng)]
    for n in malformed_ids(tier, rng)[:60]:
        ops.append(f'compact {n} {random_valid_id(rng)}')
    return ops

def uncompact_inputs(tier, rng):
    cases = []
    for _ in range(300 if tier == 'quick' else 5000):
        k = rng.randint(0, 6)
        t = rng.randint(-1, MAXV + 1)
        cells = []
        for _ in range(k):
            lo = max(-1, t - 3) if rng.random() < 0.9 else -1
            hi = t if rng.random() < 0.9 else min(MAXV, t + 2)
            if lo <= 0 and t > 3:
                lo = max(lo, t - 3, 1)
            r = rng.randint(min(lo, hi), max(lo, hi))
            if r <= 0 and t > 3:
                r = t - 1
            r = max(-1, min(r, MAXV))
            c = random_valid_id(rng, r, r)
            cells.append(c)
            if rng.random() < 0.2:
                cells.append(c)
        cases.append((t, cells))
    # sibling families in every order, with the parent or finer fragments mixed in (a shortcut that recognises a run by its end points only)
    import itertools as _it
    from refids import ref_parent as _rp2
    for _ in range(25 if tier == 'quick' else 600):
        r = rng.randint(2, MAXV - 1)
        c = random_valid_id(rng, r, r)
        fam = sorted(ref_children_set(_rp2(c, r - 1), r))
        t = min(MAXV, r + rng.randint(1, 2))
        perm = list(rng.choice(list(_it.permutations(fam))))
        cases.append((t, perm))
        g = sorted(ref_children_set(fam[1], min(MAXV, r + 1)))
        cases.append((t, [fam[0], g[0], g[-1], fam[3]]))
        cases.append((t, [fam[0], fam[2], fam[1], fam[3], random_valid_id(rng, r, r)]))
    for t in range(-1, 4):
        cases.append((t, [0]))
        cases.append((t, [0, ref_id(3, 0, 0)]))
    return cases

def uncompact_ops(tier, rng):
    ops = [f'uncompact {t} ' + ' '.join(map(str, c)) if c else f'uncompact {t}' for t, c in uncompact_inputs(tier, rng)]
    for n in malformed_ids(tier, rng)[:40]:
        ops.append(f'uncompact {rng.randint(0, 5)} {n}')
    return ops

# ------------------------------------------------------------------------------------------
# Hilbert curve / lattice

ORIENTS = ['uv', 'vu', 'uw', 'wu', 'vw', 'wv']

def hilbert_s_values(n, tier, rng):
    """indices for level n: exhaustive for small n, digit-pattern-directed and random above"""
    top = 4 ** n
    if n <= (5 if tier == 'quick' else 7):
        return list(range(top))
    vals = {0, 1, 2, 3, top - 1, top - 2, top // 2, top // 4, top // 3, (2 * top) // 3}
    for d in range(4):
        vals.add(int(str(d) * n, 4))
    for pat in ('01', '12', '23', '30', '13', '02', '0123', '3210', '0333', '1000', '2111'):
        vals.add(int((pat * n)[:n], 4))
    for k in range(n):
        for d in (1, 2, 3):
            vals.add(d * 4 ** k)
            vals.add(top - 1 - d * 4 ** k)
    for _ in range(20 if tier == 'quick' else 400):
        vals.add(rng.randrange(top))
    return sorted(v for v in vals if 0 <= v < top)

def hilbert_ops(tier, rng, centers=None):
    import struct
    def fb(x):
        return struct.unpack('<Q', struct.pack('<d', float(x)))[0]
    ops = []
    for d in range(4):
        for fx in (1, -1):
            for fy in (1, -1):
                ops.append(f'q2kj {d} {fx} {fy}')
    for n in range(0, 29):
        for o in ORIENTS:
            svals = hilbert_s_values(n, tier, rng)
            if n > 3 and tier == 'quick' and len(svals) > 300:
                svals = rng.sample(svals, 300)
            for s in svals:
                ops.append(f's2a {s} {n} {o}')
            ops.append(f's2a {4 ** n} {n} {o}')
            ops.append(f's2a {4 ** n + 5} {n} {o}')
    # inverse direction: lattice points with small offsets, random points, points supplied by the caller (cell centres)
    pts = []
    for n in range(1, 29):
        m = 2 ** n
        for _ in range(12 if tier == 'quick' else 200):
            i = rng.randrange(0, m); j = rng.randrange(0, m - i) if m - i > 0 else 0
            for (di, dj) in ((0.3, 0.3), (0.7, 0.1), (0.1, 0.7), (-0.2, 0.5), (0.5, -0.2), (1e-9, 1e-9), (0.5, 0.5 - 1e-12), (1 / 3, 1 / 3),
                             (rng.random(), rng.random()), (rng.uniform(-1, 2), rng.uniform(-1, 2))):
                pts.append((i + di, j + dj, n))
        pts.append((0.0, 0.0, n)); pts.append((float(m), 0.0, n)); pts.append((0.0, float(m), n)); pts.append((-1.5, 2.5, n)); pts.append((m * 2.0, m * 3.0, n))
    if centers:
        pts += centers
    for (x, y, n) in pts:
        for o in (ORIENTS if (tier == 'thorough' or rng.random() < 0.34) else [rng.choice(ORIENTS)]):
            ops.append(f'ij2s {fb(x)} {fb(y)} {n} {o}')
    return ops
