import common
"""Failing-input searches for the geometric properties C03, C04, C07, C11, C13, C14 on the real code, judged by geo_oracle."""
import math
import geo_oracle as G
from common import Failure
from refids import ref_res, ref_parent, ref_children_set, all_ids, random_valid_id

def cell_width(a5, r):
    """sqrt(cell area) on the unit sphere"""
    return math.sqrt(4 * math.pi / a5.get_num_cells(r))

def vec_ll(p):
    return G.to_vec(p[0], p[1])

# ---------------------------------------------------------------------------------------- C04
def dxi_dphi(phi):
    s = math.sin(phi)
    dq = (1 - G.E2) * 2 * math.cos(phi) / (1 - G.E2 * s * s) ** 2
    xi = G.authalic_lat(phi)
    return dq / (G.QP * math.cos(xi))

def ring_area_precise(ring):
    """area [sr] of an open lon/lat ring on the authalic sphere; local planar formula for tiny cells away from the poles"""
    lats = [p[1] for p in ring]
    lons = [p[0] for p in ring]
    span = max(max(lats) - min(lats), (max(lons) - min(lons)) * math.cos(math.radians(sum(lats) / len(lats))))
    lat0 = sum(lats) / len(lats)
    if span < 5e-3 and abs(lat0) < 88.5:
        lon0 = sum(lons) / len(lons)
        phi0 = math.radians(lat0)
        xi0 = G.authalic_lat(phi0)
        k = dxi_dphi(phi0)
        # second-order terms are negligible below 1e-4 rad; include the exact authalic difference above 1e-6 rad
        pts = []
        for lo, la in ring:
            dphi = math.radians(la - lat0)
            dxi = k * dphi if span < 1e-4 else (G.authalic_lat(math.radians(la)) - xi0)
            pts.append((math.radians(lo - lon0), dxi))
        # integrate cos(xi) dlambda dxi exactly to second order: area = sum over edges of the trapezoid in (lambda, sin xi)
        a = 0.0
        n = len(pts)
        for i in range(n):
            x1, y1 = pts[i]; x2, y2 = pts[(i + 1) % n]
            # sin(xi0 + y) - sin(xi0) = 2 cos(xi0 + y/2) sin(y/2)
            s1 = 2 * math.cos(xi0 + y1 / 2) * math.sin(y1 / 2)
            s2 = 2 * math.cos(xi0 + y2 / 2) * math.sin(y2 / 2)
            a += (x1 * s2 - x2 * s1)
        return a / 2
    if span < 5e-3 and abs(lat0) >= 88.5:
        # Lambert azimuthal equal-area chart about the nearer pole: planar shoelace area = spherical area
        sgn = 1.0 if lat0 > 0 else -1.0
        pts = []
        for lo, la in ring:
            c = G.authalic_colat(math.radians(sgn * la))
            rho = 2 * math.sin(c / 2)
            lam = math.radians(lo) * sgn
            pts.append((rho * math.cos(lam), rho * math.sin(lam)))
        ox, oy = pts[0]
        a = 0.0
        n = len(pts)
        for i in range(n):
            x1, y1 = pts[i][0] - ox, pts[i][1] - oy
            x2, y2 = pts[(i + 1) % n][0] - ox, pts[(i + 1) % n][1] - oy
            a += x1 * y2 - x2 * y1
        return a / 2
    return G.ring_area([vec_ll(p) for p in ring])

def segs_for_area(r):
    return 64 if r <= 3 else 16 if r <= 16 else 4

@common.guarded(lambda **a: f"area check of cell {hex(a['c'])}", lambda **a: {'kind': 'area', 'cell': a['c']})
def check_area(a5, c, fails, st):
    r = ref_res(c)
    n = segs_for_area(r)
    try:
        ring1 = a5.cell_to_boundary(c, {'segments': n, 'closed_ring': False})
        ring2 = a5.cell_to_boundary(c, {'segments': 2 * n, 'closed_ring': False})
    except Exception as e:  # noqa
        fails.append(Failure(f'cell_to_boundary({hex(c)}) raises {type(e).__name__}', {'cell': c})); return
    want = 4 * math.pi / a5.get_num_cells(r)
    want2 = a5.cell_area(r) / (G.AUTHALIC_RADIUS ** 2)
    a1, a2 = ring_area_precise(ring1), ring_area_precise(ring2)
    got = (4 * a2 - a1) / 3        # the chord error of a curved edge falls as 1/segments^2: Richardson extrapolation
    rel = abs(got - want) / want
    # boundary coordinates carry ~1e-14 degrees of rounding: relative area noise ~ 4e-16 rad / cell width
    tol = 1e-6 + 4e-15 / cell_width(a5, r)
    st['max_rel_area_err'] = max(st.get('max_rel_area_err', 0.0), rel)
    if abs(want2 - want) / want > 1e-12:
        fails.append(Failure(f'cell_area({r}) = {a5.cell_area(r)} is not 4*pi*R^2 / get_num_cells({r})', {'cell': c})); return
    if not rel <= tol:
        fails.append(Failure(f'area of cell {hex(c)} (resolution {r}) = {got:.12e} sr, expected {want:.12e} (relative error {rel:.2e})', {'cell': c}))

# ---------------------------------------------------------------------------------------- C11
@common.guarded(lambda **a: f"shape check of cell {hex(a['c'])}", lambda **a: {'kind': 'shape', 'cell': a['c']})
def check_shape(a5, c, fails, st):
    r = ref_res(c)
    if r < 2:
        return
    ring = a5.cell_to_boundary(c, {'segments': 1, 'closed_ring': False})
    cen = vec_ll(a5.cell_to_lonlat(c))
    w = cell_width(a5, r)
    vs = [vec_ll(p) for p in ring]
    ds = [G.angle(cen, v) / w for v in vs]
    st['min_corner'] = min(st.get('min_corner', 9), min(ds)); st['max_corner'] = max(st.get('max_corner', 0), max(ds))
    if min(ds) < 0.35 or max(ds) > 1.0:
        fails.append(Failure(f'cell {hex(c)} (resolution {r}): corner distances {min(ds):.3f}..{max(ds):.3f} cell widths from the centre, outside 0.35..1.0', {'kind': 'shape', 'cell': c})); return
    for i in range(len(vs)):
        for j in range(i + 1, len(vs)):
            if G.angle(vs[i], vs[j]) / w < 0.05:
                fails.append(Failure(f'cell {hex(c)}: corners {i} and {j} coincide', {'kind': 'shape', 'cell': c})); return

def check_quantisation(a5, p, r, fails, st):
    try:
        c = a5.lonlat_to_cell(p, r)
        q = a5.cell_to_lonlat(c)
    except Exception as e:  # noqa
        fails.append(Failure(f'lonlat_to_cell/cell_to_lonlat raise {type(e).__name__} at {p}, resolution {r}', {'kind': 'quant', 'p': list(p), 'r': r})); return
    d = G.angle(vec_ll(p), vec_ll(q)) / cell_width(a5, r)
    st['max_quant'] = max(st.get('max_quant', 0), d)
    if d > 1.0:
        fails.append(Failure(f'centre of the cell of {p} at resolution {r} is {d:.3f} cell widths away (> 1.0)', {'kind': 'quant', 'p': list(p), 'r': r}))

# ---------------------------------------------------------------------------------------- C07
@common.guarded(lambda **a: f"descent from cell {hex(a['c'])}", lambda **a: {'kind': 'descent', 'cell': a['c']})
def check_descent(a5, c, depth, rng, fails, st):
    r = ref_res(c)
    cen = vec_ll(a5.cell_to_lonlat(c))
    w = cell_width(a5, r)
    cur = c
    prev = cen
    for k in range(1, depth + 1):
        if r + k > 29:
            break
        kids = a5.cell_to_children(cur)
        cur = rng.choice(kids) if rng.random() < 0.7 else kids[rng.choice([0, -1])]
        v = vec_ll(a5.cell_to_lonlat(cur))
        d = G.angle(cen, v) / w
        step = G.angle(prev, v) / cell_width(a5, r + k - 1)
        st['max_drift'] = max(st.get('max_drift', 0), d); st['max_step'] = max(st.get('max_step', 0), step)
        if d > 1.5:
            fails.append(Failure(f'descendant {hex(cur)} (resolution {r + k}) of {hex(c)} (resolution {r}) is {d:.3f} ancestor widths from its centre (> 1.5)', {'kind': 'descent', 'cell': c, 'desc': cur})); return
        prev = v

def check_nesting(a5, fails):
    """faces and their five segments nest exactly: every res-1 cell's corners lie in its face's ring, res-1 areas sum to the face"""
    for f in all_ids(0):
        ring0 = a5.cell_to_boundary(f, {'segments': 1, 'closed_ring': False})
        cs = set(tuple(round(x, 9) for x in p) for p in ring0)
        kids = a5.cell_to_children(f, 1)
        corner_hits = 0
        for k in kids:
            ring1 = a5.cell_to_boundary(k, {'segments': 1, 'closed_ring': False})
            for p in ring1:
                q = tuple(round(x, 9) for x in p)
                if q in cs or any(abs(((q[0] - c[0] + 180) % 360) - 180) < 1e-7 and abs(q[1] - c[1]) < 1e-7 for c in cs):
                    corner_hits += 1
        if corner_hits != 10:
            fails.append(Failure(f'segments of face {hex(f)} do not share the face corners exactly ({corner_hits} of 10 corner coincidences)', {'kind': 'nest', 'cell': f}))

@common.guarded(lambda **a: f"ancestors of the resolution-{a['r']} cell of point {a['p']}", lambda **a: {'kind': 'anc', 'p': list(a['p']), 'r': a['r'], 'r2': a['r2']})
def check_ancestor_of_point(a5, p, r, r2, fails):
    c = a5.lonlat_to_cell(p, r)
    anc = a5.cell_to_parent(c, r2)
    d = G.angle(vec_ll(p), vec_ll(a5.cell_to_lonlat(anc))) / cell_width(a5, r2)
    if d > 2.5:
        fails.append(Failure(f'point {p}: centre of the resolution-{r2} ancestor of its resolution-{r} cell is {d:.2f} widths away (> 2.5)', {'kind': 'anc', 'p': list(p), 'r': r, 'r2': r2}))

# ---------------------------------------------------------------------------------------- C03
def key3(v, q=1e-9):
    return (round(v[0] / q), round(v[1] / q), round(v[2] / q))

def manifold_certificate(a5, r, fails):
    """every directed edge of every level-r cell is matched by exactly one opposite edge; V - E + F = 2; total area 4 pi"""
    cells = a5.cell_to_children(0, r)
    edges = {}
    verts = set()
    total = 0.0
    for c in cells:
        ring = a5.cell_to_boundary(c, {'segments': 1, 'closed_ring': False})
        vs = [vec_ll(p) for p in ring]
        total += G.ring_area(vs)
        ks = [key3(v) for v in vs]
        for i in range(len(ks)):
            a, b = ks[i], ks[(i + 1) % len(ks)]
            verts.add(a)
            edges.setdefault((a, b), []).append(c)
    bad = 0
    for (a, b), cs in edges.items():
        if len(cs) != 1 or len(edges.get((b, a), [])) != 1:
            bad += 1
            if bad <= 2:
                fails.append(Failure(f'resolution {r}: an edge of cell {hex(cs[0])} is not matched vertex for vertex by exactly one opposite edge', {'kind': 'manifold', 'r': r}))
    E = len(edges) // 2
    F = len(cells)
    V = len(verts)
    if not bad and V - E + F != 2:
        fails.append(Failure(f'resolution {r}: Euler characteristic {V - E + F} != 2 (V={V}, E={E}, F={F})', {'kind': 'manifold', 'r': r}))
    if abs(total - 4 * math.pi) > 1e-2 * 4 * math.pi / math.sqrt(F):
        fails.append(Failure(f'resolution {r}: signed corner-polygon areas sum to {total:.6f}, not 4 pi', {'kind': 'manifold', 'r': r}))
    return len(cells)

@common.guarded(lambda **a: f"edges of cell {hex(a['c'])}", lambda **a: {'kind': 'edge', 'cell': a['c']})
def check_edges_of_cell(a5, c, fails):
    """all five edges of a cell: the cell found just beyond the (true, curved) edge midpoint owns the reversed edge"""
    r = ref_res(c)
    ring1 = a5.cell_to_boundary(c, {'segments': 1, 'closed_ring': False})
    ring2 = a5.cell_to_boundary(c, {'segments': 2, 'closed_ring': False})
    vs = [vec_ll(p) for p in ring1]               # counter-clockwise corners
    v2 = [vec_ll(p) for p in ring2]
    n = len(vs)
    mids = []
    for i in range(n):
        a, b = vs[i], vs[(i + 1) % n]
        chord = G.norm((a[0] + b[0], a[1] + b[1], a[2] + b[2]))
        mids.append(min(v2, key=lambda v: G.angle(v, chord)))   # the vertex of the 2-segment ring on this (curved) edge
    cen = vec_ll(a5.cell_to_lonlat(c))
    w = cell_width(a5, r)
    for i in range(n):
        a, b = vs[i], vs[(i + 1) % n]
        mid = mids[i]
        dvec = (mid[0] - cen[0], mid[1] - cen[1], mid[2] - cen[2])
        dl = math.sqrt(G.dot(dvec, dvec))
        out = G.norm((mid[0] + 0.03 * w * dvec[0] / dl, mid[1] + 0.03 * w * dvec[1] / dl, mid[2] + 0.03 * w * dvec[2] / dl))
        lon = math.degrees(math.atan2(out[1], out[0]))
        xi = math.atan2(out[2], math.sqrt(out[0] * out[0] + out[1] * out[1]))
        lat = math.degrees(_geodetic_from_authalic(xi))
        nb = a5.lonlat_to_cell((lon, lat), r)
        if nb == c:
            fails.append(Failure(f'cell {hex(c)}: a point 3% of a cell width beyond edge {i} is still assigned to the same cell', {'kind': 'edge', 'cell': c})); return
        rn = [vec_ll(p) for p in a5.cell_to_boundary(nb, {'segments': 1, 'closed_ring': False})]
        tol = 1e-6 * w + 1e-13
        ok = False
        for j in range(len(rn)):
            if G.angle(rn[j], b) < tol and G.angle(rn[(j + 1) % len(rn)], a) < tol:
                ok = True
        if not ok:
            fails.append(Failure(f'cell {hex(c)} (resolution {r}): edge {i} is not an edge (reversed, vertex for vertex) of the neighbour {hex(nb)} found beyond it', {'kind': 'edge', 'cell': c})); return
        if r <= 1:
            # great-circle edge (exact in vectors): a point 1e-9 / 1e-10 rad outside it -- ten thousand times the float noise of the library's own
            # decision -- belongs to the neighbour, never to this cell
            nrm = G.norm(G.cross(a, b))
            if G.dot(nrm, cen) < 0:
                nrm = (-nrm[0], -nrm[1], -nrm[2])
            for t in (0.25, 0.5, 0.8):
                e = G.norm((a[0] + t * (b[0] - a[0]), a[1] + t * (b[1] - a[1]), a[2] + t * (b[2] - a[2])))
                for delta in (1e-9, 1e-10):
                    q = G.norm((e[0] - delta * nrm[0], e[1] - delta * nrm[1], e[2] - delta * nrm[2]))
                    qlon = math.degrees(math.atan2(q[1], q[0]))
                    qlat = math.degrees(_geodetic_from_authalic(math.atan2(q[2], math.sqrt(q[0] * q[0] + q[1] * q[1]))))
                    if a5.lonlat_to_cell((qlon, qlat), r) == c:
                        fails.append(Failure(f'cell {hex(c)} (resolution {r}): the point ({qlon!r}, {qlat!r}), {delta:g} rad outside the great-circle edge {i}, is assigned to the cell itself', {'kind': 'edge', 'cell': c})); return
        # near the two ends of the edge (2 % of its length from a corner), 0.5 % of a cell width outside: three cells meet there and the point
        # belongs to one of the other two, never to this cell.  Only for r >= 8, where the bulge of an edge at that spot is far below the push.
        if r >= 8:
            for t in (0.02, 0.98):
                e = G.norm((a[0] + t * (b[0] - a[0]), a[1] + t * (b[1] - a[1]), a[2] + t * (b[2] - a[2])))
                ev = (e[0] - cen[0], e[1] - cen[1], e[2] - cen[2])
                # outward normal of the edge in the tangent plane: component of (e - centre) orthogonal to the edge direction
                ed = (b[0] - a[0], b[1] - a[1], b[2] - a[2])
                el = math.sqrt(G.dot(ed, ed))
                k = G.dot(ev, ed) / (el * el)
                nv = (ev[0] - k * ed[0], ev[1] - k * ed[1], ev[2] - k * ed[2])
                nl = math.sqrt(G.dot(nv, nv))
                if nl == 0:
                    continue
                q = G.norm((e[0] + 0.005 * w * nv[0] / nl, e[1] + 0.005 * w * nv[1] / nl, e[2] + 0.005 * w * nv[2] / nl))
                qlon = math.degrees(math.atan2(q[1], q[0]))
                qlat = math.degrees(_geodetic_from_authalic(math.atan2(q[2], math.sqrt(q[0] * q[0] + q[1] * q[1]))))
                if a5.lonlat_to_cell((qlon, qlat), r) == c:
                    fails.append(Failure(f'cell {hex(c)} (resolution {r}): a point 0.5% of a cell width outside edge {i}, 2% of the edge length from a corner, is assigned to the cell itself', {'kind': 'edge', 'cell': c})); return

def _geodetic_from_authalic(xi):
    """invert the closed-form authalic latitude by Newton iteration"""
    phi = xi
    for _ in range(8):
        f = G.authalic_lat(phi) - xi
        phi -= f / dxi_dphi(phi) if abs(phi) < 1.5 else f
    return max(-math.pi / 2, min(math.pi / 2, phi))

# ---------------------------------------------------------------------------------------- C13 / C14
def lib(drv):
    from a5.core.cell import _dodecahedron
    from a5.core.coordinate_transforms import to_cartesian, to_spherical
    from a5.core.origin import origins, find_nearest_origin
    return _dodecahedron, to_cartesian, to_spherical, origins, find_nearest_origin

@common.guarded(lambda **a: f"projection round trip of {a['sph']} on face {a['origin_id']}", lambda **a: {'kind': 'sph', 'sph': list(a['sph']), 'o': a['origin_id']})
def check_projection_roundtrip(drv, sph, origin_id, fails, st, kind='nearest'):
    dod, to_cart, to_sph, origins, _ = lib(drv)
    try:
        f = dod.forward(sph, origin_id)
        back = dod.inverse(f, origin_id)
    except Exception as e:  # noqa
        fails.append(Failure(f'projection raises {type(e).__name__} at spherical {sph} on face {origin_id} ({kind})', {'kind': 'sph', 'sph': list(sph), 'o': origin_id})); return
    d = G.angle(to_cart(sph), to_cart(back))
    st['max_sph_rt'] = max(st.get('max_sph_rt', 0), d)
    if not d <= 1e-11:
        fails.append(Failure(f'forward then inverse on face {origin_id} ({kind}) moves the point {sph} by {d:.3e} rad (> 1e-11)', {'kind': 'sph', 'sph': list(sph), 'o': origin_id}))

@common.guarded(lambda **a: f"face round trip of {a['face']} on face {a['origin_id']}", lambda **a: {'kind': 'face', 'face': list(a['face']), 'o': a['origin_id']})
def check_face_roundtrip(drv, face, origin_id, fails, st):
    dod, to_cart, to_sph, origins, _ = lib(drv)
    try:
        s = dod.inverse(face, origin_id)
        f2 = dod.forward(s, origin_id)
    except Exception as e:  # noqa
        fails.append(Failure(f'projection raises {type(e).__name__} at face point {face} on face {origin_id}', {'kind': 'face', 'face': list(face), 'o': origin_id})); return
    d = math.hypot(f2[0] - face[0], f2[1] - face[1])
    st['max_face_rt'] = max(st.get('max_face_rt', 0), d)
    if not d <= 1e-11:
        fails.append(Failure(f'inverse then forward on face {origin_id} moves the face point {face} by {d:.3e} (> 1e-11)', {'kind': 'face', 'face': list(face), 'o': origin_id}))

def planar_area(poly):
    a = 0.0
    for i in range(len(poly)):
        x1, y1 = poly[i]; x2, y2 = poly[(i + 1) % len(poly)]
        a += x1 * y2 - x2 * y1
    return a / 2

def densify(poly, n):
    out = []
    for i in range(len(poly)):
        a, b = poly[i], poly[(i + 1) % len(poly)]
        for j in range(n):
            t = j / n
            out.append((a[0] + t * (b[0] - a[0]), a[1] + t * (b[1] - a[1])))
    return out

FACE_PENTAGON_AREA = None
def area_constant(drv):
    global FACE_PENTAGON_AREA
    if FACE_PENTAGON_AREA is None:
        from a5.core.constants import distance_to_edge
        FACE_PENTAGON_AREA = 5 * distance_to_edge ** 2 * math.tan(math.pi / 5)
    return (4 * math.pi / 12) / FACE_PENTAGON_AREA

@common.guarded(lambda **a: f"area of a face polygon on face {a['origin_id']}", lambda **a: {'kind': 'area', 'poly': [list(p) for p in a['poly']], 'o': a['origin_id']})
def check_area_preservation(drv, poly, origin_id, fails, st, seg=512):
    dod, to_cart, to_sph, origins, _ = lib(drv)
    pa = planar_area(poly)
    if abs(pa) < 1e-12:
        return
    try:
        # image edges have kinks where they cross triangle seams, so no extrapolation: resolve the edges finely instead
        sa = G.ring_area([to_cart(dod.inverse(p, origin_id)) for p in densify(poly, seg)])
    except Exception as e:  # noqa
        fails.append(Failure(f'inverse projection raises {type(e).__name__} on a polygon of face {origin_id}', {'kind': 'area', 'poly': [list(p) for p in poly], 'o': origin_id})); return
    ratio = sa / pa
    k = area_constant(drv)
    rel = abs(abs(ratio) - k) / k
    st['max_area_ratio_err'] = max(st.get('max_area_ratio_err', 0), rel)
    if not rel <= 1e-6 + 1e-13 / abs(pa):
        fails.append(Failure(f'face {origin_id}: planar polygon of area {pa:.3e} maps to spherical area {sa:.6e}; ratio {ratio:.9f} differs from the global constant {k:.9f} by {rel:.2e}', {'kind': 'area', 'poly': [list(p) for p in poly], 'o': origin_id}))

def second_nearest_face(drv, sph):
    dod, to_cart, to_sph, origins, nearest = lib(drv)
    v = to_cart(sph)
    ds = sorted((G.angle(v, to_cart(o.axis)), o.id) for o in origins)
    return ds[0][1], ds[1][1], ds[1][0] - ds[0][0], ds[2][0] - ds[1][0]

def _in_face_domain(x, y, de, shrink=0.95):
    """inside the face pentagon extended by the five mirror triangles beyond its edges (with a safety margin)"""
    rr = math.hypot(x, y)
    th = math.atan2(y, x) % (2 * math.pi / 5)
    th = min(th, 2 * math.pi / 5 - th)
    along = rr * math.cos(th)
    across = rr * math.sin(th)
    half_edge = de * math.tan(math.pi / 5)
    if along <= de:
        return True
    return across <= half_edge * (2 * de - along) / de * shrink

def _polygon_in_domain(poly, de):
    """the domain (pentagon plus the mirror triangles beyond its edges) is a star with a notch at every pentagon vertex, hence NOT convex:
    every point of the polygon's boundary must be inside, not only its vertices (false alarm seen once in C14 thorough: an edge of a large
    quad left the domain through the notch between two mirror triangles)"""
    n = len(poly)
    for i in range(n):
        a, b = poly[i], poly[(i + 1) % n]
        for k in range(41):
            t = k / 40.0
            if not _in_face_domain(a[0] + t * (b[0] - a[0]), a[1] + t * (b[1] - a[1]), de):
                return False
    return True

def special_face_polygon(rng, drv):
    """small triangle/quad (1e-5.5 .. 1e-1.3 face widths) with a vertex at, or within a small fraction of its size of, a special point of the
    face plane: the face centre (10 triangles meet), a pentagon vertex, an edge midpoint, or a point of a triangle seam"""
    from a5.core.constants import distance_to_edge as de
    size = 10 ** rng.uniform(-5.5, -1.3) * de
    k = rng.choice([3, 4])
    for _ in range(50):
        kind = rng.choice(['centre', 'centre', 'vertex', 'edgemid', 'seam'])
        if kind == 'centre':
            sp = (0.0, 0.0)
        elif kind == 'vertex':
            a = (2 * rng.randrange(5) + 1) * math.pi / 5
            sp = (de / math.cos(math.pi / 5) * math.cos(a), de / math.cos(math.pi / 5) * math.sin(a))
        elif kind == 'edgemid':
            a = rng.randrange(5) * 2 * math.pi / 5
            sp = (de * math.cos(a), de * math.sin(a))
        else:
            a = rng.randrange(10) * math.pi / 5
            r = rng.uniform(0.02, 0.9) * de
            sp = (r * math.cos(a), r * math.sin(a))
        u = rng.uniform(0, 2 * math.pi)
        eta = rng.choice([0.0, 1e-3, 1e-2, 0.1, 0.3, -0.05])
        cx, cy = sp[0] + size * (1 - eta) * math.cos(u), sp[1] + size * (1 - eta) * math.sin(u)
        poly = [(cx + size * math.cos(u + math.pi + 2 * math.pi * i / k), cy + size * math.sin(u + math.pi + 2 * math.pi * i / k)) for i in range(k)]
        if _polygon_in_domain(poly, de):
            return poly
    return None

def random_face_polygon(rng, drv):
    """triangle or quad inside the face pentagon or straddling an edge into the mirror triangle beyond it; sizes 1e-4..0.5 face widths"""
    from a5.core.constants import distance_to_edge
    size = 10 ** rng.uniform(-4, -0.3) * distance_to_edge
    k = rng.choice([3, 4])
    for _ in range(50):
        ang = rng.uniform(0, 2 * math.pi)
        rad = rng.uniform(0, 0.95) * distance_to_edge
        if rng.random() < 0.3:
            # straddle an edge: centre the polygon on the edge itself
            e = rng.randrange(5) * 2 * math.pi / 5
            t = rng.uniform(-0.5, 0.5) * distance_to_edge * math.tan(math.pi / 5)
            cx = distance_to_edge * math.cos(e) - t * math.sin(e)
            cy = distance_to_edge * math.sin(e) + t * math.cos(e)
            size = min(size, 0.25 * distance_to_edge)
        else:
            cx, cy = rad * math.cos(ang), rad * math.sin(ang)
        a0 = rng.uniform(0, 2 * math.pi)
        poly = [(cx + size * math.cos(a0 + 2 * math.pi * i / k), cy + size * math.sin(a0 + 2 * math.pi * i / k)) for i in range(k)]
        # keep inside the pentagon extended by its mirror triangles: apothem-direction coordinate below ~1.15 apothems near edge centres
        ok = True
        for (x, y) in poly:
            rr = math.hypot(x, y)
            th = math.atan2(y, x) % (2 * math.pi / 5)
            th = min(th, 2 * math.pi / 5 - th)          # angle from the nearest edge normal (edge normals at multiples of 72 degrees)
            along = rr * math.cos(th)                    # distance along the edge normal
            across = rr * math.sin(th)
            half_edge = distance_to_edge * math.tan(math.pi / 5)
            if along <= distance_to_edge:
                continue
            # beyond the edge: inside the mirror triangle (apex at 2*apothem on the normal)
            if across > half_edge * (2 * distance_to_edge - along) / distance_to_edge * 0.95:
                ok = False
        if ok and _polygon_in_domain(poly, distance_to_edge):
            return poly
    return None
