"""Source-drift sentinel: which functions of /repo's a5 package differ from the tree the model was written against.

Not a verdict and not a tie: it only decides how much *search effort* a check spends.  When a function in the property's
cone (the anchor files of the property plus everything they import inside the package) has changed, the quick tier repeats
its correspondence and failing-input search with fresh seeds until a time budget is used up, so that a change whose trigger
is rare is looked for harder than on the unchanged tree (where the sentinel costs a few milliseconds).
"""
import ast, hashlib, json, os

VERIF = os.path.dirname(os.path.dirname(os.path.abspath(__file__)))
REPO = os.environ.get('A5_REPO', '/repo')
REF = os.path.join(VERIF, 'source_fingerprints.json')

def _strip_doc(node):
    for n in ast.walk(node):
        if isinstance(n, (ast.FunctionDef, ast.AsyncFunctionDef, ast.ClassDef, ast.Module)) and n.body \
                and isinstance(n.body[0], ast.Expr) and isinstance(getattr(n.body[0], 'value', None), ast.Constant) \
                and isinstance(n.body[0].value.value, str):
            n.body = n.body[1:] or [ast.Pass()]
    return node

def _h(node):
    return hashlib.sha1(ast.dump(node, annotate_fields=True, include_attributes=False).encode()).hexdigest()[:16]

def fingerprints(repo=None):
    repo = repo or REPO
    out = {}
    root = os.path.join(repo, 'a5')
    for dp, _, fns in sorted(os.walk(root)):
        for fn in sorted(fns):
            if not fn.endswith('.py'):
                continue
            path = os.path.join(dp, fn)
            rel = os.path.relpath(path, repo)
            try:
                tree = _strip_doc(ast.parse(open(path).read()))
            except SyntaxError:
                out[rel + '::<syntax error>'] = 'x'
                continue
            top = []
            def visit(body, prefix):
                for n in body:
                    if isinstance(n, (ast.FunctionDef, ast.AsyncFunctionDef)):
                        out[f'{rel}::{prefix}{n.name}'] = _h(n)
                    elif isinstance(n, ast.ClassDef):
                        visit(n.body, prefix + n.name + '.')
                        rest = [x for x in n.body if not isinstance(x, (ast.FunctionDef, ast.AsyncFunctionDef))]
                        out[f'{rel}::{prefix}{n.name}.<class body>'] = _h(ast.Module(body=rest, type_ignores=[]))
                    elif prefix == '':
                        top.append(n)
            visit(tree.body, '')
            out[f'{rel}::<module level>'] = _h(ast.Module(body=top, type_ignores=[]))
    return out

def import_graph(repo=None):
    """{package-relative file: set of package-relative files it imports}"""
    repo = repo or REPO
    g = {}
    root = os.path.join(repo, 'a5')
    files = []
    for dp, _, fns in os.walk(root):
        for fn in fns:
            if fn.endswith('.py'):
                files.append(os.path.relpath(os.path.join(dp, fn), repo))
    mods = {f[:-3].replace(os.sep, '.'): f for f in files}
    for f in files:
        deps = set()
        try:
            tree = ast.parse(open(os.path.join(repo, f)).read())
        except SyntaxError:
            g[f] = deps; continue
        pkg = f[:-3].replace(os.sep, '.').split('.')[:-1]
        for n in ast.walk(tree):
            if isinstance(n, ast.ImportFrom):
                base = pkg[:len(pkg) - (n.level - 1)] if n.level else []
                name = '.'.join(base + (n.module.split('.') if n.module else []))
                for cand in [name] + [name + '.' + a.name for a in n.names]:
                    if cand in mods:
                        deps.add(mods[cand])
                    if cand + '.__init__' in mods:
                        deps.add(mods[cand + '.__init__'])
            elif isinstance(n, ast.Import):
                for a in n.names:
                    if a.name in mods:
                        deps.add(mods[a.name])
        g[f] = deps
    return g

def cone_files(pid, repo=None):
    if pid in ('C16', 'C17'):
        # "every public function": the whole package
        return set(import_graph(repo).keys())
    anchors = []
    for l in open(os.path.join(VERIF, 'properties.jsonl')):
        d = json.loads(l)
        if d['id'] == pid:
            anchors = [f for f in d['anchors'].get('files', []) if f.startswith('a5/')]
    g = import_graph(repo)
    seen, todo = set(), list(anchors) + ['a5/__init__.py']
    while todo:
        f = todo.pop()
        if f in seen:
            continue
        seen.add(f)
        todo += list(g.get(f, ()))
    # a5/__init__.py re-exports everything; only its own text counts, not what it imports
    out = set(anchors)
    todo = list(anchors)
    while todo:
        f = todo.pop()
        for d in g.get(f, ()):
            if d not in out:
                out.add(d); todo.append(d)
    out.add('a5/__init__.py')
    return out

def changed(repo=None):
    """keys (file::function) whose fingerprint differs from the committed reference, new or missing ones included"""
    try:
        ref = json.load(open(REF))
    except OSError:
        return []
    cur = fingerprints(repo)
    return sorted(k for k in set(ref) | set(cur) if ref.get(k) != cur.get(k))

def changed_in_cone(pid, repo=None):
    ch = changed(repo)
    if not ch:
        return []
    cone = cone_files(pid, repo)
    return [k for k in ch if k.split('::')[0] in cone]

if __name__ == '__main__':
    import sys
    if len(sys.argv) > 1 and sys.argv[1] == '--write':
        json.dump(fingerprints(), open(REF, 'w'), indent=0, sort_keys=True)
        print('written', REF)
    else:
        print(changed())
