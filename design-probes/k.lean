def area : Float := 4 * Float.ofBits 0x400921FB54442D18 * 6371007.2 * 6371007.2
def numCells (r : Nat) : Nat := if r = 0 then 12 else 60 * 4 ^ (r - 1)
def cellArea (r : Nat) : Float := area / (numCells r).toFloat
#eval area.toBits
#eval (cellArea 29).toBits
theorem t1 : (1.5 : Float) + 2.5 == 4.0 := by decide +kernel
theorem t2 : ∀ r : Fin 30, (cellArea (r.val+1) < cellArea r.val) = true := by decide +kernel
#print axioms t2
theorem t3 : ((2.0:Float).sqrt == 1.4142135623730951) = true := by decide +kernel
