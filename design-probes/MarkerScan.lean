/-! Prototype: model of a5/core/serialization.py get_resolution / serialize / deserialize -/
namespace A5

inductive Err | value | index deriving Repr, DecidableEq

/-- `while resolution > -1 and (shifted & 1) == 0` loop of get_resolution. `res1 = resolution + 1 : Nat`. -/
def getResLoop : Nat → Nat → Nat → Nat
  | 0, res1, _ => res1
  | fuel+1, res1, sh =>
    if 0 < res1 ∧ sh &&& 1 = 0 then
      -- resolution -= 1 ; shifted >>= 1 if resolution < 2 else 2     (resolution = res1 - 2 after decrement)
      getResLoop fuel (res1 - 1) (sh >>> (if res1 - 1 < 3 then 1 else 2))
    else res1

/-- get_resolution + 1 (so that −1 ↦ 0). -/
def getRes1 (index : Nat) : Nat := getResLoop 31 30 (index >>> 1)

def getResolution (index : Nat) : Int := (getRes1 index : Int) - 1

/-- bit position tested when the loop variable `resolution` is `r` (r given as r+1). -/
def pos (res1 : Nat) : Nat := if res1 ≥ 3 then 61 - 2 * res1 else 58 - res1
-- res1 = 30 (r=29): 1 ; res1 = 3 (r=2): 55 ; res1 = 2 (r=1): 56 ; res1 = 1 (r=0): 57 ; res1 = 0: 58

end A5
open A5
#eval (List.range 31).map pos
#eval getRes1 2
#eval getRes1 (2^57)
#eval getRes1 0

theorem bit_zero_of_lt (m q k : Nat) (h : k < m) : ((2^m * (2*q+1)) >>> k) &&& 1 = 0 := by
  rw [Nat.and_one_is_mod, Nat.shiftRight_eq_div_pow]
  obtain ⟨d, rfl⟩ : ∃ d, m = k + (d+1) := ⟨m - k - 1, by omega⟩
  rw [Nat.pow_add, Nat.mul_assoc, Nat.mul_div_cancel_left _ (Nat.two_pow_pos k), Nat.pow_succ]
  rw [Nat.mul_assoc, Nat.mul_comm, Nat.mul_assoc]; omega

theorem bit_one_at (m q : Nat) : ((2^m * (2*q+1)) >>> m) &&& 1 = 1 := by
  rw [Nat.and_one_is_mod, Nat.shiftRight_eq_div_pow, Nat.mul_div_cancel_left _ (Nat.two_pow_pos m)]; omega

/-- Main loop lemma: starting at loop value `res1` with `sh = idx >>> pos res1`, if idx = 2^(pos r1) * odd with r1 ≤ res1,
    the loop returns r1. -/
theorem loop_finds (idx q r1 : Nat) (hr1 : 1 ≤ r1) (hidx : idx = 2^(pos r1) * (2*q+1)) :
    ∀ (d fuel : Nat), fuel ≥ d + 1 → r1 + d ≤ 30 →
      getResLoop fuel (r1 + d) (idx >>> pos (r1 + d)) = r1 := by
  intro d
  induction d with
  | zero =>
    intro fuel hf _
    obtain ⟨f, rfl⟩ : ∃ f, fuel = f + 1 := ⟨fuel - 1, by omega⟩
    simp only [Nat.add_zero, getResLoop]
    rw [hidx, bit_one_at]; simp
  | succ d ih =>
    intro fuel hf hle
    obtain ⟨f, rfl⟩ : ∃ f, fuel = f + 1 := ⟨fuel - 1, by omega⟩
    simp only [getResLoop]
    have hlt : pos (r1 + (d+1)) < pos r1 := by unfold pos; split <;> split <;> omega
    rw [if_pos ⟨by omega, by rw [hidx]; exact bit_zero_of_lt _ _ _ hlt⟩]
    have hstep : (idx >>> pos (r1 + (d+1))) >>> (if r1 + (d+1) - 1 < 3 then 1 else 2) = idx >>> pos (r1 + d) := by
      rw [← Nat.shiftRight_add]; congr 1; unfold pos; split <;> split <;> split <;> omega
    rw [hstep, show r1 + (d+1) - 1 = r1 + d by omega]
    exact ih f (by omega) (by omega)

theorem getRes1_of_marker (q r1 : Nat) (h1 : 1 ≤ r1) (h2 : r1 ≤ 30) : getRes1 (2^(pos r1) * (2*q+1)) = r1 := by
  unfold getRes1
  have := loop_finds _ q r1 h1 rfl (30 - r1) 31 (by omega) (by omega)
  rw [show r1 + (30 - r1) = 30 by omega] at this
  rw [show pos 30 = 1 by decide] at this
  exact this
#print axioms getRes1_of_marker
