partial def loop (h : IO.FS.Stream) (out : IO.FS.Stream) : IO Unit := do
  let line ← h.getLine
  if line.isEmpty then return ()
  match (line.trimAscii.toString.splitOn " ").map String.toNat! with
  | [xb, yb] =>
    let x := Float.ofBits xb.toUInt64; let y := Float.ofBits yb.toUInt64
    out.putStrLn s!"{x.sin.toBits} {x.cos.toBits} {x.tan.toBits} {x.atan.toBits} {(Float.atan2 x y).toBits} {y.acos.toBits} {y.asin.toBits} {x.abs.sqrt.toBits}"
  | _ => out.putStrLn "bad"
  loop h out
def main : IO Unit := do loop (← IO.getStdin) (← IO.getStdout)
