import a5, random, math, sys
import a5.core.cell as cellmod
from a5.core.cell import _lonlat_to_estimate, a5cell_contains_point, serialize, FIRST_HILBERT_RESOLUTION, WORLD_CELL
from oracle import *
def lonlat_to_cell_fixed(lon_lat, resolution):
    if resolution == -1: return WORLD_CELL
    if resolution < FIRST_HILBERT_RESOLUTION:
        return serialize(_lonlat_to_estimate(lon_lat, resolution))
    hilbert_resolution = 1 + resolution - FIRST_HILBERT_RESOLUTION
    samples=[lon_lat]; N=25; scale=50/(2**hilbert_resolution)
    k = 1/max(math.cos(math.radians(lon_lat[1])), 1e-9)
    for i in range(N):
        R=(i/N)*scale
        samples.append((math.cos(i)*R*k+lon_lat[0], math.sin(i)*R+lon_lat[1]))
    seen=set(); cells=[]
    for s in samples:
        e=_lonlat_to_estimate(s,resolution); key=serialize(e)
        if key not in seen:
            seen.add(key)
            d=a5cell_contains_point(e,lon_lat)
            if d>0: return key
            cells.append((d,key))
    cells.sort(reverse=True); return cells[0][1]
random.seed(int(sys.argv[1]))
fn = lonlat_to_cell_fixed if sys.argv[2]=='fix' else a5.lonlat_to_cell
for band in [(0,60),(60,80),(80,89),(89,89.999),(89.999,90)]:
    n=0;bad=0;ex=[]
    for _ in range(3000):
        lat=random.uniform(*band)*random.choice([-1,1]); lon=random.uniform(-180,180); r=random.randint(2,29)
        p=(lon,lat)
        c=fn(p,r)
        ring=a5.cell_to_boundary(c,{'segments':8,'closed_ring':False})
        w,d=contains(p,ring); size=math.sqrt(4*math.pi/a5.get_num_cells(r))
        n+=1
        if w!=1 and (d is None or d/size>1e-6):
            bad+=1
            if len(ex)<3: ex.append((p,r,hex(c),w,d/size if d else d))
    print(band,n,bad,ex)
