import math, struct, random
random.seed(7)
def b(x): return struct.unpack('<Q', struct.pack('<d', x))[0]
with open('par_in.txt','w') as f, open('par_py.txt','w') as g:
    for _ in range(100000):
        x=random.uniform(-10,10)*10**random.randint(-8,2); y=random.uniform(-1,1)
        f.write(f"{b(x)} {b(y)}\n")
        g.write(f"{b(math.sin(x))} {b(math.cos(x))} {b(math.tan(x))} {b(math.atan(x))} {b(math.atan2(x,y))} {b(math.acos(y))} {b(math.asin(y))} {b(math.sqrt(abs(x)))}\n")
