import math, random
from a5.projections.authalic import AuthalicProjection
from oracle import authalic
A=AuthalicProjection()
mx=0; mxi=0; worst=None; mono_bad=0
prev=None
N=200001
for k in range(N):
    phi=-math.pi/2 + math.pi*k/(N-1)
    f=A.forward(phi); e=authalic(phi)
    d=abs(f-e)
    if d>mx: mx=d; worst=phi
    g=A.inverse(f); mxi=max(mxi,abs(g-phi))
    if prev is not None and not f>prev: mono_bad+=1
    prev=f
print('max |series-exact|',mx,'at',worst,'max |inv(fwd)-id|',mxi,'mono_bad',mono_bad)
print(A.forward(0.0), A.forward(math.pi/2)-math.pi/2, A.forward(-math.pi/2)+math.pi/2, A.forward(0.3)+A.forward(-0.3))
