/-! Prototype for C08: one pass of compact preserves coverage, for any hierarchy in which
    "first child + stride run = all children of the parent" is sound.  Core Lean only. -/
namespace Cmp

structure Hier where
  expected : Nat → Nat
  stride   : Nat → Nat
  isFirst  : Nat → Bool
  mergeable : Nat → Bool            -- resolution ≥ 0
  parent   : Nat → Nat
  covers   : Nat → Nat → Prop
  expected_pos : ∀ c, 1 ≤ expected c
  sound : ∀ c, mergeable c = true → isFirst c = true →
      ∀ l, covers (parent c) l ↔ ∃ j, j < expected c ∧ covers (c + j * stride c) l

variable (H : Hier)

/-- the siblings expected after a first child `c` -/
def sibs (c : Nat) : List Nat := (List.range (H.expected c - 1)).map (fun j => c + (j + 1) * H.stride c)

/-- `has_all_siblings` of compact.py: enough cells left, first child, the following cells are c + j*stride -/
def hasAll (c : Nat) (rest : List Nat) : Bool :=
  H.mergeable c && H.isFirst c && (rest.take (H.expected c - 1) == sibs H c)

def scan : List Nat → List Nat
  | [] => []
  | c :: rest =>
    if hasAll H c rest then H.parent c :: scan (rest.drop (H.expected c - 1))
    else c :: scan rest
termination_by l => l.length
decreasing_by all_goals (simp only [List.length_cons, List.length_drop]; omega)

def coveredBy (L : List Nat) (l : Nat) : Prop := ∃ c, c ∈ L ∧ H.covers c l

theorem coveredBy_cons (c : Nat) (L : List Nat) (l : Nat) :
    coveredBy H (c :: L) l ↔ H.covers c l ∨ coveredBy H L l := by
  simp [coveredBy]

theorem coveredBy_append (A B : List Nat) (l : Nat) :
    coveredBy H (A ++ B) l ↔ coveredBy H A l ∨ coveredBy H B l := by
  simp only [coveredBy, List.mem_append]
  constructor
  · rintro ⟨c, hc | hc, h⟩
    · exact Or.inl ⟨c, hc, h⟩
    · exact Or.inr ⟨c, hc, h⟩
  · rintro (⟨c, hc, h⟩ | ⟨c, hc, h⟩)
    · exact ⟨c, Or.inl hc, h⟩
    · exact ⟨c, Or.inr hc, h⟩

theorem covered_sibs (c l : Nat) :
    (H.covers c l ∨ coveredBy H (sibs H c) l) ↔ ∃ j, j < H.expected c ∧ H.covers (c + j * H.stride c) l := by
  have hpos := H.expected_pos c
  constructor
  · rintro (h | ⟨x, hx, h⟩)
    · exact ⟨0, by omega, by simpa using h⟩
    · simp only [sibs, List.mem_map, List.mem_range] at hx
      obtain ⟨j, hj, rfl⟩ := hx
      exact ⟨j + 1, by omega, h⟩
  · rintro ⟨j, hj, h⟩
    cases j with
    | zero => exact Or.inl (by simpa using h)
    | succ j =>
      refine Or.inr ⟨_, ?_, h⟩
      simp only [sibs, List.mem_map, List.mem_range]
      exact ⟨j, by omega, rfl⟩

theorem scan_covers (l : Nat) : ∀ L : List Nat, coveredBy H (scan H L) l ↔ coveredBy H L l := by
  intro L
  induction L using scan.induct H with
  | case1 => simp [scan]
  | case2 c rest hall ih =>
    rw [scan, if_pos hall, coveredBy_cons, ih]
    simp only [hasAll, Bool.and_eq_true, beq_iff_eq] at hall
    obtain ⟨⟨hm, hf⟩, htake⟩ := hall
    rw [H.sound c hm hf l, ← covered_sibs, ← htake]
    conv => rhs; rw [← List.take_append_drop (H.expected c - 1) rest]
    rw [coveredBy_cons, coveredBy_append]
    constructor
    · rintro ((h | h) | h)
      · exact Or.inl h
      · exact Or.inr (Or.inl h)
      · exact Or.inr (Or.inr h)
    · rintro (h | h | h)
      · exact Or.inl (Or.inl h)
      · exact Or.inl (Or.inr h)
      · exact Or.inr h
  | case3 c rest hall ih =>
    rw [scan, if_neg hall, coveredBy_cons, coveredBy_cons, ih]

#print axioms scan_covers
end Cmp
