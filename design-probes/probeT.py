from a5.core import hilbert as H
from a5.core.hilbert import *
ok=0;bad=0
for invert_j in (False,True):
  for (pat,rev) in ((PATTERN,PATTERN_REVERSED),(PATTERN_FLIPPED,PATTERN_FLIPPED_REVERSED)):
    for fx in (1,-1):
      for fy in (1,-1):
        for p in range(4):
          for c in range(4):
            d=[c,p]; H._shift_digits(d,1,[fx,fy],invert_j,pat)
            e=list(d); H._shift_digits(e,1,[fx,fy],invert_j,rev)
            if e==[c,p]: ok+=1
            else: bad+=1; print('BAD',invert_j,pat,fx,fy,p,c,d,e)
print(ok,bad)
