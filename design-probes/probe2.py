import a5, itertools, random
from a5.core.serialization import serialize, deserialize, get_resolution, cell_to_children, cell_to_parent, MAX_RESOLUTION, is_first_child, get_stride
from a5.core.compact import compact, uncompact
res0 = a5.get_res0_cells()
# C09 example: five segments of face 0 together with the other eleven faces
X = cell_to_children(res0[0],1) + res0[1:]
out = compact(X)
print('C09 ex:', [hex(c) for c in out], len(out))
# C08: coverage
def cover(cells, R):
    s=set()
    for c in cells: s.update(cell_to_children(c,R))
    return s
R=2
print('coverage equal:', cover(out,R)==cover(X,R))
# Random tests for C08
random.seed(1)
allc = {r: cell_to_children(0,r) for r in range(0,4)}
bad8=0; bad9=0; n=0
def ref_compact(cells):
    # set-based reference for antichains
    s=set(cells); changed=True
    while changed:
        changed=False
        byp={}
        for c in s:
            r=get_resolution(c)
            if r<0: continue
            byp.setdefault(cell_to_parent(c),[]).append(c)
        for p,ch in byp.items():
            r=get_resolution(p)
            need = 12 if r==-1 else (5 if r==0 else 4)
            if len(ch)==need:
                s-=set(ch); s.add(p); changed=True
    return s
ex8=None; ex9=None
for t in range(20000):
    k=random.randint(1,30)
    X=[]
    for _ in range(k):
        r=random.choice([0,0,1,1,1,2,2,3])
        X.append(random.choice(allc[r]))
    # add full sibling groups often
    if random.random()<0.7:
        p=random.choice(allc[random.choice([0,1,2])]); X+=cell_to_children(p)
    if random.random()<0.3:
        X+=allc[0][:random.randint(1,12)]
    random.shuffle(X)
    o=compact(X)
    if cover(o,3)!=cover(X,3):
        bad8+=1
        if ex8 is None or len(X)<len(ex8): ex8=X
    # antichain?
    S=set(X)
    anti = all(not any(cell_to_parent(c,rr) in S for rr in range(-1,get_resolution(c))) for c in S)
    if anti:
        n+=1
        if set(o)!=ref_compact(S) or len(o)!=len(set(o)):
            bad9+=1
            if ex9 is None or len(X)<len(ex9): ex9=X
print('bad8',bad8,'bad9',bad9,'antichains',n)
print('ex8',[hex(c) for c in (ex8 or [])])
print('ex9',[hex(c) for c in (ex9 or [])])
