/-! Prototype of C18's combinatorial half: the digit-shifting transducer of a5/core/hilbert.py is invertible
    on every digit string (unbounded length).  Core Lean only. -/
namespace H

abbrev Flips := Bool × Bool
def qflips (d : Nat) : Flips := if d = 1 then (false, true) else if d = 3 then (true, false) else (false, false)
def fmul (a b : Flips) : Flips := (xor a.1 b.1, xor a.2 b.2)

def PATTERN : List Nat := [0, 1, 3, 4, 5, 6, 7, 2]
def PATTERN_FLIPPED : List Nat := [0, 1, 2, 7, 3, 4, 5, 6]
def reversePattern (p : List Nat) : List Nat := (List.range 8).map (fun i => p.idxOf i)

/-- one call of `_shift_digits(digits, i, flips, invert_j, pattern)` on (digits[i], digits[i-1]) -/
def shiftStep (pat : List Nat) (invertJ : Bool) (fl : Flips) (parent child : Nat) : Nat × Nat :=
  let f0 := fl.1 != fl.2                       -- F == 0  ⇔ exactly one flip
  let needs := if invertJ != f0 then (parent == 1 || parent == 2) else decide (parent < 2)
  let first := if invertJ != f0 then parent == 1 else parent == 0
  if !needs then (parent, child) else
    let src := if first then child else child + 4
    let dst := pat.getD src 0
    ((parent + 4 + dst / 4 - src / 4) % 4, dst % 4)

theorem step_inv : ∀ (flipIJ invertJ fx fy : Bool) (p c : Fin 4),
    let pat := if flipIJ then PATTERN_FLIPPED else PATTERN
    let r := shiftStep pat invertJ (fx, fy) p.val c.val
    shiftStep (reversePattern pat) invertJ (fx, fy) r.1 r.2 = (p.val, c.val) ∧ r.1 < 4 ∧ r.2 < 4 := by
  decide

/-- forward pass, most significant digit first: `P` is the pending (already child-shifted) parent digit -/
def fwd (pat : List Nat) (inv : Bool) : Nat → Flips → List Nat → List Nat
  | P, _, [] => [P]
  | P, f, c :: cs =>
    let r := shiftStep pat inv f P c
    r.1 :: fwd pat inv r.2 (fmul f (qflips r.1)) cs

/-- inverse pass: flips threaded downwards, digits recovered on the way back up
    (the Python loop runs bottom-up with the flip product cancelling; same function) -/
def bwd (rpat : List Nat) (inv : Bool) : Flips → List Nat → Nat × List Nat
  | _, [] => (0, [])
  | _, [x] => (x, [])
  | f, d :: d2 :: ds =>
    let below := bwd rpat inv (fmul f (qflips d)) (d2 :: ds)
    let r := shiftStep rpat inv f d below.1
    (r.1, r.2 :: below.2)

theorem bwd_fwd (flipIJ inv : Bool) :
    let pat := if flipIJ then PATTERN_FLIPPED else PATTERN
    ∀ (cs : List Nat) (P : Nat) (f : Flips), P < 4 → (∀ c ∈ cs, c < 4) →
      bwd (reversePattern pat) inv f (fwd pat inv P f cs) = (P, cs) := by
  intro pat cs
  induction cs with
  | nil => intro P f _ _; simp [fwd, bwd]
  | cons c cs ih =>
    intro P f hP hcs
    have hc : c < 4 := hcs c (by simp)
    have hstep := step_inv flipIJ inv f.1 f.2 ⟨P, hP⟩ ⟨c, hc⟩
    simp only [] at hstep
    obtain ⟨h1, h2, h3⟩ := hstep
    have ih' := ih (shiftStep pat inv f P c).2 (fmul f (qflips (shiftStep pat inv f P c).1)) h3
      (fun x hx => hcs x (by simp [hx]))
    -- unfold one layer
    cases hcs' : fwd pat inv (shiftStep pat inv f P c).2 (fmul f (qflips (shiftStep pat inv f P c).1)) cs with
    | nil => cases cs <;> simp [fwd] at hcs'
    | cons y ys =>
      simp only [fwd, hcs', bwd]
      rw [hcs'] at ih'
      rw [ih']
      have h1' : shiftStep (reversePattern pat) inv f (shiftStep pat inv f P c).1 (shiftStep pat inv f P c).2 = (P, c) := h1
      rw [h1']
#print axioms bwd_fwd
end H
