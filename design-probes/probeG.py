from a5.core.hilbert import *
from a5.core.tiling import get_pentagon_vertices
from a5.core.coordinate_transforms import face_to_ij
d={}
for o in ['uv','vu','uw','wu','vw','wv']:
    for h in range(1,7):
        for s in range(4**h):
            a=s_to_anchor(s,h,o); p=get_pentagon_vertices(h,0,a); c=p.get_center()
            ij=face_to_ij((c[0]*2**h,c[1]*2**h))
            key=(a.flips,a.k)
            v=(round(ij[0]-a.offset[0],9),round(ij[1]-a.offset[1],9))
            d.setdefault(key,set()).add(v)
for k in sorted(d): print(k, sorted(d[k]))
