import a5, random, math, sys
from oracle import *
random.seed(int(sys.argv[1]) if len(sys.argv)>1 else 0)
def check(p,r,seg=8):
    c=a5.lonlat_to_cell(p,r)
    ring=a5.cell_to_boundary(c,{'segments':seg,'closed_ring':False})
    w,d=contains(p,ring)
    size=math.sqrt(4*math.pi/a5.get_num_cells(r))
    return c,w,(d/size if d is not None else None)
stats={}
for band in [(0,60),(60,80),(80,89),(89,89.999)]:
    n=0;bad=0;ex=[]
    for _ in range(3000):
        lat=random.uniform(*band)*random.choice([-1,1]); lon=random.uniform(-180,180); r=random.randint(2,29)
        c,w,d=check((lon,lat),r)
        n+=1
        if w!=1 and (d is None or d>1e-6):
            bad+=1
            if len(ex)<3: ex.append(((lon,lat),r,hex(c),w,d))
    print(band,n,bad,ex)
