from fractions import Fraction as Fr
import random
from a5.core.hilbert import quaternary_to_kj, quaternary_to_flips, ij_to_quaternary, kj_to_ij, NO, YES
random.seed(11)
def tri_ok(f,u,v):
    if f==(NO,NO): return u>0 and v>0 and u+v<1
    if f==(NO,YES): return u<0 and v<1 and u+v>0
    if f==(YES,NO): return u>0 and v>-1 and u+v<0
    if f==(YES,YES): return u<0 and v<0 and u+v>-1
def rand_in_tri(f):
    while True:
        u=Fr(random.randint(-999,999),1000); v=Fr(random.randint(-999,999),1000)
        if tri_ok(f,u,v): return u,v
def G(D):  # D msb first
    off=[Fr(0),Fr(0)]; f=[NO,NO]
    for d in D:
        kj=quaternary_to_kj(d,tuple(f)); off=[off[0]*2+Fr(kj[0]).limit_denominator(), off[1]*2+Fr(kj[1]).limit_denominator()]
        nf=quaternary_to_flips(d); f[0]*=nf[0]; f[1]*=nf[1]
    return kj_to_ij(tuple(off)), tuple(f)
def decode(P,n):
    f=[NO,NO]; piv=[Fr(0),Fr(0)]; out=[]
    for i in range(n-1,-1,-1):
        rel=((P[0]-piv[0])/2**i,(P[1]-piv[1])/2**i)
        d=ij_to_quaternary(rel,tuple(f)); out.append(d)
        c=kj_to_ij(quaternary_to_kj(d,tuple(f))); piv=[piv[0]+Fr(c[0]).limit_denominator()*2**i, piv[1]+Fr(c[1]).limit_denominator()*2**i]
        nf=quaternary_to_flips(d); f[0]*=nf[0]; f[1]*=nf[1]
    return out
bad=0
for _ in range(20000):
    n=random.randint(1,12); D=[random.randint(0,3) for _ in range(n)]
    off,f=G(D); u,v=rand_in_tri(f)
    if decode((off[0]+u,off[1]+v),n)!=D: bad+=1
print('G_decode violations',bad)
