import time
from a5.core.hilbert import s_to_anchor, ij_to_s
from a5.core.tiling import get_pentagon_vertices
from a5.core.coordinate_transforms import face_to_ij
t=time.time()
bad=0; n=0
for o in ['uv','vu','uw','wu','vw','wv']:
    for h in range(1,8):
        seen=set()
        for s in range(4**h):
            a=s_to_anchor(s,h,o)
            key=(a.offset, a.flips, a.k)
            # cell geometry
            p=get_pentagon_vertices(h,0,a)
            c=p.get_center()
            ij=face_to_ij((c[0]*2**h,c[1]*2**h))
            s2=ij_to_s(ij,h,o)
            n+=1
            if s2!=s:
                bad+=1
                if bad<10: print('BAD',o,h,s,s2)
            vk=tuple(sorted((round(x*2**h,9),round(y*2**h,9)) for x,y in p.get_vertices()))
            if vk in seen: print('DUP',o,h,s)
            seen.add(vk)
print(n,bad,time.time()-t)
