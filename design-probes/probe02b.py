import a5, random, math
random.seed(5)
bad=0;n=0; ex=[]
for _ in range(4000):
    r=random.randint(20,29)
    d=10**random.uniform(-9,-1)  # degrees from pole
    lat=(90-d)*random.choice([-1,1]); lon=random.uniform(-180,180)
    c=a5.lonlat_to_cell((lon,lat),r); ll=a5.cell_to_lonlat(c); c2=a5.lonlat_to_cell(ll,r)
    n+=1
    if c2!=c:
        bad+=1
        if len(ex)<4: ex.append(((lon,lat),r,hex(c),ll,hex(c2)))
print(n,bad,ex)
