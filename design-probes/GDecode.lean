import Mathlib.Tactic.Linarith
import Mathlib.Tactic.Ring
import Mathlib.Tactic.FieldSimp
import Mathlib.Algebra.Order.Field.Basic
import Mathlib.Data.Rat.Defs
import Mathlib.Algebra.Order.Ring.Rat

/-! Prototype of C18's geometric half: decode ∘ G = id for every digit string, exact arithmetic (ℚ). -/
namespace H

abbrev Flips := Bool × Bool          -- true = YES (−1)
inductive Q4 | q0 | q1 | q2 | q3 deriving DecidableEq, Repr
open Q4

def qflips : Q4 → Flips
  | q0 => (false, false) | q1 => (false, true) | q2 => (false, false) | q3 => (true, false)

def fmul (a b : Flips) : Flips := (xor a.1 b.1, xor a.2 b.2)

/-- kj_to_ij (quaternary_to_kj d f) -/
def child (d : Q4) (f : Flips) : ℚ × ℚ :=
  match f, d with
  | _, q0 => (0, 0)
  | (false, false), q1 => (1, 0)  | (false, false), q2 => (0, 1)  | (false, false), q3 => (1, 1)
  | (true,  false), q1 => (1, -1) | (true,  false), q2 => (0, -1) | (true,  false), q3 => (1, -2)
  | (false, true),  q1 => (-1, 1) | (false, true),  q2 => (0, 1)  | (false, true),  q3 => (-1, 2)
  | (true,  true),  q1 => (-1, 0) | (true,  true),  q2 => (0, -1) | (true,  true),  q3 => (-1, -1)

/-- ij_to_quaternary -/
def quat (u v : ℚ) (f : Flips) : Q4 :=
  let a := if f.1 then -(u + v) else u + v
  let b := if f.2 then -u else u
  let c := if f.1 then -v else v
  if f.1 != f.2 then
    if c < 1 then q0 else if b > 1 then q3 else if a > 1 then q2 else q1
  else
    if a < 1 then q0 else if b > 1 then q3 else if c > 1 then q2 else q1

/-- open triangle of side `s` for flip state `f`, anchored at the origin -/
def Tri (f : Flips) (s u v : ℚ) : Prop :=
  match f with
  | (false, false) => 0 < u ∧ 0 < v ∧ u + v < s
  | (false, true)  => u < 0 ∧ v < s ∧ 0 < u + v
  | (true,  false) => 0 < u ∧ -s < v ∧ u + v < 0
  | (true,  true)  => u < 0 ∧ v < 0 ∧ -s < u + v

/-- G, most significant digit first; returns offset (ij) and final flips -/
def G : List Q4 → Flips → (ℚ × ℚ) × Flips
  | [], f => ((0, 0), f)
  | d :: ds, f =>
    let r := G ds (fmul f (qflips d))
    let c := child d f
    ((c.1 * 2 ^ ds.length + r.1.1, c.2 * 2 ^ ds.length + r.1.2), r.2)

def decode : Nat → ℚ → ℚ → Flips → List Q4
  | 0, _, _, _ => []
  | n+1, u, v, f =>
    let d := quat (u / 2 ^ n) (v / 2 ^ n) f
    let c := child d f
    d :: decode n (u - c.1 * 2 ^ n) (v - c.2 * 2 ^ n) (fmul f (qflips d))

theorem child_region (f : Flips) (d : Q4) (u v : ℚ) (h : Tri (fmul f (qflips d)) 1 u v) :
    quat ((child d f).1 + u) ((child d f).2 + v) f = d := by
  obtain ⟨fx, fy⟩ := f
  cases d <;> cases fx <;> cases fy <;>
    simp only [fmul, qflips, Tri, Bool.xor_false, Bool.xor_true, Bool.not_false, Bool.not_true,
      Bool.false_xor, Bool.true_xor] at h <;>
    obtain ⟨h1, h2, h3⟩ := h <;>
    simp only [quat, child] <;> norm_num <;>
    (repeat' split_ifs) <;> first | rfl | (exfalso; linarith) | (intro hh; linarith)


/-- a child's triangle sits inside the parent's triangle at double scale -/
theorem child_inside (f : Flips) (d : Q4) (s u v : ℚ) (hs : 0 < s) (h : Tri (fmul f (qflips d)) s u v) :
    Tri f (2 * s) ((child d f).1 * s + u) ((child d f).2 * s + v) := by
  obtain ⟨fx, fy⟩ := f
  cases d <;> cases fx <;> cases fy <;>
    simp only [fmul, qflips, Tri, Bool.xor_false, Bool.xor_true, Bool.not_false, Bool.not_true,
      Bool.false_xor, Bool.true_xor] at h ⊢ <;>
    obtain ⟨h1, h2, h3⟩ := h <;>
    simp only [child] <;> refine ⟨?_, ?_, ?_⟩ <;> linarith

theorem Tri_scale (f : Flips) (s t u v : ℚ) (ht : 0 < t) : Tri f s u v ↔ Tri f (s * t) (u * t) (v * t) := by
  obtain ⟨fx, fy⟩ := f
  cases fx <;> cases fy <;> simp only [Tri] <;> constructor <;> rintro ⟨h1, h2, h3⟩ <;> refine ⟨?_, ?_, ?_⟩ <;> nlinarith

/-- containment: G ds f + δ lies in the side-2^n triangle of state f -/
theorem G_inside : ∀ (ds : List Q4) (f : Flips) (u v : ℚ), Tri (G ds f).2 1 u v →
    Tri f (2 ^ ds.length) ((G ds f).1.1 + u) ((G ds f).1.2 + v)
  | [], f, u, v, h => by simpa [G] using h
  | d :: ds, f, u, v, h => by
    have ih := G_inside ds (fmul f (qflips d)) u v (by simpa [G] using h)
    have := child_inside f d (2 ^ ds.length) _ _ (by positivity) ih
    simp only [G, List.length_cons, pow_succ]
    convert this using 1 <;> ring

theorem decode_G : ∀ (ds : List Q4) (f : Flips) (u v : ℚ), Tri (G ds f).2 1 u v →
    decode ds.length ((G ds f).1.1 + u) ((G ds f).1.2 + v) f = ds
  | [], f, u, v, h => by simp [decode]
  | d :: ds, f, u, v, h => by
    have hin := G_inside ds (fmul f (qflips d)) u v (by simpa [G] using h)
    have hpow : (0:ℚ) < 2 ^ ds.length := by positivity
    have hq : quat (((G (d :: ds) f).1.1 + u) / 2 ^ ds.length) (((G (d :: ds) f).1.2 + v) / 2 ^ ds.length) f = d := by
      have h1 := (Tri_scale (fmul f (qflips d)) (2 ^ ds.length) (1 / 2 ^ ds.length) _ _ (by positivity)).1 hin
      rw [mul_one_div_cancel (ne_of_gt hpow)] at h1
      have := child_region f d _ _ h1
      have e1 : ((G (d :: ds) f).1.1 + u) / 2 ^ ds.length
          = (child d f).1 + ((G ds (fmul f (qflips d))).1.1 + u) * (1 / 2 ^ ds.length) := by
        simp only [G]; field_simp; ring
      have e2 : ((G (d :: ds) f).1.2 + v) / 2 ^ ds.length
          = (child d f).2 + ((G ds (fmul f (qflips d))).1.2 + v) * (1 / 2 ^ ds.length) := by
        simp only [G]; field_simp; ring
      rw [e1, e2]; exact this
    simp only [List.length_cons, decode]
    rw [hq]
    have ih := decode_G ds (fmul f (qflips d)) u v (by simpa [G] using h)
    have a1 : (G (d :: ds) f).1.1 + u - (child d f).1 * 2 ^ ds.length = (G ds (fmul f (qflips d))).1.1 + u := by
      simp only [G]; ring
    have a2 : (G (d :: ds) f).1.2 + v - (child d f).2 * 2 ^ ds.length = (G ds (fmul f (qflips d))).1.2 + v := by
      simp only [G]; ring
    rw [a1, a2, ih]

#print axioms decode_G
end H
