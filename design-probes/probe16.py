import a5, sys, threading, random
sys.setswitchinterval(1e-6)
random.seed(3)
pts=[((random.uniform(-180,180),random.uniform(-85,85)),random.randint(3,20)) for _ in range(300)]
ref=[a5.lonlat_to_cell(p,r) for p,r in pts]
bad=[0]; exc=[0]
def work():
    for _ in range(3):
        for (p,r),e in zip(pts,ref):
            try:
                if a5.lonlat_to_cell(p,r)!=e: bad[0]+=1
            except Exception as ex: exc[0]+=1
ts=[threading.Thread(target=work) for _ in range(8)]
[t.start() for t in ts]; [t.join() for t in ts]
print('wrong',bad[0],'exceptions',exc[0],'of',8*3*300)
