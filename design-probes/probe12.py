import a5, math, random
from a5.core.serialization import cell_to_children, get_resolution
from oracle import *
def ring_checks(c, opts, r):
    ring=a5.cell_to_boundary(c, opts)
    closed=opts.get('closed_ring',True) if opts else True
    seg=(opts or {}).get('segments','auto')
    if seg in ('auto',None): seg=max(1,2**(6-r))
    nv=(3 if r==1 else 5)*seg
    errs=[]
    if len(ring)!=nv+(1 if closed else 0): errs.append(('len',len(ring),nv))
    if closed and ring[0]!=ring[-1]: errs.append('notclosed')
    body=ring[:-1] if closed else ring
    if any(not(-90<=la<=90) for lo,la in body): errs.append('lat')
    lons=[lo for lo,la in body]
    span=max(lons)-min(lons)
    jumps=max(abs(body[i][0]-body[(i+1)%len(body)][0]) for i in range(len(body)))
    # orientation via spherical signed area sign (gnomonic at centroid)
    vs=[to_vec(*p) for p in body]
    cx=norm(tuple(sum(v[i] for v in vs) for i in range(3)))
    w,_=winding(cx,vs)
    return errs,span,jumps,w
bad=0;n=0
polar=[]
for r in range(0,5):
    for c in cell_to_children(0,r):
        for opts in [None,{},{'closed_ring':False},{'segments':1},{'segments':3,'closed_ring':False},{'segments':'auto'},{'segments':None}]:
            errs,span,jumps,w=ring_checks(c,opts,r)
            n+=1
            if errs or w!=1: bad+=1; print('BAD',hex(c),opts,errs,w)
            if (span>=180 or jumps>=180) and opts is None: polar.append((r,hex(c),round(span,1),round(jumps,1)))
print(n,bad); print(len(polar), polar[:20])
