/-! Prototype for C16/C17: programs that touch shared state only through a memo discipline return their
    sequential result under every interference that preserves the cache invariant.  Core Lean only. -/
namespace Eff

variable {Slot Val : Type} [DecidableEq Slot]

abbrev Store (Slot Val : Type) := Slot → Option Val

/-- programs over a shared store: atomic `lookup` and `fill`, everything else is pure Lean inside the continuations -/
inductive Prog (Slot Val : Type) : Type → Type 1 where
  | ret {α} : α → Prog Slot Val α
  | lookup {α} : Slot → (Option Val → Prog Slot Val α) → Prog Slot Val α
  | fill {α} : Slot → Val → Prog Slot Val α → Prog Slot Val α

open Prog

/-- every filled slot holds the value the key determines -/
def Inv (f : Slot → Val) (σ : Store Slot Val) : Prop := ∀ s v, σ s = some v → v = f s

def upd (σ : Store Slot Val) (s : Slot) (v : Val) : Store Slot Val := fun t => if t = s then some v else σ t

/-- `Runs f p σ a σ'`: `a` is a possible result of `p` started in `σ` when, before each of its atomic steps, the
    environment (other threads, earlier calls) may replace the store by ANY store satisfying `Inv f`. -/
inductive Runs (f : Slot → Val) : {α : Type} → Prog Slot Val α → Store Slot Val → α → Store Slot Val → Prop where
  | ret {α} (a : α) (σ) : Runs f (ret a) σ a σ
  | lookup {α} (s k) (σ σ₁ σ₂ : Store Slot Val) (a : α) :
      Inv f σ₁ → Runs f (k (σ₁ s)) σ₁ a σ₂ → Runs f (lookup s k) σ a σ₂
  | fill {α} (s v) (k : Prog Slot Val α) (σ σ₁ σ₂) (a : α) :
      Inv f σ₁ → Runs f k (upd σ₁ s v) a σ₂ → Runs f (fill s v k) σ a σ₂

/-- the discipline: a program with sequential denotation `d` -/
inductive Disc (f : Slot → Val) : {α : Type} → Prog Slot Val α → α → Prop where
  | ret {α} (a : α) : Disc f (ret a) a
  /-- read a slot; on a hit continue with the stored value, on a miss run `k none`; both must denote `d` -/
  | lookup {α} (s) (k : Option Val → Prog Slot Val α) (d : α) :
      Disc f (k (some (f s))) d → Disc f (k none) d → Disc f (lookup s k) d
  /-- only the value determined by the key may be stored -/
  | fill {α} (s) (k : Prog Slot Val α) (d : α) : Disc f k d → Disc f (fill s (f s) k) d

theorem upd_inv (f : Slot → Val) (σ : Store Slot Val) (s : Slot) (h : Inv f σ) : Inv f (upd σ s (f s)) := by
  intro t v ht
  unfold upd at ht
  split at ht
  · cases ht; subst_vars; rfl
  · exact h t v ht

/-- Non-interference: a disciplined program returns its denotation whatever the environment does between its
    steps, and leaves the invariant intact (so it is itself an admissible environment for the others). -/
theorem disc_stable (f : Slot → Val) {α : Type} (p : Prog Slot Val α) (d : α) (hd : Disc f p d) :
    ∀ σ a σ', Runs f p σ a σ' → Inv f σ → a = d ∧ Inv f σ' := by
  induction hd with
  | ret a => intro σ a' σ' hr hi; cases hr; exact ⟨rfl, hi⟩
  | lookup s k d _ _ ih1 ih2 =>
    intro σ a σ' hr _
    cases hr with
    | lookup _ _ _ σ₁ _ _ hi1 hrun =>
      cases hσ : σ₁ s with
      | none => rw [hσ] at hrun; exact ih2 _ _ _ hrun hi1
      | some v =>
        rw [hσ] at hrun
        have : v = f s := hi1 s v hσ
        subst this
        exact ih1 _ _ _ hrun hi1
  | fill s k d _ ih =>
    intro σ a σ' hr _
    cases hr with
    | fill _ _ _ _ σ₁ _ _ hi1 hrun => exact ih _ _ _ hrun (upd_inv f σ₁ s hi1)

#print axioms disc_stable
end Eff
