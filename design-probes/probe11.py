import a5, math, random
from oracle import to_vec, dot
random.seed(2)
R=6371007.2
def gc(p,q):
    a=to_vec(*p); b=to_vec(*q)
    c=(a[1]*b[2]-a[2]*b[1], a[2]*b[0]-a[0]*b[2], a[0]*b[1]-a[1]*b[0])
    return math.atan2(math.sqrt(dot(c,c)), dot(a,b))*R
for name,gen in [('global',lambda:(random.uniform(-180,180),math.degrees(math.asin(random.uniform(-1,1))))),
                 ('polar',lambda:(random.uniform(-180,180),(90-10**random.uniform(-9,-1))*random.choice([-1,1])))]:
    worst=0;bad=0;n=0;ex=None
    for _ in range(4000):
        p=gen(); r=random.randint(0,29)
        c=a5.lonlat_to_cell(p,r); q=a5.cell_to_lonlat(c)
        d=gc(p,q)/math.sqrt(a5.cell_area(r)); n+=1
        if d>worst: worst=d
        if d>1.0:
            bad+=1
            if ex is None: ex=(p,r,q,d)
    print(name,n,'bad',bad,'worst',round(worst,3),ex)
print([ (r, a5.cell_area(r)*a5.get_num_cells(r)-a5.cell_area(-1)) for r in (0,1,5,29,30)], all(a5.cell_area(r+1)<a5.cell_area(r) for r in range(-1,30)))
import struct
print(max(abs(struct.unpack('<q',struct.pack('<d',a5.cell_area(r)*a5.get_num_cells(r)))[0]-struct.unpack('<q',struct.pack('<d',a5.cell_area(-1)))[0]) for r in range(0,31)))
