import math
from a5.core import hilbert as H
from a5.core.hilbert import *
from a5.core.tiling import get_pentagon_vertices
from a5.core.coordinate_transforms import face_to_ij
# (i)/(ii) shifted digit strings
def shifted_digits(s, n, invert_j, flip_ij):
    digits=[(s>>(2*i))&3 for i in range(n)]
    flips=[NO,NO]; pattern=PATTERN_FLIPPED if flip_ij else PATTERN
    for i in range(n-1,-1,-1):
        H._shift_digits(digits,i,flips,invert_j,pattern)
        nf=quaternary_to_flips(digits[i]); flips[0]*=nf[0]; flips[1]*=nf[1]
    return digits
bad=0; tot=0; maxdiffpos=set()
for invert_j in (False,True):
  for flip_ij in (False,True):
    for n in range(2,8):
      for s in range(4**n):
        D=shifted_digits(s,n,invert_j,flip_ij)
        for k in range(1,n):
            Dp=shifted_digits(s>>(2*(n-k)),k,invert_j,flip_ij)
            top=D[n-k:]
            tot+=1
            if top[1:]!=Dp[1:]: bad+=1
            elif top[0]!=Dp[0]: maxdiffpos.add((Dp[0],top[0]))
print('prefix lemma violations',bad,'of',tot,'lowest-digit changes',sorted(maxdiffpos))
# (iii) one step drift: child centre*2^(h+1) vs parent centre*2^h*2 in IJ units
def centre_ij(s,h,o):
    a=s_to_anchor(s,h,o); p=get_pentagon_vertices(h,0,a); c=p.get_center()
    return face_to_ij((c[0]*2**h,c[1]*2**h))
vecs={}
for o in ['uv','vu','uw','wu','vw','wv']:
    for h in range(1,7):
        for s in range(4**h):
            pc=centre_ij(s,h,o)
            for d in range(4):
                cc=centre_ij(4*s+d,h+1,o)
                v=(round(cc[0]-2*pc[0],6),round(cc[1]-2*pc[1],6))
                vecs[v]=vecs.get(v,0)+1
print(len(vecs))
from a5.core.pentagon import BASIS
def norm_face(v):
    x=BASIS[0][0]*v[0]+BASIS[0][1]*v[1]; y=BASIS[1][0]*v[0]+BASIS[1][1]*v[1]; return math.hypot(x,y)
# cell planar area at child scale unit: |det BASIS|/2 per lattice triangle
det=abs(BASIS[0][0]*BASIS[1][1]-BASIS[0][1]*BASIS[1][0]); w_child=math.sqrt(det/2)
m=max(norm_face(v) for v in vecs); print('max one-step drift / parent width', m/(2*w_child))
