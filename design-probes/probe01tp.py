import a5, random, math, sys
from a5.core.cell import _lonlat_to_estimate, a5cell_contains_point, serialize, FIRST_HILBERT_RESOLUTION, WORLD_CELL
from a5.core.coordinate_transforms import from_lonlat, to_cartesian, to_lonlat
from oracle import *
def to_sph(x,y,z):
    return (math.atan2(y,x), math.atan2(math.sqrt(x*x+y*y), z))
def lonlat_to_cell_tp(lon_lat, resolution):
    if resolution == -1: return WORLD_CELL
    if resolution < FIRST_HILBERT_RESOLUTION:
        return serialize(_lonlat_to_estimate(lon_lat, resolution))
    h = 1 + resolution - FIRST_HILBERT_RESOLUTION
    N=25; scale=math.radians(50/(2**h))
    p=to_cartesian(from_lonlat(lon_lat))
    ref=(0.0,0.0,1.0) if abs(p[2])<0.9 else (1.0,0.0,0.0)
    e1=norm(cross(ref,p)); e2=cross(p,e1)
    samples=[lon_lat]
    for i in range(N):
        R=(i/N)*scale; a=math.cos(i)*R; b=math.sin(i)*R
        q=(p[0]+a*e1[0]+b*e2[0], p[1]+a*e1[1]+b*e2[1], p[2]+a*e1[2]+b*e2[2])
        samples.append(to_lonlat(to_sph(*q)))
    seen=set(); cells=[]
    for s in samples:
        e=_lonlat_to_estimate(s,resolution); key=serialize(e)
        if key not in seen:
            seen.add(key)
            d=a5cell_contains_point(e,lon_lat)
            if d>0: return key
            cells.append((d,key))
    cells.sort(reverse=True); return cells[0][1]
random.seed(int(sys.argv[1]))
for band in [(0,60),(60,80),(80,89),(89,89.999),(89.999,90)]:
    n=0;bad=0;ex=[]
    for _ in range(3000):
        lat=random.uniform(*band)*random.choice([-1,1]); lon=random.uniform(-180,180); r=random.randint(2,29)
        p=(lon,lat); c=lonlat_to_cell_tp(p,r)
        ring=a5.cell_to_boundary(c,{'segments':8,'closed_ring':False})
        w,d=contains(p,ring); size=math.sqrt(4*math.pi/a5.get_num_cells(r)); n+=1
        if w!=1 and (d is None or d/size>1e-6):
            bad+=1
            if len(ex)<3: ex.append((p,r,hex(c),w,d/size if d else d))
    print(band,n,bad,ex)
