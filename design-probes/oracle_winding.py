import math
# WGS84
A_=6378137.0; F_=1/298.257223563; E2=F_*(2-F_); E_=math.sqrt(E2)
def q(phi):
    s=math.sin(phi); es=E_*s
    return (1-E2)*(s/(1-es*es) + math.atanh(es)/E_)   # = (1-e^2)*(s/(1-e^2 s^2) - (1/2e) ln((1-es)/(1+es)))
QP=q(math.pi/2)
def authalic(phi):
    x=q(phi)/QP
    x=max(-1.0,min(1.0,x))
    return math.asin(x)
def to_vec(lon,lat):
    b=authalic(math.radians(lat)); l=math.radians(lon)
    return (math.cos(b)*math.cos(l), math.cos(b)*math.sin(l), math.sin(b))
def dot(a,b): return a[0]*b[0]+a[1]*b[1]+a[2]*b[2]
def cross(a,b): return (a[1]*b[2]-a[2]*b[1], a[2]*b[0]-a[0]*b[2], a[0]*b[1]-a[1]*b[0])
def norm(a):
    n=math.sqrt(dot(a,a)); return (a[0]/n,a[1]/n,a[2]/n)
def tangent_basis(p):
    ref=(0,0,1) if abs(p[2])<0.9 else (1,0,0)
    e1=norm(cross(ref,p)); e2=cross(p,e1); return e1,e2
def winding(p, ring):
    """winding number of ring (list of unit vecs, open) around p via gnomonic projection at p; also min edge distance (radians approx)"""
    e1,e2=tangent_basis(p)
    pts=[]
    for v in ring:
        d=dot(v,p)
        if d<=0.05: return None,None
        pts.append((dot(v,e1)/d, dot(v,e2)/d))
    w=0.0; dmin=1e9
    n=len(pts)
    for i in range(n):
        x1,y1=pts[i]; x2,y2=pts[(i+1)%n]
        w+=math.atan2(x1*y2-x2*y1, x1*x2+y1*y2)
        # distance from origin to segment
        dx,dy=x2-x1,y2-y1; L2=dx*dx+dy*dy
        t=0 if L2==0 else max(0,min(1,-(x1*dx+y1*dy)/L2))
        dmin=min(dmin, math.hypot(x1+t*dx,y1+t*dy))
    return round(w/(2*math.pi)), dmin
def contains(lonlat, ring_lonlat):
    p=to_vec(*lonlat); ring=[to_vec(*v) for v in ring_lonlat]
    return winding(p, ring)
