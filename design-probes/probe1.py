import a5, itertools
from a5.core.serialization import serialize, deserialize, get_resolution, cell_to_children, cell_to_parent, MAX_RESOLUTION, is_first_child, get_stride
from a5.core.origin import origins
from a5.core.utils import A5Cell
from a5.core.cell_info import get_num_children, get_num_cells
# C05 res 30
for r in (29,30,31):
    try:
        v = serialize(A5Cell(origin=origins[0], segment=0, S=0, resolution=r)); print(r, hex(v), get_resolution(v))
    except Exception as e: print(r, 'ERR', type(e).__name__, e)
try: print(a5.cell_to_children(0,30)[:2])
except Exception as e: print('children(0,30) ERR', type(e).__name__, e)
try: print(a5.lonlat_to_cell((0,0),30))
except Exception as e: print('lonlat30 ERR', type(e).__name__, e)
# negative S?
try: print(hex(serialize(A5Cell(origin=origins[0], segment=0, S=-1, resolution=5))))
except Exception as e: print('S=-1 ERR', e)
# res 0/1 with S nonzero silently ignored
print(hex(serialize(A5Cell(origin=origins[3], segment=2, S=7, resolution=1))), hex(serialize(A5Cell(origin=origins[3], segment=2, S=0, resolution=1))))
# res0 segment ignored
print(hex(serialize(A5Cell(origin=origins[3], segment=2, S=0, resolution=0))))
# enumerate res 0..5 ids: uniqueness and round trip
for r in range(0,7):
    ids = cell_to_children(0, r)
    assert len(ids)==len(set(ids))==get_num_cells(r), (r, len(ids))
    for i in ids:
        c = deserialize(i); assert c['resolution']==r; assert serialize(c)==i
    print(r, len(ids), 'sorted' if ids==sorted(ids) else 'unsorted')
# invalid ids: top6 >= 60
for idx in [ (60<<58)|(1<<56), (63<<58)|(1<<57), (12<<58)|(1<<57)]:
    try: print(hex(idx), deserialize(idx)['origin'].id)
    except Exception as e: print(hex(idx), 'ERR', type(e).__name__, e)
# first_quintant
print([o.first_quintant for o in origins], [o.id for o in origins])
print([hex(x) for x in a5.get_res0_cells()])
print([hex(x) for x in cell_to_children(a5.get_res0_cells()[0])])
