import a5, time, math, random
from a5.core.serialization import cell_to_children, get_resolution
t=time.time()
for r in range(0,6):
    ids=cell_to_children(0,r)
    bad_lon=0; bad_rt=0; exc=0
    ex=None
    for c in ids:
        lon,lat=a5.cell_to_lonlat(c)
        if not(-180<=lon<=180) or not(-90<=lat<=90): bad_lon+=1
        try:
            c2=a5.lonlat_to_cell((lon,lat),r)
        except Exception as e:
            exc+=1; continue
        if c2!=c:
            bad_rt+=1; ex=(hex(c),lon,lat,hex(c2))
    print(r,len(ids),'lon-range-bad',bad_lon,'roundtrip-bad',bad_rt,'exc',exc,ex,round(time.time()-t,1))
print(a5.cell_to_lonlat(a5.lonlat_to_cell((139.69,35.68),10)))
# poles at fine res
for r in (20,22,24,26,28,29):
    for p in [(0,90),(0,-90),(10,89.9999),(50,89.999999),(0,89.99999999)]:
        c=a5.lonlat_to_cell(p,r); ll=a5.cell_to_lonlat(c); c2=a5.lonlat_to_cell(ll,r)
        print(r,p,hex(c),ll,c2==c)
