/-
  Line-protocol driver for the *translated source* (`A5/Gen/Src.lean`, regenerated from /repo by tools/py2lean.py).
  Same ops and answer format as `Main.lean` for the integer core; every int argument may be negative.
  Run against the implementation it validates the translator and the operator semantics of `A5/Model/PySem.lean`
  (the trusted base of the source-level tie) on exactly the inputs the model correspondence uses, plus negative ints.
-/
import A5.Gen.Src

open A5

def fmtErr (e : Err) : String := "err " ++ e.name

def fmtList (l : List Int) : String :=
  l.foldl (fun acc x => acc ++ " " ++ toString x) ("ok " ++ toString l.length)

def optInt (s : String) : Option (Option Int) :=
  if s == "-" then some none else (s.toInt?).map some

def ofPyM {α} (f : α → String) : PyM α → String
  | .ok a => f a
  | .error e => fmtErr e

def ints (l : List String) : Option (List Int) := l.mapM String.toInt?

def fromHexBytes (s : String) : Option String :=
  let rec go : List Char → List Char → Option (List Char)
    | [], acc => some acc.reverse
    | [_], _ => none
    | a :: b :: r, acc =>
      match hexVal a, hexVal b with
      | some x, some y => go r (Char.ofNat (16 * x + y) :: acc)
      | _, _ => none
  (go s.toList []).map String.ofList

def toHexBytes (s : String) : String :=
  String.ofList (s.toList.flatMap fun c => [hexDigitChar (c.toNat / 16), hexDigitChar (c.toNat % 16)])

def runOp (toks : List String) : String :=
  match toks with
  | ["hex", n] =>
    match n.toInt? with
    | some n => ofPyM (fun s => "ok " ++ toHexBytes s) (Src.hex.u64_to_hex n)
    | none => "bad-op"
  | ["unhex", s] =>
    match fromHexBytes s with
    | some s => ofPyM (fun v => s!"ok {v}") (Src.hex.hex_to_u64 s)
    | none => "bad-op"
  | ["unhex"] => ofPyM (fun v => s!"ok {v}") (Src.hex.hex_to_u64 "")
  | ["res", n] =>
    match n.toInt? with
    | some n => ofPyM (fun r => s!"ok {r}") (Src.serialization.get_resolution n)
    | none => "bad-op"
  | ["des", n] =>
    match n.toInt? with
    | some n => ofPyM (fun c => s!"ok {Py.originId c.origin} {c.segment} {c.S} {c.resolution}") (Src.serialization.deserialize n)
    | none => "bad-op"
  | ["ser", o, sg, s, r] =>
    match o.toInt?, sg.toInt?, s.toInt?, r.toInt? with
    | some o, some sg, some s, some r =>
      ofPyM (fun n => s!"ok {n}") (Src.serialization.serialize { origin := o, segment := sg, S := s, resolution := r })
    | _, _, _, _ => "bad-op"
  | ["children", n, r] =>
    match n.toInt?, optInt r with
    | some n, some r => ofPyM fmtList (Src.serialization.cell_to_children n r)
    | _, _ => "bad-op"
  | ["parent", n, r] =>
    match n.toInt?, optInt r with
    | some n, some r => ofPyM (fun n => s!"ok {n}") (Src.serialization.cell_to_parent n r)
    | _, _ => "bad-op"
  | ["res0"] => ofPyM fmtList Src.serialization.get_res0_cells
  | ["first", n, r] =>
    match n.toInt?, optInt r with
    | some n, some r => ofPyM (fun b => if b then "ok 1" else "ok 0") (Src.serialization.is_first_child n r)
    | _, _ => "bad-op"
  | ["stride", r] =>
    match r.toInt? with
    | some r => ofPyM (fun n => s!"ok {n}") (Src.serialization.get_stride r)
    | none => "bad-op"
  | ["ncells", r] =>
    match r.toInt? with
    | some r => ofPyM (fun n => s!"ok {n}") (Src.cell_info.get_num_cells r)
    | none => "bad-op"
  | ["nchildren", a, b] =>
    match a.toInt?, b.toInt? with
    | some a, some b => ofPyM (fun n => s!"ok {n}") (Src.cell_info.get_num_children a b)
    | _, _ => "bad-op"
  | "compact" :: rest =>
    match ints rest with
    | some l => ofPyM fmtList (Src.compact.compact l)
    | none => "bad-op"
  | "uncompact" :: t :: rest =>
    match t.toInt?, ints rest with
    | some t, some l => ofPyM fmtList (Src.compact.uncompact l t)
    | _, _ => "bad-op"
  | ["key", n] =>
    match n.toInt? with
    | some n => ofPyM (fun n => s!"ok {n}") (Src.compact._hierarchical_key n)
    | none => "bad-op"
  | _ => "skip"

partial def loop (h : IO.FS.Stream) (out : IO.FS.Stream) : IO Unit := do
  let line ← h.getLine
  if line.isEmpty then return ()
  out.putStrLn (runOp ((line.trimAscii.toString.splitOn " ").filter (· ≠ "")))
  loop h out

def main : IO Unit := do
  loop (← IO.getStdin) (← IO.getStdout)
