/-
  C09 — compact output is the unique minimal, duplicate-free representation.
  For every antichain of valid ids (duplicates allowed, resolutions mixed, any order).
  (Proved for the repaired algorithm: hierarchical sort key, fix commit c1fbec5.)
-/
import A5.Proofs.Unique

attribute [local instance 2000] instPowNat

namespace A5.C09
open A5

/-- the hypotheses of C09: valid ids, none an ancestor of another (the same id may occur several times) -/
def AntichainInput (X : List Nat) : Prop := (∀ c, c ∈ X → ValidId c) ∧ Antichain X

theorem allValid29 {X : List Nat} (h : ∀ c, c ∈ X → ValidId c) : AllValid 29 X :=
  fun c hc => ⟨h c hc, (getResolution_range c).2⟩

/-- C09 (1)–(3): on an antichain, `compact` returns each output cell once, returns an antichain with the same coverage,
    and leaves no complete sibling group (4, 5 or all 12) un-merged. -/
theorem minimal (X : List Nat) (hX : AntichainInput X) :
    ∃ Y, compact X = .ok Y ∧ (∀ c, c ∈ Y → ValidId c) ∧ Y.Nodup ∧ Antichain Y ∧ Reduced Y ∧
      (∀ x, IsLeaf x → (CoveredBy Y x ↔ CoveredBy X x)) := by
  obtain ⟨Y, h1, h2, h3, h4, h5⟩ := compact_antichain 29 X (allValid29 hX.1) hX.2
  have hvY : ∀ c, c ∈ Y → ValidId c := fun c hc => (h2 c hc).1
  exact ⟨Y, h1, hvY, h4.nodup hvY, h4.antichain hvY,
    fun q hq hr => no_complete_group 29 Y h2 h4 h5 q hq hr,
    fun x hx => h3 x hx.1 hx.2⟩

/-- C09 (4): the result is canonical — two antichains covering the same region compact to the same cell set. -/
theorem canonical (X₁ X₂ : List Nat) (h₁ : AntichainInput X₁) (h₂ : AntichainInput X₂)
    (hsame : ∀ x, IsLeaf x → (CoveredBy X₁ x ↔ CoveredBy X₂ x)) :
    ∃ Y₁ Y₂, compact X₁ = .ok Y₁ ∧ compact X₂ = .ok Y₂ ∧ ∀ c, c ∈ Y₁ ↔ c ∈ Y₂ := by
  obtain ⟨Y₁, e₁, v₁, _, a₁, r₁, c₁⟩ := minimal X₁ h₁
  obtain ⟨Y₂, e₂, v₂, _, a₂, r₂, c₂⟩ := minimal X₂ h₂
  have hcov : ∀ x, IsLeaf x → (CoveredBy Y₁ x ↔ CoveredBy Y₂ x) := by
    intro x hx; rw [c₁ x hx, c₂ x hx, hsame x hx]
  refine ⟨Y₁, Y₂, e₁, e₂, fun c => ⟨reduced_subset Y₁ Y₂ v₁ v₂ a₁ a₂ r₁ r₂ hcov c, ?_⟩⟩
  exact reduced_subset Y₂ Y₁ v₂ v₁ a₂ a₁ r₂ r₁ (fun x hx => (hcov x hx).symm) c

/-- C09 (5): the result as a set does not depend on input order or duplication … -/
theorem order_and_duplication_invariant (X₁ X₂ : List Nat) (h₁ : AntichainInput X₁)
    (hperm : ∀ c, c ∈ X₁ ↔ c ∈ X₂) :
    ∃ Y₁ Y₂, compact X₁ = .ok Y₁ ∧ compact X₂ = .ok Y₂ ∧ ∀ c, c ∈ Y₁ ↔ c ∈ Y₂ := by
  have h₂ : AntichainInput X₂ :=
    ⟨fun c hc => h₁.1 c ((hperm c).2 hc), fun a ha b hb hc => h₁.2 a ((hperm a).2 ha) b ((hperm b).2 hb) hc⟩
  apply canonical X₁ X₂ h₁ h₂
  intro x _
  unfold CoveredBy
  constructor
  · rintro ⟨z, hz, hc⟩; exact ⟨z, (hperm z).1 hz, hc⟩
  · rintro ⟨z, hz, hc⟩; exact ⟨z, (hperm z).2 hz, hc⟩

/-- … and compacting it again changes nothing. -/
theorem idempotent (X : List Nat) (hX : AntichainInput X) :
    ∃ Y Y', compact X = .ok Y ∧ compact Y = .ok Y' ∧ ∀ c, c ∈ Y' ↔ c ∈ Y := by
  obtain ⟨Y, e, v, _, a, _, cov⟩ := minimal X hX
  obtain ⟨Y₁, Y₂, e₁, e₂, hmem⟩ := canonical Y X ⟨v, a⟩ hX cov
  rw [e] at e₂
  cases e₂
  exact ⟨Y, Y₁, e, e₁, hmem⟩

/-! non-vacuity: the five segments of face 0 together with faces 1..11 (the input on which the pinned tree failed)
    satisfy the hypotheses -/
example : ValidId (encId 3 0 1) ∧ ValidId (encId 9 0 0) ∧ ¬ Covers (encId 9 0 0) (encId 3 0 1) := by
  refine ⟨Or.inr ⟨3, 0, 1, by decide, rfl⟩, Or.inr ⟨9, 0, 0, by decide, rfl⟩, ?_⟩
  rw [covers_fields (by decide) (by decide)]
  unfold DescOf ancT
  decide

end A5.C09
