/-
  C14 — the face projection preserves area for arbitrary regions (partial, thin).

  PROVED (exact arithmetic): the planar half of the slice-and-dice map is affine in the barycentric weights, and an affine map
  multiplies the signed area of EVERY triangle (hence every polygon) by one constant, the determinant of the face triangle —
  independent of where the region lies.  TIED: the projection model is compared bit for bit with the implementation every run.
  ASSUMED (numeric, swept with an independent spherical area formula): barycentric weights are proportional to spherical
  sub-triangle areas (the "dice" step); global constant = sphere area / 12 / face pentagon area to 1e-6.
-/
import A5.Props.C13

namespace A5.C14
open A5.C13

/-- signed area (×2) of a planar triangle -/
def area2 (a b c : ℚ × ℚ) : ℚ := (b.1 - a.1) * (c.2 - a.2) - (b.2 - a.2) * (c.1 - a.1)

/-- C14 (affine stage): mapping barycentric weights to the face plane multiplies every signed area by the same constant -/
theorem affine_scales_area (p1 p2 p3 : ℚ × ℚ) (u v w : ℚ × ℚ) :
    area2 (fromBary (u.1, u.2, 1 - (u.1 + u.2)) p1 p2 p3) (fromBary (v.1, v.2, 1 - (v.1 + v.2)) p1 p2 p3)
        (fromBary (w.1, w.2, 1 - (w.1 + w.2)) p1 p2 p3)
      = area2 p3 p1 p2 * area2 u v w := by
  unfold area2 fromBary; simp only; ring

end A5.C14
