/-
  C14 — the face projection preserves area for arbitrary regions (partial, thin).

  PROVED (exact arithmetic): the planar half of the slice-and-dice map is affine in the barycentric weights, and an affine map
  multiplies the signed area of EVERY triangle (hence every polygon) by one constant, the determinant of the face triangle —
  independent of where the region lies.  TIED: the projection model is compared bit for bit with the implementation every run.
  ASSUMED (numeric, swept with an independent spherical area formula): barycentric weights are proportional to spherical
  sub-triangle areas (the "dice" step); global constant = sphere area / 12 / face pentagon area to 1e-6.
-/
import A5.Props.C13

namespace A5.C14
open A5.C13

/-- signed area (×2) of a planar triangle -/
def area2 (a b c : ℚ × ℚ) : ℚ := (b.1 - a.1) * (c.2 - a.2) - (b.2 - a.2) * (c.1 - a.1)

/-- C14 (affine stage): mapping barycentric weights to the face plane multiplies every signed area by the same constant -/
theorem affine_scales_area (p1 p2 p3 : ℚ × ℚ) (u v w : ℚ × ℚ) :
    area2 (fromBary (u.1, u.2, 1 - (u.1 + u.2)) p1 p2 p3) (fromBary (v.1, v.2, 1 - (v.1 + v.2)) p1 p2 p3)
        (fromBary (w.1, w.2, 1 - (w.1 + w.2)) p1 p2 p3)
      = area2 p3 p1 p2 * area2 u v w := by
  unfold area2 fromBary; simp only; ring

end A5.C14

namespace A5.C14

/-! ### arbitrary polygons, not only triangles -/

/-- twice the signed area of a closed ring (first vertex repeated at the end): Σ a × b over consecutive vertices -/
def ring2 : List (ℚ × ℚ) → ℚ
  | a :: b :: r => (a.1 * b.2 - b.1 * a.2) + ring2 (b :: r)
  | _ => 0

/-- an affine map v ↦ M v + t -/
def aff (m11 m12 m21 m22 t1 t2 : ℚ) (v : ℚ × ℚ) : ℚ × ℚ := (m11 * v.1 + m12 * v.2 + t1, m21 * v.1 + m22 * v.2 + t2)

/-- open-chain version: the image of a chain differs from det · (chain) by a boundary term that only involves its two end points -/
theorem ring2_aff_chain (m11 m12 m21 m22 t1 t2 : ℚ) (a : ℚ × ℚ) (l : List (ℚ × ℚ)) :
    ring2 ((a :: l).map (aff m11 m12 m21 m22 t1 t2))
      = (m11 * m22 - m12 * m21) * ring2 (a :: l)
        + (t1 * ((m21 * ((a :: l).getLast (by simp)).1 + m22 * ((a :: l).getLast (by simp)).2) - (m21 * a.1 + m22 * a.2))
           - t2 * ((m11 * ((a :: l).getLast (by simp)).1 + m12 * ((a :: l).getLast (by simp)).2) - (m11 * a.1 + m12 * a.2))) := by
  induction l generalizing a with
  | nil => simp [ring2]
  | cons b r ih =>
    have hb := ih b
    simp only [List.map_cons] at hb ⊢
    rw [ring2, hb, ring2]
    simp only [List.getLast_cons_cons]
    simp only [aff]
    ring

/-- C14 (affine stage, any region): an affine map multiplies the shoelace area of EVERY closed polygon — any number of vertices,
    convex or not, wherever it lies — by its determinant.  (For the barycentric → face stage the determinant is twice the area of the
    face triangle: `affine_scales_area`.) -/
theorem affine_scales_polygon (m11 m12 m21 m22 t1 t2 : ℚ) (a : ℚ × ℚ) (l : List (ℚ × ℚ))
    (hclosed : (a :: l).getLast (by simp) = a) :
    ring2 ((a :: l).map (aff m11 m12 m21 m22 t1 t2)) = (m11 * m22 - m12 * m21) * ring2 (a :: l) := by
  rw [ring2_aff_chain, hclosed]; ring

/-- non-vacuity: a closed non-convex hexagon of area 3 (ring2 = 6), stretched by a map of determinant 6 -/
example : ring2 [((0 : ℚ), (0 : ℚ)), (2, 0), (2, 2), (1, 1), (0, 2), (0, 0)] = 6 := by norm_num [ring2]
example : ring2 ([((0 : ℚ), (0 : ℚ)), (2, 0), (2, 2), (1, 1), (0, 2), (0, 0)].map (aff 2 0 1 3 5 (-7))) = 36 := by
  norm_num [ring2, aff]

end A5.C14
