/-
  C05 — Cell ids are a faithful 64-bit code: decode/encode are inverse, ids unique.

  Only property statements live here (helper lemmas: A5/Proofs/{Bits,Ids,Codec,Tree}.lean).
  Every theorem quantifies over a *symbolic* position S — all up to 2^56 positions of a resolution at once —
  every face, every segment and every resolution 0..29.
-/
import A5.Proofs.Codec
import A5.Proofs.Tree

namespace A5.C05
open A5

/-- well-formed cell with resolution up to `maxr` -/
def ValidUpTo (maxr : Int) (c : Cell) : Prop :=
  c.origin < 12 ∧ (0 ≤ c.segment ∧ c.segment < 5) ∧ (0 ≤ c.res ∧ c.res ≤ maxr) ∧
  (0 ≤ c.S ∧ c.S.toNat < npos c.res.toNat)

/-- The full-strength statement (resolutions 0..MAX_RESOLUTION): every cell encodes to an id in [1, 2^64) from
    which resolution and cell are recovered. -/
def Statement (maxr : Int) : Prop :=
  ∀ c : Cell, ValidUpTo maxr c →
    ∃ n, serialize c = .ok n ∧ 1 ≤ n ∧ n < 2 ^ 64 ∧ getResolution n = c.res ∧ deserialize n = .ok c.canon

/-- C05 (1): holds for every resolution 0..29. -/
theorem roundtrip_partial : Statement 29 := by
  intro c ⟨ho, hs, hr, hp⟩
  exact des_ser c ⟨ho, hs, hr, hp⟩

/-- C05 (1'), the known finding: the statement at MAX_RESOLUTION = 30 is *false* — no resolution-30 cell can be
    encoded at all (the marker bit would sit at position −1). -/
theorem res30_unencodable (o : Nat) (sg S : Int) :
    serialize { origin := o, segment := sg, S := S, res := MAXR } = .error .value := by
  rw [MAXR_eq]; exact serialize_res30 o sg S

theorem statement_fails_at_MAX_RESOLUTION : ¬ Statement MAXR := by
  intro h
  have hv : ValidUpTo MAXR { origin := 0, segment := 0, S := 0, res := 30 } := by
    refine ⟨by decide, by decide, by decide, by decide, ?_⟩
    show (0:Int).toNat < npos (30:Int).toNat
    unfold npos; simp
  obtain ⟨n, hn, _⟩ := h _ hv
  rw [serialize_res30] at hn
  cases hn

/-- C05 (2): distinct cells get distinct ids. -/
theorem injective (c₁ c₂ : Cell) (h₁ : ValidUpTo 29 c₁) (h₂ : ValidUpTo 29 c₂)
    (n : Nat) (e₁ : serialize c₁ = .ok n) (e₂ : serialize c₂ = .ok n) : c₁.canon = c₂.canon := by
  obtain ⟨n₁, s₁, _, _, _, d₁⟩ := roundtrip_partial c₁ h₁
  obtain ⟨n₂, s₂, _, _, _, d₂⟩ := roundtrip_partial c₂ h₂
  rw [e₁] at s₁; rw [e₂] at s₂
  cases s₁; cases s₂
  rw [d₁] at d₂
  exact Except.ok.inj d₂

/-- C05 (3): re-encoding a decoded valid id returns the id. -/
theorem reencode (n : Nat) (h : ValidId n) : (deserialize n).bind serialize = .ok n := by
  rcases h with rfl | ⟨t, S, r, hwf, rfl⟩
  · exact ser_des_world
  · exact ser_des_encId hwf

/-- the valid ids are exactly the codes of well-formed cells (plus the world cell) -/
theorem validId_iff (n : Nat) : ValidId n ↔ n = 0 ∨ ∃ c, ValidUpTo 29 c ∧ serialize c = .ok n := by
  constructor
  · rintro (rfl | ⟨t, S, r, hwf, rfl⟩)
    · exact Or.inl rfl
    · right
      have hd := deserialize_encId hwf
      have hs := ser_des_encId hwf
      rw [hd] at hs
      refine ⟨decodeCell t S r, ?_, hs⟩
      obtain ⟨hr, hS, ht⟩ := hwf
      unfold decodeCell
      by_cases h0 : r = 0
      · subst h0
        have := npos_small 0 S (by omega) hS
        subst this
        simp only [if_true] at ht ⊢
        exact ⟨ht, by simp, by simp, by simp, by simp [npos]⟩
      · rw [if_neg h0] at ht ⊢
        have hq := firstQuintant_range (t / 5) (by omega)
        refine ⟨by show t / 5 < 12; omega, by constructor <;> (show _ ; simp only; omega), by constructor <;> (simp only; omega), ?_⟩
        simp only [Int.toNat_natCast]
        by_cases hr2 : r < 2
        · rw [if_pos hr2]; unfold npos; rw [if_pos hr2]; decide
        · rw [if_neg hr2]; exact ⟨by omega, by simpa using hS⟩
  · rintro (rfl | ⟨c, ⟨ho, hs, hr, hp⟩, hn⟩)
    · exact Or.inl rfl
    · right
      obtain ⟨o, sg, S, r⟩ := c
      simp only at ho hs hr hp
      obtain ⟨r', rfl⟩ : ∃ r' : Nat, r = (r' : Int) := ⟨r.toNat, by omega⟩
      obtain ⟨S', rfl⟩ : ∃ S' : Nat, S = (S' : Int) := ⟨S.toNat, by omega⟩
      simp only [Int.toNat_natCast] at hp
      have hr' : r' ≤ 29 := by omega
      rw [serialize_ok o sg S' r' hr' hp.2] at hn
      cases hn
      exact ⟨topOf o sg r', S', r', ⟨hr', hp.2, topOf_lt o sg r' ho⟩, rfl⟩

/-- C05 (5): encoding never silently produces an id for a position that does not fit its resolution
    (any cell record whatsoever, any integers). -/
theorem rejects_unfit_position (c : Cell) (n : Nat) (h : serialize c = .ok n) (hw : c.res ≠ -1) :
    0 ≤ c.S ∧ (c.res < 2 → c.S = 0) ∧ (2 ≤ c.res → c.S < 4 ^ (c.res - 1).toNat) :=
  serialize_fits c n h hw

/-- C05 (4): the ids enumerated at resolution r (expansion of the world cell) are pairwise distinct, are exactly
    the valid ids of that resolution, and number get_num_cells(r). -/
theorem enumeration (r : Nat) (hr : r ≤ 29) :
    ∃ L, cellToChildren WORLD_CELL (some (r : Int)) = .ok L ∧ L.Nodup ∧ L.length = getNumCells r ∧
      ∀ x, x ∈ L ↔ (ValidId x ∧ getResolution x = (r : Int)) :=
  world_children_enumeration r hr

/-! non-vacuity: the hypotheses are met by concrete non-trivial cells -/
example : ValidUpTo 29 { origin := 7, segment := 3, S := 123456789, res := 17 } := by
  refine ⟨by decide, by decide, by decide, by decide, ?_⟩
  show (123456789:Int).toNat < npos (17:Int).toNat
  unfold npos; simp
example : ValidId 2 := Or.inr ⟨0, 0, 29, by decide, by decide⟩
example : serialize { origin := 3, segment := 1, S := 5, res := 3 } = .ok 4710765210229538816 := by decide

end A5.C05
