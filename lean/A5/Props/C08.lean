/-
  C08 — compact never changes the covered region.
  For ANY finite list of valid ids: mixed resolutions −1..29, duplicates, any order, ancestors together with descendants.
-/
import A5.Proofs.CompactProof
import A5.Props.C10

attribute [local instance 2000] instPowNat

namespace A5.C08
open A5

/-- C08: `compact` is total on valid input, returns valid ids no finer than the input, and a cell of the finest level `R`
    (any R ≥ every input resolution, in particular R = 29) is covered by the output iff it is covered by the input. -/
theorem coverage_preserved (X : List Nat) (R : Nat)
    (hX : ∀ c, c ∈ X → ValidId c ∧ getResolution c ≤ (R : Int)) :
    ∃ Y, compact X = .ok Y ∧ (∀ c, c ∈ Y → ValidId c ∧ getResolution c ≤ (R : Int)) ∧
      ∀ x, ValidId x → getResolution x = (R : Int) →
        ((∃ y, y ∈ Y ∧ Covers y x) ↔ (∃ z, z ∈ X ∧ Covers z x)) := by
  obtain ⟨Y, h1, h2, h3, _⟩ := compact_spec R X hX
  exact ⟨Y, h1, h2, h3⟩

/-- the `while changed` loop never runs out of its fuel (the model reports that as an error, and the result is `ok`) -/
theorem compact_total (X : List Nat) (hX : ∀ c, c ∈ X → ValidId c) : ∃ Y, compact X = .ok Y := by
  obtain ⟨Y, h1, _⟩ := compact_spec 29 X (fun c hc => ⟨hX c hc, (getResolution_range c).2⟩)
  exact ⟨Y, h1⟩

theorem forall₂_mem_left {α β : Type} {R : α → β → Prop} {l₁ : List α} {l₂ : List β} (h : List.Forall₂ R l₁ l₂)
    {a : α} (ha : a ∈ l₁) : ∃ b, b ∈ l₂ ∧ R a b := by
  induction h with
  | nil => simp at ha
  | @cons a' b l₁ l₂ hab _ ih =>
    simp only [List.mem_cons] at ha
    rcases ha with rfl | ha
    · exact ⟨b, by simp, hab⟩
    · obtain ⟨b', hb', hr⟩ := ih ha
      exact ⟨b', by simp [hb'], hr⟩

/-- what `uncompact` returns, as a set: the level-R cells covered by the list -/
theorem mem_uncompact (Z : List Nat) (R : Nat) (hR : R ≤ 29) (hZ : ∀ c, c ∈ Z → ValidId c ∧ getResolution c ≤ (R : Int)) :
    ∃ U, uncompact Z R = .ok U ∧ ∀ x, x ∈ U ↔ (ValidId x ∧ getResolution x = (R : Int) ∧ ∃ z, z ∈ Z ∧ Covers z x) := by
  obtain ⟨blocks, _, h2, _, h4⟩ := C10.uncompact_spec Z R hR (fun c hc => (hZ c hc).1) (fun c hc => (hZ c hc).2)
  refine ⟨_, h2, ?_⟩
  intro x
  rw [List.mem_flatten]
  constructor
  · rintro ⟨B, hB, hx⟩
    obtain ⟨c, hc, hcB⟩ := C10.forall₂_mem_right h4 hB
    have := (hcB x).1 hx
    exact ⟨this.1, this.2.1, c, hc, this.2.2⟩
  · rintro ⟨hv, hr, z, hz, hcov⟩
    obtain ⟨B, hB, hzB⟩ := forall₂_mem_left h4 hz
    exact ⟨B, hB, (hzB x).2 ⟨hv, hr, hcov⟩⟩

/-- C08 in the property's own observable form:
    `set(uncompact(compact(X), R)) == set(uncompact(X, R))` for every R ≥ every resolution in X. -/
theorem uncompact_compact_same_set (X : List Nat) (R : Nat) (hR : R ≤ 29)
    (hX : ∀ c, c ∈ X → ValidId c ∧ getResolution c ≤ (R : Int)) :
    ∃ Y UY UX, compact X = .ok Y ∧ uncompact Y R = .ok UY ∧ uncompact X R = .ok UX ∧ ∀ x, x ∈ UY ↔ x ∈ UX := by
  obtain ⟨Y, hY, hvY, hcov⟩ := coverage_preserved X R hX
  obtain ⟨UY, hUY, hmY⟩ := mem_uncompact Y R hR hvY
  obtain ⟨UX, hUX, hmX⟩ := mem_uncompact X R hR hX
  refine ⟨Y, UY, UX, hY, hUY, hUX, ?_⟩
  intro x
  rw [hmY, hmX]
  constructor
  · rintro ⟨hv, hr, hc⟩; exact ⟨hv, hr, (hcov x hv hr).1 hc⟩
  · rintro ⟨hv, hr, hc⟩; exact ⟨hv, hr, (hcov x hv hr).2 hc⟩

/-! non-vacuity: a list with an ancestor next to its descendant, a duplicate and the world cell meets the hypotheses -/
example : ∀ c, c ∈ [encId 7 2 3, encId 7 0 2, encId 7 2 3, 0] → ValidId c ∧ getResolution c ≤ ((29 : Nat) : Int) := by
  intro c hc
  have hv : ValidId c := by
    simp only [List.mem_cons, List.not_mem_nil, or_false] at hc
    rcases hc with rfl | rfl | rfl | rfl
    · exact Or.inr ⟨7, 2, 3, by decide, rfl⟩
    · exact Or.inr ⟨7, 0, 2, by decide, rfl⟩
    · exact Or.inr ⟨7, 2, 3, by decide, rfl⟩
    · exact Or.inl rfl
  exact ⟨hv, (getResolution_range c).2⟩

end A5.C08
