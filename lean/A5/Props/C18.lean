/-
  C18 — curve index ↔ lattice position is a bijection for all orientations and levels.

  Proved here, for EVERY level n (not only 1..28), every index s < 4^n and each of the six orientations, in exact arithmetic
  (ℚ, which contains every IEEE double): converting an index to its lattice anchor and converting ANY point strictly inside that
  anchor's unit triangle back yields the index; the cells are pairwise distinct, lie inside the segment triangle, have disjoint interiors and
  COVER the closed segment triangle (`fill`).  Named gaps (tied by the check, not proved): the pentagon centre of each of the
  16 (flips, k) shapes lies strictly inside its unit triangle (measured margin ≥ 0.148); IEEE rounding inside `ij_to_s`.
-/
import A5.Proofs.HilbertFill

namespace A5.C18
open A5 A5.Hilbert

def Orientations : List String := ["uv", "vu", "uw", "wu", "vw", "wv"]

theorem never_both (o : String) (ho : o ∈ Orientations) : ¬ (orientInvertJ o = true ∧ orientFlipIJ o = true) := by
  simp only [Orientations, List.mem_cons, List.not_mem_nil, or_false] at ho
  rcases ho with rfl | rfl | rfl | rfl | rfl | rfl <;> decide

/-- C18 (1): index → anchor → any point of the anchor's unit triangle → index. -/
theorem roundtrip (o : String) (ho : o ∈ Orientations) (n s : Nat) (hs : s < 4 ^ n) (a : Anchor)
    (ha : sToAnchor s n o = .ok a) (u v : ℚ) (hδ : Tri a.flips 1 u v) :
    ijToS ((a.i : ℚ) + u) ((a.j : ℚ) + v) n o = (s : Int) :=
  roundtrip_flags o (never_both o ho) n s hs a ha u v hδ

/-- `s_to_anchor` is total -/
theorem anchor_total (o : String) (n s : Nat) : ∃ a, sToAnchor s n o = .ok a := by
  unfold sToAnchor; simp

/-- every flip state has a point strictly inside its unit triangle -/
theorem tri_nonempty (f : Flips) : ∃ u v : ℚ, Tri f 1 u v := by
  obtain ⟨fx, fy⟩ := f
  cases fx <;> cases fy
  · exact ⟨1/3, 1/3, by simp only [Tri]; norm_num⟩
  · exact ⟨-1/3, 2/3, by simp only [Tri]; norm_num⟩
  · exact ⟨1/3, -2/3, by simp only [Tri]; norm_num⟩
  · exact ⟨-1/3, -1/3, by simp only [Tri]; norm_num⟩

/-- C18 (2): the 4^n indices of a level produce pairwise distinct lattice cells (offset and shape). -/
theorem anchor_injective (o : String) (ho : o ∈ Orientations) (n s₁ s₂ : Nat) (h₁ : s₁ < 4 ^ n) (h₂ : s₂ < 4 ^ n)
    (a₁ a₂ : Anchor) (e₁ : sToAnchor s₁ n o = .ok a₁) (e₂ : sToAnchor s₂ n o = .ok a₂)
    (hi : a₁.i = a₂.i) (hj : a₁.j = a₂.j) (hf : a₁.flips = a₂.flips) : s₁ = s₂ := by
  obtain ⟨u, v, hδ⟩ := tri_nonempty a₁.flips
  have r₁ := roundtrip o ho n s₁ h₁ a₁ e₁ u v hδ
  have r₂ := roundtrip o ho n s₂ h₂ a₂ e₂ u v (hf ▸ hδ)
  rw [hi, hj] at r₁
  rw [r₁] at r₂
  exact_mod_cast r₂

/-- C18 (3, containment half of "exactly fill"): every cell of the level lies inside the segment's side-2^n triangle
    (core orientation; the other orientations are affine images — `tri_swap_shift`, `tri_invert`). -/
theorem inside_segment (n s : Nat) (hs : s < 4 ^ n) (inv flipIJ : Bool) (u v : ℚ)
    (hδ : Tri (sToAnchorCore s n inv flipIJ).flips 1 u v) :
    Tri (false, false) (2 ^ n) (((sToAnchorCore s n inv flipIJ).i : ℚ) + u) (((sToAnchorCore s n inv flipIJ).j : ℚ) + v) := by
  obtain ⟨hlen, hlt, _⟩ := digits_spec n s hs
  obtain ⟨hslt, hslen⟩ := shiftAll_spec flipIJ inv (digitsMSB s n) hlt
  unfold sToAnchorCore at hδ ⊢
  simp only at hδ ⊢
  generalize shiftAll (if flipIJ then PATTERN_FLIPPED else PATTERN) inv (digitsMSB s n) = sd at *
  obtain ⟨g1, g2, g3⟩ := G_cast sd (false, false)
  rw [accumulate_eq] at hδ ⊢
  simp only [Int.zero_mul, Int.zero_add, kjToIj] at hδ ⊢
  rw [← g3] at hδ
  have := G_inside sd hslt (false, false) u v hδ
  rw [g1, g2, hslen, hlen] at this
  exact this

/-- C18 (3, containment for every orientation) -/
theorem inside_segment_all (o : String) (ho : o ∈ Orientations) (n s : Nat) (hs : s < 4 ^ n) (a : Anchor)
    (ha : sToAnchor s n o = .ok a) (u v : ℚ) (hδ : Tri a.flips 1 u v) :
    Tri (false, false) (2 ^ n) ((a.i : ℚ) + u) ((a.j : ℚ) + v) :=
  inside_flags o (never_both o ho) n s hs a ha u v hδ

/-- C18 (3, covering half of "exactly fill"): for every level, every orientation and EVERY point of the closed segment triangle of
    side 2^n (boundary points included), the index `ij_to_s` computes is in range and the point lies in the closed unit triangle of
    that index's lattice cell.  With `inside_segment` and `interiors_disjoint` the 4^n cells tile the triangle exactly. -/
theorem fill (o : String) (ho : o ∈ Orientations) (n : Nat) (x y : ℚ) (h : TriC (false, false) (2 ^ n) x y) :
    ∃ s : Nat, s < 4 ^ n ∧ ijToS x y n o = (s : Int) ∧
      ∃ a : Anchor, sToAnchor s n o = .ok a ∧ TriC a.flips 1 (x - (a.i : ℚ)) (y - (a.j : ℚ)) :=
  fill_flags o (never_both o ho) n x y h

/-- C18 (3, no overlap): a point strictly inside the unit triangles of the cells of two indices forces the indices to be equal -/
theorem interiors_disjoint (o : String) (ho : o ∈ Orientations) (n s₁ s₂ : Nat) (h₁ : s₁ < 4 ^ n) (h₂ : s₂ < 4 ^ n)
    (a₁ a₂ : Anchor) (e₁ : sToAnchor s₁ n o = .ok a₁) (e₂ : sToAnchor s₂ n o = .ok a₂) (x y : ℚ)
    (p₁ : Tri a₁.flips 1 (x - (a₁.i : ℚ)) (y - (a₁.j : ℚ))) (p₂ : Tri a₂.flips 1 (x - (a₂.i : ℚ)) (y - (a₂.j : ℚ))) : s₁ = s₂ := by
  have r₁ := roundtrip o ho n s₁ h₁ a₁ e₁ _ _ p₁
  have r₂ := roundtrip o ho n s₂ h₂ a₂ e₂ _ _ p₂
  rw [add_sub_cancel, add_sub_cancel] at r₁ r₂
  rw [r₁] at r₂
  exact_mod_cast r₂

/-- the digit transducer is a bijection of base-4 strings: `T ∘ T⁻¹ = id` as well -/
theorem transducer_invertible' (flipIJ inv : Bool) (ds : List Nat) (h : ∀ d ∈ ds, d < 4) :
    shiftAll (if flipIJ then PATTERN_FLIPPED else PATTERN) inv
      (unshiftAll (reversePattern (if flipIJ then PATTERN_FLIPPED else PATTERN)) inv ds) = ds := (shift_unshift flipIJ inv ds h).1

/-- the digit-shifting transducer is invertible on every base-4 string (both patterns, both `invert_j`) -/
theorem transducer_invertible (flipIJ inv : Bool) (ds : List Nat) (h : ∀ d ∈ ds, d < 4) :
    unshiftAll (reversePattern (if flipIJ then PATTERN_FLIPPED else PATTERN)) inv
      (shiftAll (if flipIJ then PATTERN_FLIPPED else PATTERN) inv ds) = ds := unshift_shift flipIJ inv ds h

/-- finite helpers equal the tables produced by calling the real functions on their whole domains -/
theorem tables_agree :
    modelShiftTable = Tables.SHIFT_TABLE ∧ reversePattern PATTERN = Tables.PATTERN_REVERSED ∧
    reversePattern PATTERN_FLIPPED = Tables.PATTERN_FLIPPED_REVERSED ∧ Tables.FLIP_SHIFT = (-1, 1) :=
  ⟨shift_table_eq, pattern_reversed_eq, pattern_flipped_reversed_eq, flip_shift_eq⟩

/-! non-vacuity -/
example : ∃ a, sToAnchor 27 3 "vw" = .ok a ∧ ∃ u v : ℚ, Tri a.flips 1 u v := by
  obtain ⟨a, ha⟩ := anchor_total "vw" 3 27
  exact ⟨a, ha, tri_nonempty a.flips⟩

example : TriC (false, false) (2 ^ 3) (7/3 : ℚ) (5/2) := by simp only [TriC]; norm_num

end A5.C18
