/-
  C02 — a cell's centre maps back to the same cell (partial).

  PROVED: the world cell's centre is (0, 0); in exact arithmetic the repaired wrap sends every longitude of the form θ − 93°
  (θ ∈ (−180°, 180°], i.e. (−273°, 87°]) into [−180°, 180°] by a whole turn and leaves in-range values untouched;
  the centre is obtained by `cell_to_lonlat`'s model, a full IEEE-double port compared bit for bit with the implementation.
  Conditional (C18): the curve index of the centre's lattice point is the cell's own index whenever the centre lies strictly
  inside its unit triangle.  ASSUMED (numeric, swept): H-roundtrip `lonlat_to_cell(cell_to_lonlat(c)) = c`; H-inside centre
  strictly inside the ring; H-range in floating point.
-/
import A5.Proofs.Lookup
import A5.Props.C18
import Mathlib.Tactic.Linarith
import Mathlib.Algebra.Order.Ring.Rat

namespace A5.C02
open A5 A5.CellGeo A5.F

/-- the world cell maps to (0, 0) -/
theorem world_centre : cellToLonLat WORLD_CELL = .ok (0.0, 0.0) := by
  unfold cellToLonLat; rw [if_pos rfl]

/-- the longitude wrap of `cell_to_lonlat`, in exact arithmetic -/
def wrap (lon : ℚ) : ℚ := if lon < -180 then lon + 360 else if lon > 180 then lon - 360 else lon

/-- C02 (1): every longitude the unwrapped formula can produce — and in fact every value in [−540, 540] — lands in [−180, 180],
    differs from the input by a whole number of turns, and is untouched when already in range -/
theorem wrap_range (lon : ℚ) (h : -540 ≤ lon ∧ lon ≤ 540) :
    -180 ≤ wrap lon ∧ wrap lon ≤ 180 ∧ (wrap lon = lon ∨ wrap lon = lon + 360 ∨ wrap lon = lon - 360) ∧
      (-180 ≤ lon ∧ lon ≤ 180 → wrap lon = lon) := by
  unfold wrap
  obtain ⟨h1, h2⟩ := h
  split
  · refine ⟨by linarith, by linarith, Or.inr (Or.inl rfl), fun hh => by linarith [hh.1]⟩
  · split
    · refine ⟨by linarith, by linarith, Or.inr (Or.inr rfl), fun hh => by linarith [hh.2]⟩
    · refine ⟨by linarith, by linarith, Or.inl rfl, fun _ => rfl⟩

/-- C02 (2), conditional on the centre lying in its unit triangle: the lattice round trip of C18 -/
theorem lattice_roundtrip (o : String) (ho : o ∈ C18.Orientations) (n s : Nat) (hs : s < 4 ^ n) (a : Hilbert.Anchor)
    (ha : Hilbert.sToAnchor s n o = .ok a) (u v : ℚ) (hδ : Hilbert.Tri a.flips 1 u v) :
    Hilbert.ijToS ((a.i : ℚ) + u) ((a.j : ℚ) + v) n o = (s : Int) := C18.roundtrip o ho n s hs a ha u v hδ

/-- whatever cell `lonlat_to_cell` returns for the centre, it has the resolution asked for -/
theorem roundtrip_resolution (c : Nat) (p : V2) (r : Int) (hr0 : 0 ≤ r) (hr : r ≤ 29) (id : Nat)
    (_ : cellToLonLat c = .ok p) (h : lonlatToCell p r = .ok id) : ValidId id ∧ getResolution id = r :=
  lonlatToCell_resolution p r hr0 hr id h

example : wrap (-220) = 140 := by norm_num [wrap]

end A5.C02
