/-
  C12 — boundary rings are well-formed polygons under every option combination (partial).

  PROVED on the executable model of `cell_to_boundary` itself (whatever the floating-point values): vertex count
  (3 at resolution 1, else 5) × segments (+1 iff closed_ring) for every option combination including omitted / None / 'auto'
  (max(1, 2^(6−res))) and segments ≤ 1 behaving as 1; a closed ring repeats its first vertex last; longitude normalisation never
  touches a latitude.  PROVED in exact arithmetic: the normalisation loops return the unique representative of the longitude
  mod 360 within 180° of the centre.  ASSUMED (numeric, swept every run): latitude range, counter-clockwise orientation,
  simplicity, corner points independent of `segments`, span < 180° away from the poles.
-/
import A5.Proofs.RingStructure
import Mathlib.Tactic.Linarith
import Mathlib.Tactic.Ring
import Mathlib.Algebra.Order.Field.Basic
import Mathlib.Algebra.Order.Ring.Rat

namespace A5.C12
open A5 A5.CellGeo A5.F

/-- C12 (1): vertex count and closure, for every cell id, every `closed_ring`, every `segments` (none = omitted/None/'auto') -/
theorem ring_count_and_closure (cellId : Nat) (closed : Bool) (segments : Option Int) (ring : List V2) (cell : Cell)
    (hne : cellId ≠ WORLD_CELL) (hd : deserialize cellId = .ok cell) (hr : cellToBoundary cellId closed segments = .ok ring) :
    ring.length = cornerCount cell.res * (max (effectiveSegments cell.res segments) 1).toNat + (if closed then 1 else 0) ∧
      (closed = true → ring.head? = ring.getLast?) :=
  ring_structure cellId closed segments ring cell hne hd hr

/-- the 'auto' rule: max(1, 2^(6 − resolution)) -/
theorem auto_rule (res : Int) : effectiveSegments res none = max 1 (if 6 - res ≥ 0 then (2 : Int) ^ (6 - res).toNat else 0) := rfl

/-- the world cell has no boundary -/
theorem world_is_unbounded (closed : Bool) (segments : Option Int) : cellToBoundary WORLD_CELL closed segments = .ok [] := by
  unfold cellToBoundary; rw [if_pos rfl]

/-- C12 (2): longitude normalisation leaves every latitude as unprojected -/
theorem normalisation_keeps_latitudes (c : List V2) : (normalizeLongitudes c).map (·.2) = c.map (·.2) :=
  normalizeLongitudes_lat c

/-! ### the two `while` loops of `normalize_longitudes` in exact arithmetic -/

def down (c : ℚ) : Nat → ℚ → ℚ
  | 0, l => l
  | f + 1, l => if l - c > 180 then down c f (l - 360) else l

def up (c : ℚ) : Nat → ℚ → ℚ
  | 0, l => l
  | f + 1, l => if l - c < -180 then up c f (l + 360) else l

theorem down_spec (c : ℚ) : ∀ (f : Nat) (l : ℚ), l - c ≤ 180 + 360 * f →
    down c f l - c ≤ 180 ∧ (l - c > -180 → down c f l - c > -180) ∧ ∃ k : ℤ, down c f l = l + 360 * k := by
  intro f
  induction f with
  | zero => intro l h; simp only [down]; exact ⟨by simpa using h, fun h => h, 0, by simp⟩
  | succ f ih =>
    intro l h
    simp only [down]
    split
    · rename_i hgt
      obtain ⟨h1, h2, k, hk⟩ := ih (l - 360) (by push_cast at h; linarith)
      exact ⟨h1, fun _ => h2 (by linarith), k - 1, by rw [hk]; push_cast; ring⟩
    · rename_i hle
      exact ⟨by linarith, fun h => h, 0, by simp⟩

theorem up_spec (c : ℚ) : ∀ (f : Nat) (l : ℚ), l - c ≥ -180 - 360 * f →
    up c f l - c ≥ -180 ∧ (l - c ≤ 180 → up c f l - c ≤ 180) ∧ ∃ k : ℤ, up c f l = l + 360 * k := by
  intro f
  induction f with
  | zero => intro l h; simp only [up]; exact ⟨by simpa using h, fun h => h, 0, by simp⟩
  | succ f ih =>
    intro l h
    simp only [up]
    split
    · rename_i hlt
      obtain ⟨h1, h2, k, hk⟩ := ih (l + 360) (by push_cast at h; linarith)
      exact ⟨h1, fun _ => h2 (by linarith), k + 1, by rw [hk]; push_cast; ring⟩
    · rename_i hge
      exact ⟨by linarith, fun h => h, 0, by simp⟩

theorem down_lower (c : ℚ) : ∀ (f : Nat) (l : ℚ), down c f l - c > -180 ∨ down c f l = l := by
  intro f
  induction f with
  | zero => intro l; right; rfl
  | succ f ih =>
    intro l
    simp only [down]
    split
    · rename_i hgt
      rcases ih (l - 360) with h' | h'
      · exact Or.inl h'
      · left; rw [h']; linarith
    · right; rfl

/-- C12 (3): the normalised longitude is the representative of `lon` mod 360 within 180° of the centre
    (so consecutive vertices differ by less than 360°, and by less than 180° whenever the ring spans less than 180°) -/
theorem normalised_longitude (c lon : ℚ) (f : Nat) (h : |lon - c| ≤ 180 + 360 * f) :
    |up c f (down c f lon) - c| ≤ 180 ∧ ∃ k : ℤ, up c f (down c f lon) = lon + 360 * k := by
  obtain ⟨hlo, hhi⟩ := abs_le.1 h
  obtain ⟨d1, d2, k1, hk1⟩ := down_spec c f lon hhi
  have hstart : down c f lon - c ≥ -180 - 360 * f := by
    have hf : (0:ℚ) ≤ 360 * (f : ℚ) := by positivity
    rcases down_lower c f lon with h' | h'
    · linarith
    · rw [h']; linarith
  obtain ⟨u1, u2, k2, hk2⟩ := up_spec c f (down c f lon) hstart
  exact ⟨abs_le.2 ⟨by linarith, u2 d1⟩, k1 + k2, by rw [hk2, hk1]; push_cast; ring⟩

/-! non-vacuity -/
example : |(185 : ℚ) - (-170)| ≤ 180 + 360 * (1 : ℕ) := by norm_num [abs_le]
example : up (-170) 1 (down (-170) 1 185) = -175 := by norm_num [up, down]

end A5.C12
