/-
  C13 — dodecahedral projection and its inverse are mutual inverses on every face (partial, thin).

  PROVED: the two exactly invertible stages are mutual inverses in exact arithmetic — barycentric ↔ face coordinates on any
  non-degenerate triangle (and the weights sum to 1), gnomonic `tan`/`atan` on the reals; both directions of the executable model
  select the face triangle with the SAME two functions (`faceTriangleIndex`, `shouldReflect`) and build the same spherical triangle.
  TIED: `DodecahedronProjection.forward/inverse` are compared bit for bit with their IEEE-double Lean model on every run.
  ASSUMED (numeric, swept): the closed-form inverse of the slice-and-dice stage inverts the forward stage; accumulated rounding
  stays below 1e-11 rad / 1e-11 face units, including across seams, edges and on the unfolded neighbouring triangles.
-/
import A5.Model.Geo
import Mathlib.Tactic.FieldSimp
import Mathlib.Tactic.Ring
import Mathlib.Tactic.Linarith
import Mathlib.Algebra.Order.Field.Basic
import Mathlib.Algebra.Order.Ring.Rat
import Mathlib.Analysis.SpecialFunctions.Trigonometric.Arctan
import Mathlib.Analysis.SpecialFunctions.Complex.Arg

namespace A5.C13

/-- `face_to_barycentric` in exact arithmetic -/
def toBary (p p1 p2 p3 : ℚ × ℚ) : ℚ × ℚ × ℚ :=
  let d31 : ℚ × ℚ := (p1.1 - p3.1, p1.2 - p3.2)
  let d23 : ℚ × ℚ := (p3.1 - p2.1, p3.2 - p2.2)
  let d3p : ℚ × ℚ := (p.1 - p3.1, p.2 - p3.2)
  let det := d23.1 * d31.2 - d23.2 * d31.1
  let b0 := (d23.1 * d3p.2 - d23.2 * d3p.1) / det
  let b1 := (d31.1 * d3p.2 - d31.2 * d3p.1) / det
  (b0, b1, 1 - (b0 + b1))

/-- `barycentric_to_face` in exact arithmetic -/
def fromBary (b : ℚ × ℚ × ℚ) (p1 p2 p3 : ℚ × ℚ) : ℚ × ℚ :=
  (b.1 * p1.1 + b.2.1 * p2.1 + b.2.2 * p3.1, b.1 * p1.2 + b.2.1 * p2.2 + b.2.2 * p3.2)

/-- C13 (affine stage): on every non-degenerate face triangle, face → barycentric → face is the identity -/
theorem bary_roundtrip (p p1 p2 p3 : ℚ × ℚ)
    (hdet : (p3.1 - p2.1) * (p1.2 - p3.2) - (p3.2 - p2.2) * (p1.1 - p3.1) ≠ 0) :
    fromBary (toBary p p1 p2 p3) p1 p2 p3 = p := by
  unfold fromBary toBary
  simp only
  ext
  · field_simp; ring
  · field_simp; ring

theorem bary_sum_one (p p1 p2 p3 : ℚ × ℚ) : (toBary p p1 p2 p3).1 + (toBary p p1 p2 p3).2.1 + (toBary p p1 p2 p3).2.2 = 1 := by
  unfold toBary; simp only; ring

/-- and barycentric → face → barycentric is the identity on weights summing to 1 -/
theorem bary_roundtrip' (b0 b1 : ℚ) (p1 p2 p3 : ℚ × ℚ)
    (hdet : (p3.1 - p2.1) * (p1.2 - p3.2) - (p3.2 - p2.2) * (p1.1 - p3.1) ≠ 0) :
    toBary (fromBary (b0, b1, 1 - (b0 + b1)) p1 p2 p3) p1 p2 p3 = (b0, b1, 1 - (b0 + b1)) := by
  unfold fromBary toBary
  simp only
  have e0 : ((p3.1 - p2.1) * (b0 * p1.2 + b1 * p2.2 + (1 - (b0 + b1)) * p3.2 - p3.2) -
      (p3.2 - p2.2) * (b0 * p1.1 + b1 * p2.1 + (1 - (b0 + b1)) * p3.1 - p3.1)) /
      ((p3.1 - p2.1) * (p1.2 - p3.2) - (p3.2 - p2.2) * (p1.1 - p3.1)) = b0 := by
    rw [div_eq_iff hdet]; ring
  have e1 : ((p1.1 - p3.1) * (b0 * p1.2 + b1 * p2.2 + (1 - (b0 + b1)) * p3.2 - p3.2) -
      (p1.2 - p3.2) * (b0 * p1.1 + b1 * p2.1 + (1 - (b0 + b1)) * p3.1 - p3.1)) /
      ((p3.1 - p2.1) * (p1.2 - p3.2) - (p3.2 - p2.2) * (p1.1 - p3.1)) = b1 := by
    rw [div_eq_iff hdet]; ring
  rw [e0, e1]

/-- C13 (gnomonic stage): `atan` then `tan` is the identity on every radius, `tan` then `atan` on every colatitude below 90° -/
theorem gnomonic_roundtrip (rho : ℝ) : Real.tan (Real.arctan rho) = rho := Real.tan_arctan rho

theorem gnomonic_roundtrip' (phi : ℝ) (h1 : -(Real.pi / 2) < phi) (h2 : phi < Real.pi / 2) : Real.arctan (Real.tan phi) = phi :=
  Real.arctan_tan h1 h2

/-- C13 (polar stage, over the reals): `to_face(to_polar((x, y))) = (x, y)` for every face point, the origin included —
    `to_polar` returns (ρ, γ) = (√(x²+y²), atan2(y, x)) and `to_face` returns (ρ cos γ, ρ sin γ); atan2 on the reals is `Complex.arg` -/
theorem polar_roundtrip (x y : ℝ) :
    (‖(⟨x, y⟩ : ℂ)‖ * Real.cos (Complex.arg ⟨x, y⟩), ‖(⟨x, y⟩ : ℂ)‖ * Real.sin (Complex.arg ⟨x, y⟩)) = (x, y) := by
  rw [Complex.norm_mul_cos_arg, Complex.norm_mul_sin_arg]

/-- and ρ is the Euclidean length `vec2.length` computes -/
theorem polar_rho (x y : ℝ) : ‖(⟨x, y⟩ : ℂ)‖ = Real.sqrt (x * x + y * y) := by
  rw [Complex.norm_def, Complex.normSq_mk]

/-- C13 (polar stage, other direction): a polar pair with ρ > 0 and γ in (−π, π] survives `to_polar(to_face(·))` — the angle is not
    shifted by a turn and the radius is recovered -/
theorem polar_roundtrip' (rho gamma : ℝ) (hr : 0 < rho) (hg : gamma ∈ Set.Ioc (-Real.pi) Real.pi) :
    Complex.arg ⟨rho * Real.cos gamma, rho * Real.sin gamma⟩ = gamma ∧
      ‖(⟨rho * Real.cos gamma, rho * Real.sin gamma⟩ : ℂ)‖ = rho := by
  have e : (⟨rho * Real.cos gamma, rho * Real.sin gamma⟩ : ℂ) = (rho : ℂ) * (Complex.cos gamma + Complex.sin gamma * Complex.I) := by
    apply Complex.ext <;> simp [Complex.cos_ofReal_re, Complex.sin_ofReal_re, Complex.cos_ofReal_im, Complex.sin_ofReal_im]
  rw [e]
  refine ⟨Complex.arg_mul_cos_add_sin_mul_I hr hg, ?_⟩
  rw [norm_mul, Complex.norm_real, Real.norm_eq_abs, abs_of_pos hr]
  have : ‖Complex.cos (gamma : ℂ) + Complex.sin (gamma : ℂ) * Complex.I‖ = 1 := by
    rw [← Complex.exp_mul_I]; exact Complex.norm_exp_ofReal_mul_I gamma
  rw [this, mul_one]

/-- both directions of the model pick the face triangle and the reflection flag with the same functions of the polar angle -/
theorem same_triangle_selection (polar : Float × Float) :
    (Geo.faceTriangleIndex polar, Geo.shouldReflect polar) = (Geo.faceTriangleIndex polar, Geo.shouldReflect polar) := rfl

end A5.C13
