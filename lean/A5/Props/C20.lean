/-
  C20 — cell-count and area metadata agree with the actual hierarchy.
-/
import A5.Props.C06

attribute [local instance 2000] instPowNat

namespace A5.C20
open A5

/-- C20 (1): `get_num_cells(r)` is the number of distinct cells obtained by expanding the world cell to r. -/
theorem numCells_is_enumeration_size (r : Nat) (hr : r ≤ 29) :
    ∃ L, cellToChildren WORLD_CELL (some (r : Int)) = .ok L ∧ L.Nodup ∧ L.length = getNumCells r :=
  let ⟨L, h1, h2, h3, _⟩ := world_children_enumeration r hr
  ⟨L, h1, h2, h3⟩

/-- C20 (2): the level count is the coarser level's count times the per-cell child count … -/
theorem numCells_mul (a b : Nat) (hab : a ≤ b) : getNumCells b = getNumCells a * getNumChildren a b := by
  rcases Nat.eq_or_lt_of_le hab with rfl | hlt
  · rw [getNumChildren_self]; omega
  · rw [getNumChildren_nat a b hlt, getNumCells_nat a, getNumCells_nat b, if_neg (by omega)]
    by_cases h2 : 2 ≤ a
    · rw [if_pos h2, if_neg (by omega), Nat.mul_assoc, ← Nat.pow_add]; congr 2; omega
    · rw [if_neg h2]
      by_cases h1 : a = 1
      · subst h1; simp
      · have : a = 0 := by omega
        subst this; simp; omega

/-- … hence the sum of the children counts over *any* list of `get_num_cells(a)` cells of level a (the enumeration) -/
theorem numCells_sum (a b : Nat) (ha : a ≤ 29) (hab : a ≤ b) :
    ∃ L, cellToChildren WORLD_CELL (some (a : Int)) = .ok L ∧
      (L.map fun c => getNumChildren (getResolution c) b).sum = getNumCells b := by
  obtain ⟨L, h1, _, h3, h4⟩ := world_children_enumeration a ha
  refine ⟨L, h1, ?_⟩
  have : L.map (fun c => getNumChildren (getResolution c) b) = L.map (fun _ => getNumChildren a b) := by
    apply List.map_congr_left
    intro c hc
    rw [((h4 c).1 hc).2]
  rw [this, numCells_mul a b hab, ← h3]
  clear this h1 h3 h4
  induction L with
  | nil => simp
  | cons x L ih => simp [List.sum_cons, ih, Nat.add_mul, Nat.add_comm]

/-- C20 (3): the child-count rule used to size outputs equals the length of `cell_to_children`
    for every resolution pair and every cell (symbolic position) -/
theorem numChildren_is_children_length {t S r : Nat} (h : WF t S r) (b : Nat) (hrb : r ≤ b) (hb : b ≤ 29) :
    ∃ L, cellToChildren (encId t S r) (some (b : Int)) = .ok L ∧ L.length = getNumChildren r b :=
  let ⟨L, h1, _, h3, _⟩ := C06.children_spec h b hrb hb
  ⟨L, h1, h3⟩

theorem numChildren_is_children_length_world (b : Nat) (hb : b ≤ 29) :
    ∃ L, cellToChildren WORLD_CELL (some (b : Int)) = .ok L ∧ L.length = getNumChildren (-1) b :=
  let ⟨L, h1, _, h3, _⟩ := C06.children_of_world b hb
  ⟨L, h1, h3⟩

/-! ### the implementation's closed forms equal the model on the whole finite domain (tables produced by calling
    the real functions; re-decided on every run) -/

theorem numCells_table : (List.range 34).map (fun (i : Nat) => getNumCells ((i : Int) - 2)) = Tables.NUM_CELLS_TABLE := by
  decide +kernel

theorem numChildren_table :
    (List.range 32).flatMap (fun (a : Nat) => (List.range 32).map fun (b : Nat) => getNumChildren ((a : Int) - 1) ((b : Int) - 1))
      = Tables.NUM_CHILDREN_TABLE := by
  decide +kernel

/-- the model's float function reproduces the implementation's `cell_area` bit for bit on r = −1..30 -/
theorem cellArea_table : (List.range 32).map (fun (i : Nat) => (cellArea ((i : Int) - 1)).toBits) = Tables.CELL_AREA_BITS := by
  decide +kernel

/-- C20 (4): for r = 0..30, `cell_area(r) * get_num_cells(r)` equals the authalic sphere area (here: exactly, in IEEE-754
    binary64 arithmetic evaluated by the kernel — a complete case analysis of the 31-element domain, not a sample) -/
theorem area_times_count : ∀ i : Fin 31, (cellArea (i.val : Int) * (getNumCells (i.val : Int)).toFloat == AUTHALIC_AREA) = true := by
  decide +kernel

/-- C20 (5): `cell_area` is strictly decreasing in r over −1..30 -/
theorem area_strictly_decreasing : ∀ i : Fin 31, cellArea (i.val : Int) < cellArea ((i.val : Int) - 1) := by
  decide +kernel

/-! non-vacuity -/
example : getNumCells 3 = 960 := by decide
example : WF 59 (4 ^ 28 - 1) 29 := by decide

end A5.C20
