/-
  C16 — results do not depend on what other threads are doing.

  What is proved (for every schedule, any number of threads, any history): a call that touches shared state only through
  the memo discipline — lazily filled slots holding a function of their key, an inert counter, read-only tables — returns its
  single-threaded value under ARBITRARY interference by other such calls.  That the library's code is in this class is not a
  theorem: it is checked on every run (static inventory of shared mutable objects + runtime proxies on the caches), see DESIGN.md.
  The pinned tree was NOT in the class (module-level scratch vectors): `scratch_not_safe` is the witness schedule.
-/
import A5.Proofs.EffectsProof

namespace A5.C16
open A5.Effects

variable {Slot Val Reg : Type} [DecidableEq Slot] [DecidableEq Reg]

/-- C16: under every interleaving with other calls (modelled as: before each atomic step the shared store may be replaced by
    any store satisfying the cache invariant) a disciplined call returns its sequential denotation and keeps the invariant. -/
theorem interference_free (f : Slot → Val) {α : Type} (p : Prog Slot Val Reg α) (d : α) (hd : Disc f p d)
    (σ : Store Slot Val Reg) (a : α) (σ' : Store Slot Val Reg) (hrun : Runs f p σ a σ') (hinv : Inv f σ) :
    a = d ∧ Inv f σ' :=
  disc_stable f p d hd σ a σ' hrun hinv

/-- the lazily filled cache pattern used by the projection caches is disciplined -/
theorem memo_is_disciplined (f : Slot → Val) (s : Slot) (compute : Prog Slot Val Reg Val) (hc : Disc f compute (f s)) :
    Disc f (memo s compute) (f s) := memo_disc f s compute hc

/-- sequencing disciplined programs is disciplined -/
theorem bind_is_disciplined (f : Slot → Val) {α β : Type} (p : Prog Slot Val Reg α) (d : α) (hp : Disc f p d)
    (k : α → Prog Slot Val Reg β) (e : β) (hk : Disc f (k d) e) : Disc f (p.bind k) e := Disc.bind f p d hp k e hk

/-- the defect of the pinned tree, as a schedule: a value parked in a shared scratch register comes back as whatever another
    thread wrote there in between — any value `y` is a possible result -/
theorem scratch_not_safe (f : Slot → Val) (r : Reg) (x y : Val) (σ : Store Slot Val Reg) (hσ : Inv f σ) :
    ∃ σ', Runs f (scratchRoundTrip (Slot := Slot) r x) σ y σ' := scratch_breaks f r x y σ hσ

/-! non-vacuity: a concrete disciplined program over Nat slots (`f s = s * s`) -/
example : Disc (Reg := Unit) (fun s : Nat => s * s) (memo (Slot := Nat) (Val := Nat) 7 (.ret 49)) 49 :=
  memo_disc (fun s : Nat => s * s) 7 (.ret 49) (Disc.ret 49)

end A5.C16
