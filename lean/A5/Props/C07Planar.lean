/-
  C07 — planar coherence of the hierarchy, proved for EVERY level, every index, all six orientations, unbounded depth (exact arithmetic on
  the exact values of the implementation's double constants):

    * `one_step`: the centroid of the planar pentagon of index s at Hilbert level n+1 lies within 0.46 parent widths of the centroid of
      the pentagon of index s/4 at level n (width² = planar area of the parent cell);
    * `planar_coherence`: hence the centroid of any descendant, at any depth m, lies within 0.92 widths of its level-n₀ ancestor's.

  The objects are the model's own `sToAnchor` (= `s_to_anchor`) and `Planar.place` (= `get_pentagon_vertices`), the functions the Float
  model runs and that are compared bit for bit with the implementation on every run.  What remains assumed for C07 is only the passage
  from the face plane to the sphere (the projection's distance distortion at cell scale, measured ≤ 1.53) and the levels below the curve
  (resolutions −1, 0, 1).
-/
import A5.Proofs.DriftStep
import A5.Props.C18
import Mathlib.Analysis.Complex.Norm

namespace A5.C07
open A5 A5.Hilbert A5.Planar

/-- the quintant frame before rotation -/
def idRot : ℚ × ℚ × ℚ × ℚ := (1, 0, 0, 1)

/-- planar centroid of the cell with curve index s at Hilbert level n, orientation o -/
def centre (o : String) (n s : Nat) : ℚ × ℚ :=
  match sToAnchor s n o with
  | .ok a => cen (place baseQ basisQ slQ srQ idRot n a)
  | .error _ => (0, 0)

/-- C07 (one level): at every level n ≥ 1, for every index and orientation, parent → child moves the centroid by at most 0.46 parent widths -/
theorem one_step (o : String) (ho : o ∈ C18.Orientations) (n : Nat) (hn : 0 < n) (s : Nat) (hs : s < 4 ^ (n + 1)) :
    normsq ((centre o (n + 1) s).1 - (centre o n (s / 4)).1, (centre o (n + 1) s).2 - (centre o n (s / 4)).2)
      ≤ kappa2 * unitArea / 4 ^ n := by
  obtain ⟨ac, hc⟩ := C18.anchor_total o (n + 1) s
  obtain ⟨ap, hp⟩ := C18.anchor_total o n (s / 4)
  obtain ⟨δ, hδ, h⟩ := step_flags o (C18.never_both o ho) n hn s hs ac ap hc hp
  obtain ⟨h1, h2⟩ := h idRot
  simp only [centre, hc, hp]
  rw [h1, h2]
  simp only [applyMat, idRot, sc_mul, sc_add, normsq] at hδ ⊢
  have hp2 : (0:ℚ) < 2 ^ n := by positivity
  have e : (1 * (δ.1 / 2 ^ n) + 0 * (δ.2 / 2 ^ n)) ^ 2 + (0 * (δ.1 / 2 ^ n) + 1 * (δ.2 / 2 ^ n)) ^ 2 = (δ.1 ^ 2 + δ.2 ^ 2) / 4 ^ n := by
    have : (4:ℚ) ^ n = 2 ^ n * 2 ^ n := by rw [← mul_pow]; norm_num
    rw [this]; field_simp; ring
  rw [e]
  exact div_le_div_of_nonneg_right hδ (by positivity)

/-- a planar point as a complex number (for the Euclidean norm) -/
noncomputable def toC (v : ℚ × ℚ) : ℂ := ⟨(v.1 : ℝ), (v.2 : ℝ)⟩

theorem norm_toC_sub (a b : ℚ × ℚ) (B : ℚ) (_hB : 0 ≤ B) (h : normsq (a.1 - b.1, a.2 - b.2) ≤ B) :
    ‖toC a - toC b‖ ≤ Real.sqrt (B : ℝ) := by
  rw [Complex.norm_def]
  apply Real.sqrt_le_sqrt
  simp only [toC, Complex.normSq_apply, Complex.sub_re, Complex.sub_im]
  have : (((a.1 - b.1) ^ 2 + (a.2 - b.2) ^ 2 : ℚ) : ℝ) ≤ (B : ℝ) := by exact_mod_cast h
  push_cast at this
  nlinarith [this]

theorem unitArea_pos : 0 < unitArea := by decide +kernel

/-- C07 (any depth): the centroid of the cell of index s at level n₀+m lies within 2·0.46·(1 − 2^−m) widths of the centroid of its
    level-n₀ ancestor (index s / 4^m), the width being √(planar area) of the ancestor -/
theorem planar_coherence (o : String) (ho : o ∈ C18.Orientations) (n₀ : Nat) (hn : 0 < n₀) (m : Nat) :
    ∀ s, s < 4 ^ (n₀ + m) →
      ‖toC (centre o (n₀ + m) s) - toC (centre o n₀ (s / 4 ^ m))‖
        ≤ 2 * (46 / 100) * (Real.sqrt (unitArea : ℝ) / 2 ^ n₀) * (1 - 1 / 2 ^ m) := by
  induction m with
  | zero => intro s _; simp
  | succ m ih =>
    intro s hs
    have hs4 : s / 4 < 4 ^ (n₀ + m) := by
      rw [show n₀ + (m + 1) = (n₀ + m) + 1 by ring, Nat.pow_succ] at hs; omega
    have ih' := ih (s / 4) hs4
    rw [Nat.div_div_eq_div_mul, show 4 * 4 ^ m = 4 ^ (m + 1) by rw [Nat.pow_succ]; ring] at ih'
    have hstep := one_step o ho (n₀ + m) (by omega) s (by rw [show n₀ + m + 1 = n₀ + (m + 1) by ring]; exact hs)
    have hB : (0:ℚ) ≤ kappa2 * unitArea / 4 ^ (n₀ + m) := by
      have := unitArea_pos
      unfold kappa2; positivity
    have hn1 := norm_toC_sub _ _ _ hB hstep
    have hsqrt : Real.sqrt ((kappa2 * unitArea / 4 ^ (n₀ + m) : ℚ) : ℝ) = (46 / 100) * (Real.sqrt (unitArea : ℝ) / 2 ^ n₀) / 2 ^ m := by
      have h4 : ((4:ℝ) ^ (n₀ + m)) = (2 ^ n₀ * 2 ^ m) ^ 2 := by
        rw [← pow_add, ← pow_mul, pow_mul', show (2:ℝ) ^ 2 = 4 by norm_num]
      push_cast
      unfold kappa2
      push_cast
      rw [h4, show ((46:ℝ) / 100) ^ 2 * (unitArea : ℝ) / (2 ^ n₀ * 2 ^ m) ^ 2 = ((46 / 100) / (2 ^ n₀ * 2 ^ m)) ^ 2 * (unitArea : ℝ) by ring]
      rw [Real.sqrt_mul (by positivity), Real.sqrt_sq (by positivity)]
      field_simp
    rw [hsqrt] at hn1
    have tri : ‖toC (centre o (n₀ + (m + 1)) s) - toC (centre o n₀ (s / 4 ^ (m + 1)))‖
        ≤ ‖toC (centre o (n₀ + m + 1) s) - toC (centre o (n₀ + m) (s / 4))‖
          + ‖toC (centre o (n₀ + m) (s / 4)) - toC (centre o n₀ (s / 4 ^ (m + 1)))‖ := by
      rw [show n₀ + (m + 1) = n₀ + m + 1 by ring]
      exact norm_sub_le_norm_sub_add_norm_sub _ _ _
    have hW : (0:ℝ) ≤ Real.sqrt (unitArea : ℝ) / 2 ^ n₀ := by positivity
    have e : 2 * (46 / 100) * (Real.sqrt (unitArea : ℝ) / 2 ^ n₀) * (1 - 1 / 2 ^ (m + 1))
        = (46 / 100) * (Real.sqrt (unitArea : ℝ) / 2 ^ n₀) / 2 ^ m + 2 * (46 / 100) * (Real.sqrt (unitArea : ℝ) / 2 ^ n₀) * (1 - 1 / 2 ^ m) := by
      rw [pow_succ]; field_simp; ring
    rw [e]
    linarith

/-- C07 planar bound in plain words: any descendant's centroid is within 0.92 widths of its ancestor's centroid -/
theorem planar_coherence_092 (o : String) (ho : o ∈ C18.Orientations) (n₀ : Nat) (hn : 0 < n₀) (m s : Nat) (hs : s < 4 ^ (n₀ + m)) :
    ‖toC (centre o (n₀ + m) s) - toC (centre o n₀ (s / 4 ^ m))‖ ≤ (92 / 100) * (Real.sqrt (unitArea : ℝ) / 2 ^ n₀) := by
  have h := planar_coherence o ho n₀ hn m s hs
  have hW : (0:ℝ) ≤ Real.sqrt (unitArea : ℝ) / 2 ^ n₀ := by positivity
  have h1 : (0:ℝ) < 1 / 2 ^ m := by positivity
  nlinarith [mul_nonneg hW (le_of_lt h1)]

/-- the width used above is the square root of the planar area of the ancestor's pentagon (cf. `C04.planar_area_value`) -/
theorem width_is_sqrt_area (n₀ : Nat) : (Real.sqrt (unitArea : ℝ) / 2 ^ n₀) ^ 2 = (unitArea : ℝ) / 4 ^ n₀ := by
  have : (0:ℝ) ≤ (unitArea : ℝ) := by exact_mod_cast le_of_lt unitArea_pos
  rw [div_pow, Real.sq_sqrt this, ← pow_mul, mul_comm, pow_mul]; norm_num

/-! non-vacuity: a concrete index, all hypotheses met -/
example : "vw" ∈ C18.Orientations ∧ 0 < 3 ∧ 2741 < 4 ^ (3 + 3) := by decide

end A5.C07
