/-
  C04 — all cells of a resolution have equal area (partial).

  PROVED (exact arithmetic, about `Planar.place` — the function the executable model runs for `get_pentagon_vertices`): the planar
  shoelace area of every cell's polygon is the base pentagon's area divided by 4^level, for every anchor (offset, flips, k), i.e.
  independent of where the cell lies; the base pentagon, the lattice triangle and |det BASIS| have the same area (kernel-evaluated
  IEEE arithmetic on the extracted constants: bit-identical); there are get_num_cells(r) cells (C20).
  ASSUMED (C14, numeric): the face projection multiplies planar area by one global constant; edges resolved by `segments`.
-/
import A5.Proofs.Congruence
import A5.Model.CellGeo

namespace A5.C04
open A5 A5.Planar

/-- C04 (planar): equal planar area of all cells of a level, wherever they are -/
theorem planar_area_uniform (base : List (ℚ × ℚ)) (hb : base.length = 5) (basis : ℚ × ℚ × ℚ × ℚ) (sl sr : ℚ × ℚ) (rot : ℚ × ℚ × ℚ × ℚ)
    (hdet : rot.1 * rot.2.2.2 - rot.2.1 * rot.2.2.1 = 1) (h : Nat) (a₁ a₂ : Hilbert.Anchor) :
    area (place base basis sl sr rot h a₁) = area (place base basis sl sr rot h a₂) := by
  rw [place_area base hb basis sl sr rot hdet h a₁, place_area base hb basis sl sr rot hdet h a₂]

/-- … and its value: base area / 4^level -/
theorem planar_area_value (base : List (ℚ × ℚ)) (hb : base.length = 5) (basis : ℚ × ℚ × ℚ × ℚ) (sl sr : ℚ × ℚ) (rot : ℚ × ℚ × ℚ × ℚ)
    (hdet : rot.1 * rot.2.2.2 - rot.2.1 * rot.2.2.1 = 1) (h : Nat) (a : Hilbert.Anchor) :
    area (place base basis sl sr rot h a) = area (mkShape base) / 4 ^ h :=
  place_area base hb basis sl sr rot hdet h a

/-- one pentagon per lattice triangle: the base pentagon, the base triangle and the lattice cell |det BASIS| have the same planar
    area — evaluated by the kernel in IEEE-754 arithmetic on the constants extracted from the source (bit-identical) -/
theorem base_areas_agree :
    (CellGeo.shapeArea CellGeo.pentagonBase == CellGeo.shapeArea CellGeo.triangleBase) = true ∧
    (CellGeo.shapeArea CellGeo.pentagonBase ==
      Float.abs (Geo.BS 0 * Geo.BS 3 - Geo.BS 1 * Geo.BS 2)) = true := by
  decide +kernel

/-- four children per parent: the level-(h+1) cells have a quarter of the level-h area -/
theorem quarter_per_level (base : List (ℚ × ℚ)) (hb : base.length = 5) (basis : ℚ × ℚ × ℚ × ℚ) (sl sr : ℚ × ℚ) (rot : ℚ × ℚ × ℚ × ℚ)
    (hdet : rot.1 * rot.2.2.2 - rot.2.1 * rot.2.2.1 = 1) (h : Nat) (a b : Hilbert.Anchor) :
    4 * area (place base basis sl sr rot (h + 1) b) = area (place base basis sl sr rot h a) := by
  rw [place_area base hb basis sl sr rot hdet (h + 1) b, place_area base hb basis sl sr rot hdet h a, pow_succ]
  have : (4:ℚ) ^ h ≠ 0 := by positivity
  field_simp

example : (1:ℚ) * 1 - 0 * 0 = 1 := by norm_num

end A5.C04
