/-
  Source-level tie for `uncompact` (C10): the translated two-pass implementation (sizes from `get_num_children`,
  pre-allocated list written by index) = the model, for every list of ids and every target.
-/
import A5.Proofs.SrcBridgeUncompact
import A5.Props.SrcTie.Tree
import A5.Props.C10

namespace A5.SrcTie
open A5 A5.Bridge

theorem tie_uncompact (cells : List Nat) (t : Int) :
    Src.compact.uncompact (cells.map Int.ofNat) t = (uncompact cells t).map (List.map Int.ofNat) := uncompact_eq cells t

/-- C10 (raise clause) about the translated source: one cell finer than the target and the call raises ValueError, whatever else is in the list -/
theorem uncompact_raises_of_source (cells : List Nat) (t : Int) (h : ∃ c ∈ cells, t < getResolution c) :
    Src.compact.uncompact (cells.map Int.ofNat) t = .error .value := by
  rw [tie_uncompact, C10.uncompact_raises cells t h]; rfl

/-- C10 (1) about the translated source: the output is the concatenation, in input order and with multiplicity, of the
    source's own `cell_to_children` blocks, and its length is the sum of the source's own `get_num_children` -/
theorem uncompact_spec_of_source (cells : List Nat) (t : Nat) (ht : t ≤ 29) (hv : ∀ c ∈ cells, ValidId c)
    (hres : ∀ c ∈ cells, getResolution c ≤ (t : Int)) :
    ∃ blocks : List (List Nat),
      List.Forall₂ (fun (c : Nat) (B : List Nat) => Src.serialization.cell_to_children ((c : Nat) : Int) (some (t : Int)) = .ok (B.map Int.ofNat)) cells blocks ∧
      Src.compact.uncompact (cells.map Int.ofNat) t = .ok (blocks.flatten.map Int.ofNat) ∧
      blocks.flatten.length = (cells.map fun c => getNumChildren (getResolution c) t).sum := by
  obtain ⟨blocks, h1, h2, h3, _⟩ := C10.uncompact_spec cells t ht hv hres
  refine ⟨blocks, ?_, ?_, h3⟩
  · have himp : ∀ (c : Nat) (B : List Nat), cellToChildren c (some (t : Int)) = .ok B →
        Src.serialization.cell_to_children (c : Int) (some (t : Int)) = .ok (B.map Int.ofNat) := by
      intro c B hcB
      rw [tie_cell_to_children, hcB]; rfl
    exact List.Forall₂.imp himp h1
  · rw [tie_uncompact, h2]; rfl

end A5.SrcTie
