/-
  Source-level tie for the hierarchy functions (C06, C20): `cell_to_children`, `cell_to_parent`, `get_res0_cells`,
  `get_num_children`, `is_first_child`, `get_stride` as translated from the current source = the model.
-/
import A5.Proofs.SrcBridgeLoops
import A5.Props.SrcTie.Codec
import A5.Props.C06

namespace A5.SrcTie
open A5 A5.Bridge

theorem tie_cell_to_children (index : Nat) (cr : Option Int) :
    Src.serialization.cell_to_children (index : Int) cr = (cellToChildren index cr).map (List.map Int.ofNat) :=
  cell_to_children_eq index cr

theorem tie_cell_to_parent (index : Nat) (pr : Option Int) :
    Src.serialization.cell_to_parent (index : Int) pr = (cellToParent index pr).map Int.ofNat := cell_to_parent_eq index pr

theorem tie_get_res0_cells : Src.serialization.get_res0_cells = getRes0Cells.map (List.map Int.ofNat) := by
  unfold Src.serialization.get_res0_cells getRes0Cells
  have h : (0 : Int) = ((A5.WORLD_CELL : Nat) : Int) := by decide
  exact h ▸ cell_to_children_eq A5.WORLD_CELL (some 0)

theorem tie_get_num_children (p c : Int) :
    Src.cell_info.get_num_children p c = .ok ((getNumChildren p c : Nat) : Int) := get_num_children_eq p c

theorem tie_is_first_child (index : Nat) (res : Option Int) :
    Src.serialization.is_first_child (index : Int) res = isFirstChild index res := is_first_child_eq index res

theorem tie_get_stride (r : Int) : Src.serialization.get_stride r = (getStride r).map Int.ofNat := get_stride_eq r

/-- C06 (1) about the translated source: the children list of a well-formed cell at a finer level is duplicate-free,
    has `get_num_children` entries (the source's own count) and consists exactly of the level-b ids whose parent is the cell -/
theorem children_spec_of_source {t S r : Nat} (h : WF t S r) (b : Nat) (hrb : r ≤ b) (hb : b ≤ 29) :
    ∃ L : List Nat, Src.serialization.cell_to_children (encId t S r : Nat) (some (b : Int)) = .ok (L.map Int.ofNat) ∧ L.Nodup ∧
      Src.cell_info.get_num_children r b = .ok (L.length : Int) ∧
      ∀ x : Nat, x ∈ L ↔ (ValidId x ∧ Src.serialization.get_resolution (x : Int) = .ok (b : Int) ∧
        Src.serialization.cell_to_parent (x : Int) (some (r : Int)) = .ok ((encId t S r : Nat) : Int)) := by
  obtain ⟨L, h1, h2, h3, h4⟩ := C06.children_spec h b hrb hb
  refine ⟨L, ?_, h2, ?_, ?_⟩
  · rw [tie_cell_to_children, h1]; rfl
  · rw [tie_get_num_children, h3]
  · intro x
    rw [h4 x, tie_get_resolution, tie_cell_to_parent]
    unfold C06.ParentIs
    constructor
    · rintro ⟨hv, hr, hp⟩
      exact ⟨hv, by rw [hr], by rw [hp]; rfl⟩
    · rintro ⟨hv, hr, hp⟩
      refine ⟨hv, by injection hr, ?_⟩
      cases hc : cellToParent x (some (r : Int)) with
      | error e => rw [hc] at hp; cases hp
      | ok p =>
        rw [hc] at hp
        have : (p : Int) = ((encId t S r : Nat) : Int) := by injection hp
        congr 1
        exact_mod_cast this

example : WF 7 2 3 := by decide

end A5.SrcTie
