/-
  Source-level tie for the id codec (C05): the Lean definitions regenerated from `a5/core/serialization.py` and
  `a5/core/cell_info.py` on every run (`A5/Gen/Src.lean`) are the model the property theorems are about —
  for *every* id and every cell record, not for a sample.  Consequences are restated directly about the translated source.
-/
import A5.Proofs.SrcBridge
import A5.Props.C05

namespace A5.SrcTie
open A5 A5.Bridge

/-- `get_resolution` as written in the source = the model's, for every non-negative id -/
theorem tie_get_resolution (index : Nat) :
    Src.serialization.get_resolution (index : Int) = .ok (getResolution index) := get_resolution_eq index

/-- `deserialize` as written in the source = the model's, for every non-negative id -/
theorem tie_deserialize (index : Nat) :
    Src.serialization.deserialize (index : Int) = (deserialize index).map cellOf := deserialize_eq index

/-- `serialize` as written in the source = the model's, for every record naming one of the 12 origins (any ints otherwise) -/
theorem tie_serialize (c : Cell) (ho : c.origin < 12) :
    Src.serialization.serialize (cellOf c) = (serialize c).map Int.ofNat := serialize_eq c ho

theorem tie_get_num_cells (r : Int) : Src.cell_info.get_num_cells r = .ok ((getNumCells r : Nat) : Int) := get_num_cells_eq r

/-- C05 (1) about the translated source: every well-formed cell of resolution 0..29 encodes to an id in [1, 2^64) from
    which the source's own `get_resolution` and `deserialize` recover the resolution and the cell. -/
theorem roundtrip_of_source (c : Cell) (h : C05.ValidUpTo 29 c) :
    ∃ n : Nat, Src.serialization.serialize (cellOf c) = .ok (n : Int) ∧ 1 ≤ n ∧ n < 2 ^ 64 ∧
      Src.serialization.get_resolution (n : Int) = .ok c.res ∧
      Src.serialization.deserialize (n : Int) = .ok (cellOf c.canon) := by
  obtain ⟨n, hs, h1, h2, hr, hd⟩ := C05.roundtrip_partial c h
  refine ⟨n, ?_, h1, h2, ?_, ?_⟩
  · rw [tie_serialize c h.1, hs]; rfl
  · rw [tie_get_resolution, hr]
  · rw [tie_deserialize, hd]; rfl

/-- the known finding, about the translated source: no record of resolution MAX_RESOLUTION = 30 can be encoded -/
theorem res30_of_source (o : Nat) (ho : o < 12) (sg S : Int) :
    Src.serialization.serialize { origin := (o : Int), segment := sg, S := S, resolution := Src.serialization.MAX_RESOLUTION }
      = .error .value := by
  have := tie_serialize { origin := o, segment := sg, S := S, res := MAXR } ho
  rw [C05.res30_unencodable] at this
  have hm : Src.serialization.MAX_RESOLUTION = MAXR := by decide
  rw [hm]
  exact this

/-- C05 (5) about the translated source: an id is only ever produced for a position that fits its resolution -/
theorem rejects_unfit_of_source (c : Cell) (ho : c.origin < 12) (n : Int)
    (h : Src.serialization.serialize (cellOf c) = .ok n) (hw : c.res ≠ -1) :
    0 ≤ c.S ∧ (c.res < 2 → c.S = 0) ∧ (2 ≤ c.res → c.S < 4 ^ (c.res - 1).toNat) := by
  rw [tie_serialize c ho] at h
  cases hs : serialize c with
  | error e => rw [hs] at h; cases h
  | ok m => exact C05.rejects_unfit_position c m hs hw

example : C05.ValidUpTo 29 { origin := 7, segment := 3, S := 123456789, res := 17 } := by
  refine ⟨by decide, by decide, by decide, by decide, ?_⟩
  show (123456789 : Int).toNat < npos (17 : Int).toNat
  unfold npos; simp

end A5.SrcTie
