/-
  Source-level tie for `compact` (C08, C09): the translated implementation — `sorted(set(cells), key=_hierarchical_key)`,
  the `while changed` loop, the index-based scan with `continue`/`break` — = the model, for every list of ids.
-/
import A5.Proofs.SrcBridgeCompact
import A5.Props.SrcTie.Tree
import A5.Props.C08
import A5.Props.C09

namespace A5.SrcTie
open A5 A5.Bridge

theorem tie_hierarchical_key (cell : Nat) :
    Src.compact._hierarchical_key (cell : Int) = .ok ((hierarchicalKey cell : Nat) : Int) := hierarchical_key_eq cell

theorem tie_compact (cells : List Nat) :
    Src.compact.compact (cells.map Int.ofNat) = (compact cells).map (List.map Int.ofNat) := compact_eq cells

/-- neither loop of the translated `compact` runs out of its fuel on valid ids (a fuel exhaustion would be `Err.other`) -/
theorem compact_total_of_source (X : List Nat) (hX : ∀ c, c ∈ X → ValidId c) :
    ∃ Y : List Nat, Src.compact.compact (X.map Int.ofNat) = .ok (Y.map Int.ofNat) := by
  obtain ⟨Y, h⟩ := C08.compact_total X hX
  exact ⟨Y, by rw [tie_compact, h]; rfl⟩

/-- C08 about the translated source: the output of the source's `compact` covers exactly the finest-level cells the input covers -/
theorem coverage_preserved_of_source (X : List Nat) (R : Nat)
    (hX : ∀ c, c ∈ X → ValidId c ∧ getResolution c ≤ (R : Int)) :
    ∃ Y : List Nat, Src.compact.compact (X.map Int.ofNat) = .ok (Y.map Int.ofNat) ∧
      (∀ c, c ∈ Y → ValidId c ∧ getResolution c ≤ (R : Int)) ∧
      ∀ x, ValidId x → getResolution x = (R : Int) →
        ((∃ y, y ∈ Y ∧ Covers y x) ↔ (∃ z, z ∈ X ∧ Covers z x)) := by
  obtain ⟨Y, h1, h2, h3⟩ := C08.coverage_preserved X R hX
  exact ⟨Y, by rw [tie_compact, h1]; rfl, h2, h3⟩

/-- C09 about the translated source: on an antichain the source's `compact` returns a duplicate-free antichain with no complete sibling group left -/
theorem minimal_of_source (X : List Nat) (hX : C09.AntichainInput X) :
    ∃ Y : List Nat, Src.compact.compact (X.map Int.ofNat) = .ok (Y.map Int.ofNat) ∧ (∀ c, c ∈ Y → ValidId c) ∧ Y.Nodup ∧
      Antichain Y ∧ Reduced Y ∧ (∀ x, IsLeaf x → (CoveredBy Y x ↔ CoveredBy X x)) := by
  obtain ⟨Y, h1, h2⟩ := C09.minimal X hX
  exact ⟨Y, by rw [tie_compact, h1]; rfl, h2⟩

end A5.SrcTie
