/-
  Source-level tie for the hex text form (C19): `hex_to_u64` / `u64_to_hex` as translated from the current
  `a5/core/hex.py` = the model; the property theorems restated about the translated source.
  (The two CPython builtins `hex` and `int(·, 16)` themselves stay modelled — `A5/Model/Hex.lean` — and are tied by correspondence.)
-/
import A5.Gen.Src
import A5.Props.C19

namespace A5.SrcTie
open A5

theorem tie_hex_to_u64 (s : String) : Src.hex.hex_to_u64 s = hexToU64 s := by
  unfold Src.hex.hex_to_u64 Py.intOfStr
  rw [if_pos rfl]

theorem tie_u64_to_hex (v : Int) : Src.hex.u64_to_hex v = .ok (u64ToHex v) := by
  unfold Src.hex.u64_to_hex Py.strFrom Py.hex u64ToHex
  show Except.ok _ = Except.ok _
  congr 1
  split
  · simp [String.toList_ofList]
  · simp [String.toList_ofList]

/-- C19 about the translated source: for every natural number, parsing the printed text returns the number -/
theorem roundtrip_of_source (n : Nat) :
    (Src.hex.u64_to_hex (n : Int) >>= fun s => Src.hex.hex_to_u64 s) = .ok (n : Int) := by
  rw [tie_u64_to_hex]
  show Src.hex.hex_to_u64 _ = _
  rw [tie_hex_to_u64]
  exact C19.roundtrip n

/-- C19 about the translated source: equal printed texts mean equal ids -/
theorem injective_of_source (m n : Nat) (h : Src.hex.u64_to_hex (m : Int) = Src.hex.u64_to_hex (n : Int)) : m = n := by
  rw [tie_u64_to_hex, tie_u64_to_hex] at h
  exact C19.injective m n (by injection h)

end A5.SrcTie
