/-
  C15 — geodetic ↔ authalic latitude conversion (partial).

  Proved here over ℝ, for ANY six coefficients (hence for both coefficient tables whatever their values): the conversion is odd,
  fixes 0 and ±π/2.  The executable model (A5/Model/Authalic.lean, IEEE doubles) is compared bit for bit with the implementation.
  NOT proved (named assumptions, exercised by the sweep against the closed-form WGS84 authalic latitude): agreement with the
  closed form to 1e-10 rad, inverse∘forward within 1e-12 rad, strict monotonicity in floating point.
-/
import A5.Model.Authalic
import Mathlib.Analysis.SpecialFunctions.Trigonometric.Basic

namespace A5.C15
open Real

/-- the real-number semantics of `_apply_coefficients` -/
noncomputable def applyR (C : Fin 6 → ℝ) (φ : ℝ) : ℝ :=
  let s := sin φ
  let c := cos φ
  let X := 2 * (c - s) * (c + s)
  let u0 := X * C 5 + C 4
  let u1 := X * u0 + C 3
  let u0' := X * u1 - u0 + C 2
  let u1' := X * u0' - u1 + C 1
  let u0'' := X * u1' - u0' + C 0
  φ + 2 * s * c * u0''

/-- C15: the conversion is odd -/
theorem odd (C : Fin 6 → ℝ) (φ : ℝ) : applyR C (-φ) = -applyR C φ := by
  unfold applyR
  simp only [sin_neg, cos_neg]
  ring

/-- C15: it fixes 0 … -/
theorem fixes_zero (C : Fin 6 → ℝ) : applyR C 0 = 0 := by
  unfold applyR
  simp

/-- … and ±π/2 -/
theorem fixes_pole (C : Fin 6 → ℝ) : applyR C (π / 2) = π / 2 ∧ applyR C (-(π / 2)) = -(π / 2) := by
  constructor
  · unfold applyR; simp
  · rw [odd]; unfold applyR; simp

/-- the correction to φ is `sin 2φ` times a polynomial in `2 cos 2φ`: it vanishes exactly where `sin 2φ` does -/
theorem correction_form (C : Fin 6 → ℝ) (φ : ℝ) : ∃ u : ℝ, applyR C φ = φ + sin (2 * φ) * u := by
  simp only [applyR, sin_two_mul]
  exact ⟨_, rfl⟩

/-! the coefficient tables of the implementation (bit patterns), as used by the executable model -/
theorem tables_present : Tables.GEODETIC_TO_AUTHALIC_BITS.length = 6 ∧ Tables.AUTHALIC_TO_GEODETIC_BITS.length = 6 := by decide

/-- the full-strength statement kept visible: strictly increasing on [−π/2, π/2] (not proved here; assumption `H-monotone`) -/
def StrictlyIncreasing (C : Fin 6 → ℝ) : Prop := ∀ a b : ℝ, -(π / 2) ≤ a → a < b → b ≤ π / 2 → applyR C a < applyR C b

end A5.C15
