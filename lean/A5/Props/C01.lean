/-
  C01 — the cell returned for a point contains that point (partial).

  PROVED on the executable model of `lonlat_to_cell` (a full IEEE-double port, compared bit for bit with the implementation),
  for every pair of doubles and every resolution: resolution −1 gives the world cell; for 0..29 a returned id is a valid id of
  exactly that resolution (the estimator's index is in range for ANY floating-point input — `ij_to_s` range theorem, generic in
  the scalar type); the answer is the code of one of the sampled estimates, and it passes the library's own containment test for the
  query point unless no sampled candidate does (`contains_or_fallback`).
  ASSUMED (numeric, swept every run with an independent spherical point-in-polygon oracle): H-contain — the returned cell's
  published ring encloses the point up to tolerance; H-noraise — no float callee raises; H-periodic — 360° periodicity in longitude.
-/
import A5.Proofs.Lookup

namespace A5.C01
open A5 A5.CellGeo A5.F

/-- C01 (1): returns a cell of exactly the requested resolution -/
theorem returns_requested_resolution (lon lat : Float) (r : Int) (hr0 : 0 ≤ r) (hr : r ≤ 29) (id : Nat)
    (h : lonlatToCell (lon, lat) r = .ok id) : ValidId id ∧ getResolution id = r :=
  lonlatToCell_resolution (lon, lat) r hr0 hr id h

/-- resolution −1 is the world cell -/
theorem world (lon lat : Float) : lonlatToCell (lon, lat) (-1) = .ok WORLD_CELL := lonlatToCell_world (lon, lat)

/-- C01 (2): the lattice estimate is always an index of its level — for any input point and any scalar type -/
theorem estimator_index_in_range {α : Type} [Hilbert.Scalar α] (x y : α) (n : Nat) (o : String) :
    0 ≤ Hilbert.ijToS x y n o ∧ Hilbert.ijToS x y n o < (4 : Int) ^ n := ijToS_range x y n o

/-- C01 (3): every estimate is a well-formed cell (face < 12, segment in 0..4, position fitting the resolution) -/
theorem estimates_well_formed (lon lat : Float) (r : Int) (e : Est) (h : lonlatToEstimate (lon, lat) r = .ok e) : e.WF r :=
  estimate_wf (lon, lat) r e h

/-- the search inspects the point itself and 25 spiral offsets -/
theorem sample_count (lon lat : Float) (hres : Nat) : (samples (lon, lat) hres).length = 26 := by
  simp [samples]

/-- C01 (4), decision logic: at every Hilbert resolution (2..29) the returned id either is a cell that passes the library's own containment
    test `a5cell_contains_point(cell, point) > 0` for the QUERY POINT ITSELF, or — only when none of the 26 sampled candidates passes
    it — is one of those failing candidates (the nearest-miss fallback).  So the numeric content of C01 is exactly: the planar
    containment test agrees with the published ring, and some sampled candidate passes it. -/
theorem contains_or_fallback (lon lat : Float) (r : Int) (hr : 2 ≤ r) (id : Nat) (h : lonlatToCell (lon, lat) r = .ok id) :
    (∃ (e : Est) (d : Float), serialize e.toCell = .ok id ∧ cellContainsPoint e.toCell (lon, lat) = .ok d ∧ d > 0) ∨
    (∃ cells : List (Est × Float), (∀ c ∈ cells, cellContainsPoint c.1.toCell (lon, lat) = .ok c.2 ∧ ¬ c.2 > 0) ∧
        ∃ b ∈ cells, serialize b.1.toCell = .ok id) :=
  lonlatToCell_decision (lon, lat) r hr id h

/-- the full-strength containment statement kept visible (not proved: numeric) -/
def ContainmentStatement (contains : Nat → Float → Float → Prop) : Prop :=
  ∀ (lon lat : Float) (r : Int) (id : Nat), 0 ≤ r → r ≤ 29 → lonlatToCell (lon, lat) r = .ok id → contains id lon lat

end A5.C01
