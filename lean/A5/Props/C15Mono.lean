/-
  C15 — strict monotonicity over ℝ of both series with the implementation's own coefficients (regenerated as exact rationals
  from /repo on every run), and hence: each conversion is a bijection of [−π/2, π/2] onto itself.
  What remains an assumption is only the floating-point evaluation (rounding may break strictness between adjacent doubles).
-/
import A5.Proofs.AuthalicMono
import Mathlib.Topology.Order.IntermediateValue
import Mathlib.Topology.Algebra.Order.Field

namespace A5.C15
open Real Set

/-- C15 (monotone clause, real-number semantics): forward series with the code's coefficients is strictly increasing on all of ℝ -/
theorem forward_strictMono : StrictMono (applyR (coeffs Tables.GEODETIC_TO_AUTHALIC_RAT)) :=
  strictMono_of_small _ forward_small

/-- C15: the inverse series is strictly increasing as well -/
theorem inverse_strictMono : StrictMono (applyR (coeffs Tables.AUTHALIC_TO_GEODETIC_RAT)) :=
  strictMono_of_small _ inverse_small

/-- the full-strength statement of Props/C15 holds for both tables -/
theorem forward_strictlyIncreasing : StrictlyIncreasing (coeffs Tables.GEODETIC_TO_AUTHALIC_RAT) :=
  fun _ _ _ hab _ => forward_strictMono hab

theorem inverse_strictlyIncreasing : StrictlyIncreasing (coeffs Tables.AUTHALIC_TO_GEODETIC_RAT) :=
  fun _ _ _ hab _ => inverse_strictMono hab

theorem applyR_continuous (C : Fin 6 → ℝ) : Continuous (applyR C) := by
  unfold applyR
  fun_prop

/-- a strictly increasing continuous conversion fixing the poles maps [−π/2, π/2] bijectively onto itself -/
theorem bijOn_of_strictMono (C : Fin 6 → ℝ) (h : StrictMono (applyR C)) :
    BijOn (applyR C) (Icc (-(π / 2)) (π / 2)) (Icc (-(π / 2)) (π / 2)) := by
  have hp := fixes_pole C
  refine ⟨?_, h.injective.injOn, ?_⟩
  · intro x hx
    constructor
    · rw [← hp.2]; exact h.monotone hx.1
    · rw [← hp.1]; exact h.monotone hx.2
  · have hle : -(π / 2) ≤ π / 2 := by linarith [pi_pos]
    have := intermediate_value_Icc hle (applyR_continuous C).continuousOn
    rwa [hp.1, hp.2] at this

theorem forward_bijOn : BijOn (applyR (coeffs Tables.GEODETIC_TO_AUTHALIC_RAT)) (Icc (-(π / 2)) (π / 2)) (Icc (-(π / 2)) (π / 2)) :=
  bijOn_of_strictMono _ forward_strictMono

theorem inverse_bijOn : BijOn (applyR (coeffs Tables.AUTHALIC_TO_GEODETIC_RAT)) (Icc (-(π / 2)) (π / 2)) (Icc (-(π / 2)) (π / 2)) :=
  bijOn_of_strictMono _ inverse_strictMono

/-- the tables are the expected shape (non-vacuity: six coefficients each, leading one non-zero) -/
example : Tables.GEODETIC_TO_AUTHALIC_RAT.length = 6 ∧ Tables.AUTHALIC_TO_GEODETIC_RAT.length = 6 := by decide

end A5.C15
