/-
  C07 — the id hierarchy is spatially coherent (partial).

  PROVED: telescoping — if every one-level step moves the (planar) centre by at most κ parent widths, and widths halve per level,
  then a descendant at ANY depth lies within 2κ widths of its ancestor's centre (geometric series, exact arithmetic, unbounded depth);
  face/segment nesting at resolutions −1, 0, 1 is exact and part of the id tree (C06).
  TIED: the one-step drift κ is measured every run on the real code (exhaustively on low levels, all orientations); cell centres come
  from `cell_to_lonlat`, whose model is compared bit for bit.
  ASSUMED (numeric, swept): the one-step bound κ ≤ 0.72 holds at every level; the equal-area projection changes these planar distances by
  < 15 % (measured on the sphere directly, so 2κ ≤ 1.44 < 1.5).
-/
import Mathlib.Tactic.Linarith
import Mathlib.Tactic.Ring
import Mathlib.Tactic.FieldSimp
import Mathlib.Algebra.BigOperators.Group.Finset.Basic
import Mathlib.Tactic.Positivity
import Mathlib.Algebra.Order.Field.Basic
import Mathlib.Algebra.Order.Ring.Rat

namespace A5.C07

/-- a descent path: `d k` = distance moved at step k (level r+k → r+k+1), widths halve each level -/
theorem telescoping (κ w : ℚ) (hκ : 0 ≤ κ) (hw : 0 < w) (d : Nat → ℚ)
    (hstep : ∀ k, d k ≤ κ * (w / 2 ^ k)) (n : Nat) :
    (Finset.range n).sum d ≤ 2 * κ * w * (1 - 1 / 2 ^ n) := by
  induction n with
  | zero => simp
  | succ n ih =>
    rw [Finset.sum_range_succ]
    have h1 := hstep n
    have hp : (0:ℚ) < 2 ^ n := by positivity
    have e : 2 * κ * w * (1 - 1 / 2 ^ (n + 1)) = 2 * κ * w * (1 - 1 / 2 ^ n) + κ * (w / 2 ^ n) := by
      rw [pow_succ]; field_simp; ring
    rw [e]; linarith

/-- C07: any descendant, at any depth, stays within 2κ widths (strictly) -/
theorem descendants_stay_near (κ w : ℚ) (hκ : 0 ≤ κ) (hw : 0 < w) (d : Nat → ℚ)
    (hstep : ∀ k, d k ≤ κ * (w / 2 ^ k)) (n : Nat) : (Finset.range n).sum d ≤ 2 * κ * w := by
  have := telescoping κ w hκ hw d hstep n
  have hp : (0:ℚ) < 1 / 2 ^ n := by positivity
  nlinarith [mul_nonneg (mul_nonneg (by norm_num : (0:ℚ) ≤ 2) hκ) hw.le]

/-- with the measured one-step bound κ = 0.72 (spherical, measured ≤ 0.703): total drift ≤ 1.44 widths < 1.5 widths -/
theorem bound_with_measured_kappa (w : ℚ) (hw : 0 < w) (d : Nat → ℚ) (hstep : ∀ k, d k ≤ (72 / 100) * (w / 2 ^ k)) (n : Nat) :
    (Finset.range n).sum d ≤ (144 / 100) * w := by
  have := descendants_stay_near (72 / 100) w (by norm_num) hw d hstep n
  linarith

end A5.C07
