/-
  C12 — "simple ring", planar half, unconditionally: the planar pentagon of EVERY cell (every level, anchor, flip state, k, invertible
  quintant matrix) is strictly convex — all five turning determinants have one strict sign — hence a simple polygon whose vertices are
  in one consistent rotational order; exact arithmetic on the exact values of the implementation's double constants.
  (Resolution-1 cells use a triangle instead of the pentagon; faces use the whole pentagon.)  What the sphere adds — the projection keeps
  the ring simple and the final reversal makes it counter-clockwise as seen from outside — is numeric and swept on the real code.
-/
import A5.Proofs.CentreInside

namespace A5.C12
open A5 A5.Hilbert A5.Planar

theorem planar_ring_strictly_convex (rot : ℚ × ℚ × ℚ × ℚ) (hdet : rot.1 * rot.2.2.2 - rot.2.1 * rot.2.2.1 ≠ 0)
    (h : Nat) (a : Anchor) : StrictlyConvex (place baseQ basisQ slQ srQ rot h a) :=
  place_convex baseQ baseQ_length basisQ slQ srQ rot hdet h a baseQ_convex

/-- sharpness of the predicate: a pentagon with a reflex vertex is rejected -/
example : ¬ StrictlyConvex [((0 : ℚ), (0 : ℚ)), (2, 0), (1, 1), (2, 2), (0, 2)] := by
  unfold StrictlyConvex
  decide +kernel

end A5.C12
