/-
  C03 — cells of one resolution tile the globe (partial, thin).

  PROVED: per face the five segments and the five quintants correspond bijectively, with mutually inverse conversion functions that
  agree with the implementation's on their whole domain (60 + 60 entries tabulated from the real functions each run); within a
  segment the 4^h curve indices are in bijection with lattice cells (C18); each cell's planar polygon is a congruent copy of one base
  pentagon scaled by 2^−h, whose area is exactly one lattice triangle's (C04/C11); the number of cells is get_num_cells(r) (C20).
  ASSUMED (numeric, swept with a manifold certificate): edges of neighbouring cells coincide vertex for vertex across lattice lines,
  quintant seams, face edges and face vertices; the neighbour across an edge is what lonlat_to_cell returns beyond it.
-/
import A5.Model.Geo
import A5.Props.C18
import A5.Props.C04

namespace A5.C03
open A5 A5.Geo

/-- the model's `quintant_to_segment` is the implementation's, on its whole domain -/
theorem q2s_table_agree :
    ((List.range 12).flatMap fun o => (List.range 5).map fun q =>
      (o, q, (quintantToSegment (Int.ofNat q) o).1.toNat, (quintantToSegment (Int.ofNat q) o).2)) = Tables.Q2S_TABLE := by
  decide +kernel

theorem s2q_table_agree :
    ((List.range 12).flatMap fun o => (List.range 5).map fun s =>
      (o, s, (segmentToQuintant (Int.ofNat s) o).1.toNat, (segmentToQuintant (Int.ofNat s) o).2)) = Tables.S2Q_TABLE := by
  decide +kernel

/-- C03 (1): on every face, segment ↔ quintant are mutually inverse and carry the same curve orientation -/
theorem segment_quintant_bijection : ∀ o : Fin 12, ∀ q : Fin 5,
    segmentToQuintant (quintantToSegment (q.val : Int) o.val).1 o.val = ((q.val : Int), (quintantToSegment (q.val : Int) o.val).2) ∧
    quintantToSegment (segmentToQuintant (q.val : Int) o.val).1 o.val = ((q.val : Int), (segmentToQuintant (q.val : Int) o.val).2) ∧
    0 ≤ (quintantToSegment (q.val : Int) o.val).1 ∧ (quintantToSegment (q.val : Int) o.val).1 < 5 := by
  decide +kernel

/-- every orientation a face hands out is one of the six the curve code knows -/
theorem orientations_known : ∀ o : Fin 12, ∀ q : Fin 5, (quintantToSegment (q.val : Int) o.val).2 ∈ C18.Orientations := by
  decide +kernel

/-- C03 (2): within a segment, distinct indices occupy distinct lattice cells (C18) -/
theorem cells_of_a_segment_distinct (o : String) (ho : o ∈ C18.Orientations) (n s₁ s₂ : Nat) (h₁ : s₁ < 4 ^ n) (h₂ : s₂ < 4 ^ n)
    (a₁ a₂ : Hilbert.Anchor) (e₁ : Hilbert.sToAnchor s₁ n o = .ok a₁) (e₂ : Hilbert.sToAnchor s₂ n o = .ok a₂)
    (hi : a₁.i = a₂.i) (hj : a₁.j = a₂.j) (hf : a₁.flips = a₂.flips) : s₁ = s₂ :=
  C18.anchor_injective o ho n s₁ s₂ h₁ h₂ a₁ a₂ e₁ e₂ hi hj hf

/-- C03 (3): all tiles of a level have the same planar area (C04) -/
theorem tiles_equal_area (base : List (ℚ × ℚ)) (hb : base.length = 5) (basis : ℚ × ℚ × ℚ × ℚ) (sl sr : ℚ × ℚ) (rot : ℚ × ℚ × ℚ × ℚ)
    (hdet : rot.1 * rot.2.2.2 - rot.2.1 * rot.2.2.1 = 1) (h : Nat) (a₁ a₂ : Hilbert.Anchor) :
    Planar.area (Planar.place base basis sl sr rot h a₁) = Planar.area (Planar.place base basis sl sr rot h a₂) :=
  C04.planar_area_uniform base hb basis sl sr rot hdet h a₁ a₂

end A5.C03
