/-
  C17 — every API call is a pure function of its arguments.

  Proved: over every finite history of disciplined calls starting from the cold store, each call returns its denotation
  (the value a fresh interpreter returns); the projection caches' slot indices are injective on their key domains except for
  the one intended alias, which stores the same value (tables observed on fresh instances each run, re-decided by the kernel).
  Tied, not proved: membership of the code in the disciplined class; no writes to argument objects; no returned object
  reachable from shared state (runtime proxies and identity scan).
-/
import A5.Proofs.EffectsProof
import A5.Gen.Tables

namespace A5.C17
open A5.Effects

variable {Slot Val Reg : Type} [DecidableEq Slot] [DecidableEq Reg]

/-- C17: history independence -/
theorem history_independent (f : Slot → Val) {α : Type} (calls : List (Prog Slot Val Reg α × α))
    (hd : ∀ c ∈ calls, Disc f c.1 c.2) (σ : Store Slot Val Reg) (results : List α) (σ' : Store Slot Val Reg)
    (hcold : Inv f σ) (hrun : RunsSeq f (calls.map Prod.fst) σ results σ') :
    results = calls.map Prod.snd ∧ Inv f σ' :=
  A5.Effects.history_independent f calls hd σ results σ' hcold hrun

theorem cold_store_ok (f : Slot → Val) (c : Nat) (g : Reg → Val) :
    Inv f ({ memo := fun _ => none, counter := c, reg := g } : Store Slot Val Reg) := cold_inv f c g

/-! ### cache keys: the slot index arithmetic of `get_face_triangle` / `get_spherical_triangle` -/

/-- two keys of the face-triangle cache share a list position only if they store the same value -/
theorem face_slots_consistent :
    ∀ a ∈ A5.Tables.FACE_SLOT_TABLE, ∀ b ∈ A5.Tables.FACE_SLOT_TABLE, a.slot = b.slot → a.value = b.value := by
  decide +kernel

/-- … and apart from the intended alias (squashed without reflected = the plain triangle) the index is injective -/
theorem face_slots_injective :
    ∀ a ∈ A5.Tables.FACE_SLOT_TABLE, ∀ b ∈ A5.Tables.FACE_SLOT_TABLE, a.slot = b.slot →
      a.fti = b.fti ∧ a.reflected = b.reflected ∧ (a.reflected = 1 → a.squashed = b.squashed) := by
  decide +kernel

/-- the spherical-triangle cache index `10*origin + fti + 120*[reflected]` is injective on all 240 keys -/
theorem sph_slots_injective :
    ∀ a ∈ A5.Tables.SPH_SLOT_TABLE, ∀ b ∈ A5.Tables.SPH_SLOT_TABLE, a.slot = b.slot →
      a.fti = b.fti ∧ a.origin = b.origin ∧ a.reflected = b.reflected := by
  decide +kernel

theorem slot_tables_complete : A5.Tables.FACE_SLOT_TABLE.length = 40 ∧ A5.Tables.SPH_SLOT_TABLE.length = 240 := by decide +kernel

/-! non-vacuity -/
example : RunsSeq (Reg := Unit) (fun s : Nat => s) [Prog.ret (Slot := Nat) (Val := Nat) 3, Prog.ret 4]
    { memo := fun _ => none, counter := 0, reg := fun _ => 0 } [3, 4] { memo := fun _ => none, counter := 0, reg := fun _ => 0 } :=
  RunsSeq.cons _ _ _ _ _ _ _ (Runs.ret 3 _) (RunsSeq.cons _ _ _ _ _ _ _ (Runs.ret 4 _) (RunsSeq.nil _))

end A5.C17
