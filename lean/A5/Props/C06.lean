/-
  C06 — Parent/children form a consistent tree over ids.

  For every cell c (fields t S r, S symbolic) and resolutions a ≤ r ≤ b ≤ 29 — no bound on b − r.
-/
import A5.Proofs.Order

attribute [local instance 2000] instPowNat

namespace A5.C06
open A5

/-- `p` is the ancestor-or-self of `x` at resolution `a`, as computed by the code -/
def ParentIs (x : Nat) (a : Int) (p : Nat) : Prop := cellToParent x (some a) = .ok p

theorem parent_encId_eq_iff {t S r t' S' b : Nat} (h : WF t S r) (h' : WF t' S' b) (hrb : r ≤ b) :
    ParentIs (encId t' S' b) (r : Int) (encId t S r) ↔ DescOf t S r t' S' b := by
  unfold ParentIs
  rw [cellToParent_encId h' r hrb]
  constructor
  · intro e
    have := encId_inj (WF_anc h' r hrb) h (Except.ok.inj e)
    exact ⟨this.1, this.2.1⟩
  · rintro ⟨h1, h2⟩; rw [h1, h2]

/-- C06 (1): `cell_to_children(c, b)` lists, without repetition, exactly the resolution-b cells whose
    `cell_to_parent(·, res c)` is `c`; their number is `get_num_children(res c, b)` (12, 5, then 4 per level). -/
theorem children_spec {t S r : Nat} (h : WF t S r) (b : Nat) (hrb : r ≤ b) (hb : b ≤ 29) :
    ∃ L, cellToChildren (encId t S r) (some (b : Int)) = .ok L ∧ L.Nodup ∧ L.length = getNumChildren r b ∧
      ∀ x, x ∈ L ↔ (ValidId x ∧ getResolution x = (b : Int) ∧ ParentIs x (r : Int) (encId t S r)) := by
  have key : ∀ x, (ValidId x ∧ getResolution x = (b : Int) ∧ ParentIs x (r : Int) (encId t S r)) ↔
      ∃ t' S', WF t' S' b ∧ x = encId t' S' b ∧ DescOf t S r t' S' b := by
    intro x
    constructor
    · rintro ⟨hv, hres, hp⟩
      obtain ⟨t', S', hwf', rfl⟩ := validId_res hv hres
      exact ⟨t', S', hwf', rfl, (parent_encId_eq_iff h hwf' hrb).1 hp⟩
    · rintro ⟨t', S', hwf', rfl, hd⟩
      exact ⟨Or.inr ⟨t', S', b, hwf', rfl⟩, getResolution_encId hwf', (parent_encId_eq_iff h hwf' hrb).2 hd⟩
  by_cases hEq : r = b
  · subst hEq
    refine ⟨[encId t S r], cellToChildren_self h, by simp, by rw [getNumChildren_self]; rfl, ?_⟩
    intro x
    rw [key]
    simp only [List.mem_singleton]
    constructor
    · rintro rfl
      exact ⟨t, S, h, rfl, ancT_self t r, ancS_self h.2.1⟩
    · rintro ⟨t', S', hwf', rfl, h1, h2⟩
      rw [ancT_self] at h1; rw [ancS_self hwf'.2.1] at h2
      rw [h1, h2]
  · have hlt : r < b := by omega
    by_cases hr1 : 1 ≤ r
    · refine ⟨_, cellToChildren_hilbert h hr1 b hlt hb, childIds_nodup (hilbert_children_wf h hr1 hlt hb), ?_, ?_⟩
      · rw [childIds_length, getNumChildren_nat r b hlt]
        by_cases h2 : 2 ≤ r
        · rw [if_pos h2]
        · have : r = 1 := by omega
          subst this; simp
      · intro x
        rw [key, mem_children_hilbert h hr1 hlt hb]
    · have hr0 : r = 0 := by omega
      subst hr0
      have hS := npos_small 0 S (by omega) h.2.1
      subst hS
      have ht : t < 12 := by simpa using h.2.2
      have hos : ∀ o ∈ [t], o < 12 := by intro o ho; simp at ho; omega
      refine ⟨_, cellToChildren_face t ht b (by omega) hb, ?_, ?_, ?_⟩
      · have := fan_nodup [t] hos (by simp) b (by omega) hb
        simpa using this
      · have := fan_length [t] b
        rw [getNumChildren_nat 0 b hlt]
        simpa using this
      · intro x
        rw [key]
        have := mem_fan [t] hos b (by omega) hb x
        rw [List.flatMap_singleton] at this
        simp only [List.mem_singleton] at this
        rw [this]
        constructor
        · rintro ⟨t', S', hwf', rfl, hdiv⟩
          refine ⟨t', S', hwf', rfl, ?_, ?_⟩
          · unfold ancT; rw [if_pos ⟨rfl, by omega⟩]; exact hdiv
          · unfold ancS; rw [if_pos (by omega)]
        · rintro ⟨t', S', hwf', rfl, hT, _⟩
          refine ⟨t', S', hwf', rfl, ?_⟩
          unfold ancT at hT; rw [if_pos ⟨rfl, by omega⟩] at hT; exact hT

/-- C06 (1, world cell): expanding the world cell lists each valid id of the level exactly once. -/
theorem children_of_world (b : Nat) (hb : b ≤ 29) :
    ∃ L, cellToChildren WORLD_CELL (some (b : Int)) = .ok L ∧ L.Nodup ∧ L.length = getNumChildren (-1) b ∧
      ∀ x, x ∈ L ↔ (ValidId x ∧ getResolution x = (b : Int)) := by
  obtain ⟨L, h1, h2, h3, h4⟩ := world_children_enumeration b hb
  exact ⟨L, h1, h2, by rw [getNumChildren_world]; exact h3, h4⟩

/-- every valid non-world id has the world cell as its resolution −1 ancestor -/
theorem parent_world {t S r : Nat} (h : WF t S r) : ParentIs (encId t S r) (-1) WORLD_CELL := by
  unfold ParentIs; rw [WORLD_CELL_eq]
  exact cellToParent_world_target _ _ (deserialize_encId h)

/-- C06 (2): `cell_to_parent` composes: the parent of the parent is the parent at the coarser level. -/
theorem parent_comp {t S r : Nat} (h : WF t S r) (a a' : Nat) (ha : a ≤ r) (ha' : a' ≤ a) (p q : Nat)
    (hp : ParentIs (encId t S r) a p) (hq : ParentIs p a' q) : ParentIs (encId t S r) a' q := by
  unfold ParentIs at *
  rw [cellToParent_encId h a ha] at hp
  cases hp
  rw [cellToParent_encId (WF_anc h a ha) a' ha'] at hq
  rw [cellToParent_encId h a' (by omega), ← anc_anc_T t r a' a ha' ha, ← anc_anc_S S r a' a ha' ha]
  exact hq

/-- C06 (2'): parents are total and valid for every coarser-or-equal level 0..res -/
theorem parent_total {t S r : Nat} (h : WF t S r) (a : Nat) (ha : a ≤ r) :
    ∃ p, ParentIs (encId t S r) a p ∧ ValidId p ∧ getResolution p = (a : Int) :=
  ⟨_, cellToParent_encId h a ha, Or.inr ⟨_, _, a, WF_anc h a ha, rfl⟩, getResolution_encId (WF_anc h a ha)⟩

/-- C06 (3): `cell_to_parent(c, a)` is the unique resolution-a cell having c among its descendants. -/
theorem parent_unique {t S r : Nat} (h : WF t S r) (a : Nat) (ha : a ≤ r)
    {tp Sp : Nat} (hp : WF tp Sp a) (L : List Nat)
    (hL : cellToChildren (encId tp Sp a) (some (r : Int)) = .ok L) (hmem : encId t S r ∈ L) :
    ParentIs (encId t S r) a (encId tp Sp a) := by
  obtain ⟨L', hL', _, _, hspec⟩ := children_spec hp r ha h.1
  rw [hL] at hL'
  cases hL'
  exact ((hspec _).1 hmem).2.2

/-- C06 (4): for res(c) ≥ 1 the descendants at level b are the arithmetic run `first + i·stride(b)`, i < 4^(b−r),
    and every valid level-b id between the first and the last of them is one of them (a contiguous run of that level's ids). -/
theorem contiguous {t S r : Nat} (h : WF t S r) (hr1 : 1 ≤ r) (b : Nat) (hrb : r < b) (hb : b ≤ 29) :
    ∃ L first stride, cellToChildren (encId t S r) (some (b : Int)) = .ok L ∧ getStride (b : Int) = .ok stride ∧
      L = (List.range (4 ^ (b - r))).map (fun i => first + i * stride) ∧
      ∀ x, ValidId x → getResolution x = (b : Int) → first ≤ x → x ≤ first + (4 ^ (b - r) - 1) * stride → x ∈ L := by
  have hb2 : 2 ≤ b := by omega
  refine ⟨_, encId t (S * 4 ^ (b - r)) b, 2 ^ (mpos b + 1), cellToChildren_hilbert h hr1 b hrb hb, getStride_hilbert b hb2 hb, ?_, ?_⟩
  · unfold childIds
    apply List.map_congr_left
    intro i _
    exact encId_add t _ i b
  · intro x hv hres hlo hhi
    obtain ⟨t', S', hwf', rfl⟩ := validId_res hv hres
    rw [mem_childIds]
    have hcnt : 0 < 4 ^ (b - r) := Nat.pow_pos (by omega)
    have hwf0 := hilbert_children_wf h hr1 hrb hb 0 hcnt
    have hwfl := hilbert_children_wf h hr1 hrb hb (4 ^ (b - r) - 1) (by omega)
    rw [Nat.add_zero] at hwf0
    rw [← encId_add] at hhi
    have h1 := (encId_le_iff hwf0 hwf').1 hlo
    have h2 := (encId_le_iff hwf' hwfl).1 hhi
    have ht : t' = t := by omega
    subst ht
    refine ⟨S' - S * 4 ^ (b - r), by omega, ?_⟩
    congr 1; omega

/-- C06 (5): out-of-order requests raise instead of returning cells. -/
theorem order_errors {t S r : Nat} (h : WF t S r) :
    (∀ b : Int, b < r → cellToChildren (encId t S r) (some b) = .error .value) ∧
    (∀ b : Int, 30 < b → cellToChildren (encId t S r) (some b) = .error .value) ∧
    (∀ a : Int, (r : Int) < a → cellToParent (encId t S r) (some a) = .error .value) ∧
    (∀ a : Int, a < -1 → cellToParent (encId t S r) (some a) = .error .value) :=
  ⟨cellToChildren_coarser h, cellToChildren_too_fine h, cellToParent_finer h, cellToParent_too_coarse h⟩

/-! non-vacuity -/
example : WF 37 1234567 13 := by decide
example : ∃ L, cellToChildren (encId 7 2 3) (some 5) = .ok L ∧ L.length = 16 :=
  ⟨_, cellToChildren_hilbert (by decide) (by decide) 5 (by decide) (by decide), by simp [childIds_length]⟩

end A5.C06
