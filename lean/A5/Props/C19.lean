/-
  C19 — the hex text form of an id round-trips, for EVERY natural number n (in particular every n < 2^64).
  `hex()` / `int(·,16)` are modelled from CPython's documented grammar (A5/Model/Hex.lean).
-/
import A5.Proofs.Hex

namespace A5.C19
open A5

theorem printsAs_lower (ds : List Nat) : List.Forall₂ PrintsAs ds (ds.map hexDigitChar) := by
  induction ds with
  | nil => exact List.Forall₂.nil
  | cons d ds ih => exact List.Forall₂.cons (Or.inl rfl) ih

theorem printsAs_upper (ds : List Nat) : List.Forall₂ PrintsAs ds (ds.map hexDigitCharU) := by
  induction ds with
  | nil => exact List.Forall₂.nil
  | cons d ds ih => exact List.Forall₂.cons (Or.inr rfl) ih

/-- C19 (1): `hex_to_u64(u64_to_hex(n)) == n` for every natural number n. -/
theorem roundtrip (n : Nat) : hexToU64 (u64ToHex (n : Int)) = .ok (n : Int) := by
  unfold hexToU64 u64ToHex
  rw [if_pos (by omega)]
  simp only [Int.toNat_natCast, String.toList_ofList]
  unfold u64ToHexChars
  rw [parse_digit_string (hexDigits n) _ (printsAs_lower _) (hexDigits_lt n) (hexDigits_ne_nil n), hexDigits_value]

/-- C19 (2): the text is non-empty lower-case hexadecimal — no prefix, sign, or other character … -/
theorem lowercase_hex_only (n : Nat) :
    u64ToHexChars n ≠ [] ∧ ∀ c ∈ u64ToHexChars n, ('0' ≤ c ∧ c ≤ '9') ∨ ('a' ≤ c ∧ c ≤ 'f') := by
  unfold u64ToHexChars
  refine ⟨by simp [hexDigits_ne_nil], ?_⟩
  intro c hc
  simp only [List.mem_map] at hc
  obtain ⟨d, hd, rfl⟩ := hc
  have := hexDigits_lt n d hd
  interval_cases d <;> decide

/-- … and has no padding: it starts with `0` only when n = 0, in which case it is exactly "0". -/
theorem no_padding (n : Nat) : ∃ c cs, u64ToHexChars n = c :: cs ∧ (c = '0' → n = 0 ∧ cs = []) := by
  obtain ⟨h, t, e, hz⟩ := hexDigits_head n
  refine ⟨hexDigitChar h, t.map hexDigitChar, by unfold u64ToHexChars; rw [e]; rfl, ?_⟩
  intro hc
  have hlt := hexDigits_lt n h (by rw [e]; simp)
  have h0 : h = 0 := (printsAs_facts h hlt _ (Or.inl rfl)).2.2.2.2.2.2.2 hc
  obtain ⟨hn, ht⟩ := hz h0
  exact ⟨hn, by rw [ht]; rfl⟩

/-- C19 (3): equal ids have equal strings and string equality can be used as id equality. -/
theorem injective (m n : Nat) (h : u64ToHex (m : Int) = u64ToHex (n : Int)) : m = n := by
  have hm := roundtrip m
  rw [h, roundtrip n] at hm
  have := Except.ok.inj hm
  omega

/-- C19 (4): parsing accepts upper case and leading zeros. -/
theorem parse_upper_and_padded (n k : Nat) :
    parseHexChars (List.replicate k '0' ++ (hexDigits n).map hexDigitCharU) = some (n : Int) ∧
    parseHexChars (List.replicate k '0' ++ u64ToHexChars n) = some (n : Int) := by
  have hv : digitsValue (List.replicate k 0 ++ hexDigits n) = n := by
    have : ∀ k acc, (List.replicate k 0).foldl (fun a d => 16 * a + d) acc = 16 ^ k * acc := by
      intro k
      induction k with
      | zero => intro acc; simp
      | succ k ih => intro acc; rw [List.replicate_succ, List.foldl_cons, ih, Nat.pow_succ]; simp [Nat.mul_assoc]
    unfold digitsValue
    rw [List.foldl_append, this, Nat.mul_zero]
    exact hexDigits_value n
  have hlt : ∀ d ∈ List.replicate k 0 ++ hexDigits n, d < 16 := by
    intro d hd
    simp only [List.mem_append, List.mem_replicate] at hd
    rcases hd with ⟨_, rfl⟩ | hd
    · omega
    · exact hexDigits_lt n d hd
  have hne : List.replicate k 0 ++ hexDigits n ≠ [] := by simp [hexDigits_ne_nil]
  have hz : ∀ k, List.Forall₂ PrintsAs (List.replicate k 0) (List.replicate k '0') := by
    intro k
    induction k with
    | zero => exact List.Forall₂.nil
    | succ k ih => exact List.Forall₂.cons (Or.inl rfl) ih
  have append₂ : ∀ {a b : List Nat} {c d : List Char}, List.Forall₂ PrintsAs a c → List.Forall₂ PrintsAs b d →
      List.Forall₂ PrintsAs (a ++ b) (c ++ d) := by
    intro a b c d h1 h2
    induction h1 with
    | nil => exact h2
    | cons h _ ih => exact List.Forall₂.cons h ih
  constructor
  · rw [parse_digit_string _ _ (append₂ (hz k) (printsAs_upper _)) hlt hne, hv]
  · unfold u64ToHexChars
    rw [parse_digit_string _ _ (append₂ (hz k) (printsAs_lower _)) hlt hne, hv]

/-! non-vacuity / sanity -/
example : u64ToHexChars 255 = ['f', 'f'] := by
  unfold u64ToHexChars; rw [hexDigits, dif_neg (by omega), hexDigits, dif_pos (by omega)]; decide
example : parseHexChars ['0', 'x', '_', 'F', 'f'] = some 255 := by decide
example : parseHexChars ['f', '_', '_', 'f'] = none := by decide

end A5.C19
