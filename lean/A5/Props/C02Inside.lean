/-
  C02 — "cell_to_lonlat(c) lies strictly inside the cell's own boundary ring", planar half, unconditionally:
  for EVERY level, anchor (offset, flips, k) and every invertible quintant matrix, the vertex mean of the placed pentagon
  (`get_pentagon_vertices(...).get_center()`, the point `cell_to_lonlat` unprojects) lies strictly on the inner side of each of the
  pentagon's five edges — exact arithmetic on the exact values of the implementation's double constants.
  What remains assumed for the clause is that the projection (a homeomorphism of the face plane onto the sphere patch) and IEEE rounding
  keep the point inside the published ring; that is swept on the real code every run (H-inside).
-/
import A5.Proofs.CentreInside

namespace A5.C02
open A5 A5.Hilbert A5.Planar

/-- C02 (inside, planar): the centre of every cell's planar pentagon is strictly inside it -/
theorem centre_strictly_inside_planar (rot : ℚ × ℚ × ℚ × ℚ) (hdet : rot.1 * rot.2.2.2 - rot.2.1 * rot.2.2.1 ≠ 0)
    (h : Nat) (a : Anchor) :
    StrictlyInside (place baseQ basisQ slQ srQ rot h a) (mean5 (place baseQ basisQ slQ srQ rot h a)) :=
  place_centre_inside baseQ baseQ_length basisQ slQ srQ rot hdet h a baseQ_centre_inside

/-- the same for any base shape whose own centre is strictly inside (the statement does not depend on the particular pentagon) -/
theorem centre_strictly_inside_generic (base : List (ℚ × ℚ)) (hb : base.length = 5) (basis : ℚ × ℚ × ℚ × ℚ) (sl sr : ℚ × ℚ)
    (rot : ℚ × ℚ × ℚ × ℚ) (hdet : rot.1 * rot.2.2.2 - rot.2.1 * rot.2.2.1 ≠ 0) (h : Nat) (a : Anchor)
    (hbase : StrictlyInside (mkShape base) (mean5 (mkShape base))) :
    StrictlyInside (place base basis sl sr rot h a) (mean5 (place base basis sl sr rot h a)) :=
  place_centre_inside base hb basis sl sr rot hdet h a hbase

/-- non-vacuity / sharpness: a point outside is recognised as such (the predicate is not trivially true) -/
example : ¬ StrictlyInside (mkShape baseQ) (5, 5) := by
  unfold StrictlyInside
  decide +kernel

example : ((1 : ℚ), (0 : ℚ), (0 : ℚ), (1 : ℚ)).1 * ((1 : ℚ), (0 : ℚ), (0 : ℚ), (1 : ℚ)).2.2.2 - 0 * 0 ≠ 0 := by norm_num

end A5.C02
