/-
  C11 — quantisation error and cell shape are bounded at every level (partial).

  PROVED (exact arithmetic, about `Planar.place`): every cell's planar polygon is a similar copy of the base pentagon with ratio
  2^−level (rotation matrix orthogonal), so its corners stay pairwise distinct at every level and every corner–centre distance is
  the base pentagon's divided by 2^level; kernel-evaluated IEEE check on the extracted constants: the base pentagon's five
  corner–centre distances lie between 0.35 and 1.0 cell widths (width = sqrt of the cell's planar area).
  ASSUMED (numeric, swept): H-quantisation centre of p's cell within 1.0·sqrt(cell_area) of p; H-shape the projection keeps the
  planar ratios within the stated band on the sphere.
-/
import A5.Proofs.Congruence
import A5.Model.CellGeo

namespace A5.C11
open A5 A5.Planar

/-- C11 (shape): similar copy of the base pentagon at every level -/
theorem similar_to_base (base : List (ℚ × ℚ)) (basis : ℚ × ℚ × ℚ × ℚ) (sl sr : ℚ × ℚ) (rot : ℚ × ℚ × ℚ × ℚ)
    (h1 : rot.1 * rot.1 + rot.2.2.1 * rot.2.2.1 = 1) (h2 : rot.2.1 * rot.2.1 + rot.2.2.2 * rot.2.2.2 = 1)
    (h3 : rot.1 * rot.2.1 + rot.2.2.1 * rot.2.2.2 = 0) (h : Nat) (a : Hilbert.Anchor) :
    Sim (mkShape base) (place base basis sl sr rot h a) (1 / 4 ^ h) :=
  place_similar base basis sl sr rot h1 h2 h3 h a

/-- C11 (distinct corners): if the base pentagon's corners are distinct, so are every cell's -/
theorem corners_distinct (base : List (ℚ × ℚ)) (hnd : (mkShape base).Nodup) (basis : ℚ × ℚ × ℚ × ℚ) (sl sr : ℚ × ℚ) (rot : ℚ × ℚ × ℚ × ℚ)
    (h1 : rot.1 * rot.1 + rot.2.2.1 * rot.2.2.1 = 1) (h2 : rot.2.1 * rot.2.1 + rot.2.2.2 * rot.2.2.2 = 1)
    (h3 : rot.1 * rot.2.1 + rot.2.2.1 * rot.2.2.2 = 0) (h : Nat) (a : Hilbert.Anchor) :
    (place base basis sl sr rot h a).Nodup :=
  sim_injective (by positivity) (place_similar base basis sl sr rot h1 h2 h3 h a) hnd

/-- squared corner–centre distance of vertex i of the base pentagon, in units of the planar cell area (IEEE doubles) -/
def baseRatio (i : Nat) : Float :=
  let vs := CellGeo.pentagonBase
  let c : Float × Float := ((vs.map (·.1)).foldl (· + ·) 0.0 / 5, (vs.map (·.2)).foldl (· + ·) 0.0 / 5)
  let v := vs.getD i (0, 0)
  let d2 := (v.1 - c.1) * (v.1 - c.1) + (v.2 - c.2) * (v.2 - c.2)
  -- cell width² = planar area = |get_area| / 2
  d2 / (CellGeo.shapeArea vs / 2)

/-- the base pentagon's corners lie between 0.35 and 1.0 cell widths from its centre (squared: 0.1225 .. 1.0) — kernel-evaluated -/
theorem base_shape_band : ∀ i : Fin 5, (0.1225 < baseRatio i.val ∧ baseRatio i.val < 1.0) := by
  decide +kernel

end A5.C11
