/-
  C02 / C18 — the lattice half of "a cell's centre maps back to the same cell", unconditionally, in exact arithmetic on the exact values
  of the implementation's double constants: for every Hilbert level n ≤ 30, every index s < 4^n and all six orientations, the centroid of
  the cell's planar pentagon (`get_pentagon_vertices(...).get_center()`, scaled to lattice units), taken through `face_to_ij`
  (BASIS_INVERSE), is mapped by `ij_to_s` to s.  This discharges the hypothesis of `C02.lattice_roundtrip` / the first named gap of C18
  (centre strictly inside its unit triangle: margin ≥ 1/10 for all 16 shapes, decided by the kernel).  What remains assumed for C02 is the
  projection round trip (plane → sphere → plane within that margin) and IEEE rounding.
-/
import A5.Proofs.CentreMargin
import A5.Props.C18

namespace A5.C02
open A5 A5.Hilbert A5.Planar

/-- the centroid of the cell's pentagon in the lattice units of its own level, before the quintant rotation -/
def centreLattice (a : Anchor) : ℚ × ℚ := lattice (posOf baseQ basisQ slQ srQ a.flips a.k a.i a.j)

/-- it is what `place` + `get_center` compute: centroid of the placed pentagon (identity rotation) times 2^n -/
theorem centreLattice_is_place_centre (n : Nat) (a : Anchor) :
    centreLattice a = lattice (((cen (place baseQ basisQ slQ srQ (1, 0, 0, 1) n a)).1 * 2 ^ n), ((cen (place baseQ basisQ slQ srQ (1, 0, 0, 1) n a)).2 * 2 ^ n)) := by
  rw [cen_place baseQ baseQ_length]
  simp only [centreLattice, applyMat, sc_mul, sc_add]
  have hp : (2:ℚ) ^ n ≠ 0 := by positivity
  congr 1
  ext <;> (simp only; field_simp; ring)

theorem anchor_bounds (o : String) (ho : o ∈ C18.Orientations) (n s : Nat) (hs : s < 4 ^ n) (a : Anchor) (ha : sToAnchor s n o = .ok a) :
    |(a.i : ℚ)| ≤ 2 ^ n + 1 ∧ |(a.j : ℚ)| ≤ 2 ^ n + 1 := by
  obtain ⟨u, v, hδ⟩ := C18.tri_nonempty a.flips
  have hin := C18.inside_segment_all o ho n s hs a ha u v hδ
  simp only [Tri] at hin
  obtain ⟨h1, h2, h3⟩ := hin
  have hb : -1 < u ∧ u < 1 ∧ -1 < v ∧ v < 1 := by
    generalize a.flips = f at hδ
    obtain ⟨fx, fy⟩ := f
    cases fx <;> cases fy <;> simp only [Tri] at hδ <;> obtain ⟨d1, d2, d3⟩ := hδ <;> refine ⟨?_, ?_, ?_, ?_⟩ <;> linarith
  obtain ⟨b1, b2, b3, b4⟩ := hb
  constructor <;> rw [abs_le] <;> constructor <;> linarith

/-- C02 (lattice half, unconditional): centre of the cell of index s → `face_to_ij` → `ij_to_s` = s -/
theorem centre_roundtrip (o : String) (ho : o ∈ C18.Orientations) (n : Nat) (hn : n ≤ 30) (s : Nat) (hs : s < 4 ^ n) (a : Anchor)
    (ha : sToAnchor s n o = .ok a) :
    ijToS (centreLattice a).1 (centreLattice a).2 n o = (s : Int) := by
  obtain ⟨bi, bj⟩ := anchor_bounds o ho n s hs a ha
  have hk := anchor_k_lt o n s hs a ha
  have hpow : (2:ℚ) ^ n + 1 ≤ 2 ^ 31 := by
    have : (2:ℚ) ^ n ≤ 2 ^ 30 := pow_le_pow_right₀ (by norm_num) hn
    linarith [show (2:ℚ) ^ 31 = 2 * 2 ^ 30 by norm_num]
  have hin := centre_in_triangle a.flips a.k hk a.i a.j (le_trans bi hpow) (le_trans bj hpow)
  have := C18.roundtrip o ho n s hs a ha _ _ hin
  simpa [centreLattice] using this

/-! non-vacuity -/
example : ∃ a, sToAnchor 2741 6 "wu" = .ok a := C18.anchor_total "wu" 6 2741

end A5.C02
