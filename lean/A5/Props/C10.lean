/-
  C10 — uncompact expands each cell to exactly its descendants at the target level.
  For every list of valid ids (any length, any order, duplicates) and every target 0..29.
-/
import A5.Proofs.Uncompact
import A5.Props.C06

attribute [local instance 2000] instPowNat

namespace A5.C10
open A5

theorem pow4_ge (k : Nat) (hk : 1 ≤ k) : 4 ≤ 4 ^ k := by
  calc 4 = 4 ^ 1 := rfl
    _ ≤ 4 ^ k := Nat.pow_le_pow_right (by omega) hk

/-- a strict descendant level always has more than one cell -/
theorem getNumChildren_ne_one (r t : Nat) (h : r < t) : getNumChildren (r : Int) (t : Int) ≠ 1 := by
  rw [getNumChildren_nat r t h]
  have h1 := pow4_ge (t - r) (by omega)
  have h3 := Nat.pow_pos (n := t - 1) (show 0 < 4 by omega)
  by_cases h2 : 2 ≤ r
  · rw [if_pos h2]; omega
  · rw [if_neg h2]
    by_cases hr1 : r = 1
    · subst hr1; rw [if_pos rfl]; omega
    · rw [if_neg hr1]; omega

theorem getNumCells_ge (t : Nat) : 12 ≤ getNumCells (t : Int) := by
  rw [getNumCells_nat]
  have := Nat.pow_pos (n := t - 1) (show 0 < 4 by omega)
  split <;> omega

/-- what `uncompact` writes for one valid cell: exactly `cell_to_children(cell, t)` -/
theorem block_of_valid (c : Nat) (hv : ValidId c) (t : Nat) (ht : t ≤ 29) (hres : getResolution c ≤ (t : Int)) :
    ∃ B, cellToChildren c (some (t : Int)) = .ok B ∧ blockOf t c (getResolution c) = .ok B ∧
      B.length = getNumChildren (getResolution c) t ∧ B.Nodup ∧
      ∀ x, x ∈ B ↔ (ValidId x ∧ getResolution x = (t : Int) ∧ C06.ParentIs x (getResolution c) c) := by
  rcases hv with rfl | ⟨tt, S, r, hwf, rfl⟩
  · obtain ⟨L, h1, h2, h3, h4⟩ := C06.children_of_world t ht
    rw [WORLD_CELL_eq] at h1
    rw [getResolution_zero]
    refine ⟨L, h1, ?_, h3, h2, ?_⟩
    · unfold blockOf
      rw [getNumChildren_world, if_neg (by have := getNumCells_ge t; omega)]
      exact h1
    · intro x
      rw [h4]
      constructor
      · rintro ⟨hv, hr⟩
        refine ⟨hv, hr, ?_⟩
        obtain ⟨t', S', hwf', rfl⟩ := validId_res hv hr
        have := C06.parent_world hwf'
        rwa [WORLD_CELL_eq] at this
      · rintro ⟨hv, hr, _⟩; exact ⟨hv, hr⟩
  · rw [getResolution_encId hwf] at hres ⊢
    have hrt : r ≤ t := by omega
    obtain ⟨L, h1, h2, h3, h4⟩ := C06.children_spec hwf t hrt ht
    refine ⟨L, h1, ?_, h3, h2, h4⟩
    unfold blockOf
    by_cases hEq : r = t
    · subst hEq
      rw [getNumChildren_self, if_pos rfl]
      rw [cellToChildren_self hwf] at h1
      exact h1
    · rw [if_neg (getNumChildren_ne_one r t (by omega))]
      exact h1

/-- C10: `uncompact(cells, t)` returns, for each input cell in order and with multiplicity, precisely
    `cell_to_children(cell, t)` (the cell itself if already at t); the length is the sum of `get_num_children`. -/
theorem uncompact_spec (cells : List Nat) (t : Nat) (ht : t ≤ 29) (hv : ∀ c ∈ cells, ValidId c)
    (hres : ∀ c ∈ cells, getResolution c ≤ (t : Int)) :
    ∃ blocks, List.Forall₂ (fun c B => cellToChildren c (some (t : Int)) = .ok B) cells blocks ∧
      uncompact cells t = .ok blocks.flatten ∧
      blocks.flatten.length = (cells.map fun c => getNumChildren (getResolution c) t).sum ∧
      List.Forall₂ (fun c B => ∀ x, x ∈ B ↔ (ValidId x ∧ getResolution x = (t : Int) ∧ C06.ParentIs x (getResolution c) c)) cells blocks := by
  induction cells with
  | nil => exact ⟨[], List.Forall₂.nil, rfl, rfl, List.Forall₂.nil⟩
  | cons c cells ih =>
    obtain ⟨blocks, h1, h2, h3, h4⟩ := ih (fun x hx => hv x (by simp [hx])) (fun x hx => hres x (by simp [hx]))
    obtain ⟨B, b1, b2, b3, _, b5⟩ := block_of_valid c (hv c (by simp)) t ht (hres c (by simp))
    refine ⟨B :: blocks, List.Forall₂.cons b1 h1, ?_, ?_, List.Forall₂.cons b5 h4⟩
    · -- rebuild the Forall₂ that `uncompact_ok` wants
      have hall : ∀ (cs : List Nat) (bs : List (List Nat)),
          List.Forall₂ (fun c B => cellToChildren c (some (t : Int)) = .ok B) cs bs →
          (∀ x ∈ cs, ValidId x) → (∀ x ∈ cs, getResolution x ≤ (t : Int)) →
          List.Forall₂ (fun (c : Nat) (B : List Nat) => blockOf t c (getResolution c) = .ok B ∧ B.length = getNumChildren (getResolution c) t) cs bs := by
        intro cs bs hf
        induction hf with
        | nil => intro _ _; exact List.Forall₂.nil
        | @cons a Ba cs' bs' ha _ ih' =>
          intro hv' hr'
          obtain ⟨B', e1, e2, e3, _, _⟩ := block_of_valid a (hv' a (by simp)) t ht (hr' a (by simp))
          rw [ha] at e1
          cases e1
          exact List.Forall₂.cons ⟨e2, e3⟩ (ih' (fun x hx => hv' x (by simp [hx])) (fun x hx => hr' x (by simp [hx])))
      exact uncompact_ok t (c :: cells) (B :: blocks) hres (hall _ _ (List.Forall₂.cons b1 h1) hv hres)
    · simp only [List.flatten_cons, List.length_append, List.map_cons, List.sum_cons, b3, h3]

theorem forall₂_mem_right {α β : Type} {R : α → β → Prop} {l₁ : List α} {l₂ : List β} (h : List.Forall₂ R l₁ l₂)
    {b : β} (hb : b ∈ l₂) : ∃ a, a ∈ l₁ ∧ R a b := by
  induction h with
  | nil => simp at hb
  | @cons a b' l₁ l₂ hab _ ih =>
    simp only [List.mem_cons] at hb
    rcases hb with rfl | hb
    · exact ⟨a, by simp, hab⟩
    · obtain ⟨a', ha', hr⟩ := ih hb
      exact ⟨a', by simp [ha'], hr⟩

/-- every output cell is valid, has the target resolution and maps back to one of the input cells -/
theorem uncompact_all_at_target (cells : List Nat) (t : Nat) (ht : t ≤ 29) (hv : ∀ c ∈ cells, ValidId c)
    (hres : ∀ c ∈ cells, getResolution c ≤ (t : Int)) (out : List Nat) (h : uncompact cells t = .ok out) :
    ∀ x ∈ out, ValidId x ∧ getResolution x = (t : Int) ∧ ∃ c ∈ cells, C06.ParentIs x (getResolution c) c := by
  obtain ⟨blocks, _, h2, _, h4⟩ := uncompact_spec cells t ht hv hres
  rw [h2] at h
  cases h
  intro x hx
  rw [List.mem_flatten] at hx
  obtain ⟨B, hB, hxB⟩ := hx
  obtain ⟨c, hc, hcB⟩ := forall₂_mem_right h4 hB
  have := (hcB x).1 hxB
  exact ⟨this.1, this.2.1, c, hc, this.2.2⟩

/-- if any input cell is finer than the target, `uncompact` raises (the model returns no partial result) -/
theorem uncompact_raises (cells : List Nat) (t : Int) (h : ∃ c ∈ cells, t < getResolution c) :
    uncompact cells t = .error .value := uncompact_err t cells h

/-- the sizing rule and the filling rule agree: a wrong child count would be an IndexError, never a silent gap -/
theorem fill_overflow_is_error (pre cs : List Nat) (m : Nat) (h : m < cs.length) :
    writeBlock (pre ++ List.replicate m 0) pre.length cs = .error .index := writeBlock_overflow pre cs m h

/-! non-vacuity -/
example : ValidId (encId 7 2 3) ∧ getResolution (encId 7 2 3) ≤ ((4 : Nat) : Int) :=
  ⟨Or.inr ⟨7, 2, 3, by decide, rfl⟩, by rw [getResolution_encId (by decide)]; decide⟩

end A5.C10
