/-
  Executable model (IEEE doubles) of a5/geometry/pentagon.py, a5/core/tiling.py and a5/core/cell.py.
-/
import A5.Model.Geo
import A5.Model.Serialization
import A5.Model.Planar

namespace A5.CellGeo
open A5.F A5.Geo

/-! ### PentagonShape -/

/-- `get_area()`: Σ (x_j − x_i)(y_j + y_i) over the closed ring -/
def shapeArea (vs : List V2) : Float :=
  let n := vs.length
  (List.range n).foldl (fun acc i =>
    let vi := vs.getD i (0, 0)
    let vj := vs.getD ((i + 1) % n) (0, 0)
    acc + (vj.1 - vi.1) * (vj.2 + vi.2)) 0.0

/-- `PentagonShape(vertices)`: reverse unless `_is_winding_correct()` -/
def mkShape (vs : List V2) : List V2 := if shapeArea vs >= 0 then vs else vs.reverse

def pentagonBase : List V2 :=
  (List.range 5).map fun i => (getF Tables.PENTAGON_BITS (2 * i), getF Tables.PENTAGON_BITS (2 * i + 1))
def triangleBase : List V2 := (List.range 3).map triangleVertex

def rotate180 (vs : List V2) : List V2 := vs.map fun v => (-v.1, -v.2)
def reflectY (vs : List V2) : List V2 := (vs.map fun v => (v.1, -v.2)).reverse
def translate (vs : List V2) (t : V2) : List V2 := vs.map fun v => (v.1 + t.1, v.2 + t.2)
def scaleShape (vs : List V2) (s : Float) : List V2 := vs.map fun v => (v.1 * s, v.2 * s)
def transformShape (vs : List V2) (q : Nat) : List V2 := vs.map (applyMat q)

/-- `get_center()` (builtin `sum`, then division by the vertex count) -/
def shapeCenter (vs : List V2) : V2 :=
  let n := Float.ofNat vs.length
  (pySum (vs.map (·.1)) / n, pySum (vs.map (·.2)) / n)

def VERTEX_EPSILON : Float := Float.ofBits Tables.VERTEX_EPSILON_BITS

/-- `contains_point(point)`; a wrong winding raises ValueError -/
def containsPoint (vs : List V2) (p : V2) : PyM Float :=
  if !(shapeArea vs >= 0) then .error .value
  else
    let n := vs.length
    .ok ((List.range n).foldl (fun dMax i =>
      let v1 := vs.getD i (0, 0)
      let v2 := vs.getD ((i + 1) % n) (0, 0)
      let dx := v1.1 - v2.1
      let dy := v1.2 - v2.2
      let px := p.1 - v1.1
      let py := p.2 - v1.2
      let cp := dx * py - dy * px
      if cp < 0 then
        let pLength := Float.sqrt (px * px + py * py)
        -- closer to the vertex than coordinate rounding: measured against the edge instead (repair of the exact-corner defect)
        let pLength := if pLength < VERTEX_EPSILON then Float.sqrt (dx * dx + dy * dy) else pLength
        pyMin dMax (cp / pLength)
      else dMax) 1.0)

/-- `split_edges(segments)` -/
def splitEdges (vs : List V2) (segments : Int) : List V2 :=
  if segments ≤ 1 then vs
  else
    let n := vs.length
    let seg := segments.toNat
    mkShape ((List.range n).flatMap fun i =>
      let v1 := vs.getD i (0, 0)
      let v2 := vs.getD ((i + 1) % n) (0, 0)
      v1 :: (List.range (seg - 1)).map fun j => v2lerp v1 v2 (Float.ofNat (j + 1) / Float.ofNat seg))

/-! ### tiling -/

def shiftRight : V2 := (getF Tables.SHIFT_RIGHT_BITS 0, getF Tables.SHIFT_RIGHT_BITS 1)
def shiftLeft : V2 := (getF Tables.SHIFT_LEFT_BITS 0, getF Tables.SHIFT_LEFT_BITS 1)

/-- `get_pentagon_vertices(resolution, quintant, anchor)`: the generic placement (Model/Planar.lean) on doubles with the module constants -/
def pentagonVertices (resolution : Nat) (quintant : Nat) (a : Hilbert.Anchor) : List V2 :=
  Planar.place (α := Float) (if Tables.TRIANGLE_MODE then triangleBase else pentagonBase) (BS 0, BS 1, BS 2, BS 3) shiftLeft shiftRight
    (QROT quintant 0, QROT quintant 1, QROT quintant 2, QROT quintant 3) resolution a

def quintantShape (q : Nat) : List V2 := transformShape (mkShape triangleBase) q

/-- `get_face_vertices()` -/
def faceVertices : List V2 :=
  let v : V2 := (getF Tables.PENTAGON_V_BITS 0, getF Tables.PENTAGON_V_BITS 1)
  mkShape ((List.range 5).map fun q => transformMat2 v (QROT q 0) (QROT q 2) (QROT q 1) (QROT q 3))

/-- `get_quintant_polar(polar)` -/
def quintantPolar (polar : V2) : Nat := ((pyRound (polar.2 / TWO_PI_OVER_5) + 5) % 5).toNat

/-! ### cell.py -/

structure Est where
  origin : Nat
  segment : Int
  S : Int
  res : Int
  deriving Repr, DecidableEq

def Est.toCell (e : Est) : Cell := { origin := e.origin, segment := e.segment, S := e.S, res := e.res }

/-- `_lonlat_to_estimate(lon_lat, resolution)` -/
def lonlatToEstimate (ll : V2) (resolution : Int) : PyM Est :=
  let spherical := fromLonLat ll
  let o := findNearestOrigin spherical
  (dodecForward spherical o).bind fun dp =>
    let polar := toPolar dp
    let quintant := quintantPolar polar
    let (segment, orientation) := quintantToSegment quintant o
    if resolution < FHR then .ok { origin := o, segment := segment, S := 0, res := resolution }
    else
      let dp : V2 :=
        if quintant != 0 then
          let extra := 2 * PI_OVER_5 * Float.ofNat quintant
          let c := Float.cos (-extra)
          let s := Float.sin (-extra)
          (c * dp.1 - s * dp.2, s * dp.1 + c * dp.2)
        else dp
      let hres := (1 + resolution - FHR).toNat
      let sf := Float.ofNat (2 ^ hres)
      let dp : V2 := (dp.1 * sf, dp.2 * sf)
      let ij := faceToIj dp
      let S := Hilbert.ijToS ij.1 ij.2 hres orientation
      .ok { origin := o, segment := segment, S := S, res := resolution }

/-- `_get_pentagon(cell)` -/
def getPentagon (c : Cell) : PyM (List V2) :=
  let (quintant, orientation) := segmentToQuintant c.segment c.origin
  if c.res = FHR - 1 then .ok (quintantShape quintant.toNat)
  else if c.res = FHR - 2 then .ok faceVertices
  else
    let hres := (c.res - FHR + 1).toNat
    (Hilbert.sToAnchor c.S.toNat hres orientation).bind fun a => .ok (pentagonVertices hres quintant.toNat a)

/-- `a5cell_contains_point(cell, point)` -/
def cellContainsPoint (c : Cell) (ll : V2) : PyM Float :=
  (getPentagon c).bind fun pentagon =>
    (dodecForward (fromLonLat ll) c.origin).bind fun pp => containsPoint pentagon pp

/-- the 1 + 25 sample coordinates of `lonlat_to_cell`: a spiral in the plane tangent to the sphere at the query point (repaired) -/
def samples (ll : V2) (hres : Nat) : List V2 :=
  let scale : Float := (50 / Float.ofNat (2 ^ hres)) * (pi / 180)
  let p := toCartesian (fromLonLat ll)
  let ref : V3 := if p.2.2.abs < 0.9 then (0.0, 0.0, 1.0) else (1.0, 0.0, 0.0)
  let e1 := v3cross ref p
  let n := v3length e1
  let e1 : V3 := (e1.1 / n, e1.2.1 / n, e1.2.2 / n)
  let e2 := v3cross p e1
  ll :: (List.range 25).map fun i =>
    let R := (Float.ofNat i / 25) * scale
    let a := Float.cos (Float.ofNat i) * R
    let b := Float.sin (Float.ofNat i) * R
    toLonLat (toSpherical (p.1 + a * e1.1 + b * e2.1, p.2.1 + a * e1.2.1 + b * e2.2.1, p.2.2 + a * e1.2.2 + b * e2.2.2))

/-- the search loop of `lonlat_to_cell`: first new estimate containing the point wins; otherwise the candidates with their scores -/
def searchLoop (ll : V2) (resolution : Int) : List V2 → List Nat → List (Est × Float) → PyM (Sum Nat (List (Est × Float)))
  | [], _, cells => .ok (.inr cells)
  | s :: rest, seen, cells =>
    (lonlatToEstimate s resolution).bind fun est =>
      (serialize est.toCell).bind fun key =>
        if seen.contains key then searchLoop ll resolution rest seen cells
        else
          (cellContainsPoint est.toCell ll).bind fun d =>
            if d > 0 then .ok (.inl key)
            else searchLoop ll resolution rest (key :: seen) (cells ++ [(est, d)])

/-- stable `sort(key=distance, reverse=True)`, then the first element: the first candidate of maximal score -/
def bestCandidate : List (Est × Float) → Option (Est × Float)
  | [] => none
  | c :: cs => some (cs.foldl (fun best x => if x.2 > best.2 then x else best) c)

/-- `lonlat_to_cell(lon_lat, resolution)` -/
def lonlatToCell (ll : V2) (resolution : Int) : PyM Nat :=
  if resolution = -1 then .ok WORLD_CELL
  else if resolution < FHR then (lonlatToEstimate ll resolution).bind fun e => serialize e.toCell
  else
    let hres := (1 + resolution - FHR).toNat
    (searchLoop ll resolution (samples ll hres) [] []).bind fun r =>
      match r with
      | .inl key => .ok key
      | .inr cells =>
        match bestCandidate cells with
        | some (e, _) => serialize e.toCell
        | none => .error .index

/-- `cell_to_lonlat(cell_id)` (with the repaired longitude wrap) -/
def cellToLonLat (cellId : Nat) : PyM V2 :=
  if cellId = WORLD_CELL then .ok (0.0, 0.0)
  else
    (deserialize cellId).bind fun cell =>
      (getPentagon cell).bind fun pentagon =>
        (dodecInverse (shapeCenter pentagon) cell.origin).bind fun point =>
          let (lon, lat) := toLonLat point
          let lon := if lon < -180 then lon + 360 else if lon > 180 then lon - 360 else lon
          .ok (lon, lat)

/-- `normalize_longitudes(contour)` -/
def normalizeLongitudes (contour : List V2) : List V2 :=
  let points := contour.map fun ll => toCartesian (fromLonLat ll)
  let center := points.foldl v3add (0.0, 0.0, 0.0)
  let center := v3normalize center
  let (centerLon, centerLat) := toLonLat (toSpherical center)
  let centerLon := if centerLat > 89.99 || centerLat < -89.99 then (contour.headD (0, 0)).1 else centerLon
  let centerLon := pyModPos (pyModPos (centerLon + 180) 360 + 360) 360 - 180
  contour.map fun p =>
    -- the two `while` loops: at most a few turns for finite input (fuel 64)
    let rec down (fuel : Nat) (lon : Float) : Float :=
      match fuel with
      | 0 => lon
      | f + 1 => if lon - centerLon > 180 then down f (lon - 360) else lon
    let rec up (fuel : Nat) (lon : Float) : Float :=
      match fuel with
      | 0 => lon
      | f + 1 => if lon - centerLon < -180 then up f (lon + 360) else lon
    (up 64 (down 64 p.1), p.2)

/-- `cell_to_boundary(cell_id, options)`; `segments = none` means omitted / None / 'auto' -/
def cellToBoundary (cellId : Nat) (closedRing : Bool) (segments : Option Int) : PyM (List V2) :=
  if cellId = WORLD_CELL then .ok []
  else
    (deserialize cellId).bind fun cell =>
      let seg : Int := match segments with
        | some s => s
        | none => max 1 (if 6 - cell.res ≥ 0 then (2 : Int) ^ (6 - cell.res).toNat else 0)
      (getPentagon cell).bind fun pentagon =>
        let vertices := splitEdges pentagon seg
        (vertices.mapM fun v => (dodecInverse v cell.origin).bind fun s => .ok (toLonLat s)).bind fun boundary =>
          let nb := normalizeLongitudes boundary
          let nb := if closedRing then nb ++ [nb.headD (0, 0)] else nb
          .ok nb.reverse

end A5.CellGeo
