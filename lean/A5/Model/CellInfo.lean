/-
  Model of a5/core/cell_info.py
-/
import A5.Model.Basic

namespace A5

def CIFHR : Int := Tables.CELLINFO_FIRST_HILBERT_RESOLUTION
def AUTHALIC_AREA : Float := Float.ofBits Tables.AUTHALIC_AREA_BITS

/-- `get_num_cells(resolution)` -/
def getNumCells (r : Int) : Nat :=
  if r < 0 then 0 else if r = 0 then 12 else 60 * 4 ^ (r - 1).toNat

/-- `get_num_children(parent_resolution, child_resolution)` -/
def getNumChildren (p c : Int) : Nat :=
  if c < p then 0
  else if c = p then 1
  else if p ≥ CIFHR then 4 ^ (c - p).toNat
  else
    let parentCount := if getNumCells p = 0 then 1 else getNumCells p   -- `get_num_cells(p) or 1`
    let childCount := getNumCells c
    childCount / parentCount

/-- `cell_area(resolution)`: float division of the area constant by an exactly converted int -/
def cellArea (r : Int) : Float :=
  if r < 0 then AUTHALIC_AREA else AUTHALIC_AREA / (getNumCells r).toFloat

end A5
