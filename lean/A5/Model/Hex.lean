/-
  Model of a5/core/hex.py:  `u64_to_hex(n) = hex(n)[2:]`,  `hex_to_u64(s) = int(s, 16)`.
  The two builtins are modelled from CPython's documented grammar (ASCII input only).
-/
import A5.Model.Basic

namespace A5

def hexDigitChar (d : Nat) : Char :=
  if d < 10 then Char.ofNat (48 + d) else Char.ofNat (87 + d)

/-- base-16 digits of `n`, most significant first (`[0]` for 0) -/
def hexDigits (n : Nat) : List Nat :=
  if _h : n < 16 then [n] else hexDigits (n / 16) ++ [n % 16]
termination_by n
decreasing_by omega

/-- `hex(n)[2:]` for `n ≥ 0` -/
def u64ToHexChars (n : Nat) : List Char := (hexDigits n).map hexDigitChar

/-- `hex(n)[2:]` for any int: a negative `n` prints `-0x…`, so the slice starts at the `x` -/
def u64ToHex (n : Int) : String :=
  if n ≥ 0 then String.ofList (u64ToHexChars n.toNat)
  else String.ofList ('x' :: u64ToHexChars (-n).toNat)

/-- value of a hexadecimal digit character -/
def hexVal (c : Char) : Option Nat :=
  if '0' ≤ c ∧ c ≤ '9' then some (c.toNat - 48)
  else if 'a' ≤ c ∧ c ≤ 'f' then some (c.toNat - 87)
  else if 'A' ≤ c ∧ c ≤ 'F' then some (c.toNat - 55)
  else none

/-- what `int()` strips from an ASCII string (C `isspace`: TAB LF VT FF CR SPACE) -/
def isPySpace (c : Char) : Bool :=
  (9 ≤ c.toNat ∧ c.toNat ≤ 13) ∨ c.toNat = 32

/-- digits with single underscores between them; `prevUnderscore` = last char was `_`;
    `acc = none` until the first digit -/
def parseDigits : List Char → Bool → Option Nat → Option Nat
  | [], prevU, acc => if prevU then none else acc
  | c :: cs, prevU, acc =>
    if c = '_' then
      if prevU then none else parseDigits cs true acc
    else
      match hexVal c with
      | some d => parseDigits cs false (some (16 * acc.getD 0 + d))
      | none => none

/-- optional sign -/
def stripSign : List Char → Bool × List Char
  | [] => (false, [])
  | c :: r => if c = '+' then (false, r) else if c = '-' then (true, r) else (false, c :: r)

/-- optional `0x` / `0X` prefix, after which one underscore is allowed -/
def stripPrefix : List Char → List Char
  | c0 :: c1 :: r =>
    if c0 = '0' ∧ (c1 = 'x' ∨ c1 = 'X') then
      (match r with
       | u :: r' => if u = '_' then r' else u :: r'
       | [] => [])
    else c0 :: c1 :: r
  | s => s

/-- `int(s, 16)` on the characters of `s`; `none` = `ValueError` -/
def parseHexChars (s : List Char) : Option Int :=
  let s := s.dropWhile isPySpace
  let s := (s.reverse.dropWhile isPySpace).reverse
  let (neg, s) := stripSign s
  let s := stripPrefix s
  match s with
  | [] => none
  | c :: r =>
    if c = '_' then none
    else
      match parseDigits (c :: r) false none with
      | some v => some (if neg then -(v : Int) else (v : Int))
      | none => none

/-- `hex_to_u64(s)` -/
def hexToU64 (s : String) : PyM Int :=
  match parseHexChars s.toList with
  | some v => .ok v
  | none => .error .value

end A5
