/-
  Planar pentagon placement (a5/geometry/pentagon.py shape operations + a5/core/tiling.py `get_pentagon_vertices`), written once
  over an arbitrary scalar type: run on IEEE doubles for the correspondence, reasoned about over ℚ for the congruence theorems.
-/
import A5.Model.Hilbert

namespace A5.Planar
open A5.Hilbert (Scalar Anchor)
open A5.Hilbert.Scalar

variable {α : Type} [Scalar α]

abbrev P2 (α : Type) := α × α

def zero : α := ofInt 0

/-- `get_area()`: Σ (x_j − x_i)(y_j + y_i) over the closed ring, accumulated from 0.0 in index order -/
def area (vs : List (P2 α)) : α :=
  let n := vs.length
  (List.range n).foldl (fun acc i =>
    let vi := vs.getD i (zero, zero)
    let vj := vs.getD ((i + 1) % n) (zero, zero)
    add acc (mul (sub vj.1 vi.1) (add vj.2 vi.2))) zero

/-- `PentagonShape(vertices)`: reversed unless `get_area() >= 0` -/
def mkShape (vs : List (P2 α)) : List (P2 α) := if lt (area vs) zero then vs.reverse else vs

def rotate180 (vs : List (P2 α)) : List (P2 α) := vs.map fun v => (neg v.1, neg v.2)
def reflectY (vs : List (P2 α)) : List (P2 α) := (vs.map fun v => (v.1, neg v.2)).reverse
def translate (vs : List (P2 α)) (t : P2 α) : List (P2 α) := vs.map fun v => (add v.1 t.1, add v.2 t.2)
def scaleBy (vs : List (P2 α)) (s : α) : List (P2 α) := vs.map fun v => (mul v.1 s, mul v.2 s)
/-- `transform(((a,b),(c,d)))` -/
def applyMat (m : α × α × α × α) (v : P2 α) : P2 α :=
  (add (mul m.1 v.1) (mul m.2.1 v.2), add (mul m.2.2.1 v.1) (mul m.2.2.2 v.2))
def transform (vs : List (P2 α)) (m : α × α × α × α) : List (P2 α) := vs.map (applyMat m)

/-- `get_pentagon_vertices(resolution, quintant, anchor)` with the module constants as parameters:
    `base` = PENTAGON, `basis` = BASIS ((b00,b01),(b10,b11)), the two shifts, `rot` = QUINTANT_ROTATIONS[quintant] -/
def place (base : List (P2 α)) (basis : α × α × α × α) (shiftL shiftR : P2 α) (rot : α × α × α × α)
    (resolution : Nat) (a : Anchor) : List (P2 α) :=
  let p := mkShape base
  let i : α := ofInt a.i
  let j : α := ofInt a.j
  -- vec2.transformMat2(out, offset, [b00, b10, b01, b11]): out0 = b00*i + b01*j, out1 = b10*i + b11*j
  let translation : P2 α := (add (mul basis.1 i) (mul basis.2.1 j), add (mul basis.2.2.1 i) (mul basis.2.2.2 j))
  let fx := a.flips.1
  let fy := a.flips.2
  let p := if !fx && fy then rotate180 p else p
  let k := a.k
  let bothOrNone := fx == fy
  let p := if (bothOrNone && k > 1) || (!bothOrNone && (k == 0 || k == 3)) then reflectY p else p
  let p := if fx && fy then rotate180 p else if fx then translate p shiftL else if fy then translate p shiftR else p
  let p := translate p translation
  let p := scaleBy p (div (ofInt 1) (ofInt (2 ^ resolution)))
  transform p rot

end A5.Planar
