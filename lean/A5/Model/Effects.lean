/-
  Model of the library's shared mutable state (C16/C17).

  A call into the library is a program over a shared store.  The only shared locations the repaired code touches while
  computing a result are memo slots (`face_triangles[i]`, `spherical_triangles[i]`, `_inverse_triangle_cache[key]`), an inert
  invocation counter, and read-only tables.  `lookup`/`fill`/`tick` are the atomic steps (one list/dict operation under the GIL);
  everything else is pure and lives inside the continuations.  `regWrite`/`regRead` model a shared scratch register — what the
  pinned tree did with its module-level vectors — and are used only to show that such programs are NOT interference free.
-/
namespace A5.Effects

variable {Slot Val Reg : Type}

structure Store (Slot Val Reg : Type) where
  memo : Slot → Option Val
  counter : Nat
  reg : Reg → Val

inductive Prog (Slot Val Reg : Type) : Type → Type 1 where
  | ret {α} : α → Prog Slot Val Reg α
  | lookup {α} : Slot → (Option Val → Prog Slot Val Reg α) → Prog Slot Val Reg α
  | fill {α} : Slot → Val → Prog Slot Val Reg α → Prog Slot Val Reg α
  | tick {α} : Prog Slot Val Reg α → Prog Slot Val Reg α
  | regWrite {α} : Reg → Val → Prog Slot Val Reg α → Prog Slot Val Reg α
  | regRead {α} : Reg → (Val → Prog Slot Val Reg α) → Prog Slot Val Reg α

/-- every filled slot holds the value its key determines -/
def Inv (f : Slot → Val) (σ : Store Slot Val Reg) : Prop := ∀ s v, σ.memo s = some v → v = f s

def updMemo [DecidableEq Slot] (σ : Store Slot Val Reg) (s : Slot) (v : Val) : Store Slot Val Reg :=
  { σ with memo := fun t => if t = s then some v else σ.memo t }

def updReg [DecidableEq Reg] (σ : Store Slot Val Reg) (r : Reg) (v : Val) : Store Slot Val Reg :=
  { σ with reg := fun t => if t = r then v else σ.reg t }

/-- `Runs f p σ a σ'`: `a` is a possible result of `p` started in `σ` when, before each of its atomic steps, the environment
    (other threads at any interleaving, any number of them, and all earlier calls) may replace the store by ANY store that
    satisfies the cache invariant — in particular by any store other disciplined calls can produce. -/
inductive Runs [DecidableEq Slot] [DecidableEq Reg] (f : Slot → Val) :
    {α : Type} → Prog Slot Val Reg α → Store Slot Val Reg → α → Store Slot Val Reg → Prop where
  | ret {α} (a : α) (σ) : Runs f (.ret a) σ a σ
  | lookup {α} (s k) (σ σ₁ σ₂ : Store Slot Val Reg) (a : α) :
      Inv f σ₁ → Runs f (k (σ₁.memo s)) σ₁ a σ₂ → Runs f (.lookup s k) σ a σ₂
  | fill {α} (s v) (k : Prog Slot Val Reg α) (σ σ₁ σ₂) (a : α) :
      Inv f σ₁ → Runs f k (updMemo σ₁ s v) a σ₂ → Runs f (.fill s v k) σ a σ₂
  | tick {α} (k : Prog Slot Val Reg α) (σ σ₁ σ₂) (a : α) :
      Inv f σ₁ → Runs f k { σ₁ with counter := σ₁.counter + 1 } a σ₂ → Runs f (.tick k) σ a σ₂
  | regWrite {α} (r v) (k : Prog Slot Val Reg α) (σ σ₁ σ₂) (a : α) :
      Inv f σ₁ → Runs f k (updReg σ₁ r v) a σ₂ → Runs f (.regWrite r v k) σ a σ₂
  | regRead {α} (r) (k : Val → Prog Slot Val Reg α) (σ σ₁ σ₂) (a : α) :
      Inv f σ₁ → Runs f (k (σ₁.reg r)) σ₁ a σ₂ → Runs f (.regRead r k) σ a σ₂

/-- the memo discipline: a program with sequential denotation `d` that touches shared state only through memo slots and the counter -/
inductive Disc (f : Slot → Val) : {α : Type} → Prog Slot Val Reg α → α → Prop where
  | ret {α} (a : α) : Disc f (.ret a) a
  /-- read a slot; on a hit continue with the stored value, on a miss continue with `none`; both continuations denote `d` -/
  | lookup {α} (s) (k : Option Val → Prog Slot Val Reg α) (d : α) :
      Disc f (k (some (f s))) d → Disc f (k none) d → Disc f (.lookup s k) d
  /-- only the value determined by the key may be stored -/
  | fill {α} (s) (k : Prog Slot Val Reg α) (d : α) : Disc f k d → Disc f (.fill s (f s) k) d
  | tick {α} (k : Prog Slot Val Reg α) (d : α) : Disc f k d → Disc f (.tick k) d

end A5.Effects
