/-
  Model of a5-py — common definitions.  No Mathlib imports in `A5/Model/*` (the line-protocol driver links them).

  Python semantics followed here:
    * ints are unbounded (`Nat`/`Int`);  `a << n`, `a >> n` raise `ValueError` when `n < 0`;
    * `//` and `%` floor (for the positive divisors used in the code this is Lean's `Int` `/` and `%`);
    * `raise X`  ↦  `Except.error Err.x`  (only the exception class is modelled, never the message);
    * `list[i]` out of range raises `IndexError`.
-/
import A5.Gen.Tables

namespace A5

/-- exception classes the modelled code can raise -/
inductive Err where
  | value | index | type | zerodiv | overflow | other
  deriving Repr, DecidableEq, Inhabited

def Err.name : Err → String
  | .value => "ValueError" | .index => "IndexError" | .type => "TypeError"
  | .zerodiv => "ZeroDivisionError" | .overflow => "OverflowError" | .other => "Other"

abbrev PyM := Except Err

/-- `a << n` on a non-negative int -/
def shl (a : Nat) (n : Int) : PyM Nat :=
  if n < 0 then .error .value else .ok (a <<< n.toNat)

/-- `a >> n` on a non-negative int -/
def shr (a : Nat) (n : Int) : PyM Nat :=
  if n < 0 then .error .value else .ok (a >>> n.toNat)

/-- `A5Cell`: `origin` is the index of the `Origin` object in `origins` (which is also its `.id`). -/
structure Cell where
  origin  : Nat
  segment : Int
  S       : Int
  res     : Int
  deriving Repr, DecidableEq, Inhabited

-- constants of a5/core/serialization.py, taken from the generated tables
def FHR  : Int := Tables.FIRST_HILBERT_RESOLUTION
def MAXR : Int := Tables.MAX_RESOLUTION
def HSB  : Int := Tables.HILBERT_START_BIT
def REMOVAL_MASK : Nat := Tables.REMOVAL_MASK
def WORLD_CELL : Nat := Tables.WORLD_CELL
def NUM_ORIGINS : Nat := Tables.NUM_ORIGINS

/-- `origins[i]` (IndexError past the end; the model only indexes with non-negative ints) -/
def originAt (i : Nat) : PyM Nat :=
  if i < NUM_ORIGINS then .ok i else .error .index

/-- `origins[o].first_quintant` -/
def firstQuintant (o : Nat) : Int := Tables.FIRST_QUINTANT.getD o 0

end A5
