/-
  Model of a5/core/hilbert.py.

  Loop-to-recursion transformation (validated exhaustively by the correspondence for small levels and by sampling above):
  the Python code keeps the base-4 digits least-significant first in a list and walks it by index from the top;
  the model keeps them most-significant first and recurses structurally.  `Flips` uses `true` for YES (−1).
-/
import A5.Model.Basic

namespace A5.Hilbert

abbrev Flips := Bool × Bool

/-- `quaternary_to_flips(n)`: [(NO,NO),(NO,YES),(NO,NO),(YES,NO)] -/
def qflips (d : Nat) : Flips := if d = 1 then (false, true) else if d = 3 then (true, false) else (false, false)

/-- component-wise product of ±1 flips -/
def fmul (a b : Flips) : Flips := (xor a.1 b.1, xor a.2 b.2)

def PATTERN : List Nat := Tables.PATTERN
def PATTERN_FLIPPED : List Nat := Tables.PATTERN_FLIPPED
/-- `reverse_pattern(pattern) = [pattern.index(i) for i in range(len(pattern))]` -/
def reversePattern (p : List Nat) : List Nat := (List.range p.length).map (fun i => p.idxOf i)

/-- `quaternary_to_kj(n, flips)` (integer valued) -/
def kjOf (d : Nat) (f : Flips) : Int × Int :=
  let (p, q) : (Int × Int) × (Int × Int) :=
    match f with
    | (false, false) => ((1, 0), (0, 1))      -- k_pos, j_pos
    | (true, false) => ((0, -1), (-1, 0))     -- j_neg, k_neg
    | (false, true) => ((0, 1), (1, 0))       -- j_pos, k_pos
    | (true, true) => ((-1, 0), (0, -1))      -- k_neg, j_neg
  if d = 0 then (0, 0)
  else if d = 1 then p
  else if d = 2 then (p.1 + q.1, p.2 + q.2)
  else (q.1 + 2 * p.1, q.2 + 2 * p.2)

/-- `kj_to_ij` -/
def kjToIj (kj : Int × Int) : Int × Int := (kj.1 - kj.2, kj.2)

/-- one call of `_shift_digits(digits, i, flips, invert_j, pattern)` acting on (digits[i], digits[i-1]) = (parent, child) -/
def shiftStep (pat : List Nat) (invertJ : Bool) (fl : Flips) (parent child : Nat) : Nat × Nat :=
  let f0 := fl.1 != fl.2                       -- F == 0  ⇔ exactly one flip is YES
  let needs := if invertJ != f0 then (parent == 1 || parent == 2) else decide (parent < 2)
  let first := if invertJ != f0 then parent == 1 else parent == 0
  if !needs then (parent, child)
  else
    let src := if first then child else child + 4
    let dst := pat.getD src 0
    ((parent + 4 + dst / 4 - src / 4) % 4, dst % 4)

/-- first loop of `_s_to_anchor` (most significant digit first): `P` is the pending, already child-shifted digit -/
def fwd (pat : List Nat) (inv : Bool) : Nat → Flips → List Nat → List Nat
  | P, _, [] => [P]
  | P, f, c :: cs =>
    let r := shiftStep pat inv f P c
    r.1 :: fwd pat inv r.2 (fmul f (qflips r.1)) cs

def shiftAll (pat : List Nat) (inv : Bool) : List Nat → List Nat
  | [] => []
  | d :: rest => fwd pat inv d (false, false) rest

/-- second loop of `_s_to_anchor`: offset in kj units and the final flips -/
def accumulate : List Nat → Flips → (Int × Int) → (Int × Int) × Flips
  | [], f, off => (off, f)
  | d :: ds, f, off =>
    let c := kjOf d f
    accumulate ds (fmul f (qflips d)) (off.1 * 2 + c.1, off.2 * 2 + c.2)

/-- the `resolution` base-4 digits of `s`, most significant first (more digits when `s ≥ 4^resolution`, as in the `while` loop) -/
def digitsLSB : Nat → Nat → Nat → List Nat
  | 0, _, _ => []
  | fuel + 1, s, need => if s > 0 ∨ need > 0 then (s % 4) :: digitsLSB fuel (s / 4) (need - 1) else []

def digitsMSB (s n : Nat) : List Nat := (digitsLSB (s + n + 1) s n).reverse

structure Anchor where
  k : Nat
  i : Int
  j : Int
  flips : Flips
  deriving Repr, DecidableEq

/-- `_s_to_anchor(s, resolution, invert_j, flip_ij)` -/
def sToAnchorCore (s n : Nat) (invertJ flipIJ : Bool) : Anchor :=
  let pat := if flipIJ then PATTERN_FLIPPED else PATTERN
  let ds := shiftAll pat invertJ (digitsMSB s n)
  let r := accumulate ds (false, false) (0, 0)
  let ij := kjToIj r.1
  { k := ds.getLastD 0, i := ij.1, j := ij.2, flips := r.2 }

def orientReverse (o : String) : Bool := o == "vu" || o == "wu" || o == "vw"
def orientInvertJ (o : String) : Bool := o == "wv" || o == "vw"
def orientFlipIJ (o : String) : Bool := o == "wu" || o == "uw"

/-- `s_to_anchor(s, resolution, orientation)`.  A reversed index below zero (`s ≥ 4^resolution`) yields, through Python's floor
    `%`/`>>`, exactly the `resolution` low base-4 digits of its two's complement, i.e. of `s' mod 4^resolution`. -/
def sToAnchor (s n : Nat) (o : String) : PyM Anchor :=
  let reverse := orientReverse o
  let invertJ := orientInvertJ o
  let flipIJ := orientFlipIJ o
  if False then .error .other
  else
    let sI : Int := if reverse then (4 ^ n : Int) - (s : Int) - 1 else (s : Int)
    let s' : Nat := if sI < 0 then (sI % (4 ^ n : Int)).toNat else sI.toNat
    let a := sToAnchorCore s' n invertJ flipIJ
    let a :=
      if flipIJ then
        let i := a.j
        let j := a.i
        let (i, j) := if a.flips.1 then (i + Tables.FLIP_SHIFT.1, j + Tables.FLIP_SHIFT.2) else (i, j)
        let (i, j) := if a.flips.2 then (i - Tables.FLIP_SHIFT.1, j - Tables.FLIP_SHIFT.2) else (i, j)
        { a with i := i, j := j }
      else a
    let a :=
      if invertJ then
        { a with j := (2 ^ n : Int) - (a.i + a.j), flips := (!a.flips.1, a.flips.2) }
      else a
    .ok a

/-! ### inverse direction, generic in the scalar type (IEEE doubles for the correspondence, an ordered field for the proofs) -/

class Scalar (α : Type) where
  ofInt : Int → α
  add : α → α → α
  sub : α → α → α
  mul : α → α → α
  div : α → α → α
  neg : α → α
  lt : α → α → Bool

instance : Scalar Float where
  ofInt := Float.ofInt
  add := (· + ·)
  sub := (· - ·)
  mul := (· * ·)
  div := (· / ·)
  neg := fun x => -x
  lt := fun a b => decide (a < b)

open Scalar in
/-- `ij_to_quaternary(ij, flips)` -/
def ijToQuaternary {α : Type} [Scalar α] (u v : α) (f : Flips) : Nat :=
  let one : α := ofInt 1
  let a := if f.1 then neg (add u v) else add u v
  let b := if f.2 then neg u else u
  let c := if f.1 then neg v else v
  if f.1 != f.2 then
    if lt c one then 0 else if lt one b then 3 else if lt one a then 2 else 1
  else
    if lt a one then 0 else if lt one b then 3 else if lt one c then 2 else 1

open Scalar in
/-- first loop of `_ij_to_s`: digits most significant first -/
def decodeDigits {α : Type} [Scalar α] : Nat → α → α → α → α → Flips → List Nat
  | 0, _, _, _, _, _ => []
  | n + 1, x, y, px, py, f =>
    let scale : α := ofInt (2 ^ n)
    let d := ijToQuaternary (div (sub x px) scale) (div (sub y py) scale) f
    let c := kjToIj (kjOf d f)
    d :: decodeDigits n x y (add px (mul (ofInt c.1) scale)) (add py (mul (ofInt c.2) scale)) (fmul f (qflips d))

/-- second loop of `_ij_to_s` (un-shift, least significant pair first) written top-down: flips threaded downwards,
    digits recovered on the way back up -/
def bwd (rpat : List Nat) (inv : Bool) : Flips → List Nat → Nat × List Nat
  | _, [] => (0, [])
  | _, [x] => (x, [])
  | f, d :: d2 :: ds =>
    let below := bwd rpat inv (fmul f (qflips d)) (d2 :: ds)
    let r := shiftStep rpat inv f d below.1
    (r.1, r.2 :: below.2)

def unshiftAll (rpat : List Nat) (inv : Bool) (ds : List Nat) : List Nat :=
  match ds with
  | [] => []
  | _ => let r := bwd rpat inv (false, false) ds; r.1 :: r.2

def valueMSB (ds : List Nat) : Nat := ds.foldl (fun a d => 4 * a + d) 0

open Scalar in
/-- `_ij_to_s(input_ij, invert_j, flip_ij, resolution)` -/
def ijToSCore {α : Type} [Scalar α] (x y : α) (invertJ flipIJ : Bool) (n : Nat) : Nat :=
  let ds := decodeDigits n x y (ofInt 0) (ofInt 0) (false, false)
  let rpat := reversePattern (if flipIJ then PATTERN_FLIPPED else PATTERN)
  valueMSB (unshiftAll rpat invertJ ds)

open Scalar in
/-- `ij_to_s(input_ij, resolution, orientation)` -/
def ijToS {α : Type} [Scalar α] (x y : α) (n : Nat) (o : String) : Int :=
  let reverse := orientReverse o
  let invertJ := orientInvertJ o
  let flipIJ := orientFlipIJ o
  let (x, y) := if flipIJ then (y, x) else (x, y)
  let y := if invertJ then sub (ofInt (2 ^ n)) (add x y) else y
  let s := ijToSCore x y invertJ flipIJ n
  if reverse then (4 ^ n : Int) - s - 1 else s

end A5.Hilbert
