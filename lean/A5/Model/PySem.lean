/-
  Semantics of the Python operators that the *translated* integer core (`A5/Gen/Src.lean`, written by
  `tools/py2lean.py` from `/repo`'s current source on every run) is expressed in.

  Every Python `int` is a Lean `Int` (unbounded), every call that can raise returns `PyM`.
  Nothing in this file is specific to a5-py except `origins_get` / `origin_id` / `first_quintant`, which read
  the generated tables (an `Origin` object is represented by its index in `origins`).
-/
import A5.Model.Basic
import A5.Model.Hex

namespace A5.Py

/-- `a << n` : `ValueError` for a negative shift count -/
def shl (a n : Int) : PyM Int :=
  if n < 0 then .error .value else .ok (a <<< n.toNat)

/-- `a >> n` : `ValueError` for a negative shift count; arithmetic (floor) shift on negative `a` -/
def shr (a n : Int) : PyM Int :=
  if n < 0 then .error .value else .ok (a >>> n.toNat)

/-- `~a` -/
def bnot (a : Int) : Int := -a - 1

/-- `a & b` on unbounded two's-complement ints -/
def band (a b : Int) : Int :=
  if 0 ≤ a then
    if 0 ≤ b then ((a.toNat &&& b.toNat : Nat) : Int)
    else (a.toNat : Int) - ((a.toNat &&& (bnot b).toNat : Nat) : Int)      -- a & b = a - (a & ~b)
  else
    if 0 ≤ b then (b.toNat : Int) - ((b.toNat &&& (bnot a).toNat : Nat) : Int)
    else bnot (((bnot a).toNat ||| (bnot b).toNat : Nat) : Int)           -- De Morgan

/-- `a | b` -/
def bor (a b : Int) : Int :=
  if 0 ≤ a ∧ 0 ≤ b then ((a.toNat ||| b.toNat : Nat) : Int)
  else bnot (band (bnot a) (bnot b))

/-- `a // b` (floor) -/
def floordiv (a b : Int) : PyM Int :=
  if b = 0 then .error .zerodiv else .ok (Int.fdiv a b)

/-- `a % b` (sign of the divisor) -/
def mod (a b : Int) : PyM Int :=
  if b = 0 then .error .zerodiv else .ok (Int.fmod a b)

/-- `a ** b` for ints; a negative exponent yields a float in Python, which the integer model does not have -/
def pow (a b : Int) : PyM Int :=
  if b < 0 then .error .other else .ok (a ^ b.toNat)

/-- `a or b` on ints -/
def orInt (a b : Int) : Int := if a ≠ 0 then a else b

/-- `xs[i]` with Python's negative-index rule -/
def listGet {α : Type} (xs : List α) (i : Int) : PyM α :=
  let j : Int := if i < 0 then i + xs.length else i
  if j < 0 then .error .index
  else match xs[j.toNat]? with
    | some x => .ok x
    | none => .error .index

/-- `xs[i] = v` (in place in Python; the translated code rebinds the name) -/
def listSet {α : Type} (xs : List α) (i : Int) (v : α) : PyM (List α) :=
  let j : Int := if i < 0 then i + xs.length else i
  if j < 0 then .error .index
  else if j.toNat < xs.length then .ok (xs.set j.toNat v) else .error .index

/-- `range(n)` as a list of ints -/
def range (n : Int) : List Int := (List.range n.toNat).map Int.ofNat

/-- `range(a, b)` -/
def range2 (a b : Int) : List Int := (List.range (b - a).toNat).map fun (k : Nat) => a + (k : Int)

/-- `[x] * n` -/
def replicate {α : Type} (n : Int) (x : α) : List α := List.replicate n.toNat x

/-- `hex(n)`: `0x…` / `-0x…`, lower case, no padding (digits from the model of the builtin in A5/Model/Hex.lean) -/
def hex (n : Int) : String :=
  if n ≥ 0 then String.ofList ('0' :: 'x' :: u64ToHexChars n.toNat)
  else String.ofList ('-' :: '0' :: 'x' :: u64ToHexChars (-n).toNat)

/-- `s[k:]` for a literal `k ≥ 0` -/
def strFrom (s : String) (k : Nat) : String := String.ofList (s.toList.drop k)

/-- `int(s, base)`; only base 16 occurs in the translated code (the grammar is the model of the builtin in A5/Model/Hex.lean) -/
def intOfStr (s : String) (base : Int) : PyM Int :=
  if base = 16 then hexToU64 s else .error .other

/-- insertion into a list of (key, value) pairs kept ascending in the key; a value already present is dropped (`set`) -/
def insertKV (kx : Int × Int) : List (Int × Int) → List (Int × Int)
  | [] => [kx]
  | ky :: rest =>
    if kx.2 = ky.2 then ky :: rest
    else if kx.1 < ky.1 then kx :: ky :: rest
    else ky :: insertKV kx rest

/-- `sorted(set(xs), key=key)`.  Python orders distinct values with *equal* keys by the iteration order of the set
    (unspecified); here they keep first-occurrence order.  The bridge theorems only use it with a key proved injective. -/
def sortedSetBy (key : Int → PyM Int) (xs : List Int) : PyM (List Int) :=
  (xs.mapM fun x => key x >>= fun k => pure (k, x)) >>= fun kxs =>
    pure ((kxs.foldl (fun acc kx => insertKV kx acc) []).map Prod.snd)

/-- `origins` as a list of `Origin` handles (index = position) -/
def origins : List Int := Tables.ORIGIN_IDS.map Int.ofNat

/-- `origins[i]` -/
def originsGet (i : Int) : PyM Int := listGet origins i

/-- `origin.id` -/
def originId (o : Int) : Int := (Tables.ORIGIN_IDS.getD o.toNat 0 : Nat)

/-- `origin.first_quintant` -/
def firstQuintant (o : Int) : Int := Tables.FIRST_QUINTANT.getD o.toNat 0

/-- `A5Cell` as the translated code sees it -/
structure SCell where
  origin : Int
  segment : Int
  S : Int
  resolution : Int
  deriving Repr, DecidableEq, Inhabited

/-- Python's truthiness of a `PyM Bool`-free boolean: used for `return <comparison>` -/
abbrev ofProp (p : Prop) [Decidable p] : Bool := decide p

end A5.Py
