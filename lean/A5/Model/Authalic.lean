/-
  Model of a5/projections/authalic.py on IEEE doubles (Lean `Float` = C double; `Float.sin/cos` call the same libm as CPython's
  `math.sin/cos`: measured bit-identical on 800 000 arguments, and compared again on every run).
-/
import A5.Model.Basic

namespace A5.Authalic

def coeffs (bits : List UInt64) : List Float := bits.map Float.ofBits

/-- `_apply_coefficients(phi, C)`: Clenshaw summation, order 6, same operation order as the Python source -/
def applyCoefficients (phi : Float) (C : List Float) : Float :=
  let c := fun i => C.getD i 0.0
  let sinPhi := Float.sin phi
  let cosPhi := Float.cos phi
  let X := 2 * (cosPhi - sinPhi) * (cosPhi + sinPhi)
  let u0 := X * c 5 + c 4
  let u1 := X * u0 + c 3
  let u0 := X * u1 - u0 + c 2
  let u1 := X * u0 - u1 + c 1
  let u0 := X * u1 - u0 + c 0
  phi + 2 * sinPhi * cosPhi * u0

def forward (phi : Float) : Float := applyCoefficients phi (coeffs Tables.GEODETIC_TO_AUTHALIC_BITS)
def inverse (phi : Float) : Float := applyCoefficients phi (coeffs Tables.AUTHALIC_TO_GEODETIC_BITS)

end A5.Authalic
