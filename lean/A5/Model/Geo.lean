/-
  Executable model (IEEE doubles) of the transcendental stack: a5/core/coordinate_transforms.py, origin.py (nearest origin,
  quintant/segment), projections/gnomonic.py, polyhedral.py, dodecahedron.py, crs.py, geometry/spherical_triangle.py.
  Same operations in the same order as the Python source; caches are recomputed (their values are functions of the keys — C17).
-/
import A5.Model.FloatUtil
import A5.Model.Authalic
import A5.Model.Hilbert

namespace A5.Geo
open A5.F

/-! ### coordinate transforms -/

def degToRad (d : Float) : Float := d * (pi / 180)
def radToDeg (r : Float) : Float := r * (180 / pi)
def LONGITUDE_OFFSET : Float := ofB Tables.LONGITUDE_OFFSET_BITS

/-- `to_cartesian((theta, phi))` -/
def toCartesian (s : V2) : V3 :=
  let (theta, phi) := s
  (Float.sin phi * Float.cos theta, Float.sin phi * Float.sin theta, Float.cos phi)

/-- `to_spherical(xyz)` (repaired: atan2 form) -/
def toSpherical (v : V3) : V2 :=
  let (x, y, z) := v
  (Float.atan2 y x, Float.atan2 (Float.sqrt (x * x + y * y)) z)

/-- `from_lonlat((lon, lat))` -/
def fromLonLat (ll : V2) : V2 :=
  let theta := degToRad (ll.1 + LONGITUDE_OFFSET)
  let geodetic := degToRad ll.2
  let authalic := Authalic.forward geodetic
  (theta, pi / 2 - authalic)

/-- `to_lonlat((theta, phi))` -/
def toLonLat (s : V2) : V2 :=
  let lon := radToDeg s.1 - LONGITUDE_OFFSET
  let authalicLat := pi / 2 - s.2
  let geodetic := Authalic.inverse authalicLat
  (lon, radToDeg geodetic)

def toPolar (xy : V2) : V2 := (v2length xy, Float.atan2 xy.2 xy.1)
def toFace (p : V2) : V2 := (p.1 * Float.cos p.2, p.1 * Float.sin p.2)

def BI (i : Nat) : Float := getF Tables.BASIS_INVERSE_BITS i
def BS (i : Nat) : Float := getF Tables.BASIS_BITS i

/-- `face_to_ij(face)`: BASIS_INVERSE @ face -/
def faceToIj (f : V2) : V2 := transformMat2 f (BI 0) (BI 2) (BI 1) (BI 3)

/-- `face_to_barycentric(p, (p1, p2, p3))` -/
def faceToBarycentric (p p1 p2 p3 : V2) : V3 :=
  let d31 : V2 := (p1.1 - p3.1, p1.2 - p3.2)
  let d23 : V2 := (p3.1 - p2.1, p3.2 - p2.2)
  let d3p : V2 := (p.1 - p3.1, p.2 - p3.2)
  let det := d23.1 * d31.2 - d23.2 * d31.1
  let b0 := (d23.1 * d3p.2 - d23.2 * d3p.1) / det
  let b1 := (d31.1 * d3p.2 - d31.2 * d3p.1) / det
  (b0, b1, 1 - (b0 + b1))

/-- `barycentric_to_face(b, (p1, p2, p3))` -/
def barycentricToFace (b : V3) (p1 p2 p3 : V2) : V2 :=
  (b.1 * p1.1 + b.2.1 * p2.1 + b.2.2 * p3.1, b.1 * p1.2 + b.2.1 * p2.2 + b.2.2 * p3.2)

/-! ### origins -/

structure OriginF where
  id : Nat
  axis : V2
  quat : Float × Float × Float × Float
  inverseQuat : Float × Float × Float × Float
  angle : Float

def originF (o : Nat) : OriginF :=
  let g := fun k => getF Tables.ORIGIN_FLOATS_BITS (11 * o + k)
  { id := o, axis := (g 0, g 1), quat := (g 2, g 3, g 4, g 5), inverseQuat := (g 6, g 7, g 8, g 9), angle := g 10 }

/-- `haversine(point, axis)` (the modified form of origin.py) -/
def haversine (point axis : V2) : Float :=
  let dtheta := axis.1 - point.1
  let dphi := axis.2 - point.2
  let a1 := Float.sin (dphi / 2)
  let a2 := Float.sin (dtheta / 2)
  a1 * a1 + a2 * a2 * Float.sin point.2 * Float.sin axis.2

/-- `find_nearest_origin(point)`: first strict minimum in list order -/
def findNearestOrigin (point : V2) : Nat :=
  let r := (List.range Tables.NUM_ORIGINS).foldl (fun (acc : Float × Nat) o =>
    let d := haversine point (originF o).axis
    if d < acc.1 then (d, o) else acc) ((1.0 / 0.0 : Float), 0)
  r.2

/-- `quintant_to_segment(quintant, origin)` -/
def quintantToSegment (quintant : Int) (o : Nat) : Int × String :=
  let step : Int := Tables.WINDING_STEP.getD o 1
  let fq : Int := firstQuintant o
  let delta := (quintant - fq + 5) % 5
  let rel := (step * delta + 5) % 5
  let orientation := (Tables.ORIENTATION.getD o []).getD rel.toNat ""
  ((fq + rel) % 5, orientation)

/-- `segment_to_quintant(segment, origin)` -/
def segmentToQuintant (segment : Int) (o : Nat) : Int × String :=
  let step : Int := Tables.WINDING_STEP.getD o 1
  let fq : Int := firstQuintant o
  let rel := (segment - fq + 5) % 5
  let orientation := (Tables.ORIENTATION.getD o []).getD rel.toNat ""
  ((fq + step * rel + 5) % 5, orientation)

/-! ### gnomonic -/
def gnomonicForward (s : V2) : V2 := (Float.tan s.2, s.1)
def gnomonicInverse (p : V2) : V2 := (p.2, Float.atan p.1)

/-! ### spherical triangle area -/

/-- `SphericalPolygonShape.get_triangle_area(v1, v2, v3)` -/
def triangleArea (v1 v2 v3 : V3) : Float :=
  let midA := v3normalize (v3lerp v2 v3 0.5)
  let midB := v3normalize (v3lerp v3 v1 0.5)
  let midC := v3normalize (v3lerp v1 v2 0.5)
  let S := tripleProduct midA midB midC
  let clamped := pyMax (-1.0) (pyMin 1.0 S)
  if clamped.abs < 1e-8 then 2 * clamped else Float.asin clamped * 2

/-! ### polyhedral (slice & dice) -/

/-- `PolyhedralProjection.forward(v, (A,B,C), (f1,f2,f3))` -/
def polyForward (v A B C : V3) (f1 f2 f3 : V2) : V2 :=
  let Z := v3normalize (v3sub v A)
  let p := v3normalize (quadrupleProduct A Z B C)
  let h := vectorDifference A v / vectorDifference A p
  let areaABC := triangleArea A B C
  let scaled := h / areaABC
  let b : V3 := (1 - h, scaled * triangleArea A p C, scaled * triangleArea A B p)
  barycentricToFace b f1 f2 f3

def safeAcos (x : Float) : Float :=
  if x < 1e-3 then 2 * x + x * x * x / 3 else Float.acos (1 - 2 * x * x)

/-- `PolyhedralProjection.inverse(face_point, (f1,f2,f3), (A,B,C))` -/
def polyInverse (fp f1 f2 f3 : V2) (A B C : V3) : V3 :=
  let b := faceToBarycentric fp f1 f2 f3
  let threshold : Float := 1 - 1e-14
  if b.1 > threshold then A
  else if b.2.1 > threshold then B
  else if b.2.2 > threshold then C
  else
    let areaABC := triangleArea A B C
    let c1 := v3cross B C
    let c01 := v3dot A B
    let c12 := v3dot B C
    let c20 := v3dot C A
    let s12 := v3length c1
    let V := v3dot A c1
    let h := 1 - b.1
    let R := b.2.2 / h
    let alpha := R * areaABC
    let S := Float.sin alpha
    let halfC := Float.sin (alpha / 2)
    let CC := 2 * halfC * halfC
    let f := S * V + CC * (c01 * c12 - c20)
    let g := CC * s12 * (1 + c01)
    let q := (2 / Float.acos c12) * Float.atan2 g f
    let P := slerp B C q
    let K := vectorDifference A P
    let t := safeAcos (h * K) / safeAcos K
    slerp A P t

/-! ### dodecahedron -/

def QROT (q k : Nat) : Float := getF Tables.QUINTANT_ROTATIONS_BITS (4 * q + k)
def triangleVertex (i : Nat) : V2 := (getF Tables.TRIANGLE_BITS (2 * i), getF Tables.TRIANGLE_BITS (2 * i + 1))

/-- `PentagonShape.transform(((a,b),(c,d)))` on one vertex -/
def applyMat (q : Nat) (v : V2) : V2 := (QROT q 0 * v.1 + QROT q 1 * v.2, QROT q 2 * v.1 + QROT q 3 * v.2)

/-- `get_quintant_vertices(quintant).get_vertices()` -/
def quintantVertices (q : Nat) : List V2 := (List.range 3).map fun i => applyMat q (triangleVertex i)

/-- `_get_face_triangle(face_triangle_index)` -/
def faceTriangle0 (idx : Nat) : V2 × V2 × V2 :=
  let quintant := ((idx + 1) / 2) % 5
  let vs := quintantVertices quintant
  let vc := vs.getD 0 (0, 0)
  let v1 := vs.getD 1 (0, 0)
  let v2 := vs.getD 2 (0, 0)
  let mid := v2lerp v1 v2 0.5
  if idx % 2 == 0 then (vc, mid, v1) else (vc, v2, mid)

/-- `get_face_triangle(face_triangle_index, reflected, squashed)` (value of the cache slot) -/
def faceTriangle (idx : Nat) (reflected squashed : Bool) : V2 × V2 × V2 :=
  if !reflected then faceTriangle0 idx
  else
    let (A, B, C) := faceTriangle0 idx
    let even := idx % 2 == 0
    let A : V2 := (-A.1, -A.2)
    let midpoint := if even then B else C
    let scaleFactor : Float := if squashed then 1 + 1 / Float.cos interhedralAngle else 2
    let A : V2 := (A.1 + midpoint.1 * scaleFactor, A.2 + midpoint.2 * scaleFactor)
    (A, C, B)

def crsVertex (i : Nat) : V3 :=
  (getF Tables.CRS_VERTICES_BITS (3 * i), getF Tables.CRS_VERTICES_BITS (3 * i + 1), getF Tables.CRS_VERTICES_BITS (3 * i + 2))

/-- `CRS.get_vertex(point)`: first frame vertex within 1e-5, else ValueError -/
def crsGetVertex (p : V3) : PyM V3 :=
  match (List.range (Tables.CRS_VERTICES_BITS.length / 3)).find? (fun i =>
      let v := crsVertex i
      let dx := p.1 - v.1
      let dy := p.2.1 - v.2.1
      let dz := p.2.2 - v.2.2
      Float.sqrt (dx * dx + dy * dy + dz * dz) < 1e-5) with
  | some i => .ok (crsVertex i)
  | none => .error .value

/-- `get_spherical_triangle(face_triangle_index, origin_id, reflected)` (value of the cache slot) -/
def sphericalTriangle (idx o : Nat) (reflected : Bool) : PyM (V3 × V3 × V3) :=
  let origin := originF o
  let (a, b, c) := faceTriangle idx reflected true
  let conv := fun (face : V2) =>
    let (rho, gamma) := toPolar face
    let rotated := toCartesian (gnomonicInverse (rho, gamma + origin.angle))
    crsGetVertex (transformQuat rotated origin.quat)
  (conv a).bind fun va => (conv b).bind fun vb => (conv c).bind fun vc => .ok (va, vb, vc)

/-- `normalize_gamma(gamma)` -/
def normalizeGamma (gamma : Float) : Float :=
  let segment := gamma / TWO_PI_OVER_5
  let sCenter := pyRound segment
  let sOffset := segment - Float.ofInt sCenter
  sOffset * TWO_PI_OVER_5

/-- `should_reflect(polar)` -/
def shouldReflect (polar : V2) : Bool :=
  let D := (toFace (polar.1, normalizeGamma polar.2)).1
  D > distanceToEdge

/-- `get_face_triangle_index(polar)` -/
def faceTriangleIndex (polar : V2) : Nat := ((pyFloor (polar.2 / PI_OVER_5) + 10) % 10).toNat

/-- `DodecahedronProjection.forward(spherical, origin_id)` -/
def dodecForward (spherical : V2) (o : Nat) : PyM V2 :=
  let origin := originF o
  let unprojected := toCartesian spherical
  let out := transformQuat unprojected origin.inverseQuat
  let projectedSpherical := toSpherical out
  let polar := gnomonicForward projectedSpherical
  let polar : V2 := (polar.1, polar.2 - origin.angle)
  let idx := faceTriangleIndex polar
  let reflect := shouldReflect polar
  let (f1, f2, f3) := faceTriangle idx reflect false
  (sphericalTriangle idx o reflect).bind fun (A, B, C) => .ok (polyForward unprojected A B C f1 f2 f3)

/-- `DodecahedronProjection.inverse(face, origin_id)` -/
def dodecInverse (face : V2) (o : Nat) : PyM V2 :=
  let polar := toPolar face
  let idx := faceTriangleIndex polar
  let reflect := shouldReflect polar
  let (f1, f2, f3) := faceTriangle idx reflect false
  (sphericalTriangle idx o reflect).bind fun (A, B, C) => .ok (toSpherical (polyInverse face f1 f2 f3 A B C))

end A5.Geo
