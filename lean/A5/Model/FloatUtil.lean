/-
  IEEE-double helpers reproducing CPython semantics (the executable model runs on Lean `Float` = C double and is compared
  bit for bit with the implementation).
-/
import A5.Model.Basic

namespace A5.F

def ofB (b : UInt64) : Float := Float.ofBits b
def getF (l : List UInt64) (i : Nat) : Float := Float.ofBits (l.getD i 0)

def pi : Float := ofB Tables.PI_BITS
def PI_OVER_5 : Float := ofB Tables.PI_OVER_5_BITS
def TWO_PI_OVER_5 : Float := ofB Tables.TWO_PI_OVER_5_BITS
def distanceToEdge : Float := ofB Tables.DISTANCE_TO_EDGE_BITS
def interhedralAngle : Float := ofB Tables.INTERHEDRAL_ANGLE_BITS

/-- Float → Int for integral floats of moderate size -/
def toInt (x : Float) : Int := x.toInt64.toInt

/-- `math.floor(x)` -/
def pyFloor (x : Float) : Int := toInt x.floor

/-- `round(x)` (no ndigits): round half to even -/
def pyRound (x : Float) : Int :=
  let r := x.floor
  let d := x - r
  if d < 0.5 then toInt r
  else if d > 0.5 then toInt r + 1
  else if toInt r % 2 == 0 then toInt r else toInt r + 1

/-- `a % b` for floats with `b > 0` (sign of the divisor): exact, like C `fmod` followed by Python's sign fix -/
def pyModPos (a b : Float) : Float :=
  let n := (a / b).floor
  let r := a - n * b
  let r := if r < 0 then r + b else r
  let r := if r >= b then r - b else r
  r

/-- builtin `sum()` over floats in CPython ≥ 3.12: Neumaier compensated summation -/
def pySum (xs : List Float) : Float :=
  let (s, c) := xs.foldl (fun (acc : Float × Float) x =>
    let (s, c) := acc
    let t := s + x
    let c := if s.abs >= x.abs then c + ((s - t) + x) else c + ((x - t) + s)
    (t, c)) (0.0, 0.0)
  if c != 0.0 && c.isFinite then s + c else s

/-- builtin `min(a, b)` / `max(a, b)` on floats -/
def pyMin (a b : Float) : Float := if b < a then b else a
def pyMax (a b : Float) : Float := if b > a then b else a

abbrev V2 := Float × Float
abbrev V3 := Float × Float × Float

def v3add (a b : V3) : V3 := (a.1 + b.1, a.2.1 + b.2.1, a.2.2 + b.2.2)
def v3sub (a b : V3) : V3 := (a.1 - b.1, a.2.1 - b.2.1, a.2.2 - b.2.2)
def v3scale (a : V3) (s : Float) : V3 := (a.1 * s, a.2.1 * s, a.2.2 * s)
def v3dot (a b : V3) : Float := a.1 * b.1 + a.2.1 * b.2.1 + a.2.2 * b.2.2
def v3cross (a b : V3) : V3 :=
  (a.2.1 * b.2.2 - a.2.2 * b.2.1, a.2.2 * b.1 - a.1 * b.2.2, a.1 * b.2.1 - a.2.1 * b.1)
def v3length (a : V3) : Float := Float.sqrt (a.1 * a.1 + a.2.1 * a.2.1 + a.2.2 * a.2.2)
/-- `vec3.normalize` -/
def v3normalize (a : V3) : V3 :=
  let lenSq := a.1 * a.1 + a.2.1 * a.2.1 + a.2.2 * a.2.2
  if lenSq > 0 then
    let inv := 1.0 / Float.sqrt lenSq
    (a.1 * inv, a.2.1 * inv, a.2.2 * inv)
  else (0.0, 0.0, 0.0)
/-- `vec3.lerp` -/
def v3lerp (a b : V3) (t : Float) : V3 :=
  (a.1 + t * (b.1 - a.1), a.2.1 + t * (b.2.1 - a.2.1), a.2.2 + t * (b.2.2 - a.2.2))
/-- `vec3.angle` -/
def v3angle (a b : V3) : Float :=
  let c := v3dot (v3normalize a) (v3normalize b)
  Float.acos (pyMax (-1.0) (pyMin 1.0 c))
/-- `vec3.transformQuat(out, a, q)`, q = [x, y, z, w] -/
def transformQuat (a : V3) (q : Float × Float × Float × Float) : V3 :=
  let (qx, qy, qz, qw) := q
  let (x, y, z) := a
  let uvx := qy * z - qz * y
  let uvy := qz * x - qx * z
  let uvz := qx * y - qy * x
  let uuvx := qy * uvz - qz * uvy
  let uuvy := qz * uvx - qx * uvz
  let uuvz := qx * uvy - qy * uvx
  let w2 := qw * 2
  let uvx := uvx * w2
  let uvy := uvy * w2
  let uvz := uvz * w2
  let uuvx := uuvx * 2
  let uuvy := uuvy * 2
  let uuvz := uuvz * 2
  (x + uvx + uuvx, y + uvy + uuvy, z + uvz + uuvz)
/-- `vec3.tripleProduct(a, b, c)` = a · (b × c) -/
def tripleProduct (a b c : V3) : Float := v3dot a (v3cross b c)
/-- `vec3.vectorDifference(A, B)` -/
def vectorDifference (A B : V3) : Float :=
  let m := v3normalize (v3lerp A B 0.5)
  let m := v3cross A m
  let D := v3length m
  if D < 1e-8 then 0.5 * v3length (v3sub A B) else D
/-- `vec3.quadrupleProduct(out, A, B, C, D)` -/
def quadrupleProduct (A B C D : V3) : V3 :=
  let crossCD := v3cross C D
  let tACD := v3dot A crossCD
  let tBCD := v3dot B crossCD
  v3sub (v3scale B tACD) (v3scale A tBCD)
/-- `vec3.slerp(out, A, B, t)` -/
def slerp (A B : V3) (t : Float) : V3 :=
  let gamma := v3angle A B
  if gamma < 1e-12 then v3lerp A B t
  else
    let wa := Float.sin ((1 - t) * gamma) / Float.sin gamma
    let wb := Float.sin (t * gamma) / Float.sin gamma
    v3add (v3scale A wa) (v3scale B wb)

/-- `vec2.transformMat2(out, a, m)` with m = [m0, m1, m2, m3] (column major) -/
def transformMat2 (a : V2) (m0 m1 m2 m3 : Float) : V2 := (m0 * a.1 + m2 * a.2, m1 * a.1 + m3 * a.2)
def v2lerp (a b : V2) (t : Float) : V2 := (a.1 + t * (b.1 - a.1), a.2 + t * (b.2 - a.2))
def v2length (a : V2) : Float := Float.sqrt (a.1 * a.1 + a.2 * a.2)

end A5.F
