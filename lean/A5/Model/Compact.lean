/-
  Model of a5/core/compact.py (with the repaired hierarchical sort key).
-/
import A5.Model.Serialization
import A5.Model.CellInfo

namespace A5

def CFHR : Int := Tables.COMPACT_FIRST_HILBERT_RESOLUTION

/-! ### uncompact -/

/-- `result[offset + j] = child for j, child in enumerate(children)`; IndexError past the end -/
def writeBlock : List Nat → Nat → List Nat → PyM (List Nat)
  | result, _, [] => .ok result
  | result, offset, c :: cs =>
    if offset < result.length then writeBlock (result.set offset c) (offset + 1) cs
    else .error .index

/-- second loop of `uncompact` -/
def uncompactFill (t : Int) : List (Nat × Int) → List Nat → Nat → PyM (List Nat)
  | [], result, _ => .ok result
  | (cell, r) :: rest, result, offset => do
    let numChildren := getNumChildren r t
    let result' ←
      (if numChildren = 1 then writeBlock result offset [cell]
       else do
         let children ← cellToChildren cell (some t)
         writeBlock result offset children)
    uncompactFill t rest result' (offset + numChildren)

/-- first loop of `uncompact`: resolutions (raising on a cell finer than the target) -/
def uncompactResolutions (t : Int) (cells : List Nat) : PyM (List Int) :=
  cells.mapM fun cell =>
    let r := getResolution cell
    if t - r < 0 then (.error .value : PyM Int) else .ok r

/-- `uncompact(cells, target_resolution)` -/
def uncompact (cells : List Nat) (t : Int) : PyM (List Nat) := do
  let resolutions ← uncompactResolutions t cells
  let n := (resolutions.map fun r => getNumChildren r t).sum
  uncompactFill t (cells.zip resolutions) (List.replicate n 0) 0

/-! ### compact -/

/-- `_hierarchical_key(cell)` -/
def hierarchicalKey (cell : Nat) : Nat :=
  if getResolution cell = 0 then cell + ((4 * (cell >>> HSB.toNat)) <<< HSB.toNat) else cell

/-- insertion into a list kept strictly increasing in `key`; equal values are dropped (`set`) -/
def insertKey (key : Nat → Nat) (x : Nat) : List Nat → List Nat
  | [] => [x]
  | y :: ys =>
    if x = y then y :: ys
    else if key x < key y then x :: y :: ys
    else y :: insertKey key x ys

/-- `sorted(set(cells), key=key)` — deterministic because the key is injective (Proofs/Compact) -/
def sortedSet (key : Nat → Nat) (cells : List Nat) : List Nat :=
  cells.foldl (fun acc x => insertKey key x acc) []

def expectedChildren (r : Int) : Nat :=
  if r ≥ CFHR then 4 else if r = 0 then 12 else 5

/-- the `for j in range(1, expected_children)` test: the next `k-1` cells are `cell + j*stride` -/
def siblingsFollow (cell stride : Nat) (k : Nat) (rest : List Nat) : Bool :=
  (List.range (k - 1)).all fun j => rest[j]? == some (cell + (j + 1) * stride)

/-- the `has_all_siblings` decision for the cell at position i (`rest` = the cells after it) -/
def hasAllSiblings (cell : Nat) (r : Int) (rest : List Nat) : PyM Bool :=
  let k := expectedChildren r
  if k ≤ rest.length + 1 then
    (isFirstChild cell (some r)).bind fun first =>
      if first then (getStride r).bind fun stride => .ok (siblingsFollow cell stride k rest)
      else .ok false
  else .ok false

/-- one `while i < len(current_cells)` pass; returns the new list and the `changed` flag -/
def scanPass : List Nat → PyM (List Nat × Bool)
  | [] => .ok ([], false)
  | cell :: rest =>
    let r := getResolution cell
    if r < 0 then
      (scanPass rest).bind fun (out, ch) => .ok (cell :: out, ch)
    else
      (hasAllSiblings cell r rest).bind fun hasAll =>
        if hasAll then
          (cellToParent cell none).bind fun parent =>
            (scanPass (rest.drop (expectedChildren r - 1))).bind fun (out, _) => .ok (parent :: out, true)
        else
          (scanPass rest).bind fun (out, ch) => .ok (cell :: out, ch)
termination_by l => l.length
decreasing_by all_goals (simp only [List.length_cons, List.length_drop]; omega)

/-- `while changed:`; the fuel is the list length + 1 (each changing pass shortens the list, so the fuel never runs
    out — `compact_total` in Props/C08; running out is reported as an error, not as a value) -/
def compactLoop : Nat → List Nat → PyM (List Nat)
  | 0, _ => .error .other
  | fuel + 1, cur => do
    let (out, changed) ← scanPass cur
    if changed then compactLoop fuel out else return out

/-- `compact(cells)` -/
def compact (cells : List Nat) : PyM (List Nat) :=
  if cells.isEmpty then .ok []
  else
    let cur := sortedSet hierarchicalKey cells
    compactLoop (cur.length + 1) cur

end A5
