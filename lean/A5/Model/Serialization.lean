/-
  Model of a5/core/serialization.py — function by function, branch by branch.
-/
import A5.Model.Basic

namespace A5

/-- body of the `while resolution > -1 and (shifted & 1) == 0` loop of `get_resolution`.
    `fuel` bounds the iterations; `getResLoop_fuel` (Proofs/Ids) shows `res + 2` is always enough. -/
def getResLoop : Nat → Int → Nat → Int
  | 0, res, _ => res
  | fuel + 1, res, shifted =>
    if res > -1 ∧ shifted &&& 1 = 0 then
      let res' := res - 1
      getResLoop fuel res' (shifted >>> (if res' < FHR then 1 else 2))
    else res

/-- `get_resolution(index)` -/
def getResolution (index : Nat) : Int :=
  getResLoop (MAXR.toNat + 1) (MAXR - 1) (index >>> 1)

/-- `deserialize(index)` -/
def deserialize (index : Nat) : PyM Cell :=
  let res := getResolution index
  if res = -1 then do
    let o ← originAt 0
    return { origin := o, segment := 0, S := 0, res := res }
  else do
    let top6 := index >>> 58
    let (origin, segment) ←
      (if res = 0 then do
          let o ← originAt top6
          pure (o, (0 : Int))
        else do
          let o ← originAt (top6 / 5)
          pure (o, ((top6 : Int) + firstQuintant o) % 5) : PyM (Nat × Int))
    if res < FHR then
      return { origin := origin, segment := segment, S := 0, res := res }
    else do
      let hilbertLevels := res - FHR + 1
      let hilbertBits := 2 * hilbertLevels
      let shift := HSB - hilbertBits
      let s ← shr (index &&& REMOVAL_MASK) shift
      return { origin := origin, segment := segment, S := (s : Int), res := res }

/-- `serialize(cell)` (with the repaired bounds checks on `S`).
    Early exits are written as an `if … else if …` chain so that the term stays linear in size. -/
def serialize (c : Cell) : PyM Nat :=
  if c.res > MAXR then .error .value
  else if c.res = -1 then .ok WORLD_CELL
  else if c.S < 0 then .error .value
  else if c.res < FHR ∧ c.S ≠ 0 then .error .value
  else
    let R : Int := if c.res < FHR then c.res + 1 else 2 * (1 + c.res - FHR) + 1
    let segN : Int := (c.segment - firstQuintant c.origin + 5) % 5
    do
      let index0 ← (if c.res = 0 then shl c.origin 58 else shl (5 * c.origin + segN.toNat) 58)
      let index1 ←
        (if c.res ≥ FHR then
            let hilbertLevels := c.res - FHR + 1
            let hilbertBits := 2 * hilbertLevels
            (shl 1 hilbertBits).bind fun lim =>
              if c.S ≥ (lim : Int) then .error .value
              else (shl c.S.toNat (HSB - hilbertBits)).bind fun add => .ok (index0 + add)
          else .ok index0 : PyM Nat)
      let marker ← shl 1 (HSB - R)
      return index1 ||| marker

/-- the (origin, segment, i) triples of `cell_to_children`'s three nested loops, in loop order -/
def childTriples (os : List Nat) (segs : List Int) (cnt : Nat) : List (Nat × Int × Nat) :=
  os.flatMap fun o => segs.flatMap fun s => (List.range cnt).map fun i => (o, s, i)

/-- `cell_to_children(index, child_resolution)`; `none` = argument omitted / `None` -/
def cellToChildren (index : Nat) (childRes : Option Int) : PyM (List Nat) :=
  (deserialize index).bind fun cell =>
  let cur := cell.res
  let new := childRes.getD (cur + 1)
  if new < cur then .error .value
  else if new > MAXR then .error .value
  else if new = cur then .ok [index]
  else
    let newOrigins : List Nat := if cur = -1 then Tables.ORIGIN_IDS else [cell.origin]
    let newSegments : List Int :=
      if (cur = -1 ∧ new > 0) ∨ cur = 0 then [0, 1, 2, 3, 4] else [cell.segment]
    let diff := new - max cur (FHR - 1)
    let cnt : Nat := 4 ^ (max 0 diff).toNat
    let shiftedS : Int := cell.S * 2 ^ (2 * max 0 diff).toNat
    (childTriples newOrigins newSegments cnt).mapM fun (o, s, i) =>
      serialize { origin := o, segment := s, S := shiftedS + (i : Int), res := new }

/-- `cell_to_parent(index, parent_resolution)` -/
def cellToParent (index : Nat) (parentRes : Option Int) : PyM Nat :=
  (deserialize index).bind fun cell =>
  let cur := cell.res
  let new := parentRes.getD (cur - 1)
  if new = -1 then .ok WORLD_CELL
  else if new < -1 then .error .value
  else if new > cur then .error .value
  else if new = cur then .ok index
  else
    let diff := cur - new
    let shiftedS : Int := cell.S / 2 ^ (2 * diff).toNat
    serialize { origin := cell.origin, segment := cell.segment, S := shiftedS, res := new }

/-- `get_res0_cells()` -/
def getRes0Cells : PyM (List Nat) := cellToChildren WORLD_CELL (some 0)

/-- `is_first_child(index, resolution)` -/
def isFirstChild (index : Nat) (res : Option Int) : PyM Bool :=
  let r := res.getD (getResolution index)
  if r < 2 then
    (shr index HSB).bind fun top6 =>
      let childCount : Nat := if r = 0 then 12 else 5
      .ok (top6 % childCount == 0)
  else
    let sPos := 2 * (MAXR - r)
    (shl 3 sPos).bind fun mask => .ok (index &&& mask == 0)

/-- `get_stride(resolution)` -/
def getStride (r : Int) : PyM Nat :=
  if r < 2 then shl 1 HSB else shl 1 (2 * (MAXR - r))

end A5
