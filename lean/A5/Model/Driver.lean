/-
  Line-protocol driver for the executable model (DESIGN.md appendix B).
  One operation per input line, one canonical answer per output line.
-/
import A5.Model.Serialization
import A5.Model.CellInfo
import A5.Model.Compact
import A5.Model.Hex
import A5.Model.Hilbert
import A5.Model.Authalic
import A5.Model.CellGeo

namespace A5.Driver
open A5

def fmtErr (e : Err) : String := "err " ++ e.name

def fmtList (l : List Nat) : String :=
  l.foldl (fun acc x => acc ++ " " ++ toString x) ("ok " ++ toString l.length)

def optInt (s : String) : Option (Option Int) :=
  if s == "-" then some none else (s.toInt?).map some

/-- `segments` option of `cell_to_boundary`: omitted (`-`), `None`, `'auto'` and "no options argument" (`x`) all mean the automatic rule -/
def optSeg (s : String) : Option (Option Int) :=
  if s == "-" || s == "none" || s == "auto" || s == "x" then some none else (s.toInt?).map some

/-- `closed_ring` option: omitted (`-`) or no options argument (`x`) means the default True -/
def optClosed (s : String) : Option Bool :=
  if s == "-" || s == "x" || s == "1" then some true else if s == "0" then some false else none

def nats (l : List String) : Option (List Nat) := l.mapM String.toNat?

def fromHexBytes (s : String) : Option String :=
  let cs := s.toList
  let rec go : List Char → List Char → Option (List Char)
    | [], acc => some acc.reverse
    | [_], _ => none
    | a :: b :: r, acc =>
      match hexVal a, hexVal b with
      | some x, some y => go r (Char.ofNat (16 * x + y) :: acc)
      | _, _ => none
  (go cs []).map String.ofList

def toHexBytes (s : String) : String :=
  String.ofList (s.toList.flatMap fun c => [hexDigitChar (c.toNat / 16), hexDigitChar (c.toNat % 16)])

def fb (n : Nat) : Float := Float.ofBits (UInt64.ofNat n)

def fmtV2s (l : List (Float × Float)) : String :=
  l.foldl (fun acc v => acc ++ " " ++ toString v.1.toBits ++ " " ++ toString v.2.toBits) ("ok " ++ toString l.length)

def ofPyM {α} (f : α → String) : PyM α → String
  | .ok a => f a
  | .error e => fmtErr e

def runOp (toks : List String) : String :=
  match toks with
  | ["res", n] =>
    match n.toNat? with
    | some n => s!"ok {getResolution n}"
    | none => "bad-op"
  | ["des", n] =>
    match n.toNat? with
    | some n => ofPyM (fun c => s!"ok {c.origin} {c.segment} {c.S} {c.res}") (deserialize n)
    | none => "bad-op"
  | ["ser", o, sg, s, r] =>
    match o.toNat?, sg.toInt?, s.toInt?, r.toInt? with
    | some o, some sg, some s, some r =>
      ofPyM (fun n => s!"ok {n}") (serialize { origin := o, segment := sg, S := s, res := r })
    | _, _, _, _ => "bad-op"
  | ["children", n, r] =>
    match n.toNat?, optInt r with
    | some n, some r => ofPyM fmtList (cellToChildren n r)
    | _, _ => "bad-op"
  | ["parent", n, r] =>
    match n.toNat?, optInt r with
    | some n, some r => ofPyM (fun n => s!"ok {n}") (cellToParent n r)
    | _, _ => "bad-op"
  | ["res0"] => ofPyM fmtList getRes0Cells
  | ["first", n, r] =>
    match n.toNat?, optInt r with
    | some n, some r => ofPyM (fun b => if b then "ok 1" else "ok 0") (isFirstChild n r)
    | _, _ => "bad-op"
  | ["stride", r] =>
    match r.toInt? with
    | some r => ofPyM (fun n => s!"ok {n}") (getStride r)
    | none => "bad-op"
  | ["ncells", r] =>
    match r.toInt? with
    | some r => s!"ok {getNumCells r}"
    | none => "bad-op"
  | ["nchildren", a, b] =>
    match a.toInt?, b.toInt? with
    | some a, some b => s!"ok {getNumChildren a b}"
    | _, _ => "bad-op"
  | ["area", r] =>
    match r.toInt? with
    | some r => s!"ok {(cellArea r).toBits}"
    | none => "bad-op"
  | "compact" :: rest =>
    match nats rest with
    | some l => ofPyM fmtList (compact l)
    | none => "bad-op"
  | "uncompact" :: t :: rest =>
    match t.toInt?, nats rest with
    | some t, some l => ofPyM fmtList (uncompact l t)
    | _, _ => "bad-op"
  | ["key", n] =>
    match n.toNat? with
    | some n => s!"ok {hierarchicalKey n}"
    | none => "bad-op"
  | ["hex", n] =>
    match n.toInt? with
    | some n => "ok " ++ toHexBytes (u64ToHex n)
    | none => "bad-op"
  | ["unhex", s] =>
    match fromHexBytes s with
    | some s => ofPyM (fun v => s!"ok {v}") (hexToU64 s)
    | none => "bad-op"
  | ["unhex"] => ofPyM (fun v => s!"ok {v}") (hexToU64 "")
  | ["s2a", s, n, o] =>
    match s.toNat?, n.toNat? with
    | some s, some n =>
      ofPyM (fun (a : Hilbert.Anchor) =>
        s!"ok {a.k} {a.i} {a.j} {if a.flips.1 then -1 else (1 : Int)} {if a.flips.2 then -1 else (1 : Int)}") (Hilbert.sToAnchor s n o)
    | _, _ => "bad-op"
  | ["ij2s", ib, jb, n, o] =>
    match ib.toNat?, jb.toNat?, n.toNat? with
    | some ib, some jb, some n =>
      s!"ok {Hilbert.ijToS (Float.ofBits (UInt64.ofNat ib)) (Float.ofBits (UInt64.ofNat jb)) n o}"
    | _, _, _ => "bad-op"
  | ["l2c", lo, la, r] =>
    match lo.toNat?, la.toNat?, r.toInt? with
    | some lo, some la, some r => ofPyM (fun n => s!"ok {n}") (CellGeo.lonlatToCell (fb lo, fb la) r)
    | _, _, _ => "bad-op"
  | ["c2l", n] =>
    match n.toNat? with
    | some n => ofPyM (fun (p : Float × Float) => s!"ok {p.1.toBits} {p.2.toBits}") (CellGeo.cellToLonLat n)
    | none => "bad-op"
  | ["c2b", n, closed, seg] =>
    match n.toNat?, optClosed closed, optSeg seg with
    | some n, some c, some sg => ofPyM fmtV2s (CellGeo.cellToBoundary n c sg)
    | _, _, _ => "bad-op"
  | ["pent", h, q, s, o] =>
    match h.toNat?, q.toNat?, s.toNat? with
    | some h, some q, some s =>
      ofPyM (fun (a : Hilbert.Anchor) =>
        let vs := CellGeo.pentagonVertices h q a
        fmtV2s (vs ++ [CellGeo.shapeCenter vs])) (Hilbert.sToAnchor s h o)
    | _, _, _ => "bad-op"
  | ["dfwd", t, p, o] =>
    match t.toNat?, p.toNat?, o.toNat? with
    | some t, some p, some o => ofPyM (fun (v : Float × Float) => s!"ok {v.1.toBits} {v.2.toBits}") (Geo.dodecForward (fb t, fb p) o)
    | _, _, _ => "bad-op"
  | ["dinv", x, y, o] =>
    match x.toNat?, y.toNat?, o.toNat? with
    | some x, some y, some o => ofPyM (fun (v : Float × Float) => s!"ok {v.1.toBits} {v.2.toBits}") (Geo.dodecInverse (fb x, fb y) o)
    | _, _, _ => "bad-op"
  | ["auth", dir, b] =>
    match b.toNat? with
    | some b =>
      let x := Float.ofBits (UInt64.ofNat b)
      if dir == "fwd" then s!"ok {(Authalic.forward x).toBits}"
      else if dir == "inv" then s!"ok {(Authalic.inverse x).toBits}"
      else "bad-op"
    | none => "bad-op"
  | ["q2kj", d, fx, fy] =>
    match d.toNat?, fx.toInt?, fy.toInt? with
    | some d, some fx, some fy =>
      let r := Hilbert.kjOf d (fx == -1, fy == -1)
      s!"ok {r.1} {r.2}"
    | _, _, _ => "bad-op"
  | _ => "bad-op"

def runLine (line : String) : String :=
  runOp ((line.trimAscii.toString.splitOn " ").filter (· ≠ ""))

end A5.Driver
