/-
  C07, geometric half in exact arithmetic: the centroid of a placed pentagon is an affine function of the anchor; the displacement from
  the centroid of a parent cell (level n) to the centroid of a child cell (level n+1) is `rot · δ / 2^n`, where δ depends only on the last
  transducer step (flips, pending digit, new digit, orientation class) — a finite table.
-/
import A5.Proofs.Drift
import A5.Proofs.Congruence

namespace A5.Planar
open A5.Hilbert

/-- centroid of the vertex list of a pentagon -/
def cen (vs : List (ℚ × ℚ)) : ℚ × ℚ := ((vs.map Prod.fst).sum / 5, (vs.map Prod.snd).sum / 5)

theorem cen_translate (p : List (ℚ × ℚ)) (hp : p.length = 5) (t : ℚ × ℚ) :
    cen (translate p t) = ((cen p).1 + t.1, (cen p).2 + t.2) := by
  obtain ⟨a, b, c, d, e, rfl⟩ := len5 p hp
  simp only [translate, cen, List.map, List.sum_cons, List.sum_nil, sc_add]
  ext <;> simp <;> ring

theorem cen_scale (p : List (ℚ × ℚ)) (hp : p.length = 5) (s : ℚ) :
    cen (scaleBy p s) = ((cen p).1 * s, (cen p).2 * s) := by
  obtain ⟨a, b, c, d, e, rfl⟩ := len5 p hp
  simp only [scaleBy, cen, List.map, List.sum_cons, List.sum_nil, sc_mul]
  ext <;> simp <;> ring

theorem cen_transform (p : List (ℚ × ℚ)) (hp : p.length = 5) (m : ℚ × ℚ × ℚ × ℚ) :
    cen (transform p m) = applyMat m (cen p) := by
  obtain ⟨a, b, c, d, e, rfl⟩ := len5 p hp
  simp only [transform, applyMat, cen, List.map, List.sum_cons, List.sum_nil, sc_mul, sc_add]
  ext <;> simp <;> ring

/-- the shape of a cell before it is moved to its lattice position: `place` up to (not including) `translate p translation` -/
def shapeOf (base : List (ℚ × ℚ)) (shiftL shiftR : ℚ × ℚ) (fl : Flips) (k : Nat) : List (ℚ × ℚ) :=
  let p := mkShape base
  let fx := fl.1
  let fy := fl.2
  let p := if !fx && fy then rotate180 p else p
  let bothOrNone := fx == fy
  let p := if (bothOrNone && k > 1) || (!bothOrNone && (k == 0 || k == 3)) then reflectY p else p
  if fx && fy then rotate180 p else if fx then translate p shiftL else if fy then translate p shiftR else p

theorem shapeOf_length (base : List (ℚ × ℚ)) (hb : base.length = 5) (sl sr : ℚ × ℚ) (fl : Flips) (k : Nat) :
    (shapeOf base sl sr fl k).length = 5 := by
  unfold shapeOf
  simp only
  split_ifs <;> simp [rotate180, reflectY, translate, mkShape_length, hb]

theorem place_eq (base : List (ℚ × ℚ)) (basis : ℚ × ℚ × ℚ × ℚ) (sl sr : ℚ × ℚ) (rot : ℚ × ℚ × ℚ × ℚ) (res : Nat) (a : Anchor) :
    place base basis sl sr rot res a =
      transform (scaleBy (translate (shapeOf base sl sr a.flips a.k)
        (basis.1 * (a.i : ℚ) + basis.2.1 * (a.j : ℚ), basis.2.2.1 * (a.i : ℚ) + basis.2.2.2 * (a.j : ℚ))) (1 / 2 ^ res)) rot := by
  unfold place shapeOf
  simp only [sc_add, sc_mul, sc_div, sc_ofInt, Int.cast_one, Int.cast_pow, Int.cast_ofNat]

/-- planar position (before scaling and rotation) of the cell of an anchor, in lattice units of its own level -/
def posOf (base : List (ℚ × ℚ)) (basis : ℚ × ℚ × ℚ × ℚ) (sl sr : ℚ × ℚ) (fl : Flips) (k : Nat) (x y : ℚ) : ℚ × ℚ :=
  ((cen (shapeOf base sl sr fl k)).1 + (basis.1 * x + basis.2.1 * y), (cen (shapeOf base sl sr fl k)).2 + (basis.2.2.1 * x + basis.2.2.2 * y))

theorem cen_place (base : List (ℚ × ℚ)) (hb : base.length = 5) (basis : ℚ × ℚ × ℚ × ℚ) (sl sr : ℚ × ℚ) (rot : ℚ × ℚ × ℚ × ℚ)
    (res : Nat) (a : Anchor) :
    cen (place base basis sl sr rot res a) =
      applyMat rot ((posOf base basis sl sr a.flips a.k a.i a.j).1 * (1 / 2 ^ res), (posOf base basis sl sr a.flips a.k a.i a.j).2 * (1 / 2 ^ res)) := by
  have h5 := shapeOf_length base hb sl sr a.flips a.k
  rw [place_eq, cen_transform _ (by simp [scaleBy, translate, h5]), cen_scale _ (by simp [translate, h5]), cen_translate _ h5]
  rfl

/-- the parent → child displacement of centroids: if the child's lattice offset is 2·(u,v) + (xc,yc) and the parent's is (u,v) + (xp,yp),
    the common part cancels and the displacement is `rot · δ / 2^n` with δ free of u, v and n -/
theorem cen_diff (base : List (ℚ × ℚ)) (hb : base.length = 5) (basis : ℚ × ℚ × ℚ × ℚ) (sl sr : ℚ × ℚ) (rot : ℚ × ℚ × ℚ × ℚ)
    (n : Nat) (ac ap : Anchor) (u v xc yc xp yp : Int)
    (hci : ac.i = 2 * u + xc) (hcj : ac.j = 2 * v + yc) (hpi : ap.i = u + xp) (hpj : ap.j = v + yp) :
    let δ : ℚ × ℚ := ((posOf base basis sl sr ac.flips ac.k xc yc).1 / 2 - (posOf base basis sl sr ap.flips ap.k xp yp).1,
                     (posOf base basis sl sr ac.flips ac.k xc yc).2 / 2 - (posOf base basis sl sr ap.flips ap.k xp yp).2)
    (cen (place base basis sl sr rot (n + 1) ac)).1 - (cen (place base basis sl sr rot n ap)).1 = (applyMat rot (δ.1 / 2 ^ n, δ.2 / 2 ^ n)).1 ∧
    (cen (place base basis sl sr rot (n + 1) ac)).2 - (cen (place base basis sl sr rot n ap)).2 = (applyMat rot (δ.1 / 2 ^ n, δ.2 / 2 ^ n)).2 := by
  intro δ
  rw [cen_place base hb, cen_place base hb]
  simp only [applyMat, posOf, sc_add, sc_mul, hci, hcj, hpi, hpj, δ]
  have hp : (2:ℚ) ^ n ≠ 0 := by positivity
  constructor <;> (push_cast; rw [pow_succ]; field_simp; ring)

end A5.Planar
