/-
  Source-level tie, part 2: the translated functions with loops over lists
  (`cell_to_children`, `uncompact`, `compact`) against the hand-written model.
-/
import A5.Proofs.SrcBridge

attribute [local instance 2000] instPowNat

namespace A5.Bridge
open A5

/-! ### generic facts about `mapM` in `PyM` -/

theorem mapM_nil' {α β} (f : α → PyM β) : ([] : List α).mapM f = .ok [] := rfl

theorem mapM_cons' {α β} (f : α → PyM β) (a : α) (l : List α) :
    (a :: l).mapM f = f a >>= fun b => l.mapM f >>= fun bs => pure (b :: bs) := by
  simp [List.mapM_cons]

theorem mapM_append' {α β} (f : α → PyM β) (l1 l2 : List α) :
    (l1 ++ l2).mapM f = l1.mapM f >>= fun a => l2.mapM f >>= fun b => pure (a ++ b) := by
  simp [List.mapM_append]

theorem mapM_ok_length {α β} (f : α → PyM β) (l : List α) (r : List β) (h : l.mapM f = .ok r) : r.length = l.length := by
  induction l generalizing r with
  | nil => rw [mapM_nil'] at h; injection h with h; subst h; rfl
  | cons a l ih =>
    rw [mapM_cons'] at h
    cases hf : f a with
    | error e => rw [hf] at h; cases h
    | ok b =>
      rw [hf, bind_ok] at h
      cases hl : l.mapM f with
      | error e => rw [hl] at h; cases h
      | ok bs =>
        rw [hl, bind_ok, pure_ok] at h
        injection h with h; subst h
        simp [ih bs hl]

/-- element-wise bridge lifts through `mapM` -/
theorem mapM_bridge {α β} (xs : List α) (g : α → β) (f : β → PyM Int) (f' : α → PyM Nat)
    (h : ∀ x ∈ xs, f (g x) = (f' x).map Int.ofNat) :
    (xs.map g).mapM f = (xs.mapM f').map (List.map Int.ofNat) := by
  induction xs with
  | nil => rfl
  | cons x xs ih =>
    rw [List.map_cons, mapM_cons', mapM_cons', h x (by simp), ih (fun y hy => h y (by simp [hy]))]
    cases f' x with
    | error e => rfl
    | ok b =>
      rw [map_ok, bind_ok, bind_ok]
      cases xs.mapM f' with
      | error e => rfl
      | ok bs => rfl


local notation "sser" => Src.serialization.serialize

/-! ### cell_to_children: the three nested `for` loops are a `mapM` over the triples in loop order -/

theorem for3_eq (items : List Int) (nr sS o sg : Int) (acc : List Int) :
    Src.serialization.cell_to_children_for3 items nr sS o sg acc
      = items.mapM (fun i => sser { origin := o, segment := sg, S := sS + i, resolution := nr })
          >>= fun l => pure (acc ++ l) := by
  induction items generalizing acc with
  | nil => simp [Src.serialization.cell_to_children_for3, pure_ok, bind_ok]
  | cons i items ih =>
    rw [Src.serialization.cell_to_children_for3, mapM_cons']
    dsimp only
    cases sser { origin := o, segment := sg, S := sS + i, resolution := nr } with
    | error e => rfl
    | ok b =>
      rw [bind_ok, bind_ok, ih]
      cases items.mapM (fun i => sser { origin := o, segment := sg, S := sS + i, resolution := nr }) with
      | error e => rfl
      | ok bs => simp [bind_ok, pure_ok]

theorem for2_eq (segs : List Int) (nr cnt sS o : Int) (acc : List Int) :
    Src.serialization.cell_to_children_for2 segs nr cnt sS o acc
      = (segs.flatMap fun sg => (Py.range cnt).map fun i => (sg, i)).mapM
          (fun p => sser { origin := o, segment := p.1, S := sS + p.2, resolution := nr })
          >>= fun l => pure (acc ++ l) := by
  induction segs generalizing acc with
  | nil => simp [Src.serialization.cell_to_children_for2, pure_ok, bind_ok]
  | cons sg segs ih =>
    rw [Src.serialization.cell_to_children_for2, List.flatMap_cons, mapM_append', for3_eq, List.mapM_map]
    have hcomp : ((fun p : Int × Int => sser { origin := o, segment := p.1, S := sS + p.2, resolution := nr }) ∘ fun i => (sg, i))
        = fun i => sser { origin := o, segment := sg, S := sS + i, resolution := nr } := rfl
    rw [hcomp]
    generalize (Py.range cnt).mapM (fun i => sser { origin := o, segment := sg, S := sS + i, resolution := nr }) = m1
    cases m1 with
    | error e => rfl
    | ok l1 =>
      rw [bind_ok, pure_ok, bind_ok, bind_ok, ih]
      generalize (segs.flatMap fun sg => (Py.range cnt).map fun i => (sg, i)).mapM
          (fun p => sser { origin := o, segment := p.1, S := sS + p.2, resolution := nr }) = m2
      cases m2 with
      | error e => rfl
      | ok l2 => simp [bind_ok, pure_ok]


theorem triples_as_map (o : Int) (segs items : List Int) :
    (segs.flatMap fun sg => items.map fun i => (o, sg, i))
      = (segs.flatMap fun sg => items.map fun i => (sg, i)).map (fun p => (o, p.1, p.2)) := by
  simp [List.map_flatMap, Function.comp_def]

theorem for1_eq (os : List Int) (nr : Int) (segs : List Int) (cnt sS : Int) (acc : List Int) :
    Src.serialization.cell_to_children_for1 os nr segs cnt sS acc
      = (os.flatMap fun o => segs.flatMap fun sg => (Py.range cnt).map fun i => (o, sg, i)).mapM
          (fun t => sser { origin := t.1, segment := t.2.1, S := sS + t.2.2, resolution := nr })
          >>= fun l => pure (acc ++ l) := by
  induction os generalizing acc with
  | nil => simp [Src.serialization.cell_to_children_for1, pure_ok, bind_ok]
  | cons o os ih =>
    rw [Src.serialization.cell_to_children_for1, List.flatMap_cons, mapM_append', for2_eq, triples_as_map, List.mapM_map]
    have hcomp : ((fun t : Int × Int × Int => sser { origin := t.1, segment := t.2.1, S := sS + t.2.2, resolution := nr })
          ∘ fun p : Int × Int => (o, p.1, p.2))
        = fun p => sser { origin := o, segment := p.1, S := sS + p.2, resolution := nr } := rfl
    rw [hcomp]
    generalize (segs.flatMap fun sg => (Py.range cnt).map fun i => (sg, i)).mapM
          (fun p => sser { origin := o, segment := p.1, S := sS + p.2, resolution := nr }) = m1
    cases m1 with
    | error e => rfl
    | ok l1 =>
      rw [bind_ok, pure_ok, bind_ok, bind_ok, ih]
      generalize (os.flatMap fun o => segs.flatMap fun sg => (Py.range cnt).map fun i => (o, sg, i)).mapM
          (fun t => sser { origin := t.1, segment := t.2.1, S := sS + t.2.2, resolution := nr }) = m2
      cases m2 with
      | error e => rfl
      | ok l2 => simp [bind_ok, pure_ok]


/-- the Int-side triples are the model's triples, cast -/
theorem triples_cast (os : List Nat) (segs : List Int) (cnt : Nat) :
    ((os.map Int.ofNat).flatMap fun o => segs.flatMap fun sg => (Py.range (cnt : Int)).map fun i => (o, sg, i))
      = (childTriples os segs cnt).map (fun t => ((t.1 : Int), t.2.1, (t.2.2 : Int))) := by
  unfold childTriples Py.range
  simp [List.map_flatMap, List.flatMap_map, Function.comp_def]

theorem childTriples_origin {os : List Nat} {segs : List Int} {cnt : Nat} {t : Nat × Int × Nat}
    (h : t ∈ childTriples os segs cnt) : t.1 ∈ os := by
  unfold childTriples at h
  simp only [List.mem_flatMap, List.mem_map] at h
  obtain ⟨o, ho, s, _, i, _, rfl⟩ := h
  exact ho

theorem cell_to_children_eq (index : Nat) (cr : Option Int) :
    Src.serialization.cell_to_children (index : Int) cr = (cellToChildren index cr).map (List.map Int.ofNat) := by
  unfold Src.serialization.cell_to_children cellToChildren
  have h1 : FHR = 2 := by decide
  have h3 : MAXR = 30 := by decide
  rw [deserialize_eq, h1, h3]
  cases hd : deserialize index with
  | error e => rfl
  | ok c =>
    have ho := deserialize_origin_lt hd
    rw [map_ok, bind_ok]
    show _ = Except.map (List.map Int.ofNat) (_ : PyM (List Nat))
    simp only [Except.bind]
    dsimp only [cellOf]
    have key : ∀ new : Int,
        (if new < c.res then (Except.error Err.value : PyM (List Int))
         else if new > (30 : Int) then Except.error Err.value
         else if new = c.res then pure [(index : Int)]
         else
          (if c.res = -1 then (pure Py.origins : PyM (List Int)) else pure [(c.origin : Int)]) >>= fun new_origins =>
          (if (c.res = -1 ∧ new > 0) ∨ c.res = 0 then (pure (Py.range 5) : PyM (List Int)) else pure [c.segment]) >>= fun new_segments =>
          Py.pow 4 (max 0 (new - max c.res ((2 : Int) - 1))) >>= fun t2_ =>
          Py.shl c.S (2 * max 0 (new - max c.res ((2 : Int) - 1))) >>= fun t3_ =>
          Src.serialization.cell_to_children_for1 new_origins new new_segments t2_ t3_ [] >>= fun children => pure children)
        = Except.map (List.map Int.ofNat)
          (if new < c.res then Except.error Err.value
           else if new > (30 : Int) then Except.error Err.value
           else if new = c.res then Except.ok [index]
           else
             (childTriples (if c.res = -1 then Tables.ORIGIN_IDS else [c.origin])
                (if (c.res = -1 ∧ new > 0) ∨ c.res = 0 then [0, 1, 2, 3, 4] else [c.segment])
                (4 ^ (max 0 (new - max c.res ((2 : Int) - 1))).toNat)).mapM fun (o, s, i) =>
               serialize { origin := o, segment := s, S := c.S * 2 ^ (2 * max 0 (new - max c.res ((2 : Int) - 1))).toNat + (i : Int), res := new }) := by
      intro new
      by_cases c1 : new < c.res
      · rw [if_pos c1, if_pos c1]; rfl
      rw [if_neg c1, if_neg c1]
      by_cases c2 : new > (30 : Int)
      · rw [if_pos c2, if_pos c2]; rfl
      rw [if_neg c2, if_neg c2]
      by_cases c3 : new = c.res
      · rw [if_pos c3, if_pos c3]; rfl
      rw [if_neg c3, if_neg c3]
      have e1 : (if c.res = -1 then (pure Py.origins : PyM (List Int)) else pure [(c.origin : Int)])
          = pure ((if c.res = -1 then Tables.ORIGIN_IDS else [c.origin]).map Int.ofNat) := by
        split <;> rfl
      have e2 : (if (c.res = -1 ∧ new > 0) ∨ c.res = 0 then (pure (Py.range 5) : PyM (List Int)) else pure [c.segment])
          = pure (if (c.res = -1 ∧ new > 0) ∨ c.res = 0 then [0, 1, 2, 3, 4] else [c.segment]) := by
        split <;> rfl
      rw [e1, e2, pure_ok, pure_ok, bind_ok, bind_ok]
      have hd0 : 0 ≤ max 0 (new - max c.res ((2 : Int) - 1)) := by omega
      have e3 : Py.pow 4 (max 0 (new - max c.res ((2 : Int) - 1))) = .ok (((4 ^ (max 0 (new - max c.res ((2 : Int) - 1))).toNat : Nat)) : Int) := by
        unfold Py.pow; rw [if_neg (by omega)]; push_cast; try rfl
      have e4 : Py.shl c.S (2 * max 0 (new - max c.res ((2 : Int) - 1)))
          = .ok (c.S * 2 ^ (2 * max 0 (new - max c.res ((2 : Int) - 1))).toNat) := by
        unfold Py.shl; rw [if_neg (by omega), Int.shiftLeft_eq]
      rw [e3, e4, bind_ok, bind_ok, for1_eq, triples_cast, List.mapM_map]
      generalize hos : (if c.res = -1 then Tables.ORIGIN_IDS else [c.origin]) = os
      generalize (if (c.res = -1 ∧ new > 0) ∨ c.res = 0 then ([0, 1, 2, 3, 4] : List Int) else [c.segment]) = segs
      generalize (4 ^ (max 0 (new - max c.res ((2 : Int) - 1))).toNat : Nat) = cnt
      generalize c.S * 2 ^ (2 * max 0 (new - max c.res ((2 : Int) - 1))).toNat = sS
      have hall : ∀ o ∈ os, o < 12 := by
        intro o hmem
        rw [← hos] at hmem
        split at hmem
        · rw [ORIGIN_IDS_eq] at hmem; simpa using hmem
        · simp only [List.mem_singleton] at hmem; subst hmem; exact ho
      have hb := mapM_bridge (childTriples os segs cnt) id
        (fun t => sser { origin := (t.1 : Int), segment := t.2.1, S := sS + (t.2.2 : Int), resolution := new })
        (fun (o, s, i) => serialize { origin := o, segment := s, S := sS + (i : Int), res := new })
        (fun t ht => serialize_eq { origin := t.1, segment := t.2.1, S := sS + (t.2.2 : Int), res := new }
          (hall _ (childTriples_origin ht)))
      rw [List.map_id] at hb
      rw [← hb]
      simp only [Function.comp_def, List.nil_append, id]
      generalize (childTriples os segs cnt).mapM (fun x => sser { origin := Int.ofNat x.1, segment := x.2.1, S := sS + Int.ofNat x.2.2, resolution := new }) = m
      cases m <;> rfl
    cases cr with
    | none => exact key _
    | some p => exact key _

end A5.Bridge
