/-
  C07: the finite one-step table.  δ (parent centroid → child centroid, in child... parent lattice units, before rotation) depends only on the
  orientation class, the flip state, the pending digit and the new digit: 3 × 4 × 4 × 4 = 192 cases, each evaluated in exact rational
  arithmetic on the exact values of the implementation's double constants (regenerated from /repo on every run) and bounded by the kernel.
-/
import A5.Proofs.DriftGeo

namespace A5.Planar
open A5.Hilbert

def ratQ (p : Int × Nat) : ℚ := (p.1 : ℚ) / (p.2 : ℚ)
def getQ (l : List (Int × Nat)) (i : Nat) : ℚ := ratQ (l.getD i (0, 1))

def baseQ : List (ℚ × ℚ) := (List.range 5).map fun i => (getQ Tables.PENTAGON_RAT (2 * i), getQ Tables.PENTAGON_RAT (2 * i + 1))
def basisQ : ℚ × ℚ × ℚ × ℚ := (getQ Tables.BASIS_RAT 0, getQ Tables.BASIS_RAT 1, getQ Tables.BASIS_RAT 2, getQ Tables.BASIS_RAT 3)
def slQ : ℚ × ℚ := (getQ Tables.SHIFT_LEFT_RAT 0, getQ Tables.SHIFT_LEFT_RAT 1)
def srQ : ℚ × ℚ := (getQ Tables.SHIFT_RIGHT_RAT 0, getQ Tables.SHIFT_RIGHT_RAT 1)

theorem baseQ_length : baseQ.length = 5 := by simp [baseQ]

/-- the orientation wrapper of `s_to_anchor` with its level-dependent constant (2^n in `invert_j`) dropped -/
def wrap0 (inv flip : Bool) (a : Anchor) : Anchor :=
  let a :=
    if flip then
      let i := a.j
      let j := a.i
      let (i, j) := if a.flips.1 then (i + (-1), j + 1) else (i, j)
      let (i, j) := if a.flips.2 then (i - (-1), j - 1) else (i, j)
      { a with i := i, j := j }
    else a
  if inv then { a with j := -(a.i + a.j), flips := (!a.flips.1, a.flips.2) } else a

def normsq (v : ℚ × ℚ) : ℚ := v.1 ^ 2 + v.2 ^ 2

/-- displacement parent centroid → child centroid in parent-level lattice units, for one transducer step -/
def tableδ (inv flip : Bool) (f : Flips) (P c : Nat) : ℚ × ℚ :=
  let pat := if flip then PATTERN_FLIPPED else PATTERN
  let r := shiftStep pat inv f P c
  let ac := wrap0 inv flip (anchorOf (0, 0) f [r.1, r.2])
  let ap := wrap0 inv flip (anchorOf (0, 0) f [P])
  ((posOf baseQ basisQ slQ srQ ac.flips ac.k ac.i ac.j).1 / 2 - (posOf baseQ basisQ slQ srQ ap.flips ap.k ap.i ap.j).1,
   (posOf baseQ basisQ slQ srQ ac.flips ac.k ac.i ac.j).2 / 2 - (posOf baseQ basisQ slQ srQ ap.flips ap.k ap.i ap.j).2)

/-- planar area of the unit cell (exact rational) -/
def unitArea : ℚ := area (mkShape baseQ)

/-- κ² = 0.46² : squared one-step drift bound in parent widths -/
def kappa2 : ℚ := (46 / 100) ^ 2

/-- the table, bounded by the kernel: every one of the 192 steps moves the centroid by at most 0.46 parent widths -/
theorem table_bound : ∀ (cls : Fin 3) (f1 f2 : Bool) (P c : Fin 4),
    normsq (tableδ (cls == 1) (cls == 2) (f1, f2) P.val c.val) ≤ kappa2 * unitArea := by
  decide +kernel

/-- and the bound is nearly attained (so the table is not vacuous): some step moves it by more than 0.45 parent widths -/
theorem table_attained : ∃ (cls : Fin 3) (f1 f2 : Bool) (P c : Fin 4),
    (45 / 100) ^ 2 * unitArea < normsq (tableδ (cls == 1) (cls == 2) (f1, f2) P.val c.val) := by
  decide +kernel

end A5.Planar
