/-
  Source-level tie, part 2b: the translated `uncompact` (two passes, pre-allocated result list written by index)
  against the model.
-/
import A5.Proofs.SrcBridgeLoops

attribute [local instance 2000] instPowNat

namespace A5.Bridge
open A5

/-! ### uncompact -/

theorem listSet_nat (res : List Nat) (k : Nat) (v : Nat) :
    Py.listSet (res.map Int.ofNat) (k : Int) (v : Int)
      = (if k < res.length then .ok ((res.set k v).map Int.ofNat) else .error .index : PyM (List Int)) := by
  unfold Py.listSet
  have h0 : ¬ ((k : Int) < 0) := by omega
  simp only [h0, if_false, Int.toNat_natCast, List.length_map]
  split
  · rw [List.map_set]; rfl
  · rfl

theorem for3_uncompact_eq (cs : List Nat) (idx off : Nat) (res : List Nat) :
    Src.compact.uncompact_for3 (cs.map Int.ofNat) idx (off : Int) (res.map Int.ofNat)
      = (writeBlock res (off + idx) cs).map (List.map Int.ofNat) := by
  induction cs generalizing idx res with
  | nil => rfl
  | cons c cs ih =>
    rw [List.map_cons, Src.compact.uncompact_for3, writeBlock]
    rw [show ((off : Int) + Int.ofNat idx) = ((off + idx : Nat) : Int) by push_cast; rfl,
      show Int.ofNat c = (c : Int) from rfl, listSet_nat]
    split
    · rw [bind_ok, ih]
      rw [show off + (idx + 1) = off + idx + 1 by omega]
    · rfl

/-- first loop: resolutions (raising on a finer cell) and the output size -/
theorem for1_uncompact_eq (cells : List Nat) (t : Int) (racc : List Int) (nacc : Nat) :
    Src.compact.uncompact_for1 (cells.map Int.ofNat) t racc (nacc : Int)
      = (uncompactResolutions t cells).map
          (fun rs => (racc ++ rs, ((nacc + (rs.map fun r => getNumChildren r t).sum : Nat) : Int))) := by
  induction cells generalizing racc nacc with
  | nil => simp [Src.compact.uncompact_for1, uncompactResolutions, pure_ok, map_ok, pure, Except.pure]
  | cons c cells ih =>
    rw [List.map_cons, Src.compact.uncompact_for1]
    dsimp only
    rw [show Int.ofNat c = (c : Int) from rfl, get_resolution_eq, bind_ok]
    unfold uncompactResolutions at ih ⊢
    rw [mapM_cons']
    by_cases hlt : t - getResolution c < 0
    · rw [if_pos hlt, if_pos hlt]; rfl
    · rw [if_neg hlt, if_neg hlt, get_num_children_eq, bind_ok, bind_ok]
      rw [show ((nacc : Int) + ((getNumChildren (getResolution c) t : Nat) : Int))
            = ((nacc + getNumChildren (getResolution c) t : Nat) : Int) by push_cast; rfl, ih]
      generalize (cells.mapM fun cell => if t - getResolution cell < 0 then (Except.error Err.value : PyM Int) else Except.ok (getResolution cell)) = m
      cases m with
      | error e => rfl
      | ok rs =>
        simp only [map_ok, bind_ok, pure_ok, List.map_cons, List.sum_cons, List.append_assoc, List.singleton_append]
        congr 2
        push_cast; omega


theorem listGet_append_mid {α} (pre : List α) (x : α) (rest : List α) :
    Py.listGet (pre ++ x :: rest) (Int.ofNat pre.length) = .ok x := by
  unfold Py.listGet
  have h0 : ¬ (Int.ofNat pre.length < 0) := by simp
  simp only [h0, if_false]
  simp

theorem for2_uncompact_eq (t : Int) (cells : List Nat) (pre rs : List Int) (hlen : cells.length = rs.length)
    (res : List Nat) (off : Nat) :
    Src.compact.uncompact_for2 (cells.map Int.ofNat) pre.length t (pre ++ rs) (res.map Int.ofNat) (off : Int)
      = (uncompactFill t (cells.zip rs) res off).map
          (fun r => (r.map Int.ofNat, ((off + (rs.map fun r => getNumChildren r t).sum : Nat) : Int))) := by
  induction cells generalizing pre rs res off with
  | nil =>
    cases rs with
    | nil => simp [Src.compact.uncompact_for2, uncompactFill, pure_ok, map_ok]
    | cons r rs => simp at hlen
  | cons c cells ih =>
    cases rs with
    | nil => simp at hlen
    | cons r rs =>
      have hlen' : cells.length = rs.length := by simpa using hlen
      rw [List.map_cons, Src.compact.uncompact_for2, List.zip_cons_cons, uncompactFill]
      dsimp only
      rw [listGet_append_mid, bind_ok, get_num_children_eq, bind_ok]
      have hcond : ((((getNumChildren r t : Nat)) : Int) = 1) ↔ (getNumChildren r t = 1) := by omega
      have hstep : ∀ res' : List Nat,
          Src.compact.uncompact_for2 (cells.map Int.ofNat) (pre.length + 1) t (pre ++ r :: rs) (res'.map Int.ofNat)
              ((off : Int) + ((getNumChildren r t : Nat) : Int))
            = (uncompactFill t (cells.zip rs) res' (off + getNumChildren r t)).map
                (fun x => (x.map Int.ofNat, ((off + (getNumChildren r t + (rs.map fun r => getNumChildren r t).sum) : Nat) : Int))) := by
        intro res'
        have := ih (pre ++ [r]) rs hlen' res' (off + getNumChildren r t)
        rw [List.length_append, List.length_singleton, List.append_assoc, List.singleton_append] at this
        rw [show ((off : Int) + ((getNumChildren r t : Nat) : Int)) = ((off + getNumChildren r t : Nat) : Int) by push_cast; rfl, this]
        congr 1
        funext x
        congr 2
        omega
      by_cases h1 : getNumChildren r t = 1
      · rw [if_pos (hcond.2 h1), if_pos h1]
        rw [show Int.ofNat c = (c : Int) from rfl, listSet_nat]
        unfold writeBlock
        split
        · rw [bind_ok, pure_ok, bind_ok]
          simp only [writeBlock, bind, Except.bind, List.map_cons, List.sum_cons]
          exact hstep _
        · rfl
      · rw [if_neg (fun h => h1 (hcond.1 h)), if_neg h1]
        rw [show Int.ofNat c = (c : Int) from rfl, cell_to_children_eq]
        cases cellToChildren c (some t) with
        | error e => rfl
        | ok ch =>
          rw [map_ok, bind_ok, for3_uncompact_eq]
          simp only [Nat.add_zero, bind, Except.bind]
          cases writeBlock res off ch with
          | error e => rfl
          | ok res' =>
            simp only [map_ok, pure_ok, List.map_cons, List.sum_cons]
            exact hstep _

theorem uncompact_eq (cells : List Nat) (t : Int) :
    Src.compact.uncompact (cells.map Int.ofNat) t = (uncompact cells t).map (List.map Int.ofNat) := by
  unfold Src.compact.uncompact uncompact
  dsimp only
  have h1 := for1_uncompact_eq cells t [] 0
  rw [show ((0 : Nat) : Int) = 0 from rfl] at h1
  rw [h1]
  cases hr : uncompactResolutions t cells with
  | error e => rfl
  | ok rs =>
    have hlen : cells.length = rs.length := by
      unfold uncompactResolutions at hr
      exact (mapM_ok_length _ _ _ hr).symm
    rw [map_ok, bind_ok]
    simp only [List.nil_append, Nat.zero_add, bind, Except.bind]
    have h2 := for2_uncompact_eq t cells [] rs hlen (List.replicate (rs.map fun r => getNumChildren r t).sum 0) 0
    rw [List.length_nil, List.nil_append, show ((0 : Nat) : Int) = 0 from rfl] at h2
    have hrep : Py.replicate (((rs.map fun r => getNumChildren r t).sum : Nat) : Int) (0 : Int)
        = (List.replicate (rs.map fun r => getNumChildren r t).sum 0).map Int.ofNat := by
      simp [Py.replicate]
    rw [hrep, h2]
    cases uncompactFill t (cells.zip rs) (List.replicate (rs.map fun r => getNumChildren r t).sum 0) 0 <;> rfl

end A5.Bridge
