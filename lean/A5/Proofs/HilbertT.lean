/-
  C18, combinatorial half: the model's finite helpers equal the tables obtained by calling the real functions on
  their whole domains, and the digit-shifting transducer is invertible on every digit string (any length).
  Core Lean only.
-/
import A5.Model.Hilbert

namespace A5.Hilbert

/-! ### table agreement (re-decided by the kernel on every run) -/

theorem pattern_reversed_eq : reversePattern PATTERN = Tables.PATTERN_REVERSED := by decide
theorem pattern_flipped_reversed_eq : reversePattern PATTERN_FLIPPED = Tables.PATTERN_FLIPPED_REVERSED := by decide

def flipOfInt (x : Int) : Bool := x == -1
def intOfFlip (b : Bool) : Int := if b then -1 else 1

theorem yes_no_eq : Tables.YES = -1 ∧ Tables.NO = 1 := by decide

theorem q2flips_eq : (List.range 4).map (fun d => (intOfFlip (qflips d).1, intOfFlip (qflips d).2)) = Tables.Q2FLIPS_TABLE := by decide

theorem q2kj_eq :
    ([false, true].flatMap fun fx => [false, true].flatMap fun fy => (List.range 4).map fun d =>
      (intOfFlip fx, intOfFlip fy, d, (kjOf d (fx, fy)).1, (kjOf d (fx, fy)).2)) = Tables.Q2KJ_TABLE := by decide

def patternById (i : Nat) : List Nat :=
  if i = 0 then PATTERN else if i = 1 then PATTERN_FLIPPED else if i = 2 then reversePattern PATTERN else reversePattern PATTERN_FLIPPED

/-- one `_shift_digits` step of the model on the whole 512-element domain, in the generator's order -/
def modelShiftTable : List Tables.ShiftRow :=
  (List.range 4).flatMap fun pi => [false, true].flatMap fun inv => [(false, false), (false, true), (true, false), (true, true)].flatMap fun fl =>
    (List.range 4).flatMap fun parent => (List.range 4).map fun child =>
      let r := shiftStep (patternById pi) inv fl parent child
      ⟨pi, if inv then 1 else 0, intOfFlip fl.1, intOfFlip fl.2, parent, child, r.1, r.2⟩

theorem shift_table_eq : modelShiftTable = Tables.SHIFT_TABLE := by decide +kernel

theorem flip_shift_eq : Tables.FLIP_SHIFT = (-1, 1) := by decide

/-! ### the transducer is invertible -/

theorem step_inv : ∀ (flipIJ invertJ fx fy : Bool) (p c : Fin 4),
    let pat := if flipIJ then PATTERN_FLIPPED else PATTERN
    let r := shiftStep pat invertJ (fx, fy) p.val c.val
    shiftStep (reversePattern pat) invertJ (fx, fy) r.1 r.2 = (p.val, c.val) ∧ r.1 < 4 ∧ r.2 < 4 := by
  decide

theorem bwd_fwd (flipIJ inv : Bool) :
    let pat := if flipIJ then PATTERN_FLIPPED else PATTERN
    ∀ (cs : List Nat) (P : Nat) (f : Flips), P < 4 → (∀ c ∈ cs, c < 4) →
      bwd (reversePattern pat) inv f (fwd pat inv P f cs) = (P, cs) := by
  intro pat cs
  induction cs with
  | nil => intro P f _ _; simp [fwd, bwd]
  | cons c cs ih =>
    intro P f hP hcs
    have hc : c < 4 := hcs c (by simp)
    have hstep := step_inv flipIJ inv f.1 f.2 ⟨P, hP⟩ ⟨c, hc⟩
    simp only [] at hstep
    obtain ⟨h1, h2, h3⟩ := hstep
    have ih' := ih (shiftStep pat inv f P c).2 (fmul f (qflips (shiftStep pat inv f P c).1)) h3
      (fun x hx => hcs x (by simp [hx]))
    cases hcs' : fwd pat inv (shiftStep pat inv f P c).2 (fmul f (qflips (shiftStep pat inv f P c).1)) cs with
    | nil => cases cs <;> simp [fwd] at hcs'
    | cons y ys =>
      simp only [fwd, hcs', bwd]
      rw [hcs'] at ih'
      rw [ih']
      have h1' : shiftStep (reversePattern pat) inv f (shiftStep pat inv f P c).1 (shiftStep pat inv f P c).2 = (P, c) := h1
      rw [h1']

/-- un-shifting the shifted digit string returns it: `T⁻¹ ∘ T = id` for every base-4 string, both patterns, both `invert_j` -/
theorem unshift_shift (flipIJ inv : Bool) (ds : List Nat) (h : ∀ d ∈ ds, d < 4) :
    unshiftAll (reversePattern (if flipIJ then PATTERN_FLIPPED else PATTERN)) inv
      (shiftAll (if flipIJ then PATTERN_FLIPPED else PATTERN) inv ds) = ds := by
  cases ds with
  | nil => rfl
  | cons d rest =>
    have := bwd_fwd flipIJ inv rest d (false, false) (h d (by simp)) (fun c hc => h c (by simp [hc]))
    simp only [shiftAll, unshiftAll]
    cases hf : fwd (if flipIJ then PATTERN_FLIPPED else PATTERN) inv d (false, false) rest with
    | nil => cases rest <;> simp [fwd] at hf
    | cons y ys =>
      rw [hf] at this
      simp only [hf, this]

/-- shifted digits are digits, and the string keeps its length -/
theorem fwd_digits (flipIJ inv : Bool) :
    let pat := if flipIJ then PATTERN_FLIPPED else PATTERN
    ∀ (cs : List Nat) (P : Nat) (f : Flips), P < 4 → (∀ c ∈ cs, c < 4) →
      (∀ x ∈ fwd pat inv P f cs, x < 4) ∧ (fwd pat inv P f cs).length = cs.length + 1 := by
  intro pat cs
  induction cs with
  | nil => intro P f hP _; simp [fwd, hP]
  | cons c cs ih =>
    intro P f hP hcs
    have hc : c < 4 := hcs c (by simp)
    have hstep := step_inv flipIJ inv f.1 f.2 ⟨P, hP⟩ ⟨c, hc⟩
    simp only [] at hstep
    obtain ⟨_, h2, h3⟩ := hstep
    have := ih (shiftStep pat inv f P c).2 (fmul f (qflips (shiftStep pat inv f P c).1)) h3 (fun x hx => hcs x (by simp [hx]))
    simp only [fwd, List.mem_cons, List.length_cons]
    refine ⟨?_, by rw [this.2]⟩
    rintro x (rfl | hx)
    · exact h2
    · exact this.1 x hx

end A5.Hilbert
