/-
  Non-interference for disciplined programs; a scratch register breaks it.  Core Lean only.
-/
import A5.Model.Effects

namespace A5.Effects

variable {Slot Val Reg : Type} [DecidableEq Slot] [DecidableEq Reg]

theorem upd_inv (f : Slot → Val) (σ : Store Slot Val Reg) (s : Slot) (h : Inv f σ) : Inv f (updMemo σ s (f s)) := by
  intro t v ht
  unfold updMemo at ht
  simp only at ht
  split at ht
  · cases ht; subst_vars; rfl
  · exact h t v ht

/-- Non-interference: a disciplined program returns its sequential denotation whatever the environment does between its
    atomic steps, and leaves the invariant intact — so it is itself an admissible environment for every other call. -/
theorem disc_stable (f : Slot → Val) {α : Type} (p : Prog Slot Val Reg α) (d : α) (hd : Disc f p d) :
    ∀ σ a σ', Runs f p σ a σ' → Inv f σ → a = d ∧ Inv f σ' := by
  induction hd with
  | ret a => intro σ a' σ' hr hi; cases hr; exact ⟨rfl, hi⟩
  | lookup s k d _ _ ih1 ih2 =>
    intro σ a σ' hr _
    cases hr with
    | lookup _ _ _ σ₁ _ _ hi1 hrun =>
      cases hσ : σ₁.memo s with
      | none => rw [hσ] at hrun; exact ih2 _ _ _ hrun hi1
      | some v =>
        rw [hσ] at hrun
        have : v = f s := hi1 s v hσ
        subst this
        exact ih1 _ _ _ hrun hi1
  | fill s k d _ ih =>
    intro σ a σ' hr _
    cases hr with
    | fill _ _ _ _ σ₁ _ _ hi1 hrun => exact ih _ _ _ hrun (upd_inv f σ₁ s hi1)
  | tick k d _ ih =>
    intro σ a σ' hr _
    cases hr with
    | tick _ _ σ₁ _ _ hi1 hrun => exact ih _ _ _ hrun (by intro s v h; exact hi1 s v h)

/-! ### programs built from `ret`, `bind`, `memo`, `tick` are disciplined -/

def Prog.bind {α β : Type} : Prog Slot Val Reg α → (α → Prog Slot Val Reg β) → Prog Slot Val Reg β
  | .ret a, k => k a
  | .lookup s c, k => .lookup s (fun o => (c o).bind k)
  | .fill s v c, k => .fill s v (c.bind k)
  | .tick c, k => .tick (c.bind k)
  | .regWrite r v c, k => .regWrite r v (c.bind k)
  | .regRead r c, k => .regRead r (fun v => (c v).bind k)

theorem Disc.bind (f : Slot → Val) {α β : Type} (p : Prog Slot Val Reg α) (d : α) (hp : Disc f p d)
    (k : α → Prog Slot Val Reg β) (e : β) (hk : Disc f (k d) e) : Disc f (p.bind k) e := by
  induction hp with
  | ret a => exact hk
  | lookup s c d _ _ ih1 ih2 => exact Disc.lookup s _ e (ih1 hk) (ih2 hk)
  | fill s c d _ ih => exact Disc.fill s _ e (ih hk)
  | tick c d _ ih => exact Disc.tick _ e (ih hk)

/-- the lazily filled cache pattern of `get_face_triangle` / `get_spherical_triangle` / `_get_triangle_constants`:
    return the slot if filled, else compute, store, return -/
def memo (s : Slot) (compute : Prog Slot Val Reg Val) : Prog Slot Val Reg Val :=
  .lookup s (fun o => match o with
    | some v => .ret v
    | none => compute.bind (fun v => .fill s v (.ret v)))

theorem memo_disc (f : Slot → Val) (s : Slot) (compute : Prog Slot Val Reg Val) (hc : Disc f compute (f s)) :
    Disc f (memo s compute) (f s) := by
  unfold memo
  refine Disc.lookup s _ (f s) (Disc.ret _) ?_
  exact Disc.bind f compute (f s) hc _ (f s) (Disc.fill s _ _ (Disc.ret _))

/-! ### a shared scratch register is not interference free -/

/-- write a value to a shared register, read it back later (what the pinned tree did with its module-level vectors) -/
def scratchRoundTrip (r : Reg) (x : Val) : Prog Slot Val Reg Val := .regWrite r x (.regRead r (fun v => .ret v))

theorem scratch_breaks (f : Slot → Val) (r : Reg) (x y : Val) (σ : Store Slot Val Reg) (hσ : Inv f σ) :
    ∃ σ', Runs f (scratchRoundTrip (Slot := Slot) r x) σ y σ' := by
  refine ⟨updReg σ r y, ?_⟩
  unfold scratchRoundTrip
  refine Runs.regWrite r x _ σ σ _ y hσ ?_
  -- between the write and the read another thread stores y in the same register
  refine Runs.regRead r _ _ (updReg σ r y) _ y (by intro s v h; exact hσ s v h) ?_
  have : (updReg σ r y).reg r = y := by simp [updReg]
  rw [this]
  exact Runs.ret y _

/-! ### histories -/

/-- a history: calls executed one after the other (with arbitrary admissible interference in between and inside) -/
inductive RunsSeq (f : Slot → Val) {α : Type} : List (Prog Slot Val Reg α) → Store Slot Val Reg → List α → Store Slot Val Reg → Prop where
  | nil (σ) : RunsSeq f [] σ [] σ
  | cons (p ps σ a σ₁ as σ₂) : Runs f p σ a σ₁ → RunsSeq f ps σ₁ as σ₂ → RunsSeq f (p :: ps) σ (a :: as) σ₂

theorem history_independent (f : Slot → Val) {α : Type} (calls : List (Prog Slot Val Reg α × α))
    (hd : ∀ c ∈ calls, Disc f c.1 c.2) :
    ∀ σ results σ', Inv f σ → RunsSeq f (calls.map Prod.fst) σ results σ' → results = calls.map Prod.snd ∧ Inv f σ' := by
  induction calls with
  | nil => intro σ results σ' hi hr; cases hr; exact ⟨rfl, hi⟩
  | cons c cs ih =>
    intro σ results σ' hi hr
    cases hr with
    | cons _ _ _ a σ₁ as _ h1 h2 =>
      obtain ⟨e1, i1⟩ := disc_stable f c.1 c.2 (hd c (by simp)) σ a σ₁ h1 hi
      obtain ⟨e2, i2⟩ := ih (fun x hx => hd x (by simp [hx])) σ₁ as σ' i1 h2
      exact ⟨by simp [e1, e2], i2⟩

/-- the cold store (fresh interpreter) satisfies the invariant -/
theorem cold_inv (f : Slot → Val) (c : Nat) (g : Reg → Val) : Inv f ({ memo := fun _ => none, counter := c, reg := g } : Store Slot Val Reg) := by
  intro s v h; cases h

end A5.Effects
