/-
  Planar congruence (C03/C04/C11 skeleton), in exact arithmetic: the planar polygon of EVERY cell is the image of the one base
  pentagon under a similarity of ratio 2^−h — so its shoelace area is base/4^h and all its distances are the base's scaled by 2^−h.
  The statement is about `Planar.place`, the very function the executable model runs (on doubles) for `get_pentagon_vertices`.
-/
import A5.Model.Planar
import A5.Proofs.HilbertG
import Mathlib.Data.List.Nodup

namespace A5.Planar
open A5.Hilbert

@[simp] theorem sc_add (a b : ℚ) : Scalar.add a b = a + b := rfl
@[simp] theorem sc_sub (a b : ℚ) : Scalar.sub a b = a - b := rfl
@[simp] theorem sc_mul (a b : ℚ) : Scalar.mul a b = a * b := rfl
@[simp] theorem sc_div (a b : ℚ) : Scalar.div a b = a / b := rfl
@[simp] theorem sc_neg (a : ℚ) : Scalar.neg a = -a := rfl
@[simp] theorem sc_ofInt (z : Int) : (Scalar.ofInt z : ℚ) = (z : ℚ) := rfl
@[simp] theorem sc_lt (a b : ℚ) : Scalar.lt a b = decide (a < b) := rfl

theorem len5 {β : Type} (p : List β) (h : p.length = 5) : ∃ a b c d e, p = [a, b, c, d, e] := by
  match p, h with
  | [a, b, c, d, e], _ => exact ⟨a, b, c, d, e, rfl⟩

/-- the shoelace sum of five vertices, explicitly -/
theorem area5 (a b c d e : ℚ × ℚ) :
    area [a, b, c, d, e] =
      (b.1 - a.1) * (b.2 + a.2) + (c.1 - b.1) * (c.2 + b.2) + (d.1 - c.1) * (d.2 + c.2) + (e.1 - d.1) * (e.2 + d.2) + (a.1 - e.1) * (a.2 + e.2) := by
  simp [area, zero, List.range_succ, List.foldl]

theorem area_translate (p : List (ℚ × ℚ)) (hp : p.length = 5) (t : ℚ × ℚ) : area (translate p t) = area p := by
  obtain ⟨a, b, c, d, e, rfl⟩ := len5 p hp
  simp only [translate, List.map, area5, sc_add]; ring

theorem area_rotate180 (p : List (ℚ × ℚ)) (hp : p.length = 5) : area (rotate180 p) = area p := by
  obtain ⟨a, b, c, d, e, rfl⟩ := len5 p hp
  simp only [rotate180, List.map, area5, sc_neg]; ring

theorem area_reflectY (p : List (ℚ × ℚ)) (hp : p.length = 5) : area (reflectY p) = area p := by
  obtain ⟨a, b, c, d, e, rfl⟩ := len5 p hp
  simp only [reflectY, List.map, List.reverse_cons, List.reverse_nil, List.nil_append, List.cons_append, area5, sc_neg]; ring

theorem area_reverse (p : List (ℚ × ℚ)) (hp : p.length = 5) : area p.reverse = -area p := by
  obtain ⟨a, b, c, d, e, rfl⟩ := len5 p hp
  simp only [List.reverse_cons, List.reverse_nil, List.nil_append, List.cons_append, area5]; ring

theorem area_scale (p : List (ℚ × ℚ)) (hp : p.length = 5) (s : ℚ) : area (scaleBy p s) = s * s * area p := by
  obtain ⟨a, b, c, d, e, rfl⟩ := len5 p hp
  simp only [scaleBy, List.map, area5, sc_mul]; ring

theorem area_transform (p : List (ℚ × ℚ)) (hp : p.length = 5) (m : ℚ × ℚ × ℚ × ℚ) :
    area (transform p m) = (m.1 * m.2.2.2 - m.2.1 * m.2.2.1) * area p := by
  obtain ⟨a, b, c, d, e, rfl⟩ := len5 p hp
  simp only [transform, applyMat, List.map, area5, sc_mul, sc_add]; ring

theorem mkShape_length (vs : List (ℚ × ℚ)) : (mkShape vs).length = vs.length := by
  unfold mkShape; split <;> simp

/-- the constructor normalises the winding: the area of a shape is never negative -/
theorem mkShape_area_nonneg (vs : List (ℚ × ℚ)) (h : vs.length = 5) : 0 ≤ area (mkShape vs) := by
  unfold mkShape
  simp only [sc_lt, zero, sc_ofInt, Int.cast_zero, decide_eq_true_eq]
  split
  · rename_i hlt; rw [area_reverse vs h]; linarith
  · rename_i hge; linarith

/-- C04 (planar): the shoelace area of every placed pentagon is the base pentagon's area divided by 4^resolution, for every anchor
    (offset, flips, k), every basis and shift vectors, and every matrix of determinant 1 as quintant rotation -/
theorem place_area (base : List (ℚ × ℚ)) (hb : base.length = 5) (basis : ℚ × ℚ × ℚ × ℚ) (sl sr : ℚ × ℚ) (rot : ℚ × ℚ × ℚ × ℚ)
    (hdet : rot.1 * rot.2.2.2 - rot.2.1 * rot.2.2.1 = 1) (h : Nat) (a : Anchor) :
    area (place base basis sl sr rot h a) = area (mkShape base) / 4 ^ h := by
  unfold place
  simp only
  have h0 : (mkShape base).length = 5 := by rw [mkShape_length, hb]
  generalize mkShape base = p at *
  -- step 1
  have l1 : ∀ q : List (ℚ × ℚ), q.length = 5 → ((if (!a.flips.1 && a.flips.2) = true then rotate180 q else q).length = 5 ∧
      area (if (!a.flips.1 && a.flips.2) = true then rotate180 q else q) = area q) := by
    intro q hq; split
    · exact ⟨by simp [rotate180, hq], area_rotate180 q hq⟩
    · exact ⟨hq, rfl⟩
  obtain ⟨n1, a1⟩ := l1 p h0
  generalize (if (!a.flips.1 && a.flips.2) = true then rotate180 p else p) = p1 at *
  have l2 : ∀ (cnd : Bool) (q : List (ℚ × ℚ)), q.length = 5 → ((if cnd = true then reflectY q else q).length = 5 ∧
      area (if cnd = true then reflectY q else q) = area q) := by
    intro cnd q hq; split
    · exact ⟨by simp [reflectY, hq], area_reflectY q hq⟩
    · exact ⟨hq, rfl⟩
  obtain ⟨n2, a2⟩ := l2 ((a.flips.1 == a.flips.2 && decide (a.k > 1)) || (!(a.flips.1 == a.flips.2) && (a.k == 0 || a.k == 3))) p1 n1
  generalize (if ((a.flips.1 == a.flips.2 && decide (a.k > 1)) || (!(a.flips.1 == a.flips.2) && (a.k == 0 || a.k == 3))) = true then reflectY p1 else p1) = p2 at *
  have l3 : ((if (a.flips.1 && a.flips.2) = true then rotate180 p2 else if a.flips.1 = true then translate p2 sl
        else if a.flips.2 = true then translate p2 sr else p2).length = 5 ∧
      area (if (a.flips.1 && a.flips.2) = true then rotate180 p2 else if a.flips.1 = true then translate p2 sl
        else if a.flips.2 = true then translate p2 sr else p2) = area p2) := by
    split
    · exact ⟨by simp [rotate180, n2], area_rotate180 p2 n2⟩
    · split
      · exact ⟨by simp [translate, n2], area_translate p2 n2 sl⟩
      · split
        · exact ⟨by simp [translate, n2], area_translate p2 n2 sr⟩
        · exact ⟨n2, rfl⟩
  obtain ⟨n3, a3⟩ := l3
  generalize (if (a.flips.1 && a.flips.2) = true then rotate180 p2 else if a.flips.1 = true then translate p2 sl
        else if a.flips.2 = true then translate p2 sr else p2) = p3 at *
  have n4 : (translate p3 (Scalar.add (Scalar.mul basis.1 (Scalar.ofInt a.i)) (Scalar.mul basis.2.1 (Scalar.ofInt a.j)),
      Scalar.add (Scalar.mul basis.2.2.1 (Scalar.ofInt a.i)) (Scalar.mul basis.2.2.2 (Scalar.ofInt a.j)))).length = 5 := by
    simp [translate, n3]
  rw [area_transform _ (by simp [scaleBy, translate, n3]), area_scale _ n4, area_translate _ n3, a3, a2, a1, hdet]
  simp only [sc_div, sc_ofInt, Int.cast_one, Int.cast_pow, Int.cast_ofNat]
  have h2 : (2:ℚ) ^ h ≠ 0 := by positivity
  have h4 : (4:ℚ) ^ h = 2 ^ h * 2 ^ h := by rw [← mul_pow]; norm_num
  rw [h4]; field_simp

/-! ### similarity: all distances scale by 2^−h -/

def dist2 (u v : ℚ × ℚ) : ℚ := (u.1 - v.1) ^ 2 + (u.2 - v.2) ^ 2

/-- `T` multiplies every squared distance by `ρ` -/
def IsSim (T : ℚ × ℚ → ℚ × ℚ) (ρ : ℚ) : Prop := ∀ u v, dist2 (T u) (T v) = ρ * dist2 u v

/-- `q` is the image of `p` (possibly listed in the opposite order) under a similarity with squared ratio `ρ` -/
def Sim (p q : List (ℚ × ℚ)) (ρ : ℚ) : Prop := ∃ T, IsSim T ρ ∧ (q = p.map T ∨ q = p.reverse.map T)

theorem sim_refl (p : List (ℚ × ℚ)) : Sim p p 1 := ⟨id, fun u v => by simp [dist2], Or.inl (by simp)⟩

theorem sim_map {p q : List (ℚ × ℚ)} {ρ σ : ℚ} (f : ℚ × ℚ → ℚ × ℚ) (hf : IsSim f σ) (h : Sim p q ρ) : Sim p (q.map f) (σ * ρ) := by
  obtain ⟨T, hT, hq⟩ := h
  refine ⟨f ∘ T, fun u v => by simp only [Function.comp]; rw [hf, hT]; ring, ?_⟩
  rcases hq with rfl | rfl
  · left; simp
  · right; simp

theorem sim_reverse {p q : List (ℚ × ℚ)} {ρ : ℚ} (h : Sim p q ρ) : Sim p q.reverse ρ := by
  obtain ⟨T, hT, hq⟩ := h
  refine ⟨T, hT, ?_⟩
  rcases hq with rfl | rfl
  · right; simp [List.map_reverse]
  · left; simp [List.map_reverse]

theorem sim_neg : IsSim (fun v : ℚ × ℚ => (Scalar.neg v.1, Scalar.neg v.2)) 1 := by
  intro u v; simp [dist2]; ring
theorem sim_refl_y : IsSim (fun v : ℚ × ℚ => (v.1, Scalar.neg v.2)) 1 := by
  intro u v; simp [dist2]; ring
theorem sim_translate (t : ℚ × ℚ) : IsSim (fun v : ℚ × ℚ => (Scalar.add v.1 t.1, Scalar.add v.2 t.2)) 1 := by
  intro u v; simp [dist2]
theorem sim_scale (s : ℚ) : IsSim (fun v : ℚ × ℚ => (Scalar.mul v.1 s, Scalar.mul v.2 s)) (s * s) := by
  intro u v; simp [dist2]; ring
theorem sim_orth (m : ℚ × ℚ × ℚ × ℚ) (h1 : m.1 * m.1 + m.2.2.1 * m.2.2.1 = 1) (h2 : m.2.1 * m.2.1 + m.2.2.2 * m.2.2.2 = 1)
    (h3 : m.1 * m.2.1 + m.2.2.1 * m.2.2.2 = 0) : IsSim (applyMat m) 1 := by
  intro u v
  simp only [applyMat, dist2, sc_add, sc_mul, one_mul]
  have e : (m.1 * u.1 + m.2.1 * u.2 - (m.1 * v.1 + m.2.1 * v.2)) ^ 2 + (m.2.2.1 * u.1 + m.2.2.2 * u.2 - (m.2.2.1 * v.1 + m.2.2.2 * v.2)) ^ 2
      = (m.1 * m.1 + m.2.2.1 * m.2.2.1) * (u.1 - v.1) ^ 2 + (m.2.1 * m.2.1 + m.2.2.2 * m.2.2.2) * (u.2 - v.2) ^ 2
        + 2 * (m.1 * m.2.1 + m.2.2.1 * m.2.2.2) * ((u.1 - v.1) * (u.2 - v.2)) := by ring
  rw [e, h1, h2, h3]; ring

/-- C11/C03 (planar): every placed pentagon is a similar copy of the base pentagon with ratio 2^−resolution — its five corners are
    pairwise as far apart, and as far from any affine landmark (centre), as the base pentagon's divided by 2^resolution -/
theorem place_similar (base : List (ℚ × ℚ)) (basis : ℚ × ℚ × ℚ × ℚ) (sl sr : ℚ × ℚ) (rot : ℚ × ℚ × ℚ × ℚ)
    (h1 : rot.1 * rot.1 + rot.2.2.1 * rot.2.2.1 = 1) (h2 : rot.2.1 * rot.2.1 + rot.2.2.2 * rot.2.2.2 = 1)
    (h3 : rot.1 * rot.2.1 + rot.2.2.1 * rot.2.2.2 = 0) (h : Nat) (a : Anchor) :
    Sim (mkShape base) (place base basis sl sr rot h a) (1 / 4 ^ h) := by
  unfold place
  simp only
  generalize mkShape base = p
  have s0 := sim_refl p
  have s1 : Sim p (if (!a.flips.1 && a.flips.2) = true then rotate180 p else p) 1 := by
    split
    · have := sim_map _ sim_neg s0; simpa [rotate180] using this
    · exact s0
  generalize (if (!a.flips.1 && a.flips.2) = true then rotate180 p else p) = p1 at *
  have s2 : ∀ cnd : Bool, Sim p (if cnd = true then reflectY p1 else p1) 1 := by
    intro cnd; split
    · have := sim_reverse (sim_map _ sim_refl_y s1); simpa [reflectY] using this
    · exact s1
  have s2' := s2 ((a.flips.1 == a.flips.2 && decide (a.k > 1)) || (!(a.flips.1 == a.flips.2) && (a.k == 0 || a.k == 3)))
  generalize (if ((a.flips.1 == a.flips.2 && decide (a.k > 1)) || (!(a.flips.1 == a.flips.2) && (a.k == 0 || a.k == 3))) = true then reflectY p1 else p1) = p2 at *
  have s3 : Sim p (if (a.flips.1 && a.flips.2) = true then rotate180 p2 else if a.flips.1 = true then translate p2 sl
        else if a.flips.2 = true then translate p2 sr else p2) 1 := by
    split
    · have := sim_map _ sim_neg s2'; simpa [rotate180] using this
    · split
      · have := sim_map _ (sim_translate sl) s2'; simpa [translate] using this
      · split
        · have := sim_map _ (sim_translate sr) s2'; simpa [translate] using this
        · exact s2'
  generalize (if (a.flips.1 && a.flips.2) = true then rotate180 p2 else if a.flips.1 = true then translate p2 sl
        else if a.flips.2 = true then translate p2 sr else p2) = p3 at *
  have s4 := sim_map _ (sim_translate (Scalar.add (Scalar.mul basis.1 (Scalar.ofInt a.i)) (Scalar.mul basis.2.1 (Scalar.ofInt a.j)),
      Scalar.add (Scalar.mul basis.2.2.1 (Scalar.ofInt a.i)) (Scalar.mul basis.2.2.2 (Scalar.ofInt a.j)))) s3
  have s5 := sim_map _ (sim_scale (Scalar.div (Scalar.ofInt 1) (Scalar.ofInt (2 ^ h)))) s4
  have s6 := sim_map _ (sim_orth rot h1 h2 h3) s5
  have e : (1 : ℚ) * ((Scalar.div (Scalar.ofInt 1) (Scalar.ofInt (2 ^ h)) : ℚ) * (Scalar.div (Scalar.ofInt 1) (Scalar.ofInt (2 ^ h)) : ℚ) * (1 * 1)) = 1 / 4 ^ h := by
    simp only [sc_div, sc_ofInt, Int.cast_one, Int.cast_pow, Int.cast_ofNat]
    have h4 : (4:ℚ) ^ h = 2 ^ h * 2 ^ h := by rw [← mul_pow]; norm_num
    rw [h4]; field_simp
  rw [e] at s6
  exact s6

/-- consequences: distinct corners stay distinct, whatever the level -/
theorem sim_injective {p q : List (ℚ × ℚ)} {ρ : ℚ} (hρ : 0 < ρ) (h : Sim p q ρ) (hp : p.Nodup) : q.Nodup := by
  obtain ⟨T, hT, hq⟩ := h
  have hinj : Function.Injective T := by
    intro u v huv
    have := hT u v
    rw [huv] at this
    have h0 : dist2 (T v) (T v) = 0 := by simp [dist2]
    rw [h0] at this
    have hd : dist2 u v = 0 := by
      rcases mul_eq_zero.1 this.symm with h | h
      · linarith
      · exact h
    unfold dist2 at hd
    have h1 : (u.1 - v.1) ^ 2 = 0 := by nlinarith [sq_nonneg (u.1 - v.1), sq_nonneg (u.2 - v.2)]
    have h2 : (u.2 - v.2) ^ 2 = 0 := by nlinarith [sq_nonneg (u.1 - v.1), sq_nonneg (u.2 - v.2)]
    have e1 : u.1 = v.1 := by have := pow_eq_zero_iff (n := 2) (by norm_num) |>.1 h1; linarith
    have e2 : u.2 = v.2 := by have := pow_eq_zero_iff (n := 2) (by norm_num) |>.1 h2; linarith
    exact Prod.ext e1 e2
  rcases hq with rfl | rfl
  · exact List.Nodup.map hinj hp
  · exact List.Nodup.map hinj (List.nodup_reverse.2 hp)

end A5.Planar
