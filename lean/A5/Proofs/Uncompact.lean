/-
  `uncompact`: the pre-allocated, offset-filled result equals the concatenation of the children lists.
-/
import A5.Model.Compact
import A5.Proofs.Order

attribute [local instance 2000] instPowNat

namespace A5

/-- writing a block into the zero-filled tail -/
theorem writeBlock_fill (pre cs : List Nat) (m : Nat) (h : cs.length ≤ m) :
    writeBlock (pre ++ List.replicate m 0) pre.length cs = .ok (pre ++ cs ++ List.replicate (m - cs.length) 0) := by
  induction cs generalizing pre m with
  | nil => simp [writeBlock]
  | cons c cs ih =>
    simp only [List.length_cons] at h
    obtain ⟨m', rfl⟩ : ∃ m', m = m' + 1 := ⟨m - 1, by omega⟩
    unfold writeBlock
    rw [if_pos (by simp)]
    have hset : (pre ++ List.replicate (m' + 1) 0).set pre.length c = (pre ++ [c]) ++ List.replicate m' 0 := by
      rw [List.replicate_succ, List.set_append_right _ _ (Nat.le_refl _), Nat.sub_self, List.set_cons_zero]
      simp
    rw [hset]
    have := ih (pre ++ [c]) m' (by omega)
    rw [List.length_append, List.length_singleton] at this
    rw [this]
    simp only [List.length_cons, List.append_assoc, List.singleton_append]
    rw [show m' + 1 - (cs.length + 1) = m' - cs.length by omega]

/-- a too-short buffer is an IndexError (the size computed in the first pass must match) -/
theorem writeBlock_overflow (pre cs : List Nat) (m : Nat) (h : m < cs.length) :
    writeBlock (pre ++ List.replicate m 0) pre.length cs = .error .index := by
  induction cs generalizing pre m with
  | nil => simp at h
  | cons c cs ih =>
    unfold writeBlock
    cases m with
    | zero => simp
    | succ m' =>
      rw [if_pos (by simp)]
      have hset : (pre ++ List.replicate (m' + 1) 0).set pre.length c = (pre ++ [c]) ++ List.replicate m' 0 := by
        rw [List.replicate_succ, List.set_append_right _ _ (Nat.le_refl _), Nat.sub_self, List.set_cons_zero]
        simp
      rw [hset]
      have := ih (pre ++ [c]) m' (by simp at h; omega)
      rw [List.length_append, List.length_singleton] at this
      exact this

/-- the block the second loop writes for one cell -/
def blockOf (t : Int) (cell : Nat) (r : Int) : PyM (List Nat) :=
  if getNumChildren r t = 1 then .ok [cell] else cellToChildren cell (some t)

theorem uncompactFill_spec (t : Int) (items : List (Nat × Int)) (blocks : List (List Nat))
    (hb : List.Forall₂ (fun (it : Nat × Int) (B : List Nat) => blockOf t it.1 it.2 = .ok B ∧ B.length = getNumChildren it.2 t) items blocks)
    (pre : List Nat) (m : Nat) (hm : blocks.flatten.length ≤ m) :
    uncompactFill t items (pre ++ List.replicate m 0) pre.length =
      .ok (pre ++ blocks.flatten ++ List.replicate (m - blocks.flatten.length) 0) := by
  induction hb generalizing pre m with
  | nil => simp [uncompactFill]
  | @cons it B items blocks hB _ ih =>
    obtain ⟨cell, r⟩ := it
    obtain ⟨hblk, hlen⟩ := hB
    simp only [List.flatten_cons, List.length_append] at hm
    unfold uncompactFill
    simp only [bind, Except.bind]
    unfold blockOf at hblk
    have hw : (if getNumChildren r t = 1 then writeBlock (pre ++ List.replicate m 0) pre.length [cell]
        else (cellToChildren cell (some t)).bind fun children => writeBlock (pre ++ List.replicate m 0) pre.length children)
        = .ok (pre ++ B ++ List.replicate (m - B.length) 0) := by
      by_cases h1 : getNumChildren r t = 1
      · rw [if_pos h1] at hblk ⊢
        cases hblk
        exact writeBlock_fill pre [cell] m (by simp; simp at hm; omega)
      · rw [if_neg h1] at hblk ⊢
        rw [hblk]
        simp only [Except.bind]
        exact writeBlock_fill pre B m (by omega)
    simp only [Except.bind] at hw
    rw [hw]
    simp only
    have := ih (pre ++ B) (m - B.length) (by omega)
    rw [List.length_append] at this
    simp only at hlen
    rw [← hlen, this]
    simp only [List.flatten_cons, List.append_assoc, List.length_append]
    rw [show m - B.length - blocks.flatten.length = m - (B.length + blocks.flatten.length) by omega]

theorem uncompactResolutions_ok (t : Int) (cells : List Nat) (h : ∀ c ∈ cells, getResolution c ≤ t) :
    uncompactResolutions t cells = .ok (cells.map getResolution) := by
  unfold uncompactResolutions
  apply mapM_ok
  intro c hc
  rw [if_neg (by have := h c hc; omega)]

theorem uncompactResolutions_err (t : Int) (cells : List Nat) (h : ∃ c ∈ cells, t < getResolution c) :
    uncompactResolutions t cells = .error .value := by
  unfold uncompactResolutions
  induction cells with
  | nil => simp at h
  | cons a l ih =>
    rw [List.mapM_cons]
    by_cases ha : t < getResolution a
    · rw [if_pos (by omega)]; rfl
    · rw [if_neg (by omega)]
      have : ∃ c ∈ l, t < getResolution c := by
        obtain ⟨c, hc, hlt⟩ := h
        simp only [List.mem_cons] at hc
        rcases hc with rfl | hc
        · exact absurd hlt ha
        · exact ⟨c, hc, hlt⟩
      rw [ih this]; rfl

/-- `uncompact` raises — and so returns nothing — as soon as one input cell is finer than the target -/
theorem uncompact_err (t : Int) (cells : List Nat) (h : ∃ c ∈ cells, t < getResolution c) :
    uncompact cells t = .error .value := by
  unfold uncompact
  rw [uncompactResolutions_err t cells h]; rfl

theorem blocks_total_length (t : Int) (cells : List Nat) (blocks : List (List Nat))
    (hb : List.Forall₂ (fun (c : Nat) (B : List Nat) => blockOf t c (getResolution c) = .ok B ∧ B.length = getNumChildren (getResolution c) t) cells blocks) :
    (List.map ((fun r => getNumChildren r t) ∘ getResolution) cells).sum = blocks.flatten.length := by
  induction hb with
  | nil => rfl
  | cons h _ ih =>
    simp only [List.map_cons, List.sum_cons, List.flatten_cons, List.length_append, Function.comp]
    rw [h.2, ih]

theorem blocks_zip (t : Int) (cells : List Nat) (blocks : List (List Nat))
    (hb : List.Forall₂ (fun (c : Nat) (B : List Nat) => blockOf t c (getResolution c) = .ok B ∧ B.length = getNumChildren (getResolution c) t) cells blocks) :
    List.Forall₂ (fun (it : Nat × Int) (B : List Nat) => blockOf t it.1 it.2 = .ok B ∧ B.length = getNumChildren it.2 t)
      (cells.zip (cells.map getResolution)) blocks := by
  induction hb with
  | nil => exact List.Forall₂.nil
  | cons h _ ih => exact List.Forall₂.cons h ih

/-- main statement: given the per-cell blocks, `uncompact` returns their concatenation in input order -/
theorem uncompact_ok (t : Int) (cells : List Nat) (blocks : List (List Nat))
    (hres : ∀ c ∈ cells, getResolution c ≤ t)
    (hb : List.Forall₂ (fun (c : Nat) (B : List Nat) => blockOf t c (getResolution c) = .ok B ∧ B.length = getNumChildren (getResolution c) t) cells blocks) :
    uncompact cells t = .ok blocks.flatten := by
  unfold uncompact
  rw [uncompactResolutions_ok t cells hres]
  simp only [bind, Except.bind, List.map_map]
  rw [blocks_total_length t cells blocks hb]
  have := uncompactFill_spec t _ blocks (blocks_zip t cells blocks hb) [] blocks.flatten.length (Nat.le_refl _)
  simpa using this

end A5
