/-
  C02 / C18, first named gap closed in exact arithmetic: the centroid of the pentagon of EVERY cell (16 shapes × every lattice offset up to
  level 30), taken back to lattice coordinates with the implementation's own BASIS_INVERSE (exact values of the doubles), lies strictly
  inside the unit triangle of the cell's anchor — so `ij_to_s` of the exact centre returns the index.
-/
import A5.Proofs.DriftStep

namespace A5.Planar
open A5.Hilbert

def binvQ : ℚ × ℚ × ℚ × ℚ := (getQ Tables.BASIS_INVERSE_RAT 0, getQ Tables.BASIS_INVERSE_RAT 1, getQ Tables.BASIS_INVERSE_RAT 2, getQ Tables.BASIS_INVERSE_RAT 3)

/-- `face_to_ij`: BASIS_INVERSE · v -/
def lattice (v : ℚ × ℚ) : ℚ × ℚ := (binvQ.1 * v.1 + binvQ.2.1 * v.2, binvQ.2.2.1 * v.1 + binvQ.2.2.2 * v.2)

/-- BASIS_INVERSE · BASIS − I (not zero: both are rounded doubles) -/
def errM : ℚ × ℚ × ℚ × ℚ :=
  (binvQ.1 * basisQ.1 + binvQ.2.1 * basisQ.2.2.1 - 1, binvQ.1 * basisQ.2.1 + binvQ.2.1 * basisQ.2.2.2,
   binvQ.2.2.1 * basisQ.1 + binvQ.2.2.2 * basisQ.2.2.1, binvQ.2.2.1 * basisQ.2.1 + binvQ.2.2.2 * basisQ.2.2.2 - 1)

theorem errM_small : |errM.1| ≤ 1 / 2 ^ 50 ∧ |errM.2.1| ≤ 1 / 2 ^ 50 ∧ |errM.2.2.1| ≤ 1 / 2 ^ 50 ∧ |errM.2.2.2| ≤ 1 / 2 ^ 50 := by
  decide +kernel

/-- unit triangle with a margin μ on every side -/
def TriM (f : Flips) (μ u v : ℚ) : Prop :=
  match f with
  | (false, false) => μ ≤ u ∧ μ ≤ v ∧ u + v ≤ 1 - μ
  | (false, true)  => u ≤ -μ ∧ v ≤ 1 - μ ∧ μ ≤ u + v
  | (true,  false) => μ ≤ u ∧ -1 + μ ≤ v ∧ u + v ≤ -μ
  | (true,  true)  => u ≤ -μ ∧ v ≤ -μ ∧ -1 + μ ≤ u + v

instance (f : Flips) (μ u v : ℚ) : Decidable (TriM f μ u v) := by
  obtain ⟨fx, fy⟩ := f
  cases fx <;> cases fy <;> simp only [TriM] <;> infer_instance

/-- all 16 shapes: the centroid, in lattice coordinates relative to the anchor, keeps a margin of 1/10 from every side of the unit triangle -/
theorem shape_margin : ∀ (f1 f2 : Bool) (k : Fin 4),
    TriM (f1, f2) (1 / 10) (lattice (cen (shapeOf baseQ slQ srQ (f1, f2) k.val))).1 (lattice (cen (shapeOf baseQ slQ srQ (f1, f2) k.val))).2 := by
  decide +kernel

theorem TriM_perturb (f : Flips) (μ u v e1 e2 : ℚ) (h : TriM f μ u v) (he : |e1| + |e2| < μ) : Tri f 1 (u + e1) (v + e2) := by
  have a1 := abs_le.1 (le_refl |e1|)
  have a2 := abs_le.1 (le_refl |e2|)
  obtain ⟨fx, fy⟩ := f
  cases fx <;> cases fy <;> simp only [TriM] at h <;> simp only [Tri] <;> obtain ⟨h1, h2, h3⟩ := h <;>
    refine ⟨?_, ?_, ?_⟩ <;> linarith [a1.1, a1.2, a2.1, a2.2, abs_nonneg e1, abs_nonneg e2]

theorem lattice_posOf (f : Flips) (k : Nat) (x y : ℚ) :
    (lattice (posOf baseQ basisQ slQ srQ f k x y)).1 = (lattice (cen (shapeOf baseQ slQ srQ f k))).1 + x + (errM.1 * x + errM.2.1 * y) ∧
    (lattice (posOf baseQ basisQ slQ srQ f k x y)).2 = (lattice (cen (shapeOf baseQ slQ srQ f k))).2 + y + (errM.2.2.1 * x + errM.2.2.2 * y) := by
  simp only [lattice, posOf, errM]
  constructor <;> ring

/-- the centre of a cell whose lattice offset is below 2^31 in size lies strictly inside the unit triangle of its anchor -/
theorem centre_in_triangle (f : Flips) (k : Nat) (hk : k < 4) (i j : Int) (hi : |(i : ℚ)| ≤ 2 ^ 31) (hj : |(j : ℚ)| ≤ 2 ^ 31) :
    Tri f 1 ((lattice (posOf baseQ basisQ slQ srQ f k i j)).1 - i) ((lattice (posOf baseQ basisQ slQ srQ f k i j)).2 - j) := by
  obtain ⟨l1, l2⟩ := lattice_posOf f k i j
  obtain ⟨e1, e2, e3, e4⟩ := errM_small
  have hm := shape_margin f.1 f.2 ⟨k, hk⟩
  simp only [Prod.mk.eta] at hm
  have b1 : |errM.1 * (i : ℚ) + errM.2.1 * (j : ℚ)| ≤ 1 / 2 ^ 18 := by
    calc |errM.1 * (i : ℚ) + errM.2.1 * (j : ℚ)| ≤ |errM.1 * (i : ℚ)| + |errM.2.1 * (j : ℚ)| := abs_add_le _ _
      _ = |errM.1| * |(i : ℚ)| + |errM.2.1| * |(j : ℚ)| := by rw [abs_mul, abs_mul]
      _ ≤ 1 / 2 ^ 50 * 2 ^ 31 + 1 / 2 ^ 50 * 2 ^ 31 := by
          gcongr
      _ = 1 / 2 ^ 18 := by norm_num
  have b2 : |errM.2.2.1 * (i : ℚ) + errM.2.2.2 * (j : ℚ)| ≤ 1 / 2 ^ 18 := by
    calc |errM.2.2.1 * (i : ℚ) + errM.2.2.2 * (j : ℚ)| ≤ |errM.2.2.1 * (i : ℚ)| + |errM.2.2.2 * (j : ℚ)| := abs_add_le _ _
      _ = |errM.2.2.1| * |(i : ℚ)| + |errM.2.2.2| * |(j : ℚ)| := by rw [abs_mul, abs_mul]
      _ ≤ 1 / 2 ^ 50 * 2 ^ 31 + 1 / 2 ^ 50 * 2 ^ 31 := by
          gcongr
      _ = 1 / 2 ^ 18 := by norm_num
  have := TriM_perturb f (1 / 10) _ _ _ _ hm (by
    calc |errM.1 * (i : ℚ) + errM.2.1 * (j : ℚ)| + |errM.2.2.1 * (i : ℚ) + errM.2.2.2 * (j : ℚ)| ≤ 1 / 2 ^ 18 + 1 / 2 ^ 18 := add_le_add b1 b2
      _ < 1 / 10 := by norm_num)
  rw [l1, l2]
  convert this using 1 <;> ring

end A5.Planar

namespace A5.Planar
open A5.Hilbert

theorem core_k_lt (s n : Nat) (hs : s < 4 ^ n) (inv flip : Bool) : (sToAnchorCore s n inv flip).k < 4 := by
  obtain ⟨_, hlt, _⟩ := digits_spec n s hs
  obtain ⟨hslt, _⟩ := shiftAll_spec flip inv (digitsMSB s n) hlt
  unfold sToAnchorCore
  simp only
  generalize shiftAll (if flip then PATTERN_FLIPPED else PATTERN) inv (digitsMSB s n) = sd at *
  rcases List.eq_nil_or_concat sd with rfl | ⟨l, x, rfl⟩
  · simp
  · rw [List.concat_eq_append] at hslt ⊢; rw [List.getLastD_concat]; exact hslt x (by simp)

theorem wrapN_k (inv flip : Bool) (n : Nat) (a : Anchor) : (wrapN inv flip n a).k = a.k := by
  unfold wrapN
  cases inv <;> cases flip <;> simp

theorem anchor_k_lt (o : String) (n s : Nat) (hs : s < 4 ^ n) (a : Anchor) (ha : sToAnchor s n o = .ok a) : a.k < 4 := by
  rw [sToAnchor_eq s n o hs] at ha
  have := Except.ok.inj ha
  rw [← this, wrapN_k]
  apply core_k_lt
  have hp : 0 < 4 ^ n := by positivity
  split <;> omega

end A5.Planar
