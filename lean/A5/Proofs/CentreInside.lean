/-
  C02, planar half of "the centre lies strictly inside the cell's own ring": the vertex mean of EVERY placed pentagon lies strictly on
  the inner side of each of its five edges.  Every step of `Planar.place` is an affine map with non-zero determinant (or a reversal of
  the vertex order); such maps multiply every orientation determinant `cross(v_i, v_{i+1}, c)` by one non-zero constant and commute with
  the vertex mean, so the statement for the base pentagon — decided by the kernel on the exact rational values of the double constants —
  carries over to every level, anchor, flip state and quintant rotation.
-/
import A5.Proofs.Congruence
import A5.Proofs.DriftTable

namespace A5.Planar
open A5.Hilbert

/-- orientation determinant of (a, b, c): twice the signed area of the triangle -/
def cross (a b c : ℚ × ℚ) : ℚ := (b.1 - a.1) * (c.2 - a.2) - (b.2 - a.2) * (c.1 - a.1)

/-- vertex mean of a five-vertex shape (`get_center`) -/
def mean5 (p : List (ℚ × ℚ)) : ℚ × ℚ := ((p.map (·.1)).sum / 5, (p.map (·.2)).sum / 5)

/-- the five orientation determinants of the edges against the point `c` -/
def edgeCross (p : List (ℚ × ℚ)) (c : ℚ × ℚ) : List ℚ :=
  (List.range p.length).map fun i => cross (p.getD i (0, 0)) (p.getD ((i + 1) % p.length) (0, 0)) c

/-- `c` lies strictly on the same side of all edges -/
def StrictlyInside (p : List (ℚ × ℚ)) (c : ℚ × ℚ) : Prop :=
  (∀ x ∈ edgeCross p c, 0 < x) ∨ (∀ x ∈ edgeCross p c, x < 0)

theorem edgeCross5 (a b c d e q : ℚ × ℚ) :
    edgeCross [a, b, c, d, e] q = [cross a b q, cross b c q, cross c d q, cross d e q, cross e a q] := by
  simp [edgeCross, List.range_succ]

/-- an affine map of the plane with determinant `d` -/
def IsAff (T : ℚ × ℚ → ℚ × ℚ) (d : ℚ) : Prop :=
  ∃ m11 m12 m21 m22 t1 t2 : ℚ, (∀ v, T v = (m11 * v.1 + m12 * v.2 + t1, m21 * v.1 + m22 * v.2 + t2)) ∧ m11 * m22 - m12 * m21 = d

theorem aff_cross {T : ℚ × ℚ → ℚ × ℚ} {d : ℚ} (h : IsAff T d) (a b c : ℚ × ℚ) : cross (T a) (T b) (T c) = d * cross a b c := by
  obtain ⟨m11, m12, m21, m22, t1, t2, hT, hd⟩ := h
  rw [hT a, hT b, hT c, ← hd]; unfold cross; ring

theorem aff_mean5 {T : ℚ × ℚ → ℚ × ℚ} {d : ℚ} (h : IsAff T d) (p : List (ℚ × ℚ)) (hp : p.length = 5) : mean5 (p.map T) = T (mean5 p) := by
  obtain ⟨m11, m12, m21, m22, t1, t2, hT, _⟩ := h
  obtain ⟨a, b, c, e, f, rfl⟩ := len5 p hp
  simp only [mean5, List.map, List.sum_cons, List.sum_nil, hT]
  ext <;> simp <;> ring

theorem aff_comp {f g : ℚ × ℚ → ℚ × ℚ} {d1 d2 : ℚ} (hf : IsAff f d1) (hg : IsAff g d2) : IsAff (f ∘ g) (d1 * d2) := by
  obtain ⟨a11, a12, a21, a22, s1, s2, hf', hd1⟩ := hf
  obtain ⟨b11, b12, b21, b22, u1, u2, hg', hd2⟩ := hg
  refine ⟨a11 * b11 + a12 * b21, a11 * b12 + a12 * b22, a21 * b11 + a22 * b21, a21 * b12 + a22 * b22,
    a11 * u1 + a12 * u2 + s1, a21 * u1 + a22 * u2 + s2, ?_, ?_⟩
  · intro v; simp only [Function.comp, hg', hf']; ext <;> simp <;> ring
  · rw [← hd1, ← hd2]; ring

/-- `q` is the image of `p` (possibly in the opposite vertex order) under an affine map with determinant `d` -/
def Aff (p q : List (ℚ × ℚ)) (d : ℚ) : Prop := ∃ T, IsAff T d ∧ (q = p.map T ∨ q = p.reverse.map T)

theorem aff_refl (p : List (ℚ × ℚ)) : Aff p p 1 :=
  ⟨id, ⟨1, 0, 0, 1, 0, 0, fun v => by simp, by norm_num⟩, Or.inl (by simp)⟩

theorem aff_map {p q : List (ℚ × ℚ)} {d e : ℚ} (f : ℚ × ℚ → ℚ × ℚ) (hf : IsAff f e) (h : Aff p q d) : Aff p (q.map f) (e * d) := by
  obtain ⟨T, hT, hq⟩ := h
  refine ⟨f ∘ T, aff_comp hf hT, ?_⟩
  rcases hq with rfl | rfl
  · left; simp
  · right; simp

theorem aff_reverse {p q : List (ℚ × ℚ)} {d : ℚ} (h : Aff p q d) : Aff p q.reverse d := by
  obtain ⟨T, hT, hq⟩ := h
  refine ⟨T, hT, ?_⟩
  rcases hq with rfl | rfl
  · right; simp [List.map_reverse]
  · left; simp [List.map_reverse]

theorem aff_neg : IsAff (fun v : ℚ × ℚ => (Scalar.neg v.1, Scalar.neg v.2)) 1 :=
  ⟨-1, 0, 0, -1, 0, 0, fun v => by simp, by norm_num⟩
theorem aff_refl_y : IsAff (fun v : ℚ × ℚ => (v.1, Scalar.neg v.2)) (-1) :=
  ⟨1, 0, 0, -1, 0, 0, fun v => by simp, by norm_num⟩
theorem aff_translate (t : ℚ × ℚ) : IsAff (fun v : ℚ × ℚ => (Scalar.add v.1 t.1, Scalar.add v.2 t.2)) 1 :=
  ⟨1, 0, 0, 1, t.1, t.2, fun v => by simp, by norm_num⟩
theorem aff_scale (s : ℚ) : IsAff (fun v : ℚ × ℚ => (Scalar.mul v.1 s, Scalar.mul v.2 s)) (s * s) :=
  ⟨s, 0, 0, s, 0, 0, fun v => by simp [mul_comm], by ring⟩
theorem aff_mat (m : ℚ × ℚ × ℚ × ℚ) : IsAff (applyMat m) (m.1 * m.2.2.2 - m.2.1 * m.2.2.1) :=
  ⟨m.1, m.2.1, m.2.2.1, m.2.2.2, 0, 0, fun v => by simp [applyMat], rfl⟩

/-- strict insideness of the vertex mean is invariant under non-degenerate affine maps and reversal of the vertex order -/
theorem inside_of_aff {p q : List (ℚ × ℚ)} {d : ℚ} (hp : p.length = 5) (hd : d ≠ 0) (h : Aff p q d)
    (hin : StrictlyInside p (mean5 p)) : StrictlyInside q (mean5 q) := by
  obtain ⟨T, hT, hq⟩ := h
  obtain ⟨a, b, c, e, f, rfl⟩ := len5 p hp
  have hm : mean5 ([a, b, c, e, f].map T) = T (mean5 [a, b, c, e, f]) := aff_mean5 hT _ rfl
  have hmr : mean5 ([a, b, c, e, f].reverse.map T) = T (mean5 [a, b, c, e, f]) := by
    rw [aff_mean5 hT _ (by simp)]
    congr 1
    simp only [mean5, List.reverse_cons, List.reverse_nil, List.nil_append, List.cons_append, List.map, List.sum_cons, List.sum_nil]
    ext <;> simp <;> ring
  unfold StrictlyInside at hin ⊢
  rw [edgeCross5] at hin
  simp only [List.mem_cons, List.mem_nil_iff, or_false, forall_eq_or_imp, forall_eq] at hin
  rcases hq with rfl | rfl
  · rw [hm]
    simp only [List.map, edgeCross5, aff_cross hT, List.mem_cons, List.mem_nil_iff, or_false, forall_eq_or_imp, forall_eq]
    rcases lt_or_gt_of_ne hd with hneg | hpos
    · rcases hin with ⟨h1, h2, h3, h4, h5⟩ | ⟨h1, h2, h3, h4, h5⟩
      · right; refine ⟨?_, ?_, ?_, ?_, ?_⟩ <;> nlinarith
      · left; refine ⟨?_, ?_, ?_, ?_, ?_⟩ <;> nlinarith
    · rcases hin with ⟨h1, h2, h3, h4, h5⟩ | ⟨h1, h2, h3, h4, h5⟩
      · left; refine ⟨?_, ?_, ?_, ?_, ?_⟩ <;> nlinarith
      · right; refine ⟨?_, ?_, ?_, ?_, ?_⟩ <;> nlinarith
  · rw [hmr]
    simp only [List.reverse_cons, List.reverse_nil, List.nil_append, List.cons_append, List.map, edgeCross5, aff_cross hT,
      List.mem_cons, List.mem_nil_iff, or_false, forall_eq_or_imp, forall_eq]
    -- reversing the order flips every determinant
    have sw : ∀ x y q : ℚ × ℚ, cross y x q = -cross x y q := by intros; unfold cross; ring
    generalize mean5 [a, b, c, e, f] = g at *
    rw [sw e f g, sw c e g, sw b c g, sw a b g, sw f a g]
    rcases lt_or_gt_of_ne hd with hneg | hpos
    · rcases hin with ⟨h1, h2, h3, h4, h5⟩ | ⟨h1, h2, h3, h4, h5⟩
      · left; refine ⟨?_, ?_, ?_, ?_, ?_⟩ <;> nlinarith
      · right; refine ⟨?_, ?_, ?_, ?_, ?_⟩ <;> nlinarith
    · rcases hin with ⟨h1, h2, h3, h4, h5⟩ | ⟨h1, h2, h3, h4, h5⟩
      · right; refine ⟨?_, ?_, ?_, ?_, ?_⟩ <;> nlinarith
      · left; refine ⟨?_, ?_, ?_, ?_, ?_⟩ <;> nlinarith


/-- `q` is a non-degenerate affine image of `p` (vertex order possibly reversed) -/
def NAff (p q : List (ℚ × ℚ)) : Prop := ∃ d, d ≠ 0 ∧ Aff p q d

theorem naff_map {p q : List (ℚ × ℚ)} (f : ℚ × ℚ → ℚ × ℚ) {e : ℚ} (he : e ≠ 0) (hf : IsAff f e) (h : NAff p q) : NAff p (q.map f) := by
  obtain ⟨d, hd, ha⟩ := h
  exact ⟨e * d, mul_ne_zero he hd, aff_map f hf ha⟩

theorem naff_reverse {p q : List (ℚ × ℚ)} (h : NAff p q) : NAff p q.reverse := by
  obtain ⟨d, hd, ha⟩ := h
  exact ⟨d, hd, aff_reverse ha⟩

/-- every placed pentagon is a non-degenerate affine image of the base pentagon (any basis, shifts; any invertible quintant matrix) -/
theorem place_naff (base : List (ℚ × ℚ)) (basis : ℚ × ℚ × ℚ × ℚ) (sl sr : ℚ × ℚ) (rot : ℚ × ℚ × ℚ × ℚ)
    (hdet : rot.1 * rot.2.2.2 - rot.2.1 * rot.2.2.1 ≠ 0) (h : Nat) (a : Anchor) :
    NAff (mkShape base) (place base basis sl sr rot h a) := by
  unfold place
  simp only
  generalize mkShape base = p
  have s0 : NAff p p := ⟨1, one_ne_zero, aff_refl p⟩
  have s1 : NAff p (if (!a.flips.1 && a.flips.2) = true then rotate180 p else p) := by
    split
    · have := naff_map _ one_ne_zero aff_neg s0; simpa [rotate180] using this
    · exact s0
  generalize (if (!a.flips.1 && a.flips.2) = true then rotate180 p else p) = p1 at *
  have s2 : ∀ cnd : Bool, NAff p (if cnd = true then reflectY p1 else p1) := by
    intro cnd; split
    · have := naff_reverse (naff_map _ (by norm_num : (-1 : ℚ) ≠ 0) aff_refl_y s1); simpa [reflectY] using this
    · exact s1
  have s2' := s2 ((a.flips.1 == a.flips.2 && decide (a.k > 1)) || (!(a.flips.1 == a.flips.2) && (a.k == 0 || a.k == 3)))
  generalize (if ((a.flips.1 == a.flips.2 && decide (a.k > 1)) || (!(a.flips.1 == a.flips.2) && (a.k == 0 || a.k == 3))) = true then reflectY p1 else p1) = p2 at *
  have s3 : NAff p (if (a.flips.1 && a.flips.2) = true then rotate180 p2 else if a.flips.1 = true then translate p2 sl
        else if a.flips.2 = true then translate p2 sr else p2) := by
    split
    · have := naff_map _ one_ne_zero aff_neg s2'; simpa [rotate180] using this
    · split
      · have := naff_map _ one_ne_zero (aff_translate sl) s2'; simpa [translate] using this
      · split
        · have := naff_map _ one_ne_zero (aff_translate sr) s2'; simpa [translate] using this
        · exact s2'
  generalize (if (a.flips.1 && a.flips.2) = true then rotate180 p2 else if a.flips.1 = true then translate p2 sl
        else if a.flips.2 = true then translate p2 sr else p2) = p3 at *
  have s4 := naff_map _ one_ne_zero (aff_translate (Scalar.add (Scalar.mul basis.1 (Scalar.ofInt a.i)) (Scalar.mul basis.2.1 (Scalar.ofInt a.j)),
      Scalar.add (Scalar.mul basis.2.2.1 (Scalar.ofInt a.i)) (Scalar.mul basis.2.2.2 (Scalar.ofInt a.j)))) s3
  have hs : (Scalar.div (Scalar.ofInt 1) (Scalar.ofInt (2 ^ h)) : ℚ) * (Scalar.div (Scalar.ofInt 1) (Scalar.ofInt (2 ^ h)) : ℚ) ≠ 0 := by
    simp only [sc_div, sc_ofInt, Int.cast_one, Int.cast_pow, Int.cast_ofNat]
    positivity
  have s5 := naff_map _ hs (aff_scale (Scalar.div (Scalar.ofInt 1) (Scalar.ofInt (2 ^ h)))) s4
  exact naff_map _ hdet (aff_mat rot) s5

/-- C02 (planar): if the vertex mean of the base pentagon lies strictly inside it, the vertex mean of EVERY placed pentagon lies
    strictly inside that pentagon — every level, anchor offset, flip state, `k`, and every invertible quintant matrix -/
theorem place_centre_inside (base : List (ℚ × ℚ)) (hb : base.length = 5) (basis : ℚ × ℚ × ℚ × ℚ) (sl sr : ℚ × ℚ) (rot : ℚ × ℚ × ℚ × ℚ)
    (hdet : rot.1 * rot.2.2.2 - rot.2.1 * rot.2.2.1 ≠ 0) (h : Nat) (a : Anchor)
    (hbase : StrictlyInside (mkShape base) (mean5 (mkShape base))) :
    StrictlyInside (place base basis sl sr rot h a) (mean5 (place base basis sl sr rot h a)) := by
  obtain ⟨d, hd, ha⟩ := place_naff base basis sl sr rot hdet h a
  exact inside_of_aff (by rw [mkShape_length, hb]) hd ha hbase

/-- the hypothesis holds for the implementation's base pentagon: decided by the kernel on the exact rational values of the double constants -/
theorem baseQ_centre_inside : StrictlyInside (mkShape baseQ) (mean5 (mkShape baseQ)) := by
  unfold StrictlyInside
  right          -- shapes are stored clockwise (`get_area() >= 0` for the library's shoelace sign)
  decide +kernel


/-! ### convexity (C12: the planar ring is a simple polygon with one consistent turning direction) -/

/-- the five turning determinants cross(v_i, v_{i+1}, v_{i+2}) -/
def turns (p : List (ℚ × ℚ)) : List ℚ :=
  (List.range p.length).map fun i => cross (p.getD i (0, 0)) (p.getD ((i + 1) % p.length) (0, 0)) (p.getD ((i + 2) % p.length) (0, 0))

/-- strictly convex: all turns have one strict sign -/
def StrictlyConvex (p : List (ℚ × ℚ)) : Prop := (∀ x ∈ turns p, 0 < x) ∨ (∀ x ∈ turns p, x < 0)

theorem turns5 (a b c d e : ℚ × ℚ) :
    turns [a, b, c, d, e] = [cross a b c, cross b c d, cross c d e, cross d e a, cross e a b] := by
  simp [turns, List.range_succ]

theorem convex_of_aff {p q : List (ℚ × ℚ)} {d : ℚ} (hp : p.length = 5) (hd : d ≠ 0) (h : Aff p q d)
    (hin : StrictlyConvex p) : StrictlyConvex q := by
  obtain ⟨T, hT, hq⟩ := h
  obtain ⟨a, b, c, e, f, rfl⟩ := len5 p hp
  unfold StrictlyConvex at hin ⊢
  rw [turns5] at hin
  simp only [List.mem_cons, List.mem_nil_iff, or_false, forall_eq_or_imp, forall_eq] at hin
  rcases hq with rfl | rfl
  · simp only [List.map, turns5, aff_cross hT, List.mem_cons, List.mem_nil_iff, or_false, forall_eq_or_imp, forall_eq]
    rcases lt_or_gt_of_ne hd with hneg | hpos
    · rcases hin with ⟨h1, h2, h3, h4, h5⟩ | ⟨h1, h2, h3, h4, h5⟩
      · right; refine ⟨?_, ?_, ?_, ?_, ?_⟩ <;> nlinarith
      · left; refine ⟨?_, ?_, ?_, ?_, ?_⟩ <;> nlinarith
    · rcases hin with ⟨h1, h2, h3, h4, h5⟩ | ⟨h1, h2, h3, h4, h5⟩
      · left; refine ⟨?_, ?_, ?_, ?_, ?_⟩ <;> nlinarith
      · right; refine ⟨?_, ?_, ?_, ?_, ?_⟩ <;> nlinarith
  · simp only [List.reverse_cons, List.reverse_nil, List.nil_append, List.cons_append, List.map, turns5, aff_cross hT,
      List.mem_cons, List.mem_nil_iff, or_false, forall_eq_or_imp, forall_eq]
    -- reading the vertices backwards flips every turn: cross z y x = -cross x y z
    have sw : ∀ x y z : ℚ × ℚ, cross z y x = -cross x y z := by intros; unfold cross; ring
    rw [sw c e f, sw b c e, sw a b c, sw f a b, sw e f a]
    rcases lt_or_gt_of_ne hd with hneg | hpos
    · rcases hin with ⟨h1, h2, h3, h4, h5⟩ | ⟨h1, h2, h3, h4, h5⟩
      · left; refine ⟨?_, ?_, ?_, ?_, ?_⟩ <;> nlinarith
      · right; refine ⟨?_, ?_, ?_, ?_, ?_⟩ <;> nlinarith
    · rcases hin with ⟨h1, h2, h3, h4, h5⟩ | ⟨h1, h2, h3, h4, h5⟩
      · right; refine ⟨?_, ?_, ?_, ?_, ?_⟩ <;> nlinarith
      · left; refine ⟨?_, ?_, ?_, ?_, ?_⟩ <;> nlinarith

/-- C12 (planar): every placed pentagon is strictly convex (hence a simple polygon) if the base pentagon is -/
theorem place_convex (base : List (ℚ × ℚ)) (hb : base.length = 5) (basis : ℚ × ℚ × ℚ × ℚ) (sl sr : ℚ × ℚ) (rot : ℚ × ℚ × ℚ × ℚ)
    (hdet : rot.1 * rot.2.2.2 - rot.2.1 * rot.2.2.1 ≠ 0) (h : Nat) (a : Anchor)
    (hbase : StrictlyConvex (mkShape base)) : StrictlyConvex (place base basis sl sr rot h a) := by
  obtain ⟨d, hd, ha⟩ := place_naff base basis sl sr rot hdet h a
  exact convex_of_aff (by rw [mkShape_length, hb]) hd ha hbase

theorem baseQ_convex : StrictlyConvex (mkShape baseQ) := by
  unfold StrictlyConvex
  right
  decide +kernel

end A5.Planar
