/-
  Strict monotonicity of the authalic series over ℝ: F φ = φ + sin 2φ · U(2 cos 2φ) with U the Clenshaw polynomial; the correction
  is L-Lipschitz with L = 2·a₄ + 4·l₄ computed from the absolute values of the six coefficients, and L < 1 for both tables.
-/
import A5.Props.C15
import Mathlib.Analysis.SpecialFunctions.Trigonometric.Bounds
import Mathlib.Tactic.Linarith
import Mathlib.Tactic.NormNum
import Mathlib.Tactic.Positivity

namespace A5.C15
open Real

/-- the Clenshaw recurrence as a function of X -/
def U (C : Fin 6 → ℝ) (X : ℝ) : ℝ :=
  let u0 := X * C 5 + C 4
  let u1 := X * u0 + C 3
  let u0' := X * u1 - u0 + C 2
  let u1' := X * u0' - u1 + C 1
  X * u1' - u0' + C 0

theorem applyR_eq (C : Fin 6 → ℝ) (φ : ℝ) : applyR C φ = φ + sin (2 * φ) * U C (2 * cos (2 * φ)) := by
  have hX : 2 * (cos φ - sin φ) * (cos φ + sin φ) = 2 * cos (2 * φ) := by
    rw [cos_two_mul, ← sin_sq_add_cos_sq φ]; ring
  unfold applyR U
  simp only
  rw [hX, sin_two_mul]

/-- one recurrence step `X·u − v + c` keeps a bound and a Lipschitz constant on |X| ≤ 2 -/
theorem step (X Y uX uY vX vY c a l a' l' : ℝ) (hX : |X| ≤ 2) (hY : |Y| ≤ 2)
    (hu : |uX| ≤ a) (huL : |uX - uY| ≤ l * |X - Y|) (hv : |vX| ≤ a') (hvL : |vX - vY| ≤ l' * |X - Y|) :
    |X * uX - vX + c| ≤ 2 * a + a' + |c| ∧ |(X * uX - vX + c) - (Y * uY - vY + c)| ≤ (a + 2 * l + l') * |X - Y| := by
  have ha : 0 ≤ a := le_trans (abs_nonneg _) hu
  constructor
  · calc |X * uX - vX + c| ≤ |X * uX - vX| + |c| := abs_add_le _ _
      _ ≤ |X * uX| + |vX| + |c| := by linarith [abs_sub (X * uX) vX]
      _ = |X| * |uX| + |vX| + |c| := by rw [abs_mul]
      _ ≤ 2 * a + a' + |c| := by nlinarith [abs_nonneg X, abs_nonneg uX]
  · have e : (X * uX - vX + c) - (Y * uY - vY + c) = (X - Y) * uX + Y * (uX - uY) - (vX - vY) := by ring
    rw [e]
    have hd := abs_nonneg (X - Y)
    calc |(X - Y) * uX + Y * (uX - uY) - (vX - vY)| ≤ |(X - Y) * uX + Y * (uX - uY)| + |vX - vY| := abs_sub _ _
      _ ≤ |(X - Y) * uX| + |Y * (uX - uY)| + |vX - vY| := by linarith [abs_add_le ((X - Y) * uX) (Y * (uX - uY))]
      _ = |X - Y| * |uX| + |Y| * |uX - uY| + |vX - vY| := by rw [abs_mul, abs_mul]
      _ ≤ (a + 2 * l + l') * |X - Y| := by nlinarith [abs_nonneg Y, abs_nonneg (uX - uY), abs_nonneg uX]

def a0 (C : Fin 6 → ℝ) : ℝ := 2 * |C 5| + |C 4|
def a1 (C : Fin 6 → ℝ) : ℝ := 2 * a0 C + |C 3|
def a2 (C : Fin 6 → ℝ) : ℝ := 2 * a1 C + a0 C + |C 2|
def a3 (C : Fin 6 → ℝ) : ℝ := 2 * a2 C + a1 C + |C 1|
def a4 (C : Fin 6 → ℝ) : ℝ := 2 * a3 C + a2 C + |C 0|
def l0 (C : Fin 6 → ℝ) : ℝ := |C 5|
def l1 (C : Fin 6 → ℝ) : ℝ := a0 C + 2 * l0 C
def l2 (C : Fin 6 → ℝ) : ℝ := a1 C + 2 * l1 C + l0 C
def l3 (C : Fin 6 → ℝ) : ℝ := a2 C + 2 * l2 C + l1 C
def l4 (C : Fin 6 → ℝ) : ℝ := a3 C + 2 * l3 C + l2 C

/-- the Clenshaw polynomial is bounded by a₄ and l₄-Lipschitz on [−2, 2] -/
theorem U_bounds (C : Fin 6 → ℝ) (X Y : ℝ) (hX : |X| ≤ 2) (hY : |Y| ≤ 2) :
    |U C X| ≤ a4 C ∧ |U C X - U C Y| ≤ l4 C * |X - Y| := by
  have z : |(0:ℝ)| ≤ 0 := by simp
  have zL : |(0:ℝ) - 0| ≤ 0 * |X - Y| := by simp
  have cL : |C 5 - C 5| ≤ 0 * |X - Y| := by simp
  have s0 := step X Y (C 5) (C 5) 0 0 (C 4) |C 5| 0 0 0 hX hY (le_refl _) cL z zL
  simp only [sub_zero, add_zero, mul_zero] at s0
  have s1 := step X Y (X * C 5 + C 4) (Y * C 5 + C 4) 0 0 (C 3) _ _ 0 0 hX hY s0.1 s0.2 z zL
  simp only [sub_zero, add_zero] at s1
  have s2 := step X Y _ _ _ _ (C 2) _ _ _ _ hX hY s1.1 s1.2 s0.1 s0.2
  have s3 := step X Y _ _ _ _ (C 1) _ _ _ _ hX hY s2.1 s2.2 s1.1 s1.2
  have s4 := step X Y _ _ _ _ (C 0) _ _ _ _ hX hY s3.1 s3.2 s2.1 s2.2
  simp only [U, a4, a3, a2, a1, a0, l4, l3, l2, l1, l0]
  constructor
  · refine le_trans s4.1 (le_of_eq ?_); ring
  · refine le_trans s4.2 (le_of_eq ?_); ring

/-- C15: the conversion is strictly increasing on all of ℝ whenever 2·a₄ + 4·l₄ < 1 -/
theorem strictMono_of_small (C : Fin 6 → ℝ) (hL : 2 * a4 C + 4 * l4 C < 1) : StrictMono (applyR C) := by
  intro a b hab
  rw [applyR_eq, applyR_eq]
  have hXa : |2 * cos (2 * a)| ≤ 2 := by rw [abs_mul]; have := abs_cos_le_one (2 * a); simp; linarith
  have hXb : |2 * cos (2 * b)| ≤ 2 := by rw [abs_mul]; have := abs_cos_le_one (2 * b); simp; linarith
  obtain ⟨hUb, hUL⟩ := U_bounds C (2 * cos (2 * b)) (2 * cos (2 * a)) hXb hXa
  have hsin : |sin (2 * b) - sin (2 * a)| ≤ 2 * (b - a) := by
    have := abs_sin_sub_sin_le (2 * b) (2 * a)
    rw [show 2 * b - 2 * a = 2 * (b - a) by ring, abs_mul, abs_of_pos (sub_pos.2 hab)] at this
    simpa using this
  have hcos : |2 * cos (2 * b) - 2 * cos (2 * a)| ≤ 4 * (b - a) := by
    have := abs_cos_sub_cos_le (2 * b) (2 * a)
    rw [show 2 * b - 2 * a = 2 * (b - a) by ring, abs_mul, abs_of_pos (sub_pos.2 hab)] at this
    rw [← mul_sub, abs_mul]; simp at this ⊢; linarith
  have hsa : |sin (2 * a)| ≤ 1 := abs_sin_le_one _
  have ha4 : 0 ≤ a4 C := le_trans (abs_nonneg _) hUb
  have hl4 : 0 ≤ l4 C := by unfold l4 l3 l2 l1 l0 a3 a2 a1 a0; positivity
  -- G b − G a = (sin 2b − sin 2a)·U_b + sin 2a·(U_b − U_a)
  have key : |sin (2 * b) * U C (2 * cos (2 * b)) - sin (2 * a) * U C (2 * cos (2 * a))| ≤ (2 * a4 C + 4 * l4 C) * (b - a) := by
    have e : sin (2 * b) * U C (2 * cos (2 * b)) - sin (2 * a) * U C (2 * cos (2 * a))
        = (sin (2 * b) - sin (2 * a)) * U C (2 * cos (2 * b)) + sin (2 * a) * (U C (2 * cos (2 * b)) - U C (2 * cos (2 * a))) := by ring
    rw [e]
    calc _ ≤ |(sin (2 * b) - sin (2 * a)) * U C (2 * cos (2 * b))| + |sin (2 * a) * (U C (2 * cos (2 * b)) - U C (2 * cos (2 * a)))| := abs_add_le _ _
      _ = |sin (2 * b) - sin (2 * a)| * |U C (2 * cos (2 * b))| + |sin (2 * a)| * |U C (2 * cos (2 * b)) - U C (2 * cos (2 * a))| := by rw [abs_mul, abs_mul]
      _ ≤ (2 * a4 C + 4 * l4 C) * (b - a) := by
        have h1 : |sin (2 * b) - sin (2 * a)| * |U C (2 * cos (2 * b))| ≤ 2 * (b - a) * a4 C :=
          mul_le_mul hsin hUb (abs_nonneg _) (by linarith)
        have h2 : |sin (2 * a)| * |U C (2 * cos (2 * b)) - U C (2 * cos (2 * a))| ≤ 1 * (l4 C * (4 * (b - a))) :=
          mul_le_mul hsa (le_trans hUL (mul_le_mul_of_nonneg_left hcos hl4)) (abs_nonneg _) (by norm_num)
        linarith
  have := abs_le.1 key
  nlinarith [this.1, sub_pos.2 hab]

end A5.C15

namespace A5.C15
open Real

/-- the coefficient tables as exact rationals (the exact values of the implementation's doubles, regenerated each run) -/
noncomputable def coeffs (l : List (Int × Nat)) : Fin 6 → ℝ :=
  fun i => ((l.getD i.val (0, 1)).1 : ℝ) / ((l.getD i.val (0, 1)).2 : ℝ)

theorem forward_small : 2 * a4 (coeffs Tables.GEODETIC_TO_AUTHALIC_RAT) + 4 * l4 (coeffs Tables.GEODETIC_TO_AUTHALIC_RAT) < 1 := by
  simp only [a4, a3, a2, a1, a0, l4, l3, l2, l1, l0, coeffs, Tables.GEODETIC_TO_AUTHALIC_RAT, List.getD_cons_succ, List.getD_cons_zero,
    Fin.isValue, Fin.val_ofNat]
  norm_num [abs_div, abs_of_pos, abs_of_neg]

theorem inverse_small : 2 * a4 (coeffs Tables.AUTHALIC_TO_GEODETIC_RAT) + 4 * l4 (coeffs Tables.AUTHALIC_TO_GEODETIC_RAT) < 1 := by
  simp only [a4, a3, a2, a1, a0, l4, l3, l2, l1, l0, coeffs, Tables.AUTHALIC_TO_GEODETIC_RAT, List.getD_cons_succ, List.getD_cons_zero,
    Fin.isValue, Fin.val_ofNat]
  norm_num [abs_div, abs_of_pos, abs_of_neg]

end A5.C15
