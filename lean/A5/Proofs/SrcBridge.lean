/-
  Source-level tie: the definitions that `tools/py2lean.py` regenerates from `/repo`'s *current* source on every
  run (`A5/Gen/Src.lean`) compute exactly what the hand-written model computes — for every id (`Nat`), every
  resolution argument (`Int`), every cell record.  All property theorems about the model therefore hold of the
  translated source; a change of the source changes `Src.*` and these proofs are re-checked.

  Statement shape: `Src.f (↑args) = (Model.f args).map ↑·` — the translated code works on `Int`, the model on
  `Nat` ids and `Int` resolutions.
-/
import A5.Gen.Src
import A5.Model.Compact
import A5.Proofs.Ids

attribute [local instance 2000] instPowNat

namespace A5.Bridge
open A5

/-! ### the Python operators on non-negative ints are the `Nat` operations of the model -/

@[simp] theorem shl_nat (a : Nat) (n : Int) : Py.shl (a : Int) n = (shl a n).map Int.ofNat := by
  unfold Py.shl shl; split <;> rfl

@[simp] theorem shr_nat (a : Nat) (n : Int) : Py.shr (a : Int) n = (shr a n).map Int.ofNat := by
  unfold Py.shr shr; split <;> rfl

@[simp] theorem band_nat (a b : Nat) : Py.band (a : Int) (b : Int) = ((a &&& b : Nat) : Int) := by
  simp [Py.band]

@[simp] theorem bor_nat (a b : Nat) : Py.bor (a : Int) (b : Int) = ((a ||| b : Nat) : Int) := by
  simp [Py.bor]

theorem shr_nonneg (a : Nat) (k : Int) (hk : 0 ≤ k) : Py.shr (a : Int) k = .ok ((a >>> k.toNat : Nat) : Int) := by
  unfold Py.shr; rw [if_neg (by omega)]; rfl

theorem shl_nonneg (a : Nat) (k : Int) (hk : 0 ≤ k) : Py.shl (a : Int) k = .ok ((a <<< k.toNat : Nat) : Int) := by
  unfold Py.shl; rw [if_neg (by omega)]; rfl

theorem shl_one (n : Int) : Py.shl 1 n = (shl 1 n).map Int.ofNat := shl_nat 1 n
theorem pure_ok {α} (a : α) : (pure a : PyM α) = .ok a := rfl
theorem map_ok {α β} (f : α → β) (a : α) : (Except.ok a : PyM α).map f = .ok (f a) := rfl
theorem map_error {α β} (f : α → β) (e : Err) : (Except.error e : PyM α).map f = .error e := rfl
theorem bind_ok {α β} (a : α) (f : α → PyM β) : (Except.ok a : PyM α) >>= f = f a := rfl
theorem bind_error {α β} (e : Err) (f : α → PyM β) : (Except.error e : PyM α) >>= f = .error e := rfl
theorem bind_map {α β γ} (x : PyM α) (g : α → β) (f : β → PyM γ) : (x.map g) >>= f = x >>= fun a => f (g a) := by
  cases x <;> rfl

/-! ### constants -/
open Src.serialization in
theorem consts :
    Src.serialization.FIRST_HILBERT_RESOLUTION = FHR ∧ Src.serialization.MAX_RESOLUTION = MAXR ∧
    Src.serialization.HILBERT_START_BIT = HSB ∧ Src.serialization.REMOVAL_MASK = (A5.REMOVAL_MASK : Int) ∧
    Src.serialization.WORLD_CELL = (A5.WORLD_CELL : Int) ∧ Src.cell_info.FIRST_HILBERT_RESOLUTION = CIFHR ∧
    Src.compact.FIRST_HILBERT_RESOLUTION = CFHR ∧ Src.compact.HILBERT_START_BIT = HSB := by decide

/-! ### cell_info -/

theorem get_num_cells_eq (r : Int) : Src.cell_info.get_num_cells r = .ok ((getNumCells r : Nat) : Int) := by
  unfold Src.cell_info.get_num_cells getNumCells
  split
  · rfl
  · split
    · rfl
    · have h : ¬ (r - 1 < 0) := by omega
      simp only [Py.pow, h, if_false, bind_ok]
      simp [pure, Except.pure]


theorem get_num_children_eq (p c : Int) :
    Src.cell_info.get_num_children p c = .ok ((getNumChildren p c : Nat) : Int) := by
  unfold Src.cell_info.get_num_children getNumChildren
  have hc : CIFHR = 2 := by decide
  rw [hc]
  split
  · rfl
  · split
    · rfl
    · split
      · have h : ¬ (c - p < 0) := by omega
        simp [Py.pow, h]
      · simp only [get_num_cells_eq, bind_ok, Py.floordiv, Py.orInt]
        by_cases h0 : getNumCells p = 0
        · simp [h0, pure, Except.pure]
        · have : ((getNumCells p : Nat) : Int) ≠ 0 := by omega
          simp only [this, h0, if_true, if_false, ne_eq, not_false_eq_true, pure, Except.pure]
          congr 1
          rw [Int.fdiv_eq_ediv_of_nonneg _ (by omega)]
          norm_cast

/-! ### serialization: the functions without loops over lists -/

theorem get_stride_eq (r : Int) : Src.serialization.get_stride r = (getStride r).map Int.ofNat := by
  unfold Src.serialization.get_stride getStride
  have h1 : HSB = 58 := by decide
  have h2 : MAXR = 30 := by decide
  rw [h1, h2]
  split
  · exact shl_nat 1 (58 : Int)
  · exact shl_nat 1 _


/-- the translated `while` loop of `get_resolution` never exhausts its fuel and computes the model's loop -/
theorem get_resolution_loop_eq (fuel : Nat) (res : Int) (sh : Nat) (hf : res + 2 ≤ fuel) (hres : -1 ≤ res) :
    ∃ sh' : Nat, Src.serialization.get_resolution_loop1 fuel res sh = .ok (getResLoop fuel res sh, (sh' : Int)) := by
  induction fuel generalizing res sh with
  | zero => omega
  | succ f ih =>
    unfold Src.serialization.get_resolution_loop1 getResLoop
    have hc : FHR = 2 := by decide
    rw [hc]
    have hb : (Py.band (sh : Int) 1 = 0) ↔ (sh &&& 1 = 0) := by
      rw [show (1 : Int) = ((1 : Nat) : Int) from rfl, band_nat]; omega
    by_cases hcond : res > -1 ∧ sh &&& 1 = 0
    · have hcond' : res > -(1 : Int) ∧ Py.band (sh : Int) (1 : Int) = (0 : Int) := ⟨hcond.1, hb.2 hcond.2⟩
      rw [if_pos hcond, if_pos hcond']
      dsimp only
      rw [shr_nonneg _ _ (by split <;> omega), bind_ok]
      have hk : (if res - 1 < (2 : Int) then (1 : Int) else 2).toNat = (if res - 1 < (2 : Int) then 1 else 2 : Nat) := by
        split <;> rfl
      rw [hk]
      exact ih (res - 1) _ (by omega) (by omega)
    · have hcond' : ¬ (res > -(1 : Int) ∧ Py.band (sh : Int) (1 : Int) = (0 : Int)) := fun h => hcond ⟨h.1, hb.1 h.2⟩
      rw [if_neg hcond, if_neg hcond']
      exact ⟨sh, rfl⟩

theorem get_resolution_eq (index : Nat) :
    Src.serialization.get_resolution (index : Int) = .ok (getResolution index) := by
  unfold Src.serialization.get_resolution getResolution
  have h2 : MAXR = 30 := by decide
  rw [h2]
  dsimp only
  rw [shr_nonneg _ _ (by omega), bind_ok]
  obtain ⟨sh', h⟩ := get_resolution_loop_eq ((30 : Int) + 2).toNat ((30 : Int) - 1) (index >>> 1) (by simp) (by simp)
  rw [show (1 : Int).toNat = 1 from rfl, h, bind_ok]
  exact congrArg Except.ok (getResLoop_fuel _ _ _ _ (by simp) (by simp))


/-- the cell record of the model as the translated code sees it -/
def cellOf (c : Cell) : Py.SCell := { origin := c.origin, segment := c.segment, S := c.S, resolution := c.res }

theorem originsGet_nat (i : Nat) : Py.originsGet (i : Int) = (originAt i).map Int.ofNat := by
  unfold Py.originsGet Py.listGet originAt Py.origins
  rw [ORIGIN_IDS_eq]
  simp only [NUM_ORIGINS_eq]
  have h0 : ¬ ((i : Int) < 0) := by omega
  simp only [h0, if_false, Int.toNat_natCast]
  by_cases h : i < 12
  · rw [if_pos h]
    simp [List.getElem?_map, List.getElem?_range, h, map_ok]
  · rw [if_neg h]
    simp [List.getElem?_map, List.getElem?_range, h, map_error]

theorem firstQuintant_nat (o : Nat) : Py.firstQuintant (o : Int) = firstQuintant o := by
  simp [Py.firstQuintant, firstQuintant]

theorem originId_nat (o : Nat) (h : o < 12) : Py.originId (o : Int) = (o : Int) := by
  unfold Py.originId; rw [ORIGIN_IDS_eq]; simp [h]

theorem deserialize_eq (index : Nat) :
    Src.serialization.deserialize (index : Int) = (deserialize index).map cellOf := by
  unfold Src.serialization.deserialize deserialize
  have h1 : FHR = 2 := by decide
  have h2 : HSB = 58 := by decide
  have h3 : (288230376151711743 : Int) = ((A5.REMOVAL_MASK : Nat) : Int) := by decide
  rw [h1, h2, h3, get_resolution_eq, bind_ok]
  dsimp only
  by_cases hw : getResolution index = -1
  · rw [if_pos hw, if_pos hw]
    rw [show (0 : Int) = ((0 : Nat) : Int) from rfl, originsGet_nat]
    simp [originAt, cellOf, bind, Except.bind, Except.map, pure, Except.pure]
  · rw [if_neg hw, if_neg hw]
    rw [shr_nonneg _ _ (by omega), bind_ok]
    generalize getResolution index = r at *
    rw [show (58 : Int).toNat = 58 from rfl]
    generalize index >>> 58 = t
    have hfd : ((t : Int)).fdiv 5 = ((t / 5 : Nat) : Int) := by
      rw [Int.fdiv_eq_ediv_of_nonneg _ (by omega)]; norm_cast
    rw [hfd, originsGet_nat, originsGet_nat, band_nat]
    by_cases h0 : r = 0
    · subst h0
      simp only [if_true]
      cases originAt t with
      | error e => rfl
      | ok o =>
        simp only [map_ok, bind_ok, if_false, pure_ok]
        rw [if_pos (by decide), if_pos (by decide)]
        rfl
    · rw [if_neg h0, if_neg h0]
      cases originAt (t / 5) with
      | error e => rfl
      | ok o =>
        simp only [map_ok, bind_ok, if_false, pure_ok]
        have hseg : (↑t + Py.firstQuintant (Int.ofNat o)).fmod 5 = (↑t + firstQuintant o) % 5 := by
          rw [show Int.ofNat o = (o : Int) from rfl, firstQuintant_nat, Int.fmod_eq_emod_of_nonneg _ (by omega)]
        rw [hseg]
        by_cases hlt : r < (2 : Int)
        · rw [if_pos hlt, if_pos hlt]; rfl
        · rw [if_neg hlt, if_neg hlt]
          rw [shr_nat]
          cases shr (index &&& REMOVAL_MASK) ((58 : Int) - 2 * (r - (2 : Int) + 1)) <;> rfl


theorem serialize_eq (c : Cell) (ho : c.origin < 12) :
    Src.serialization.serialize (cellOf c) = (serialize c).map Int.ofNat := by
  obtain ⟨o, seg, S, r⟩ := c
  simp only at ho
  unfold Src.serialization.serialize serialize cellOf
  have h1 : FHR = 2 := by decide
  have h2 : HSB = 58 := by decide
  have h3 : MAXR = 30 := by decide
  have h4 : A5.WORLD_CELL = 0 := by decide
  rw [h1, h2, h3, h4]
  dsimp only
  by_cases c1 : r > (30 : Int)
  · rw [if_pos c1, if_pos c1]; rfl
  rw [if_neg c1, if_neg c1]
  by_cases c2 : r = -1
  · rw [if_pos c2, if_pos c2]; rfl
  rw [if_neg c2, if_neg c2]
  by_cases c3 : S < 0
  · rw [if_pos c3, if_pos c3]; rfl
  rw [if_neg c3, if_neg c3]
  by_cases c4 : r < (2 : Int) ∧ S ≠ 0
  · rw [if_pos c4, if_pos c4]; rfl
  rw [if_neg c4, if_neg c4]
  obtain ⟨s, rfl⟩ : ∃ s : Nat, S = (s : Int) := ⟨S.toNat, by omega⟩
  -- R
  have hR : (if r < (2 : Int) then (pure (r + 1) : PyM Int) else pure (2 * (1 + r - (2 : Int)) + 1))
      = pure (if r < (2 : Int) then r + 1 else 2 * (1 + r - (2 : Int)) + 1) := by split <;> rfl
  rw [hR, pure_ok, bind_ok]
  generalize (if r < (2 : Int) then r + 1 else 2 * (1 + r - (2 : Int)) + 1) = R
  -- segment_n
  have hfq := firstQuintant_range o ho
  have hseg : (seg - Py.firstQuintant (o : Int) + 5).fmod 5 = (((seg - firstQuintant o + 5) % 5).toNat : Int) := by
    rw [firstQuintant_nat, Int.fmod_eq_emod_of_nonneg _ (by omega)]; omega
  rw [hseg, originId_nat o ho]
  generalize ((seg - firstQuintant o + 5) % 5).toNat = sn
  -- index0
  have hi0 : (if r = 0 then (Py.shl (o : Int) 58 >>= fun t1_ => pure t1_) else (Py.shl (5 * (o : Int) + (sn : Int)) 58 >>= fun t2_ => pure t2_))
      = ((if r = 0 then shl o 58 else shl (5 * o + sn) 58).map Int.ofNat : PyM Int) := by
    split
    · rw [shl_nat]; cases shl o 58 <;> rfl
    · rw [show (5 * (o : Int) + (sn : Int)) = ((5 * o + sn : Nat) : Int) by push_cast; rfl, shl_nat]
      cases shl (5 * o + sn) 58 <;> rfl
  rw [hi0]
  cases (if r = 0 then shl o 58 else shl (5 * o + sn) 58) with
  | error e => rfl
  | ok i0 =>
    rw [map_ok, bind_ok, bind_ok]
    have hi1 : (if r ≥ (2 : Int) then
            (Py.shl 1 (2 * (r - (2 : Int) + 1)) >>= fun t3_ =>
              if (s : Int) ≥ t3_ then (Except.error Err.value : PyM Int)
              else Py.shl (s : Int) ((58 : Int) - 2 * (r - (2 : Int) + 1)) >>= fun t4_ => pure (Int.ofNat i0 + t4_))
          else pure (Int.ofNat i0))
        = ((if r ≥ (2 : Int) then
            Except.bind (shl 1 (2 * (r - (2 : Int) + 1))) fun lim =>
              if (s : Int) ≥ (lim : Int) then Except.error Err.value
              else Except.bind (shl (s : Int).toNat ((58 : Int) - 2 * (r - (2 : Int) + 1))) fun add => Except.ok (i0 + add)
          else Except.ok i0).map Int.ofNat : PyM Int) := by
      split
      · rw [shl_one]
        cases shl 1 (2 * (r - (2 : Int) + 1)) with
        | error e => rfl
        | ok lim =>
          rw [map_ok, bind_ok]
          show _ = Except.map Int.ofNat (if (s : Int) ≥ (lim : Int) then _ else _)
          simp only [Int.ofNat_eq_natCast]
          by_cases hl : (s : Int) ≥ (lim : Int)
          · rw [if_pos hl, if_pos hl]; rfl
          · rw [if_neg hl, if_neg hl, shl_nat, Int.toNat_natCast]
            cases shl s ((58 : Int) - 2 * (r - (2 : Int) + 1)) <;> rfl
      · rfl
    rw [hi1]
    cases (if r ≥ (2 : Int) then
            Except.bind (shl 1 (2 * (r - (2 : Int) + 1))) fun lim =>
              if (s : Int) ≥ (lim : Int) then Except.error Err.value
              else Except.bind (shl (s : Int).toNat ((58 : Int) - 2 * (r - (2 : Int) + 1))) fun add => Except.ok (i0 + add)
          else Except.ok i0) with
    | error e => rfl
    | ok i1 =>
      rw [map_ok, bind_ok, bind_ok, shl_one]
      cases shl 1 ((58 : Int) - R) with
      | error e => rfl
      | ok m =>
        rw [map_ok, bind_ok, bind_ok]
        show pure (Py.bor (i1 : Int) (m : Int)) = _
        rw [bor_nat]; rfl


theorem originAt_lt {i o : Nat} (h : originAt i = .ok o) : o < 12 := by
  unfold originAt at h
  split at h
  · injection h with h; subst h; simpa using ‹i < NUM_ORIGINS›
  · cases h

/-- every record `deserialize` returns names an origin of the table -/
theorem deserialize_origin_lt {index : Nat} {c : Cell} (h : deserialize index = .ok c) : c.origin < 12 := by
  unfold deserialize at h
  dsimp only at h
  split at h
  · cases ho : originAt 0 with
    | error e => rw [ho] at h; cases h
    | ok o => rw [ho] at h; injection h with h; subst h; exact originAt_lt ho
  · split at h
    · cases ho : originAt (index >>> 58) with
      | error e => rw [ho] at h; cases h
      | ok o =>
        rw [ho] at h
        simp only [bind, Except.bind, pure, Except.pure] at h
        split at h
        · injection h with h; subst h; exact originAt_lt ho
        · split at h
          · cases h
          · injection h with h; subst h; exact originAt_lt ho
    · cases ho : originAt (index >>> 58 / 5) with
      | error e => rw [ho] at h; cases h
      | ok o =>
        rw [ho] at h
        simp only [bind, Except.bind, pure, Except.pure] at h
        split at h
        · injection h with h; subst h; exact originAt_lt ho
        · split at h
          · cases h
          · injection h with h; subst h; exact originAt_lt ho

theorem cell_to_parent_eq (index : Nat) (pr : Option Int) :
    Src.serialization.cell_to_parent (index : Int) pr = (cellToParent index pr).map Int.ofNat := by
  unfold Src.serialization.cell_to_parent cellToParent
  have h4 : A5.WORLD_CELL = 0 := by decide
  rw [deserialize_eq, h4]
  cases hd : deserialize index with
  | error e => rfl
  | ok c =>
    have ho := deserialize_origin_lt hd
    rw [map_ok, bind_ok]
    show _ = Except.map Int.ofNat (_ : PyM Nat)
    simp only [Except.bind]
    dsimp only [cellOf]
    have key : ∀ new : Int,
        (if new = -1 then (pure ((A5.WORLD_CELL : Nat) : Int) : PyM Int)
         else if new < -1 then Except.error Err.value
         else if new > c.res then Except.error Err.value
         else if new = c.res then pure (index : Int)
         else Py.shr c.S (2 * (c.res - new)) >>= fun t2_ =>
           Src.serialization.serialize { origin := (c.origin : Int), segment := c.segment, S := t2_, resolution := new })
        = Except.map Int.ofNat
          (if new = -1 then Except.ok A5.WORLD_CELL
           else if new < -1 then Except.error Err.value
           else if new > c.res then Except.error Err.value
           else if new = c.res then Except.ok index
           else serialize { origin := c.origin, segment := c.segment, S := c.S / 2 ^ (2 * (c.res - new)).toNat, res := new }) := by
      intro new
      by_cases c1 : new = -1
      · rw [if_pos c1, if_pos c1]; rfl
      rw [if_neg c1, if_neg c1]
      by_cases c2 : new < -1
      · rw [if_pos c2, if_pos c2]; rfl
      rw [if_neg c2, if_neg c2]
      by_cases c3 : new > c.res
      · rw [if_pos c3, if_pos c3]; rfl
      rw [if_neg c3, if_neg c3]
      by_cases c4 : new = c.res
      · rw [if_pos c4, if_pos c4]; rfl
      rw [if_neg c4, if_neg c4]
      have hsh : Py.shr c.S (2 * (c.res - new)) = .ok (c.S / 2 ^ (2 * (c.res - new)).toNat) := by
        unfold Py.shr; rw [if_neg (by omega), Int.shiftRight_eq_div_pow]; rfl
      rw [hsh, bind_ok]
      exact serialize_eq { origin := c.origin, segment := c.segment, S := c.S / 2 ^ (2 * (c.res - new)).toNat, res := new } ho
    cases pr with
    | none => exact key _
    | some p => exact key _


theorem decide_cast_zero (n : Nat) : decide (((n : Nat) : Int) = 0) = (n == 0) := by
  cases n with
  | zero => rfl
  | succ k =>
    have h1 : ¬ (((k + 1 : Nat) : Int) = 0) := by omega
    have h2 : ¬ (k + 1 = 0) := by omega
    simp only [h1, decide_false]
    exact (beq_eq_false_iff_ne.2 h2).symm

theorem shl_three (n : Int) : Py.shl 3 n = (shl 3 n).map Int.ofNat := shl_nat 3 n

theorem is_first_child_eq (index : Nat) (res : Option Int) :
    Src.serialization.is_first_child (index : Int) res = isFirstChild index res := by
  unfold Src.serialization.is_first_child isFirstChild
  have h2 : HSB = 58 := by decide
  have h3 : MAXR = 30 := by decide
  rw [h2, h3]
  have key : ∀ r : Int,
      (if r < 2 then
          Py.shr (index : Int) (58 : Int) >>= fun t2_ =>
            Py.mod t2_ (if r = 0 then 12 else 5) >>= fun t3_ => (pure (Py.ofProp (t3_ = 0)) : PyM Bool)
        else Py.shl 3 (2 * ((30 : Int) - r)) >>= fun t4_ => pure (Py.ofProp (Py.band (index : Int) t4_ = 0)))
      = (if r < 2 then (shr index (58 : Int)).bind fun top6 => .ok (top6 % (if r = 0 then 12 else 5) == 0)
         else (shl 3 (2 * ((30 : Int) - r))).bind fun mask => .ok (index &&& mask == 0)) := by
    intro r
    split
    · rw [shr_nat]
      cases shr index (58 : Int) with
      | error e => rfl
      | ok t =>
        rw [map_ok, bind_ok]
        show _ = Except.ok _
        have hm : Py.mod (Int.ofNat t) (if r = 0 then 12 else 5) = .ok (((t % (if r = 0 then 12 else 5) : Nat)) : Int) := by
          unfold Py.mod
          split
          · rw [if_neg (by decide), Int.fmod_eq_emod_of_nonneg _ (by decide)]; rfl
          · rw [if_neg (by decide), Int.fmod_eq_emod_of_nonneg _ (by decide)]; rfl
        rw [hm, bind_ok, pure_ok]
        congr 1
        exact decide_cast_zero _
    · rw [shl_three]
      cases shl 3 (2 * ((30 : Int) - r)) with
      | error e => rfl
      | ok m =>
        rw [map_ok, bind_ok, pure_ok]
        show _ = Except.ok _
        congr 1
        rw [show Int.ofNat m = (m : Int) from rfl, band_nat]
        exact decide_cast_zero _
  cases res with
  | some r => exact key r
  | none =>
    show (Src.serialization.get_resolution (index : Int) >>= fun t1_ => pure t1_) >>= _ = _
    rw [get_resolution_eq, bind_ok, pure_ok, bind_ok]
    exact key _

theorem hierarchical_key_eq (cell : Nat) :
    Src.compact._hierarchical_key (cell : Int) = .ok ((hierarchicalKey cell : Nat) : Int) := by
  unfold Src.compact._hierarchical_key hierarchicalKey
  have h2 : HSB = 58 := by decide
  rw [h2]
  show (Src.serialization.get_resolution (cell : Int) >>= _) = _
  rw [get_resolution_eq, bind_ok]
  split
  · rw [shr_nonneg _ _ (by decide), bind_ok,
      show (4 : Int) * ((cell >>> (58 : Int).toNat : Nat) : Int) = ((4 * (cell >>> (58 : Int).toNat) : Nat) : Int) by push_cast; rfl,
      shl_nonneg _ _ (by decide), bind_ok, pure_ok]
    congr 1
  · rfl

end A5.Bridge
