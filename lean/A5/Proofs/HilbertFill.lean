/-
  C18, "exactly fill": every point of the closed segment triangle of side 2^n lies in the closed unit triangle of the lattice cell
  of some index s < 4^n (for every level n).  The witness is the index that `ij_to_s` computes; the proof runs the decoding loop
  on closed triangles and inverts the digit transducer in the other direction.
-/
import A5.Proofs.HilbertRT
import Mathlib.Data.List.Induction

namespace A5.Hilbert

/-- closed version of `Tri` -/
def TriC (f : Flips) (s u v : ℚ) : Prop :=
  match f with
  | (false, false) => 0 ≤ u ∧ 0 ≤ v ∧ u + v ≤ s
  | (false, true)  => u ≤ 0 ∧ v ≤ s ∧ 0 ≤ u + v
  | (true,  false) => 0 ≤ u ∧ -s ≤ v ∧ u + v ≤ 0
  | (true,  true)  => u ≤ 0 ∧ v ≤ 0 ∧ -s ≤ u + v

theorem Tri_sub_TriC (f : Flips) (s u v : ℚ) (h : Tri f s u v) : TriC f s u v := by
  obtain ⟨fx, fy⟩ := f
  cases fx <;> cases fy <;> simp only [Tri] at h <;> simp only [TriC] <;> obtain ⟨h1, h2, h3⟩ := h <;>
    exact ⟨le_of_lt h1, le_of_lt h2, le_of_lt h3⟩

theorem TriC_scale (f : Flips) (s t u v : ℚ) (ht : 0 < t) : TriC f s u v ↔ TriC f (s * t) (u * t) (v * t) := by
  obtain ⟨fx, fy⟩ := f
  cases fx <;> cases fy <;> simp only [TriC] <;> constructor <;> rintro ⟨h1, h2, h3⟩ <;> refine ⟨?_, ?_, ?_⟩ <;> nlinarith

theorem quat_lt (u v : ℚ) (f : Flips) : ijToQuaternary u v f < 4 := by
  rw [quat_unfold]
  simp only
  split_ifs <;> omega

/-- whatever digit the test picks for a point of the closed parent triangle (side 2), the point lies in that child's closed triangle -/
theorem parent_region (f : Flips) (u v : ℚ) (h : TriC f 2 u v) :
    TriC (fmul f (qflips (ijToQuaternary u v f))) 1
      (u - (childQ (ijToQuaternary u v f) f).1) (v - (childQ (ijToQuaternary u v f) f).2) := by
  rw [quat_unfold]
  obtain ⟨fx, fy⟩ := f
  cases fx <;> cases fy <;> simp only [TriC] at h <;> obtain ⟨h1, h2, h3⟩ := h <;>
    simp only [Bool.true_bne, Bool.false_bne, bne_self_eq_false, Bool.not_true, Bool.not_false, if_true, if_false,
      Bool.false_eq_true, ite_true, ite_false] <;>
    split_ifs <;>
    simp only [fmul, qflips, TriC, childQ, kjOf, kjToIj, Bool.xor_false, Bool.xor_true, Bool.not_false, Bool.not_true,
      Bool.false_xor, Bool.true_xor] <;> norm_num <;> (refine ⟨?_, ?_, ?_⟩ <;> linarith)

/-- the decoding loop of `_ij_to_s` on any point of the closed triangle of side 2^n: n digits, and the point lies in the closed unit
    triangle of the lattice cell they denote -/
theorem decode_fill : ∀ (n : Nat) (f : Flips) (px py x y : ℚ), TriC f (2 ^ n) (x - px) (y - py) →
    (decodeDigits n x y px py f).length = n ∧ (∀ d ∈ decodeDigits n x y px py f, d < 4) ∧
    TriC (G (decodeDigits n x y px py f) f).2 1 (x - px - (G (decodeDigits n x y px py f) f).1.1)
      (y - py - (G (decodeDigits n x y px py f) f).1.2)
  | 0, f, px, py, x, y, h => by
    simp only [decodeDigits, G, List.length_nil, List.not_mem_nil, false_imp_iff, implies_true, true_and, sub_zero]
    simpa using h
  | n + 1, f, px, py, x, y, h => by
    have hpow : (0:ℚ) < 2 ^ n := by positivity
    have hcast : ((2 ^ n : Int) : ℚ) = 2 ^ n := by push_cast; rfl
    simp only [decodeDigits, Scalar.sub, Scalar.div, Scalar.ofInt, Scalar.add, Scalar.mul, hcast]
    set d := ijToQuaternary ((x - px) / 2 ^ n) ((y - py) / 2 ^ n) f with hd
    have h2 : TriC f 2 ((x - px) / 2 ^ n) ((y - py) / 2 ^ n) := by
      have := (TriC_scale f (2 ^ (n + 1)) (1 / 2 ^ n) _ _ (by positivity)).1 h
      have e : (2:ℚ) ^ (n + 1) * (1 / 2 ^ n) = 2 := by rw [pow_succ]; field_simp
      rw [e] at this
      rw [div_eq_mul_one_div (x - px), div_eq_mul_one_div (y - py)]; exact this
    have hreg := parent_region f _ _ h2
    rw [← hd] at hreg
    have hsc := (TriC_scale _ 1 (2 ^ n) _ _ hpow).1 hreg
    have e1 : ((x - px) / 2 ^ n - (childQ d f).1) * 2 ^ n = x - (px + (childQ d f).1 * 2 ^ n) := by field_simp; ring
    have e2 : ((y - py) / 2 ^ n - (childQ d f).2) * 2 ^ n = y - (py + (childQ d f).2 * 2 ^ n) := by field_simp; ring
    rw [one_mul, e1, e2] at hsc
    have ih := decode_fill n (fmul f (qflips d)) (px + (childQ d f).1 * 2 ^ n) (py + (childQ d f).2 * 2 ^ n) x y hsc
    have hc1 : (((kjToIj (kjOf d f)).1 : Int) : ℚ) = (childQ d f).1 := rfl
    have hc2 : (((kjToIj (kjOf d f)).2 : Int) : ℚ) = (childQ d f).2 := rfl
    rw [hc1, hc2]
    obtain ⟨i1, i2, i3⟩ := ih
    refine ⟨by simp [i1], ?_, ?_⟩
    · intro z hz
      rcases List.mem_cons.1 hz with rfl | hz
      · exact quat_lt _ _ _
      · exact i2 z hz
    · simp only [G, i1]
      convert i3 using 1 <;> ring

/-! ### the transducer is invertible in the other direction as well: shift ∘ unshift = id -/

theorem step_inv' : ∀ (flipIJ invertJ fx fy : Bool) (p c : Fin 4),
    let pat := if flipIJ then PATTERN_FLIPPED else PATTERN
    let r := shiftStep (reversePattern pat) invertJ (fx, fy) p.val c.val
    shiftStep pat invertJ (fx, fy) r.1 r.2 = (p.val, c.val) ∧ r.1 < 4 ∧ r.2 < 4 := by
  decide

theorem fwd_bwd (flipIJ inv : Bool) :
    let pat := if flipIJ then PATTERN_FLIPPED else PATTERN
    ∀ (l : List Nat) (f : Flips), l ≠ [] → (∀ d ∈ l, d < 4) →
      (bwd (reversePattern pat) inv f l).1 < 4 ∧ (∀ x ∈ (bwd (reversePattern pat) inv f l).2, x < 4) ∧
      (bwd (reversePattern pat) inv f l).2.length + 1 = l.length ∧
      fwd pat inv (bwd (reversePattern pat) inv f l).1 f (bwd (reversePattern pat) inv f l).2 = l := by
  intro pat l
  induction l with
  | nil => intro f h; exact absurd rfl h
  | cons d rest ih =>
    intro f _ hl
    cases rest with
    | nil =>
      simp only [bwd, fwd, List.not_mem_nil, false_imp_iff, implies_true, List.length_nil, List.length_cons, and_true, true_and]
      exact hl d (by simp)
    | cons d2 ds =>
      have hd : d < 4 := hl d (by simp)
      obtain ⟨b1, b2, b3, b4⟩ := ih (fmul f (qflips d)) (by simp) (fun x hx => hl x (by simp [hx]))
      have hstep := step_inv' flipIJ inv f.1 f.2 ⟨d, hd⟩ ⟨_, b1⟩
      simp only [] at hstep
      obtain ⟨s1, s2, s3⟩ := hstep
      have s1' : shiftStep pat inv f
          (shiftStep (reversePattern pat) inv f d (bwd (reversePattern pat) inv (fmul f (qflips d)) (d2 :: ds)).1).1
          (shiftStep (reversePattern pat) inv f d (bwd (reversePattern pat) inv (fmul f (qflips d)) (d2 :: ds)).1).2
          = (d, (bwd (reversePattern pat) inv (fmul f (qflips d)) (d2 :: ds)).1) := s1
      simp only [bwd, fwd, List.length_cons, List.mem_cons]
      refine ⟨s2, ?_, ?_, ?_⟩
      · rintro x (rfl | hx)
        · exact s3
        · exact b2 x hx
      · simp only [List.length_cons] at b3; omega
      · rw [s1']
        simp only
        rw [b4]

/-- `T ∘ T⁻¹ = id` on every non-empty base-4 string -/
theorem shift_unshift (flipIJ inv : Bool) (ds : List Nat) (h : ∀ d ∈ ds, d < 4) :
    shiftAll (if flipIJ then PATTERN_FLIPPED else PATTERN) inv
      (unshiftAll (reversePattern (if flipIJ then PATTERN_FLIPPED else PATTERN)) inv ds) = ds ∧
    (∀ x ∈ unshiftAll (reversePattern (if flipIJ then PATTERN_FLIPPED else PATTERN)) inv ds, x < 4) ∧
    (unshiftAll (reversePattern (if flipIJ then PATTERN_FLIPPED else PATTERN)) inv ds).length = ds.length := by
  cases ds with
  | nil => simp [unshiftAll, shiftAll]
  | cons d rest =>
    obtain ⟨b1, b2, b3, b4⟩ := fwd_bwd flipIJ inv (d :: rest) (false, false) (by simp) h
    simp only [unshiftAll, shiftAll]
    refine ⟨b4, ?_, ?_⟩
    · intro x hx
      rcases List.mem_cons.1 hx with rfl | hx
      · exact b1
      · exact b2 x hx
    · simp only [List.length_cons] at b3 ⊢; omega

/-! ### digit strings ↔ indices -/

theorem digitsMSB_eq (n s : Nat) (hs : s < 4 ^ n) : digitsMSB s n = ((List.range n).map (fun k => s / 4 ^ k % 4)).reverse := by
  unfold digitsMSB
  rw [digitsLSB_eq n (s + n + 1) s (by omega) hs]

theorem digits_value (ds : List Nat) (h : ∀ d ∈ ds, d < 4) :
    valueMSB ds < 4 ^ ds.length ∧ digitsMSB (valueMSB ds) ds.length = ds := by
  induction ds using List.reverseRecOn with
  | nil => exact ⟨by simp [valueMSB], by simp [digitsMSB, digitsLSB, valueMSB]⟩
  | append_singleton xs d ih =>
    obtain ⟨i1, i2⟩ := ih (fun x hx => h x (by simp [hx]))
    have hd : d < 4 := h d (by simp)
    have hlt : 4 * valueMSB xs + d < 4 ^ (xs.length + 1) := by rw [Nat.pow_succ]; omega
    rw [valueMSB_append, List.length_append, List.length_singleton]
    refine ⟨hlt, ?_⟩
    rw [digitsMSB_eq _ _ hlt, List.range_succ_eq_map, List.map_cons, List.map_map, List.reverse_cons]
    rw [digitsMSB_eq _ _ i1] at i2
    have e : (List.map ((fun k => (4 * valueMSB xs + d) / 4 ^ k % 4) ∘ Nat.succ) (List.range xs.length))
        = (List.range xs.length).map (fun k => valueMSB xs / 4 ^ k % 4) := by
      apply List.map_congr_left
      intro k _
      simp only [Function.comp, Nat.pow_succ]
      rw [Nat.mul_comm (4 ^ k) 4, ← Nat.div_div_eq_div_mul]
      congr 2; omega
    rw [e, i2]
    congr 2
    simp; omega

/-! ### every point of the closed segment triangle lies in the closed unit triangle of the cell `ij_to_s` names -/

theorem fill_core (n : Nat) (inv flipIJ : Bool) (x y : ℚ) (h : TriC (false, false) (2 ^ n) x y) :
    ijToSCore x y inv flipIJ n < 4 ^ n ∧
    TriC (sToAnchorCore (ijToSCore x y inv flipIJ n) n inv flipIJ).flips 1
      (x - ((sToAnchorCore (ijToSCore x y inv flipIJ n) n inv flipIJ).i : ℚ))
      (y - ((sToAnchorCore (ijToSCore x y inv flipIJ n) n inv flipIJ).j : ℚ)) := by
  have h0 : TriC (false, false) (2 ^ n) (x - 0) (y - 0) := by simpa using h
  obtain ⟨d1, d2, d3⟩ := decode_fill n (false, false) 0 0 x y h0
  unfold ijToSCore
  simp only [Scalar.ofInt, Int.cast_zero]
  generalize hsd : decodeDigits n x y (0:ℚ) 0 (false, false) = sd at *
  obtain ⟨u1, u2, u3⟩ := shift_unshift flipIJ inv sd d2
  generalize hds : unshiftAll (reversePattern (if flipIJ then PATTERN_FLIPPED else PATTERN)) inv sd = ds' at *
  obtain ⟨v1, v2⟩ := digits_value ds' u2
  have hlen : ds'.length = n := by rw [u3, d1]
  rw [hlen] at v1 v2
  refine ⟨v1, ?_⟩
  unfold sToAnchorCore
  simp only
  rw [v2, u1, accumulate_eq]
  simp only [Int.zero_mul, Int.zero_add, kjToIj]
  obtain ⟨g1, g2, g3⟩ := G_cast sd (false, false)
  rw [← g3, ← g1, ← g2]
  simpa using d3

/-! ### orientation wrappers -/

theorem tric_swap_shift (f : Flips) (u v : ℚ) (h : TriC f 1 u v) :
    TriC f 1 (v + (((if f.1 then (1:Int) else 0) - (if f.2 then (1:Int) else 0) : Int) : ℚ))
             (u + (((if f.2 then (1:Int) else 0) - (if f.1 then (1:Int) else 0) : Int) : ℚ)) := by
  obtain ⟨fx, fy⟩ := f
  cases fx <;> cases fy <;> simp only [TriC] at h ⊢ <;> obtain ⟨h1, h2, h3⟩ := h <;> norm_num <;> refine ⟨?_, ?_, ?_⟩ <;> linarith

theorem tric_invert (f : Flips) (u w : ℚ) (h : TriC f 1 u w) : TriC (!f.1, f.2) 1 u (-u - w) := by
  obtain ⟨fx, fy⟩ := f
  cases fx <;> cases fy <;> simp only [TriC, Bool.not_false, Bool.not_true] at h ⊢ <;> obtain ⟨h1, h2, h3⟩ := h <;>
    refine ⟨?_, ?_, ?_⟩ <;> linarith

theorem idx_back (rev : Bool) (n sc : Nat) (h : sc < 4 ^ n) :
    (if ((if rev = true then (4 ^ n : Int) - ((if rev = true then (4 ^ n : Int) - (sc : Int) - 1 else (sc : Int)).toNat : Int) - 1
            else ((if rev = true then (4 ^ n : Int) - (sc : Int) - 1 else (sc : Int)).toNat : Int)) < 0) then
            ((if rev = true then (4 ^ n : Int) - ((if rev = true then (4 ^ n : Int) - (sc : Int) - 1 else (sc : Int)).toNat : Int) - 1
            else ((if rev = true then (4 ^ n : Int) - (sc : Int) - 1 else (sc : Int)).toNat : Int)) % (4 ^ n : Int)).toNat
          else (if rev = true then (4 ^ n : Int) - ((if rev = true then (4 ^ n : Int) - (sc : Int) - 1 else (sc : Int)).toNat : Int) - 1
            else ((if rev = true then (4 ^ n : Int) - (sc : Int) - 1 else (sc : Int)).toNat : Int)).toNat) = sc := by
  have hscI : (sc : Int) < 4 ^ n := by exact_mod_cast h
  generalize (4 : Int) ^ n = P at *
  cases rev
  · simp only [Bool.false_eq_true, if_false]; rw [if_neg (by omega)]; omega
  · simp only [if_true]; rw [if_neg (by omega)]; omega

/-- C18 fill for an orientation with flags (rev, inv, flip), never both `inv` and `flip`: the index `ij_to_s` returns for any point of
    the closed segment triangle is in range, and the point lies in the closed unit triangle of that index's lattice cell -/
theorem fill_flags (o : String) (hnot : ¬ (orientInvertJ o = true ∧ orientFlipIJ o = true))
    (n : Nat) (x y : ℚ) (h : TriC (false, false) (2 ^ n) x y) :
    ∃ s : Nat, s < 4 ^ n ∧ ijToS x y n o = (s : Int) ∧
      ∃ a : Anchor, sToAnchor s n o = .ok a ∧ TriC a.flips 1 (x - (a.i : ℚ)) (y - (a.j : ℚ)) := by
  unfold ijToS sToAnchor
  simp only [FLIP_SHIFT_eq']
  generalize orientReverse o = rev at *
  generalize orientInvertJ o = inv at *
  generalize orientFlipIJ o = flip at *
  have hpow : (0:Int) < 4 ^ n := by positivity
  have h4 : ((4 ^ n : Nat) : Int) = 4 ^ n := by push_cast; rfl
  obtain ⟨t1, t2, t3⟩ := h
  -- the point handed to the core and the core's answer
  cases flip with
  | true =>
    have hinv : inv = false := by cases inv <;> simp_all
    subst hinv
    simp only [if_true, Bool.false_eq_true, if_false]
    have hc : TriC (false, false) (2 ^ n) y x := ⟨t2, t1, by linarith⟩
    obtain ⟨c1, c2⟩ := fill_core n false true y x hc
    set sc := ijToSCore y x false true n with hsc
    have hscI : (sc : Int) < 4 ^ n := by exact_mod_cast c1
    refine ⟨(if rev = true then (4 ^ n : Int) - (sc : Int) - 1 else (sc : Int)).toNat, ?_, ?_, ?_⟩
    · cases rev <;> simp <;> omega
    · cases rev <;> simp <;> omega
    · have e : (if ((if rev = true then (4 ^ n : Int) - ((if rev = true then (4 ^ n : Int) - (sc : Int) - 1 else (sc : Int)).toNat : Int) - 1
            else ((if rev = true then (4 ^ n : Int) - (sc : Int) - 1 else (sc : Int)).toNat : Int)) < 0) then
            ((if rev = true then (4 ^ n : Int) - ((if rev = true then (4 ^ n : Int) - (sc : Int) - 1 else (sc : Int)).toNat : Int) - 1
            else ((if rev = true then (4 ^ n : Int) - (sc : Int) - 1 else (sc : Int)).toNat : Int)) % (4 ^ n : Int)).toNat
          else (if rev = true then (4 ^ n : Int) - ((if rev = true then (4 ^ n : Int) - (sc : Int) - 1 else (sc : Int)).toNat : Int) - 1
            else ((if rev = true then (4 ^ n : Int) - (sc : Int) - 1 else (sc : Int)).toNat : Int)).toNat) = sc := by
        exact idx_back rev n sc c1
      rw [e]
      refine ⟨_, rfl, ?_⟩
      simp only
      set c := sToAnchorCore sc n false true with hc'
      have key := tric_swap_shift c.flips _ _ c2
      convert key using 1
      · cases c.flips.1 <;> cases c.flips.2 <;> simp <;> ring
      · cases c.flips.1 <;> cases c.flips.2 <;> simp <;> ring
  | false =>
    simp only [Bool.false_eq_true, if_false]
    cases inv with
    | false =>
      simp only [Bool.false_eq_true, if_false]
      obtain ⟨c1, c2⟩ := fill_core n false false x y ⟨t1, t2, t3⟩
      set sc := ijToSCore x y false false n with hsc
      have hscI : (sc : Int) < 4 ^ n := by exact_mod_cast c1
      refine ⟨(if rev = true then (4 ^ n : Int) - (sc : Int) - 1 else (sc : Int)).toNat, ?_, ?_, ?_⟩
      · cases rev <;> simp <;> omega
      · cases rev <;> simp <;> omega
      · have e : (if ((if rev = true then (4 ^ n : Int) - ((if rev = true then (4 ^ n : Int) - (sc : Int) - 1 else (sc : Int)).toNat : Int) - 1
              else ((if rev = true then (4 ^ n : Int) - (sc : Int) - 1 else (sc : Int)).toNat : Int)) < 0) then
              ((if rev = true then (4 ^ n : Int) - ((if rev = true then (4 ^ n : Int) - (sc : Int) - 1 else (sc : Int)).toNat : Int) - 1
              else ((if rev = true then (4 ^ n : Int) - (sc : Int) - 1 else (sc : Int)).toNat : Int)) % (4 ^ n : Int)).toNat
            else (if rev = true then (4 ^ n : Int) - ((if rev = true then (4 ^ n : Int) - (sc : Int) - 1 else (sc : Int)).toNat : Int) - 1
              else ((if rev = true then (4 ^ n : Int) - (sc : Int) - 1 else (sc : Int)).toNat : Int)).toNat) = sc := by
          exact idx_back rev n sc c1
        rw [e]
        exact ⟨_, rfl, c2⟩
    | true =>
      simp only [if_true]
      have hc : TriC (false, false) (2 ^ n) x (Scalar.sub (Scalar.ofInt (2 ^ n)) (Scalar.add x y) : ℚ) := by
        simp only [Scalar.sub, Scalar.add, Scalar.ofInt]
        push_cast
        exact ⟨t1, by linarith, by linarith⟩
      obtain ⟨c1, c2⟩ := fill_core n true false x _ hc
      set sc := ijToSCore x (Scalar.sub (Scalar.ofInt (2 ^ n)) (Scalar.add x y) : ℚ) true false n with hsc
      have hscI : (sc : Int) < 4 ^ n := by exact_mod_cast c1
      refine ⟨(if rev = true then (4 ^ n : Int) - (sc : Int) - 1 else (sc : Int)).toNat, ?_, ?_, ?_⟩
      · cases rev <;> simp <;> omega
      · cases rev <;> simp <;> omega
      · have e : (if ((if rev = true then (4 ^ n : Int) - ((if rev = true then (4 ^ n : Int) - (sc : Int) - 1 else (sc : Int)).toNat : Int) - 1
              else ((if rev = true then (4 ^ n : Int) - (sc : Int) - 1 else (sc : Int)).toNat : Int)) < 0) then
              ((if rev = true then (4 ^ n : Int) - ((if rev = true then (4 ^ n : Int) - (sc : Int) - 1 else (sc : Int)).toNat : Int) - 1
              else ((if rev = true then (4 ^ n : Int) - (sc : Int) - 1 else (sc : Int)).toNat : Int)) % (4 ^ n : Int)).toNat
            else (if rev = true then (4 ^ n : Int) - ((if rev = true then (4 ^ n : Int) - (sc : Int) - 1 else (sc : Int)).toNat : Int) - 1
              else ((if rev = true then (4 ^ n : Int) - (sc : Int) - 1 else (sc : Int)).toNat : Int)).toNat) = sc := by
          exact idx_back rev n sc c1
        rw [e]
        refine ⟨_, rfl, ?_⟩
        set c := sToAnchorCore sc n true false with hc'
        have key := tric_invert c.flips _ _ c2
        have eq : y - (((2 ^ n : Int) - (c.i + c.j) : Int) : ℚ)
            = -(x - (c.i : ℚ)) - ((Scalar.sub (Scalar.ofInt (2 ^ n)) (Scalar.add x y) : ℚ) - (c.j : ℚ)) := by
          simp only [Scalar.sub, Scalar.add, Scalar.ofInt]
          push_cast
          ring
        rw [eq]
        exact key

/-- containment for every orientation: the open unit triangle of the cell of any index lies inside the open segment triangle -/
theorem inside_flags (o : String) (hnot : ¬ (orientInvertJ o = true ∧ orientFlipIJ o = true))
    (n s : Nat) (hs : s < 4 ^ n) (a : Anchor) (ha : sToAnchor s n o = .ok a) (u v : ℚ) (hδ : Tri a.flips 1 u v) :
    Tri (false, false) (2 ^ n) ((a.i : ℚ) + u) ((a.j : ℚ) + v) := by
  unfold sToAnchor at ha
  simp only [FLIP_SHIFT_eq'] at ha
  generalize orientReverse o = rev at *
  generalize orientInvertJ o = inv at *
  generalize orientFlipIJ o = flip at *
  have hpow : (0:Int) < 4 ^ n := by positivity
  have hsI : ¬ ((if rev = true then (4 ^ n : Int) - (s : Int) - 1 else (s : Int)) < 0) := by
    have : (s : Int) < 4 ^ n := by exact_mod_cast hs
    split <;> omega
  simp only [if_false, hsI] at ha
  set s' : Nat := (if rev = true then (4 ^ n : Int) - (s : Int) - 1 else (s : Int)).toNat with hs'
  have hs'lt : s' < 4 ^ n := by
    have : (s : Int) < 4 ^ n := by exact_mod_cast hs
    have h4 : ((4 ^ n : Nat) : Int) = 4 ^ n := by push_cast; rfl
    rw [hs']; cases rev <;> simp <;> omega
  -- core containment (as in `C18.inside_segment`)
  have core : ∀ (inv flipIJ : Bool) (u v : ℚ), Tri (sToAnchorCore s' n inv flipIJ).flips 1 u v →
      Tri (false, false) (2 ^ n) (((sToAnchorCore s' n inv flipIJ).i : ℚ) + u) (((sToAnchorCore s' n inv flipIJ).j : ℚ) + v) := by
    intro inv flipIJ u v hδ
    obtain ⟨hlen, hlt, _⟩ := digits_spec n s' hs'lt
    obtain ⟨hslt, hslen⟩ := shiftAll_spec flipIJ inv (digitsMSB s' n) hlt
    unfold sToAnchorCore at hδ ⊢
    simp only at hδ ⊢
    generalize shiftAll (if flipIJ then PATTERN_FLIPPED else PATTERN) inv (digitsMSB s' n) = sd at *
    obtain ⟨g1, g2, g3⟩ := G_cast sd (false, false)
    rw [accumulate_eq] at hδ ⊢
    simp only [Int.zero_mul, Int.zero_add, kjToIj] at hδ ⊢
    rw [← g3] at hδ
    have := G_inside sd hslt (false, false) u v hδ
    rw [g1, g2, hslen, hlen] at this
    exact this
  cases flip with
  | true =>
    have hinv : inv = false := by cases inv <;> simp_all
    subst hinv
    simp only [if_true, Bool.false_eq_true, if_false] at ha
    have ha' := Except.ok.inj ha
    subst ha'
    simp only at hδ ⊢
    set c := sToAnchorCore s' n false true with hc
    have key := core false true _ _ (tri_swap_shift c.flips u v hδ)
    rw [← hc] at key
    simp only [Tri] at key ⊢
    obtain ⟨k1, k2, k3⟩ := key
    cases h1 : c.flips.1 <;> cases h2 : c.flips.2 <;> simp only [h1, h2] at k1 k2 k3 ⊢ <;>
      push_cast at k1 k2 k3 ⊢ <;> refine ⟨?_, ?_, ?_⟩ <;> linarith
  | false =>
    simp only [Bool.false_eq_true, if_false] at ha
    cases inv with
    | false =>
      simp only [Bool.false_eq_true, if_false] at ha
      have ha' := Except.ok.inj ha
      subst ha'
      exact core false false u v hδ
    | true =>
      simp only [if_true] at ha
      have ha' := Except.ok.inj ha
      subst ha'
      simp only at hδ ⊢
      set c := sToAnchorCore s' n true false with hc
      have key := core true false u (-u - v) (tri_invert c.flips u v hδ)
      rw [← hc] at key
      simp only [Tri] at key ⊢
      obtain ⟨k1, k2, k3⟩ := key
      push_cast
      refine ⟨?_, ?_, ?_⟩ <;> linarith

end A5.Hilbert
