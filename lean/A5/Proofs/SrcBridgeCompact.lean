/-
  Source-level tie, part 3: the translated `compact` (sort + de-duplication, the two nested `while` loops with
  `continue`/`break`, index-based scanning) computes what the model's structurally recursive `compact` computes,
  for every list of ids.
-/
import A5.Proofs.SrcBridgeLoops

attribute [local instance 2000] instPowNat

namespace A5.Bridge
open A5

/-! ### `sorted(set(cells), key=_hierarchical_key)` -/

/-- the (key, value) pairs of the translated sort for a list of model ids -/
def emb (l : List Nat) : List (Int × Int) := l.map fun c => ((hierarchicalKey c : Int), (c : Int))

theorem insertKV_emb (x : Nat) (acc : List Nat) :
    Py.insertKV ((hierarchicalKey x : Int), (x : Int)) (emb acc) = emb (insertKey hierarchicalKey x acc) := by
  induction acc with
  | nil => rfl
  | cons y ys ih =>
    unfold emb at ih ⊢
    rw [List.map_cons, Py.insertKV, insertKey]
    dsimp only
    by_cases h1 : x = y
    · rw [if_pos (by omega), if_pos h1]; rfl
    · rw [if_neg (by omega), if_neg h1]
      by_cases h2 : hierarchicalKey x < hierarchicalKey y
      · rw [if_pos (by omega), if_pos h2]; rfl
      · rw [if_neg (by omega), if_neg h2, ih]; rfl

theorem foldl_emb (cells acc : List Nat) :
    (emb cells).foldl (fun a kx => Py.insertKV kx a) (emb acc)
      = emb (cells.foldl (fun a x => insertKey hierarchicalKey x a) acc) := by
  induction cells generalizing acc with
  | nil => rfl
  | cons c cells ih =>
    unfold emb at ih ⊢
    rw [List.map_cons, List.foldl_cons, List.foldl_cons]
    have := insertKV_emb c acc
    unfold emb at this
    rw [this, ih]

theorem keys_mapM (cells : List Nat) :
    (cells.map Int.ofNat).mapM (fun x => Src.compact._hierarchical_key x >>= fun k => (pure (k, x) : PyM (Int × Int)))
      = .ok (emb cells) := by
  induction cells with
  | nil => rfl
  | cons c cells ih =>
    rw [List.map_cons, mapM_cons', show Int.ofNat c = (c : Int) from rfl, hierarchical_key_eq, bind_ok, pure_ok, bind_ok, ih, bind_ok]
    rfl

theorem sortedSet_eq (cells : List Nat) :
    Py.sortedSetBy Src.compact._hierarchical_key (cells.map Int.ofNat)
      = .ok ((sortedSet hierarchicalKey cells).map Int.ofNat) := by
  unfold Py.sortedSetBy sortedSet
  rw [keys_mapM, bind_ok, pure_ok]
  have := foldl_emb cells []
  rw [show emb [] = [] from rfl] at this
  rw [this]
  unfold emb
  rw [List.map_map]
  rfl


/-! ### the sibling test (`for j in range(1, expected_children)` with `break`) -/

theorem listGet_nat (L : List Nat) (k : Nat) :
    Py.listGet (L.map Int.ofNat) (k : Int) = (match L[k]? with | some v => .ok (v : Int) | none => .error .index : PyM Int) := by
  unfold Py.listGet
  have h0 : ¬ ((k : Int) < 0) := by omega
  simp only [h0, if_false, Int.toNat_natCast, List.getElem?_map]
  cases L[k]? <;> rfl

theorem for3_compact_eq (L : List Nat) (i cell stride : Nat) (js : List Nat) (hidx : ∀ j ∈ js, i + 1 + j < L.length) :
    Src.compact.compact_for3 (js.map fun (j : Nat) => (1 : Int) + (j : Int)) (L.map Int.ofNat) (i : Int) (cell : Int) (stride : Int) true
      = .ok (js.all fun j => L[i + 1 + j]? == some (cell + (j + 1) * stride)) := by
  induction js with
  | nil => rfl
  | cons j js ih =>
    rw [List.map_cons, Src.compact.compact_for3]
    dsimp only
    have hj := hidx j (by simp)
    rw [show ((i : Int) + (1 + (j : Int))) = ((i + 1 + j : Nat) : Int) by push_cast; omega, listGet_nat]
    have hget : L[i + 1 + j]? = some L[i + 1 + j] := List.getElem?_eq_getElem hj
    rw [hget]
    dsimp only
    rw [bind_ok, List.all_cons, hget]
    by_cases heq : L[i + 1 + j] = cell + (j + 1) * stride
    · have : ¬ ((L[i + 1 + j] : Int) ≠ (cell : Int) + (1 + (j : Int)) * (stride : Int)) := by
        rw [heq]; push_cast; intro h; apply h; ring_nf
      rw [if_neg this, ih (fun j' hj' => hidx j' (by simp [hj']))]
      simp [heq]
    · have : ((L[i + 1 + j] : Int) ≠ (cell : Int) + (1 + (j : Int)) * (stride : Int)) := by
        intro h; apply heq
        have : ((L[i + 1 + j] : Nat) : Int) = ((cell + (j + 1) * stride : Nat) : Int) := by rw [h]; push_cast; ring_nf
        exact_mod_cast this
      rw [if_pos this]
      simp [heq, pure_ok]


/-! ### one pass (`while i < len(current_cells)`) -/

theorem expected_cases (r : Int) :
    ((expectedChildren r : Nat) : Int) = (if r ≥ (2 : Int) then 4 else if r = 0 then 12 else 5) := by
  have hc : CFHR = 2 := by decide
  unfold expectedChildren; rw [hc]
  split
  · rfl
  · split <;> rfl

theorem range2_eq (k : Nat) : Py.range2 1 (k : Int) = (List.range (k - 1)).map fun (j : Nat) => (1 : Int) + (j : Int) := by
  unfold Py.range2
  rw [show ((k : Int) - 1).toNat = k - 1 by omega]

/-- the translated `has_all_siblings` computation, for the cell at position `pre.length` of `pre ++ cell :: rest` -/
theorem hasAll_eq (pre rest : List Nat) (cell : Nat) (r : Int) (hk : expectedChildren r ≤ rest.length + 1) :
    (Src.serialization.is_first_child (cell : Int) (some r) >>= fun t4_ =>
      (if t4_ = true then
          Src.serialization.get_stride r >>= fun t5_ =>
            Src.compact.compact_for3 (Py.range2 1 ((expectedChildren r : Nat) : Int)) ((pre ++ cell :: rest).map Int.ofNat)
              (pre.length : Int) (cell : Int) t5_ true >>= fun h => pure h
        else pure false : PyM Bool))
      = (isFirstChild cell (some r)).bind fun first =>
          if first then (getStride r).bind fun stride => .ok (siblingsFollow cell stride (expectedChildren r) rest) else .ok false := by
  rw [is_first_child_eq]
  cases isFirstChild cell (some r) with
  | error e => rfl
  | ok first =>
    rw [bind_ok]
    show _ = (if first then _ else _)
    cases first with
    | false => rfl
    | true =>
      rw [if_pos rfl, if_pos rfl, get_stride_eq]
      cases getStride r with
      | error e => rfl
      | ok stride =>
        rw [map_ok, bind_ok, range2_eq, show Int.ofNat stride = (stride : Int) from rfl, for3_compact_eq]
        · rw [bind_ok, pure_ok]
          show Except.ok _ = Except.ok _
          congr 1
          unfold siblingsFollow
          apply List.all_congr rfl
          intro j
          rw [show pre.length + 1 + j = pre.length + (1 + j) by omega, List.getElem?_append_right (by omega)]
          simp [Nat.add_sub_cancel_left, Nat.add_comm 1 j]
        · intro j hj
          have hj' : j < expectedChildren r - 1 := by simpa using hj
          simp only [List.length_append, List.length_cons]
          omega


theorem bind_assoc' {α β γ} (m : PyM α) (f : α → PyM β) (g : β → PyM γ) :
    (m >>= fun x => f x >>= g) = (m >>= f) >>= g := by cases m <;> rfl

theorem hasAll_eq_k {β} (K : Bool → PyM β) (pre rest : List Nat) (cell : Nat) (r : Int) (hk : expectedChildren r ≤ rest.length + 1) :
    (Src.serialization.is_first_child (cell : Int) (some r) >>= fun t4_ =>
      (if t4_ = true then
          Src.serialization.get_stride r >>= fun t5_ =>
            Src.compact.compact_for3 (Py.range2 1 ((expectedChildren r : Nat) : Int)) ((pre ++ cell :: rest).map Int.ofNat)
              (pre.length : Int) (cell : Int) t5_ true >>= fun h => pure h
        else pure false : PyM Bool) >>= K)
      = ((isFirstChild cell (some r)).bind fun first =>
          if first then (getStride r).bind fun stride => .ok (siblingsFollow cell stride (expectedChildren r) rest) else .ok false) >>= K := by
  rw [bind_assoc', hasAll_eq pre rest cell r hk]

theorem loop2_eq : ∀ (n : Nat) (rem pre res : List Nat) (ch : Bool) (fuel : Nat),
    rem.length = n → rem.length < fuel →
    Src.compact.compact_loop2 fuel ((pre ++ rem).map Int.ofNat) (res.map Int.ofNat) (pre.length : Int) ch
      = (scanPass rem).map (fun p => ((res ++ p.1).map Int.ofNat, ((pre ++ rem).length : Int), ch || p.2)) := by
  intro n
  induction n using Nat.strongRecOn with
  | _ n ih =>
  intro rem pre res ch fuel hn hfuel
  obtain ⟨f, rfl⟩ : ∃ f, fuel = f + 1 := ⟨fuel - 1, by omega⟩
  rw [Src.compact.compact_loop2]
  cases rem with
  | nil =>
    rw [if_neg (by simp), scanPass]
    simp [pure_ok, map_ok]
  | cons cell rest =>
    have hlt : (pre.length : Int) < Int.ofNat ((pre ++ cell :: rest).map Int.ofNat).length := by
      simp only [List.length_map, List.length_append, List.length_cons, Int.ofNat_eq_natCast]; omega
    rw [if_pos hlt, listGet_nat]
    have hget : (pre ++ cell :: rest)[pre.length]? = some cell := by simp
    rw [hget]
    dsimp only
    rw [bind_ok, get_resolution_eq, bind_ok, scanPass]
    dsimp only
    -- the two ways the scan advances
    have hL : pre ++ cell :: rest = (pre ++ [cell]) ++ rest := by simp
    have adv : Src.compact.compact_loop2 f ((pre ++ cell :: rest).map Int.ofNat) (res.map Int.ofNat ++ [(cell : Int)]) ((pre.length : Int) + 1) ch
        = ((scanPass rest).bind fun (out, c) => .ok (cell :: out, c)).map
            (fun p => ((res ++ p.1).map Int.ofNat, ((pre ++ cell :: rest).length : Int), ch || p.2)) := by
      have := ih rest.length (by simp at hn; omega) rest (pre ++ [cell]) (res ++ [cell]) ch f rfl (by simp at hfuel; omega)
      have e1 : (res.map Int.ofNat ++ [(cell : Int)]) = (res ++ [cell]).map Int.ofNat := by simp
      have e2 : ((pre.length : Int) + 1) = (((pre ++ [cell]).length : Nat) : Int) := by simp
      rw [e1, e2, hL, this]
      cases scanPass rest with
      | error e => rfl
      | ok p => simp [Except.bind, map_ok, List.append_assoc]
    by_cases hneg : getResolution cell < 0
    · rw [if_pos hneg, if_pos hneg]
      exact adv
    · rw [if_neg hneg, if_neg hneg]
      generalize hr : getResolution cell = r at *
      rw [← expected_cases r]
      have hk4 : 4 ≤ expectedChildren r := by
        unfold expectedChildren; split
        · omega
        · split <;> omega
      generalize hkk : expectedChildren r = k at *
      have hguard : ((pre.length : Int) + (k : Int) ≤ Int.ofNat ((pre ++ cell :: rest).map Int.ofNat).length) ↔ k ≤ rest.length + 1 := by
        simp only [List.length_map, List.length_append, List.length_cons, Int.ofNat_eq_natCast]; omega
      unfold hasAllSiblings
      rw [hkk]
      dsimp only
      by_cases hg : k ≤ rest.length + 1
      · rw [if_pos (hguard.2 hg), if_pos hg]
        -- advancing over a merged group
        have advm : ∀ parent : Nat,
            Src.compact.compact_loop2 f ((pre ++ cell :: rest).map Int.ofNat) (res.map Int.ofNat ++ [(parent : Int)]) ((pre.length : Int) + (k : Int)) true
              = ((scanPass (rest.drop (k - 1))).bind fun x => .ok (parent :: x.1, true)).map
                  (fun p => ((res ++ p.1).map Int.ofNat, ((pre ++ cell :: rest).length : Int), ch || p.2)) := by
          intro parent
          have hsplit : pre ++ cell :: rest = (pre ++ cell :: rest.take (k - 1)) ++ rest.drop (k - 1) := by
            rw [List.append_assoc, List.cons_append, List.take_append_drop]
          have := ih (rest.drop (k - 1)).length (by simp at hn ⊢; omega) (rest.drop (k - 1)) (pre ++ cell :: rest.take (k - 1))
            (res ++ [parent]) true f rfl (by simp at hfuel ⊢; omega)
          have e1 : (res.map Int.ofNat ++ [(parent : Int)]) = (res ++ [parent]).map Int.ofNat := by simp
          have e2 : ((pre.length : Int) + (k : Int)) = (((pre ++ cell :: rest.take (k - 1)).length : Nat) : Int) := by
            simp only [List.length_append, List.length_cons, List.length_take]; omega
          rw [e1, e2, hsplit, this]
          cases scanPass (rest.drop (k - 1)) with
          | error e => rfl
          | ok p => simp [Except.bind, map_ok, List.append_assoc]
        rw [← hkk] at hg ⊢
        rw [hasAll_eq_k _ pre rest cell r hg]
        rw [hkk] at hg ⊢
        generalize ((isFirstChild cell (some r)).bind fun first =>
          if first then (getStride r).bind fun stride => .ok (siblingsFollow cell stride k rest) else .ok false) = m
        cases m with
        | error e => rfl
        | ok b =>
          rw [bind_ok]
          show _ = Except.map _ (if b = true then _ else _)
          cases b with
          | true =>
            rw [if_pos rfl, if_pos rfl, cell_to_parent_eq]
            cases cellToParent cell none with
            | error e => rfl
            | ok parent =>
              rw [map_ok, bind_ok]
              show _ = Except.map _ (Except.bind (scanPass (rest.drop (k - 1))) fun x => Except.ok (parent :: x.1, true))
              exact advm parent
          | false =>
            rw [if_neg (by simp), if_neg (by simp)]
            exact adv
      · rw [if_neg (fun h => hg (hguard.1 h)), if_neg hg]
        exact adv


/-! ### the `while changed` loop and `compact` itself -/

/-- a pass never lengthens the list, and a pass that merged something shortens it (any ids, valid or not) -/
theorem scan_len : ∀ (n : Nat) (cur out : List Nat) (ch : Bool), cur.length = n → scanPass cur = .ok (out, ch) →
    out.length ≤ cur.length ∧ (ch = true → out.length < cur.length) := by
  intro n
  induction n using Nat.strongRecOn with
  | _ n ih =>
  intro cur out ch hn h
  cases cur with
  | nil =>
    rw [scanPass] at h
    injection h with h; injection h with h1 h2; subst h1; subst h2
    exact ⟨Nat.le_refl _, by intro h; cases h⟩
  | cons cell rest =>
    rw [scanPass] at h
    dsimp only at h
    have keep : ∀ {out ch}, ((scanPass rest).bind fun x => Except.ok (cell :: x.1, x.2)) = Except.ok (out, ch) →
        out.length ≤ (cell :: rest).length ∧ (ch = true → out.length < (cell :: rest).length) := by
      intro out ch h
      cases hs : scanPass rest with
      | error e => rw [hs] at h; cases h
      | ok p =>
        rw [hs] at h
        obtain ⟨o, c⟩ := p
        simp only [Except.bind] at h
        injection h with h; injection h with h1 h2; subst h1; subst h2
        have := ih rest.length (by simp at hn; omega) rest o c rfl hs
        simp only [List.length_cons]
        exact ⟨by omega, fun hc => by have := this.2 hc; omega⟩
    split at h
    · exact keep h
    · cases hh : hasAllSiblings cell (getResolution cell) rest with
      | error e => rw [hh] at h; cases h
      | ok b =>
        rw [hh] at h
        simp only [Except.bind] at h
        cases b with
        | false => exact keep h
        | true =>
          simp only [if_true] at h
          cases hp : cellToParent cell none with
          | error e => rw [hp] at h; cases h
          | ok parent =>
            rw [hp] at h
            simp only at h
            cases hs : scanPass (rest.drop (expectedChildren (getResolution cell) - 1)) with
            | error e => rw [hs] at h; cases h
            | ok p =>
              rw [hs] at h
              obtain ⟨o, c⟩ := p
              simp only at h
              injection h with h; injection h with h1 h2; subst h1; subst h2
              have := ih (rest.drop (expectedChildren (getResolution cell) - 1)).length (by simp at hn ⊢; omega) _ o c rfl hs
              -- a merge only happens when the whole group (>= 4 cells) is in the list
              have hg : expectedChildren (getResolution cell) ≤ rest.length + 1 := by
                unfold hasAllSiblings at hh
                dsimp only at hh
                split at hh
                · assumption
                · cases hh
              have hk4 : 4 ≤ expectedChildren (getResolution cell) := by
                unfold expectedChildren; split
                · omega
                · split <;> omega
              simp only [List.length_cons, List.length_drop] at this ⊢
              exact ⟨by omega, fun _ => by omega⟩

theorem loop1_eq : ∀ (fuel : Nat) (cur : List Nat), cur.length < fuel →
    Src.compact.compact_loop1 (fuel + 1) true (cur.map Int.ofNat)
      = (compactLoop fuel cur).map (fun out => (false, out.map Int.ofNat)) := by
  intro fuel
  induction fuel with
  | zero => intro cur h; omega
  | succ f ih =>
    intro cur hlen
    rw [Src.compact.compact_loop1, compactLoop]
    rw [if_pos rfl]
    dsimp only
    have h2 := loop2_eq cur.length cur [] [] false (Int.ofNat (cur.map Int.ofNat).length + 2).toNat rfl
      (by simp only [List.length_map, Int.ofNat_eq_natCast]; omega)
    simp only [List.nil_append, List.length_nil, List.map_nil] at h2
    rw [show ((0 : Nat) : Int) = 0 from rfl] at h2
    rw [h2]
    cases hs : scanPass cur with
    | error e => rfl
    | ok p =>
      obtain ⟨out, c⟩ := p
      rw [map_ok, bind_ok]
      simp only [Bool.false_or, bind, Except.bind, pure, Except.pure]
      have hl := scan_len cur.length cur out c rfl hs
      cases c with
      | true =>
        simp only [if_true]
        exact ih out (by have := hl.2 rfl; omega)
      | false =>
        rw [Src.compact.compact_loop1]
        simp
        rfl

theorem compact_eq (cells : List Nat) :
    Src.compact.compact (cells.map Int.ofNat) = (compact cells).map (List.map Int.ofNat) := by
  unfold Src.compact.compact compact
  by_cases he : cells = []
  · subst he; rfl
  · have h1 : ¬ (Int.ofNat (cells.map Int.ofNat).length = 0) := by
      cases cells with
      | nil => exact absurd rfl he
      | cons c cs => simp only [List.map_cons, List.length_cons, Int.ofNat_eq_natCast]; omega
    have h2 : cells.isEmpty = false := by cases cells with
      | nil => exact absurd rfl he
      | cons c cs => rfl
    rw [if_neg h1, h2, sortedSet_eq, bind_ok]
    simp only [Bool.false_eq_true, if_false]
    have := loop1_eq ((sortedSet hierarchicalKey cells).length + 1) (sortedSet hierarchicalKey cells) (by omega)
    rw [show (Int.ofNat ((sortedSet hierarchicalKey cells).map Int.ofNat).length + 2).toNat = (sortedSet hierarchicalKey cells).length + 1 + 1 by
      simp only [List.length_map, Int.ofNat_eq_natCast]; omega, this]
    cases compactLoop ((sortedSet hierarchicalKey cells).length + 1) (sortedSet hierarchicalKey cells) <;> rfl

end A5.Bridge
