/-
  Decision logic of `lonlat_to_cell` on the executable model: whatever the floating-point values, a returned id is a valid
  id of exactly the requested resolution and is the code of one of the sampled estimates.
-/
import A5.Model.CellGeo
import A5.Proofs.Codec
import A5.Proofs.HilbertT
import A5.Proofs.RingStructure

attribute [local instance 2000] instPowNat

namespace A5.CellGeo
open A5.F A5.Geo A5.Hilbert

/-! ### `ij_to_s` always returns an index of the level, for ANY input point and ANY scalar type -/

theorem quat_lt_four {α : Type} [Scalar α] (u v : α) (f : Flips) : ijToQuaternary u v f < 4 := by
  unfold ijToQuaternary
  simp only
  repeat' split
  all_goals omega

theorem decodeDigits_spec {α : Type} [Scalar α] : ∀ (n : Nat) (x y px py : α) (f : Flips),
    (decodeDigits n x y px py f).length = n ∧ ∀ d ∈ decodeDigits n x y px py f, d < 4 := by
  intro n
  induction n with
  | zero => intro x y px py f; simp [decodeDigits]
  | succ n ih =>
    intro x y px py f
    simp only [decodeDigits, List.length_cons, List.mem_cons]
    obtain ⟨h1, h2⟩ := ih x y _ _ (fmul f (qflips (ijToQuaternary (Scalar.div (Scalar.sub x px) (Scalar.ofInt (2 ^ n)))
      (Scalar.div (Scalar.sub y py) (Scalar.ofInt (2 ^ n))) f)))
    refine ⟨by rw [h1], ?_⟩
    rintro d (rfl | hd)
    · exact quat_lt_four _ _ _
    · exact h2 d hd

/-- one un-shift step keeps digits in range (all four pattern tables, decided exhaustively) -/
theorem step_bound : ∀ (pi : Fin 4) (inv fx fy : Bool) (p c : Fin 4),
    (shiftStep (patternById pi.val) inv (fx, fy) p.val c.val).1 < 4 ∧ (shiftStep (patternById pi.val) inv (fx, fy) p.val c.val).2 < 4 := by
  decide

theorem bwd_spec (pi : Fin 4) (inv : Bool) : ∀ (ds : List Nat) (f : Flips), (∀ d ∈ ds, d < 4) →
    (bwd (patternById pi.val) inv f ds).1 < 4 ∧ (∀ d ∈ (bwd (patternById pi.val) inv f ds).2, d < 4) ∧
      (bwd (patternById pi.val) inv f ds).2.length = ds.length - 1 := by
  intro ds
  induction ds with
  | nil => intro f _; simp [bwd]
  | cons d rest ih =>
    intro f h
    cases rest with
    | nil => simp [bwd]; exact h d (by simp)
    | cons d2 ds =>
      have hd := h d (by simp)
      obtain ⟨i1, i2, i3⟩ := ih (fmul f (qflips d)) (fun x hx => h x (by simp [hx]))
      have hs := step_bound pi inv f.1 f.2 ⟨d, hd⟩ ⟨_, i1⟩
      simp only [bwd, List.mem_cons, List.length_cons]
      refine ⟨hs.1, ?_, by simp only [List.length_cons] at i3; omega⟩
      rintro x (rfl | hx)
      · exact hs.2
      · exact i2 x hx

theorem valueMSB_lt : ∀ (ds : List Nat), (∀ d ∈ ds, d < 4) → valueMSB ds < 4 ^ ds.length := by
  intro ds h
  unfold valueMSB
  have : ∀ (ds : List Nat) (acc k : Nat), (∀ d ∈ ds, d < 4) → acc < 4 ^ k →
      ds.foldl (fun a d => 4 * a + d) acc < 4 ^ (k + ds.length) := by
    intro ds
    induction ds with
    | nil => intro acc k _ ha; simpa using ha
    | cons d ds ih =>
      intro acc k h ha
      rw [List.foldl_cons, List.length_cons, show k + (ds.length + 1) = (k + 1) + ds.length by omega]
      apply ih _ _ (fun x hx => h x (by simp [hx]))
      have := h d (by simp)
      rw [Nat.pow_succ]; omega
  have := this ds 0 0 h (by simp)
  simpa using this

theorem rpat_is_table (flipIJ : Bool) :
    reversePattern (if flipIJ then PATTERN_FLIPPED else PATTERN) = patternById (if flipIJ then 3 else 2) := by
  cases flipIJ <;> rfl

/-- C18/C01 `s_in_range`: for every scalar type and every input point -/
theorem ijToSCore_lt {α : Type} [Scalar α] (x y : α) (inv flipIJ : Bool) (n : Nat) : ijToSCore x y inv flipIJ n < 4 ^ n := by
  unfold ijToSCore
  simp only
  obtain ⟨hl, hd⟩ := decodeDigits_spec n x y (Scalar.ofInt 0) (Scalar.ofInt 0) (false, false)
  generalize decodeDigits n x y (Scalar.ofInt 0) (Scalar.ofInt 0) (false, false) = ds at *
  rw [rpat_is_table]
  have hb := bwd_spec (if flipIJ then 3 else 2) inv ds (false, false) hd
  have hpi : (↑(if flipIJ = true then (3 : Fin 4) else 2) : Nat) = (if flipIJ = true then 3 else 2) := by cases flipIJ <;> rfl
  rw [hpi] at hb
  unfold unshiftAll
  cases ds with
  | nil => simp [valueMSB] at hl ⊢
  | cons d rest =>
    simp only
    have hv := valueMSB_lt ((bwd (patternById (if flipIJ = true then 3 else 2)) inv (false, false) (d :: rest)).1 ::
      (bwd (patternById (if flipIJ = true then 3 else 2)) inv (false, false) (d :: rest)).2) (by
        intro x hx
        simp only [List.mem_cons] at hx
        rcases hx with rfl | hx
        · exact hb.1
        · exact hb.2.1 x hx)
    simp only [List.length_cons, hb.2.2] at hv
    rw [← hl]
    simpa using hv

theorem ijToS_range {α : Type} [Scalar α] (x y : α) (n : Nat) (o : String) : 0 ≤ ijToS x y n o ∧ ijToS x y n o < (4 : Int) ^ n := by
  unfold ijToS
  simp only
  have key : ∀ (a b : α), 0 ≤ (if orientReverse o = true then (4 : Int) ^ n - ((ijToSCore a b (orientInvertJ o) (orientFlipIJ o) n : Nat) : Int) - 1
        else ((ijToSCore a b (orientInvertJ o) (orientFlipIJ o) n : Nat) : Int)) ∧
      (if orientReverse o = true then (4 : Int) ^ n - ((ijToSCore a b (orientInvertJ o) (orientFlipIJ o) n : Nat) : Int) - 1
        else ((ijToSCore a b (orientInvertJ o) (orientFlipIJ o) n : Nat) : Int)) < (4 : Int) ^ n := by
    intro a b
    have hlt := ijToSCore_lt a b (orientInvertJ o) (orientFlipIJ o) n
    have hI : ((ijToSCore a b (orientInvertJ o) (orientFlipIJ o) n : Nat) : Int) < (4 : Int) ^ n := by exact_mod_cast hlt
    split <;> constructor <;> omega
  exact key _ _

/-! ### the estimate and the search loop -/

theorem findNearestOrigin_lt (p : V2) : findNearestOrigin p < 12 := by
  unfold findNearestOrigin
  simp only
  have : ∀ (l : List Nat) (acc : Float × Nat), (∀ o ∈ l, o < 12) → acc.2 < 12 →
      (l.foldl (fun (acc : Float × Nat) o => if haversine p (originF o).axis < acc.1 then (haversine p (originF o).axis, o) else acc) acc).2 < 12 := by
    intro l
    induction l with
    | nil => intro acc _ h; exact h
    | cons a l ih =>
      intro acc hl h
      rw [List.foldl_cons]
      apply ih _ (fun o ho => hl o (by simp [ho]))
      split
      · exact hl a (by simp)
      · exact h
  apply this
  · intro o ho
    have : Tables.NUM_ORIGINS = 12 := by decide
    rw [this] at ho
    exact List.mem_range.1 ho
  · decide

/-- a well-formed estimate: face, segment, resolution and a position that fits -/
def Est.WF (e : Est) (r : Int) : Prop :=
  e.origin < 12 ∧ (0 ≤ e.segment ∧ e.segment < 5) ∧ e.res = r ∧ (r < 2 → e.S = 0) ∧ (2 ≤ r → 0 ≤ e.S ∧ e.S < (4 : Int) ^ (r - 1).toNat)

theorem estimate_wf (ll : V2) (r : Int) (e : Est) (h : lonlatToEstimate ll r = .ok e) : e.WF r := by
  unfold lonlatToEstimate at h
  simp only [FHR_eq'] at h
  obtain ⟨dp, _, h⟩ := bind_eq_ok h
  have ho := findNearestOrigin_lt (fromLonLat ll)
  generalize findNearestOrigin (fromLonLat ll) = o at *
  have hseg : ∀ q : Int, 0 ≤ (quintantToSegment q o).1 ∧ (quintantToSegment q o).1 < 5 := by
    intro q; unfold quintantToSegment; simp only; omega
  by_cases hr : r < 2
  · simp only [hr, if_true] at h
    have := Except.ok.inj h
    subst this
    exact ⟨ho, hseg _, rfl, fun _ => rfl, fun h2 => by omega⟩
  · simp only [hr, if_false] at h
    have := Except.ok.inj h
    subst this
    refine ⟨ho, hseg _, rfl, fun h2 => absurd h2 hr, fun _ => ?_⟩
    simp only
    have := ijToS_range (α := Float)
    have e1 : (r - 1).toNat = (1 + r - 2).toNat := by omega
    rw [e1]
    exact this _ _ _ _

/-- a well-formed estimate serialises to a valid id of its resolution -/
theorem serialize_estimate (e : Est) (r : Int) (hr0 : 0 ≤ r) (hr : r ≤ 29) (hw : e.WF r) :
    ∃ n, serialize e.toCell = .ok n ∧ ValidId n ∧ getResolution n = r := by
  obtain ⟨ho, hs, hres, h0, h2⟩ := hw
  obtain ⟨o, sg, S, res⟩ := e
  simp only at ho hs hres h0 h2
  subst hres
  obtain ⟨r', rfl⟩ : ∃ r' : Nat, res = (r' : Int) := ⟨res.toNat, by omega⟩
  have hS0 : 0 ≤ S := by
    by_cases h : (r' : Int) < 2
    · rw [h0 h]
    · exact (h2 (by omega)).1
  obtain ⟨S', rfl⟩ : ∃ S' : Nat, S = (S' : Int) := ⟨S.toNat, by omega⟩
  have hfit : S' < npos r' := by
    unfold npos
    by_cases h : r' < 2
    · rw [if_pos h]; have := h0 (by omega); omega
    · rw [if_neg h]
      have := (h2 (by omega)).2
      rw [show ((r' : Int) - 1).toNat = r' - 1 by omega] at this
      exact_mod_cast this
  have hwf : WF (topOf o sg r') S' r' := ⟨by omega, hfit, topOf_lt o sg r' ho⟩
  exact ⟨_, serialize_ok o sg S' r' (by omega) hfit, Or.inr ⟨_, _, _, hwf, rfl⟩, getResolution_encId hwf⟩

theorem searchLoop_wf (ll : V2) (r : Int) : ∀ (samples : List V2) (seen : List Nat) (cells : List (Est × Float))
    (res : Sum Nat (List (Est × Float))), (∀ c ∈ cells, c.1.WF r) → searchLoop ll r samples seen cells = .ok res →
      match res with
      | .inl key => ∃ e : Est, e.WF r ∧ serialize e.toCell = .ok key
      | .inr cs => ∀ c ∈ cs, c.1.WF r := by
  intro samples
  induction samples with
  | nil =>
    intro seen cells res hc h
    unfold searchLoop at h
    have := Except.ok.inj h
    subst this
    exact hc
  | cons s rest ih =>
    intro seen cells res hc h
    unfold searchLoop at h
    obtain ⟨est, he, h⟩ := bind_eq_ok h
    obtain ⟨key, hk, h⟩ := bind_eq_ok h
    have hw := estimate_wf s r est he
    by_cases hseen : seen.contains key = true
    · rw [if_pos hseen] at h
      exact ih seen cells res hc h
    · rw [if_neg hseen] at h
      obtain ⟨d, _, h⟩ := bind_eq_ok h
      by_cases hd : d > 0
      · rw [if_pos hd] at h
        have := Except.ok.inj h
        subst this
        exact ⟨est, hw, hk⟩
      · rw [if_neg hd] at h
        apply ih _ _ res _ h
        intro c hcm
        rw [List.mem_append] at hcm
        rcases hcm with hcm | hcm
        · exact hc c hcm
        · simp only [List.mem_singleton] at hcm
          subst hcm
          exact hw

theorem bestCandidate_mem (cs : List (Est × Float)) (b : Est × Float) (h : bestCandidate cs = some b) : b ∈ cs := by
  cases cs with
  | nil => cases h
  | cons c rest =>
    simp only [bestCandidate, Option.some.injEq] at h
    subst h
    have : ∀ (l : List (Est × Float)) (best : Est × Float),
        l.foldl (fun best x => if x.2 > best.2 then x else best) best = best ∨
        l.foldl (fun best x => if x.2 > best.2 then x else best) best ∈ l := by
      intro l
      induction l with
      | nil => intro best; left; rfl
      | cons a l ih =>
        intro best
        rw [List.foldl_cons]
        rcases ih (if a.2 > best.2 then a else best) with h | h
        · rw [h]
          split
          · right; simp
          · left; rfl
        · right; simp [h]
    rcases this rest c with h | h
    · rw [h]; simp
    · simp [h]

/-- C01, decision logic: for every finite input and every resolution 0..29, IF `lonlat_to_cell` returns, it returns a valid id of
    exactly the requested resolution (the model raises only where a float callee raises: frame-vertex lookup, winding check) -/
theorem lonlatToCell_resolution (ll : V2) (r : Int) (hr0 : 0 ≤ r) (hr : r ≤ 29) (id : Nat) (h : lonlatToCell ll r = .ok id) :
    ValidId id ∧ getResolution id = r := by
  unfold lonlatToCell at h
  simp only [FHR_eq'] at h
  rw [if_neg (by omega)] at h
  by_cases h2 : r < 2
  · rw [if_pos h2] at h
    obtain ⟨e, he, hs⟩ := bind_eq_ok h
    obtain ⟨n, hn, hv, hres⟩ := serialize_estimate e r hr0 hr (estimate_wf ll r e he)
    rw [hn] at hs
    cases hs
    exact ⟨hv, hres⟩
  · rw [if_neg h2] at h
    obtain ⟨res, hloop, h⟩ := bind_eq_ok h
    have hw := searchLoop_wf ll r _ [] [] res (by intro c hc; cases hc) hloop
    cases res with
    | inl key =>
      simp only at hw h
      have := Except.ok.inj h
      subst this
      obtain ⟨e, hwe, hk⟩ := hw
      obtain ⟨n, hn, hv, hres⟩ := serialize_estimate e r hr0 hr hwe
      rw [hn] at hk
      cases hk
      exact ⟨hv, hres⟩
    | inr cells =>
      simp only at hw h
      cases hb : bestCandidate cells with
      | none => rw [hb] at h; cases h
      | some b =>
        rw [hb] at h
        simp only at h
        have hmem := bestCandidate_mem cells b hb
        obtain ⟨n, hn, hv, hres⟩ := serialize_estimate b.1 r hr0 hr (hw b hmem)
        rw [hn] at h
        cases h
        exact ⟨hv, hres⟩

theorem lonlatToCell_world (ll : V2) : lonlatToCell ll (-1) = .ok WORLD_CELL := by
  unfold lonlatToCell; rw [if_pos rfl]

end A5.CellGeo

namespace A5.CellGeo
open A5 A5.F

/-- decision logic of the search loop: an `inl` answer is a cell that passes the library's own containment test FOR THE QUERY POINT;
    an `inr` answer lists only candidates that fail it -/
theorem searchLoop_decision (ll : V2) (r : Int) : ∀ (samples : List V2) (seen : List Nat) (cells : List (Est × Float))
    (res : Sum Nat (List (Est × Float))),
    (∀ c ∈ cells, cellContainsPoint c.1.toCell ll = .ok c.2 ∧ ¬ c.2 > 0) → searchLoop ll r samples seen cells = .ok res →
      match res with
      | .inl key => ∃ (e : Est) (d : Float), serialize e.toCell = .ok key ∧ cellContainsPoint e.toCell ll = .ok d ∧ d > 0 ∧
          ∃ s ∈ samples, lonlatToEstimate s r = .ok e
      | .inr cs => ∀ c ∈ cs, cellContainsPoint c.1.toCell ll = .ok c.2 ∧ ¬ c.2 > 0 := by
  intro samples
  induction samples with
  | nil =>
    intro seen cells res hc h
    unfold searchLoop at h
    have := Except.ok.inj h
    subst this
    exact hc
  | cons s rest ih =>
    intro seen cells res hc h
    unfold searchLoop at h
    obtain ⟨est, he, h⟩ := bind_eq_ok h
    obtain ⟨key, hk, h⟩ := bind_eq_ok h
    by_cases hseen : seen.contains key = true
    · rw [if_pos hseen] at h
      have := ih seen cells res hc h
      cases res with
      | inl k =>
        obtain ⟨e, d, h1, h2, h3, s', hs', h4⟩ := this
        exact ⟨e, d, h1, h2, h3, s', List.mem_cons_of_mem _ hs', h4⟩
      | inr cs => exact this
    · rw [if_neg hseen] at h
      obtain ⟨d, hd', h⟩ := bind_eq_ok h
      by_cases hd : d > 0
      · rw [if_pos hd] at h
        have := Except.ok.inj h
        subst this
        exact ⟨est, d, hk, hd', hd, s, List.mem_cons_self, he⟩
      · rw [if_neg hd] at h
        have hc' : ∀ c ∈ cells ++ [(est, d)], cellContainsPoint c.1.toCell ll = .ok c.2 ∧ ¬ c.2 > 0 := by
          intro c hcm
          rw [List.mem_append] at hcm
          rcases hcm with hcm | hcm
          · exact hc c hcm
          · simp only [List.mem_singleton] at hcm
            subst hcm
            exact ⟨hd', hd⟩
        have := ih _ _ res hc' h
        cases res with
        | inl k =>
          obtain ⟨e, d2, h1, h2, h3, s', hs', h4⟩ := this
          exact ⟨e, d2, h1, h2, h3, s', List.mem_cons_of_mem _ hs', h4⟩
        | inr cs => exact this

/-- C01 decision logic: at Hilbert resolutions the returned id is either a cell that passes the library's containment test for the query
    point itself (`a5cell_contains_point(cell, point) > 0`), or — only when NO sampled candidate passes it — one of the failing candidates -/
theorem lonlatToCell_decision (ll : V2) (r : Int) (hr : FHR ≤ r) (id : Nat) (h : lonlatToCell ll r = .ok id) :
    (∃ (e : Est) (d : Float), serialize e.toCell = .ok id ∧ cellContainsPoint e.toCell ll = .ok d ∧ d > 0) ∨
    (∃ cells : List (Est × Float), (∀ c ∈ cells, cellContainsPoint c.1.toCell ll = .ok c.2 ∧ ¬ c.2 > 0) ∧
        ∃ b ∈ cells, serialize b.1.toCell = .ok id) := by
  unfold lonlatToCell at h
  have hF : FHR = 2 := rfl
  rw [if_neg (by omega), if_neg (by omega)] at h
  obtain ⟨res, hloop, h⟩ := bind_eq_ok h
  have hd := searchLoop_decision ll r _ [] [] res (by intro c hc; cases hc) hloop
  cases res with
  | inl key =>
    simp only at hd h
    have := Except.ok.inj h
    subst this
    obtain ⟨e, d, h1, h2, h3, _⟩ := hd
    exact Or.inl ⟨e, d, h1, h2, h3⟩
  | inr cells =>
    simp only at hd h
    cases hb : bestCandidate cells with
    | none => rw [hb] at h; cases h
    | some b =>
      rw [hb] at h
      simp only at h
      exact Or.inr ⟨cells, hd, b, bestCandidate_mem cells b hb, h⟩

end A5.CellGeo
