/-
  Uniqueness of the reduced antichain representing a region.
-/
import A5.Proofs.CoverOrder

attribute [local instance 2000] instPowNat

namespace A5

/-- no parent has all of its children in the list -/
def Reduced (A : List Nat) : Prop := ∀ q, ValidId q → getResolution q ≤ 28 → ¬ HasCompleteGroup A q

def IsLeaf (x : Nat) : Prop := ValidId x ∧ getResolution x = 29

theorem exists_max_res (D : List Nat) (hne : D ≠ []) : ∃ d, d ∈ D ∧ ∀ e, e ∈ D → getResolution e ≤ getResolution d := by
  induction D with
  | nil => exact absurd rfl hne
  | cons a D ih =>
    by_cases hD : D = []
    · subst hD; exact ⟨a, by simp, by intro e he; simp at he; subst he; exact Int.le_refl _⟩
    · obtain ⟨d, hd, hmax⟩ := ih hD
      by_cases hle : getResolution a ≤ getResolution d
      · refine ⟨d, by simp [hd], ?_⟩
        intro e he
        simp only [List.mem_cons] at he
        rcases he with rfl | he
        · exact hle
        · exact hmax e he
      · refine ⟨a, by simp, ?_⟩
        intro e he
        simp only [List.mem_cons] at he
        rcases he with rfl | he
        · exact Int.le_refl _
        · have := hmax e he; omega

/-- a reduced antichain cannot cover every finest-level cell of `c` by strict descendants of `c` -/
theorem deep (A : List Nat) (hvA : ∀ a, a ∈ A → ValidId a) (hanti : Antichain A) (hred : Reduced A)
    (c : Nat) (hvc : ValidId c)
    (hcov : ∀ x, IsLeaf x → Covers c x → ∃ e, e ∈ A ∧ Covers e x ∧ Covers c e ∧ e ≠ c) : False := by
  classical
  -- the strict descendants of c in A
  let D := A.filter (fun e => decide (Covers c e ∧ e ≠ c))
  have hD : ∀ e, e ∈ D ↔ e ∈ A ∧ Covers c e ∧ e ≠ c := by
    intro e; simp [D, List.mem_filter]
  obtain ⟨x0, hx0v, hx0r, hx0c⟩ := exists_leaf hvc
  obtain ⟨e0, he0A, _, he0c, he0n⟩ := hcov x0 ⟨hx0v, hx0r⟩ hx0c
  have hne : D ≠ [] := by
    intro h
    have : e0 ∈ D := (hD e0).2 ⟨he0A, he0c, he0n⟩
    rw [h] at this; cases this
  obtain ⟨d, hdD, hmax⟩ := exists_max_res D hne
  obtain ⟨hdA, hcd, hdc⟩ := (hD d).1 hdD
  have hvd := hvA d hdA
  have hd0 : d ≠ 0 := by
    intro h; subst h
    exact hdc (covers_world_only hvc hcd).symm
  obtain ⟨q, hvq, hrq, hqd⟩ := exists_parent hvd hd0
  -- c is a strict ancestor of d, hence an ancestor-or-self of q
  have hcd_res : getResolution c < getResolution d := by
    have h1 := covers_res hvc hvd hcd
    rcases Int.lt_or_eq_of_le h1 with h | h
    · exact h
    · exact absurd (covers_eq_of_res hvc hvd hcd h).symm hdc
  have hcq : Covers c q := covers_chain hvc hvq hvd hcd hqd (by omega)
  have hq28 : getResolution q ≤ 28 := by have := (getResolution_range d).2; omega
  apply hred q hvq hq28
  intro s hvs hrs hqs
  -- a leaf under the sibling s
  obtain ⟨x, hxv, hxr, hsx⟩ := exists_leaf hvs
  have hcs : Covers c s := covers_trans hvc hvq hvs hcq hqs
  have hcx : Covers c x := covers_trans hvc hvs hxv hcs hsx
  obtain ⟨e, heA, hex, hce, hec⟩ := hcov x ⟨hxv, hxr⟩ hcx
  have hve := hvA e heA
  have heD : e ∈ D := (hD e).2 ⟨heA, hce, hec⟩
  have hres_e : getResolution e ≤ getResolution s := by have := hmax e heD; omega
  have hes : Covers e s := covers_chain hve hvs hxv hex hsx hres_e
  by_cases hEq : e = s
  · subst hEq; exact heA
  · exfalso
    have hlt : getResolution e < getResolution s := by
      rcases Int.lt_or_eq_of_le hres_e with h | h
      · exact h
      · exact absurd (covers_eq_of_res hve hvs hes h) hEq
    have heq : Covers e q := covers_chain hve hvq hvs hes hqs (by omega)
    have hed : Covers e d := covers_trans hve hvq hvd heq hqd
    have := hanti e heA d hdA hed
    subst this
    omega

/-- two reduced antichains of valid ids covering the same finest-level cells have the same elements -/
theorem reduced_subset (A B : List Nat) (hvA : ∀ a, a ∈ A → ValidId a) (hvB : ∀ b, b ∈ B → ValidId b)
    (hA : Antichain A) (hB : Antichain B) (rA : Reduced A) (rB : Reduced B)
    (hcov : ∀ x, IsLeaf x → (CoveredBy A x ↔ CoveredBy B x)) : ∀ a, a ∈ A → a ∈ B := by
  classical
  intro a haA
  have hva := hvA a haA
  by_cases hex : ∃ b, b ∈ B ∧ Covers b a
  · obtain ⟨b, hbB, hba⟩ := hex
    have hvb := hvB b hbB
    by_cases hEq : b = a
    · subst hEq; exact hbB
    · exfalso
      apply deep A hvA hA rA b hvb
      intro x hx hbx
      obtain ⟨e, heA, hexx⟩ := (hcov x hx).2 ⟨b, hbB, hbx⟩
      have hve := hvA e heA
      refine ⟨e, heA, hexx, ?_, ?_⟩
      · -- e and b both cover x: they are comparable; e above b is impossible
        by_cases hr : getResolution b ≤ getResolution e
        · exact covers_chain hvb hve hx.1 hbx hexx hr
        · exfalso
          have heb : Covers e b := covers_chain hve hvb hx.1 hexx hbx (by omega)
          have hea : Covers e a := covers_trans hve hvb hva heb hba
          have := hA e heA a haA hea
          subst this
          have h1 := covers_res hvb hve hba
          omega
      · intro heb
        subst heb
        exact hEq (hA e heA a haA hba)
  · exfalso
    apply deep B hvB hB rB a hva
    intro x hx hax
    obtain ⟨e, heB, hexx⟩ := (hcov x hx).1 ⟨a, haA, hax⟩
    have hve := hvB e heB
    refine ⟨e, heB, hexx, ?_, ?_⟩
    · by_cases hr : getResolution a ≤ getResolution e
      · exact covers_chain hva hve hx.1 hax hexx hr
      · exfalso
        exact hex ⟨e, heB, covers_chain hve hva hx.1 hexx hax (by omega)⟩
    · intro hea
      subst hea
      exact hex ⟨e, heB, covers_self hve⟩

end A5
