/-
  The id codec: what `get_resolution`, `deserialize`, `serialize` compute on every well-formed cell,
  for a *symbolic* position `S` (no enumeration of S) and every resolution 0..29.
-/
import A5.Model.Serialization
import A5.Proofs.Bits
import Mathlib.Tactic.IntervalCases

-- keep `2 ^ n : Nat` on the core instance (Mathlib would elaborate it through `Monoid.npow`)
attribute [local instance 2000] instPowNat

namespace A5
open A5.Bits

/-! ### the generated constants are the ones the proofs are about (re-decided on every run) -/
@[simp] theorem FHR_eq : FHR = 2 := by decide
@[simp] theorem MAXR_eq : MAXR = 30 := by decide
@[simp] theorem HSB_eq : HSB = 58 := by decide
@[simp] theorem REMOVAL_MASK_eq : REMOVAL_MASK = 2 ^ 58 - 1 := by decide
@[simp] theorem WORLD_CELL_eq : WORLD_CELL = 0 := by decide
@[simp] theorem NUM_ORIGINS_eq : NUM_ORIGINS = 12 := by decide
theorem ORIGIN_IDS_eq : Tables.ORIGIN_IDS = List.range 12 := by decide

theorem firstQuintant_range (o : Nat) (h : o < 12) : 0 ≤ firstQuintant o ∧ firstQuintant o < 5 := by
  interval_cases o <;> decide

/-! ### abstract layout -/

/-- marker bit position of a resolution-`r` id -/
def mpos (r : Nat) : Nat := if r = 0 then 57 else if r = 1 then 56 else 59 - 2 * r

/-- number of Hilbert positions at resolution `r` (1 below resolution 2) -/
def npos (r : Nat) : Nat := if r < 2 then 1 else 4 ^ (r - 1)

/-- the id with top-6 value `t`, position `S`, resolution `r` -/
def encId (t S r : Nat) : Nat := t * 2 ^ 58 + S * 2 ^ (mpos r + 1) + 2 ^ mpos r

/-- well-formed fields: resolution 0..29, face < 12 at resolution 0, face*5+segment < 60 above, position in range -/
def WF (t S r : Nat) : Prop := r ≤ 29 ∧ S < npos r ∧ t < (if r = 0 then 12 else 60)

instance (t S r : Nat) : Decidable (WF t S r) := by unfold WF; infer_instance

theorem mpos_le (r : Nat) (h : r ≤ 29) : mpos r ≤ 57 := by unfold mpos; split <;> [omega; (split <;> omega)]
theorem mpos_pos (r : Nat) (h : r ≤ 29) : 1 ≤ mpos r := by unfold mpos; split <;> [omega; (split <;> omega)]

theorem npos_le (r : Nat) (h : r ≤ 29) : npos r ≤ 2 ^ (57 - mpos r) := by
  unfold npos mpos
  by_cases h0 : r = 0
  · subst h0; simp
  by_cases h1 : r = 1
  · subst h1; simp
  · rw [if_neg (by omega), if_neg h0, if_neg h1]
    rw [show (4:Nat) = 2 ^ 2 by rfl, ← Nat.pow_mul]
    exact Nat.pow_le_pow_right (by omega) (by omega)

theorem npos_eq (r : Nat) (h2 : 2 ≤ r) (h : r ≤ 29) : npos r = 2 ^ (57 - mpos r) := by
  unfold npos mpos
  rw [if_neg (by omega), if_neg (by omega), if_neg (by omega)]
  rw [show (4:Nat) = 2 ^ 2 by rfl, ← Nat.pow_mul]; congr 1; omega

theorem low_lt_of_WF {t S r : Nat} (h : WF t S r) : S * 2 ^ (mpos r + 1) + 2 ^ mpos r < 2 ^ 58 :=
  low_lt_pow (mpos r) S (mpos_le r h.1) (Nat.lt_of_lt_of_le h.2.1 (npos_le r h.1))

theorem encId_lt {t S r : Nat} (h : WF t S r) : encId t S r < 2 ^ 64 := by
  have hl := low_lt_of_WF h
  have ht : t < 60 := by have := h.2.2; split at this <;> omega
  unfold encId; omega

theorem encId_pos (t S r : Nat) : 1 ≤ encId t S r := by
  unfold encId; have := Nat.two_pow_pos (mpos r); omega

theorem encId_top {t S r : Nat} (h : WF t S r) : encId t S r >>> 58 = t := by
  rw [Nat.shiftRight_eq_div_pow, encId, Nat.add_assoc]; exact div_top _ _ (low_lt_of_WF h)

theorem encId_low {t S r : Nat} (h : WF t S r) :
    encId t S r % 2 ^ 58 = S * 2 ^ (mpos r + 1) + 2 ^ mpos r := by
  rw [encId, Nat.add_assoc]; exact mod_top _ _ (low_lt_of_WF h)

/-! ### get_resolution -/

/-- bit tested by the loop when its variable `resolution` has the value `r` -/
theorem mpos_step (r : Nat) (h : r + 1 ≤ 29) :
    mpos (r + 1) + (if ((r : Int) + 1 - 1 < 2) then 1 else 2) = mpos r := by
  unfold mpos
  by_cases h0 : r = 0
  · subst h0; simp
  by_cases h1 : r = 1
  · subst h1; simp
  · rw [if_neg (by omega), if_neg (by omega), if_neg h0, if_neg h1, if_neg (by omega)]; omega

/-- the loop, started at `r + d` on the id shifted to that level's test bit, stops at `r` -/
theorem loop_finds (idx q r : Nat) (hidx : idx = 2 ^ mpos r * (2 * q + 1)) :
    ∀ (d fuel : Nat), fuel ≥ d + 1 → r + d ≤ 29 →
      getResLoop fuel ((r + d : Nat) : Int) (idx >>> mpos (r + d)) = (r : Int) := by
  intro d
  induction d with
  | zero =>
    intro fuel hf _
    obtain ⟨f, rfl⟩ : ∃ f, fuel = f + 1 := ⟨fuel - 1, by omega⟩
    simp only [Nat.add_zero, getResLoop]
    rw [hidx, bit_one_at]; simp
  | succ d ih =>
    intro fuel hf hle
    obtain ⟨f, rfl⟩ : ∃ f, fuel = f + 1 := ⟨fuel - 1, by omega⟩
    simp only [getResLoop]
    have hlt : mpos (r + (d + 1)) < mpos r := by
      unfold mpos; split <;> split <;> (try split) <;> (try split) <;> omega
    rw [if_pos ⟨by omega, by rw [hidx]; exact bit_zero_of_lt _ _ _ hlt⟩]
    have hstep := mpos_step (r + d) (by omega)
    simp only [FHR_eq]
    rw [← Nat.shiftRight_add]
    have e1 : ((r + (d + 1) : Nat) : Int) - 1 = ((r + d : Nat) : Int) := by omega
    rw [e1]
    have e2 : mpos (r + (d + 1)) + (if ((r + d : Nat) : Int) < 2 then 1 else 2) = mpos (r + d) := by
      have := hstep
      rw [show ((r + d : Nat) : Int) + 1 - 1 = ((r + d : Nat) : Int) by omega] at this
      rw [show r + (d + 1) = r + d + 1 by omega]; exact this
    rw [e2]
    exact ih f (by omega) (by omega)

theorem getResolution_of_marker (q r : Nat) (h : r ≤ 29) :
    getResolution (2 ^ mpos r * (2 * q + 1)) = (r : Int) := by
  unfold getResolution
  have := loop_finds _ q r rfl (29 - r) (MAXR.toNat + 1) (by simp; omega) (by omega)
  rw [show r + (29 - r) = 29 by omega] at this
  rw [show mpos 29 = 1 by decide] at this
  simpa using this

theorem getResolution_encId {t S r : Nat} (h : WF t S r) : getResolution (encId t S r) = (r : Int) := by
  rw [encId, id_eq_pow_mul_odd t S (mpos r) (mpos_le r h.1)]
  exact getResolution_of_marker _ r h.1

theorem getResolution_zero : getResolution 0 = -1 := by decide

/-- the loop never runs out of fuel: any fuel ≥ res + 2 gives the same answer -/
theorem getResLoop_fuel (res : Int) (sh : Nat) :
    ∀ f1 f2 : Nat, (res + 2 ≤ f1) → (res + 2 ≤ f2) → getResLoop f1 res sh = getResLoop f2 res sh := by
  intro f1
  induction f1 generalizing res sh with
  | zero =>
    intro f2 h1 h2
    cases f2 with
    | zero => rfl
    | succ f2 => simp only [getResLoop]; rw [if_neg (by omega)]
  | succ f1 ih =>
    intro f2 h1 h2
    cases f2 with
    | zero => simp only [getResLoop]; rw [if_neg (by omega)]
    | succ f2 =>
      simp only [getResLoop]
      split
      · exact ih _ _ f2 (by omega) (by omega)
      · rfl

/-- `get_resolution` always lands in −1..29 -/
theorem getResLoop_range (fuel : Nat) (res : Int) (sh : Nat) (h : -1 ≤ res) :
    -1 ≤ getResLoop fuel res sh ∧ getResLoop fuel res sh ≤ res := by
  induction fuel generalizing res sh with
  | zero => simp [getResLoop, h]
  | succ f ih =>
    simp only [getResLoop]
    split
    · rename_i hc
      have := ih (res - 1) (sh >>> (if res - 1 < FHR then 1 else 2)) (by omega)
      omega
    · omega

theorem getResolution_range (n : Nat) : -1 ≤ getResolution n ∧ getResolution n ≤ 29 := by
  unfold getResolution
  have := getResLoop_range (MAXR.toNat + 1) (MAXR - 1) (n >>> 1) (by simp)
  simpa using this

end A5
