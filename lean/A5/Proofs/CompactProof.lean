/-
  `compact`: every pass preserves coverage and validity; the loop terminates within its fuel.
-/
import A5.Proofs.Cover

attribute [local instance 2000] instPowNat

namespace A5

/-- invariant of the working list: valid ids, none finer than level `L` -/
def AllValid (L : Nat) (l : List Nat) : Prop := ∀ c, c ∈ l → ValidId c ∧ getResolution c ≤ (L : Int)

theorem siblingsFollow_iff (cell stride k : Nat) (rest : List Nat) :
    siblingsFollow cell stride k rest = true ↔
      rest.take (k - 1) = (List.range (k - 1)).map (fun j => cell + (j + 1) * stride) := by
  unfold siblingsFollow
  rw [List.all_eq_true]
  constructor
  · intro h
    apply List.ext_getElem?
    intro j
    by_cases hj : j < k - 1
    · have := h j (List.mem_range.2 hj)
      rw [beq_iff_eq] at this
      rw [List.getElem?_take_of_lt hj, this, List.getElem?_map, List.getElem?_range hj]; rfl
    · rw [List.getElem?_take_eq_none (by omega), List.getElem?_eq_none (by simp; omega)]
  · intro h j hj
    have hj' := List.mem_range.1 hj
    have := congrArg (fun l => l[j]?) h
    rw [List.getElem?_take_of_lt hj', List.getElem?_map, List.getElem?_range hj'] at this
    rw [beq_iff_eq, this]; rfl

/-- `has_all_siblings` never raises on a valid cell, and when true the group is complete and in place -/
theorem hasAll_spec {t S r : Nat} (h : WF t S r) (rest : List Nat) :
    ∃ b, hasAllSiblings (encId t S r) (r : Int) rest = .ok b ∧
      (b = true → ∃ k s p, MergeInfo (encId t S r) r k s p ∧ k ≤ rest.length + 1 ∧
        rest.take (k - 1) = (List.range (k - 1)).map (fun j => encId t S r + (j + 1) * s)) := by
  unfold hasAllSiblings
  simp only
  by_cases hk : expectedChildren (r : Int) ≤ rest.length + 1
  · rw [if_pos hk]
    obtain ⟨b, hb⟩ := isFirstChild_total h
    rw [hb]
    simp only [Except.bind]
    cases b with
    | false => exact ⟨false, by simp, by intro h; cases h⟩
    | true =>
      obtain ⟨k, s, p, mi⟩ := mergeInfo_of_first h hb
      simp only [if_true]
      rw [mi.stride]
      simp only
      refine ⟨_, rfl, ?_⟩
      intro hsf
      rw [mi.expected] at hsf hk
      exact ⟨k, s, p, mi, hk, (siblingsFollow_iff _ _ _ _).1 hsf⟩
  · rw [if_neg hk]
    exact ⟨false, rfl, by intro h; cases h⟩

theorem expectedChildren_ge (r : Int) : 4 ≤ expectedChildren r := by
  unfold expectedChildren; split <;> [omega; (split <;> omega)]

theorem bind_ok {α β : Type} (a : α) (f : α → PyM β) : (Except.ok a : PyM α).bind f = f a := rfl

/-- the siblings expected after the first child, as a sub-list -/
theorem covered_sibs (c s k : Nat) (x : Nat) :
    (Covers c x ∨ CoveredBy ((List.range (k - 1)).map (fun j => c + (j + 1) * s)) x) ↔ ∃ j, j < k ∧ Covers (c + j * s) x ∨ (k = 0 ∧ Covers c x) := by
  constructor
  · rintro (h | ⟨z, hz, h⟩)
    · by_cases hk : k = 0
      · exact ⟨0, Or.inr ⟨hk, h⟩⟩
      · exact ⟨0, Or.inl ⟨by omega, by simpa using h⟩⟩
    · simp only [List.mem_map, List.mem_range] at hz
      obtain ⟨j, hj, rfl⟩ := hz
      exact ⟨j + 1, Or.inl ⟨by omega, h⟩⟩
  · rintro ⟨j, (⟨hj, h⟩ | ⟨_, h⟩)⟩
    · cases j with
      | zero => exact Or.inl (by simpa using h)
      | succ j =>
        refine Or.inr ⟨_, ?_, h⟩
        simp only [List.mem_map, List.mem_range]
        exact ⟨j, by omega, rfl⟩
    · exact Or.inl h

theorem scan_spec (L : Nat) : ∀ (n : Nat) (cur : List Nat), cur.length = n → AllValid L cur →
    ∃ out ch, scanPass cur = .ok (out, ch) ∧ AllValid L out ∧
      (∀ x, ValidId x → getResolution x = (L : Int) → (CoveredBy out x ↔ CoveredBy cur x)) ∧
      out.length ≤ cur.length ∧ (ch = true → out.length < cur.length) ∧ (ch = false → out = cur) := by
  intro n
  induction n using Nat.strongRecOn with
  | _ n ih =>
  intro cur hlen hval
  cases cur with
  | nil =>
    exact ⟨[], false, by rw [scanPass], hval, fun _ _ _ => Iff.rfl, Nat.le_refl _, (by intro h; cases h), fun _ => rfl⟩
  | cons c rest =>
    have hvc := hval c (by simp)
    have hvrest : AllValid L rest := fun x hx => hval x (by simp [hx])
    rw [scanPass]
    simp only
    rcases hvc.1 with rfl | ⟨t, S, r, hwf, rfl⟩
    · -- the world cell passes through
      rw [if_pos (by rw [getResolution_zero]; omega)]
      obtain ⟨out, ch, hs, hv, hc, hl, hch, hid⟩ := ih rest.length (by simp at hlen; omega) rest rfl hvrest
      rw [hs, bind_ok]
      refine ⟨0 :: out, ch, rfl, ?_, ?_, by simp; omega, (by intro h; simp; have := hch h; omega), fun h => by rw [hid h]⟩
      · intro x hx
        simp only [List.mem_cons] at hx
        rcases hx with rfl | hx
        · exact hvc
        · exact hv x hx
      · intro x hvx hrx
        rw [coveredBy_cons, coveredBy_cons, hc x hvx hrx]
    · have hres := getResolution_encId hwf
      rw [hres, if_neg (by omega)]
      obtain ⟨b, hb, hbt⟩ := hasAll_spec hwf rest
      rw [hb, bind_ok]
      cases b with
      | false =>
        rw [if_neg (by simp)]
        obtain ⟨out, ch, hs, hv, hc, hl, hch, hid⟩ := ih rest.length (by simp at hlen; omega) rest rfl hvrest
        rw [hs, bind_ok]
        refine ⟨encId t S r :: out, ch, rfl, ?_, ?_, by simp; omega, (by intro h; simp; have := hch h; omega), fun h => by rw [hid h]⟩
        · intro x hx
          simp only [List.mem_cons] at hx
          rcases hx with rfl | hx
          · exact hvc
          · exact hv x hx
        · intro x hvx hrx
          rw [coveredBy_cons, coveredBy_cons, hc x hvx hrx]
      | true =>
        rw [if_pos rfl]
        obtain ⟨k, s, p, mi, hk, htake⟩ := hbt rfl
        rw [mi.parent, mi.expected, bind_ok]
        have hk4 : 4 ≤ k := by rw [← mi.expected]; exact expectedChildren_ge _
        have hvdrop : AllValid L (rest.drop (k - 1)) := fun x hx => hvrest x (List.mem_of_mem_drop hx)
        obtain ⟨out, ch, hs, hv, hc, hl, _⟩ := ih (rest.drop (k - 1)).length
          (by simp at hlen; simp; omega) _ rfl hvdrop
        rw [hs, bind_ok]
        have hrL : (r : Int) ≤ (L : Int) := by have := hvc.2; rwa [hres] at this
        refine ⟨p :: out, true, rfl, ?_, ?_, ?_, ?_, fun h => by cases h⟩
        · intro x hx
          simp only [List.mem_cons] at hx
          rcases hx with rfl | hx
          · exact ⟨mi.parent_valid, by rw [mi.parent_res]; omega⟩
          · exact hv x hx
        · intro x hvx hrx
          rw [coveredBy_cons, hc x hvx hrx, mi.cover x hvx (by omega)]
          conv => rhs; rw [← List.take_append_drop (k - 1) rest]
          rw [coveredBy_cons, coveredBy_append, htake, ← or_assoc, covered_sibs]
          constructor
          · rintro (⟨j, hj, h⟩ | h)
            · exact Or.inl ⟨j, Or.inl ⟨hj, h⟩⟩
            · exact Or.inr h
          · rintro (⟨j, (⟨hj, h⟩ | ⟨h0, _⟩)⟩ | h)
            · exact Or.inl ⟨j, hj, h⟩
            · omega
            · exact Or.inr h
        · simp only [List.length_cons, List.length_drop] at hl ⊢; omega
        · intro _; simp only [List.length_cons, List.length_drop] at hl ⊢; omega

/-- the `while changed` loop: terminates within its fuel, preserves validity and coverage, ends on a pass without merge -/
theorem loop_spec (L : Nat) : ∀ (fuel : Nat) (cur : List Nat), cur.length < fuel → AllValid L cur →
    ∃ out, compactLoop fuel cur = .ok out ∧ AllValid L out ∧
      (∀ x, ValidId x → getResolution x = (L : Int) → (CoveredBy out x ↔ CoveredBy cur x)) ∧
      scanPass out = .ok (out, false) ∧ out.length ≤ cur.length := by
  intro fuel
  induction fuel with
  | zero => intro cur h; omega
  | succ fuel ih =>
    intro cur hlen hval
    obtain ⟨out, ch, hs, hv, hc, hl, hch, hid⟩ := scan_spec L cur.length cur rfl hval
    unfold compactLoop
    simp only [bind, pure, Except.pure]
    rw [hs, bind_ok]
    cases ch with
    | false =>
      have := hid rfl
      subst this
      exact ⟨out, by simp, hv, hc, hs, Nat.le_refl _⟩
    | true =>
      simp only [if_true]
      obtain ⟨out', h1, h2, h3, h4, h5⟩ := ih out (by have := hch rfl; omega) hv
      refine ⟨out', h1, h2, ?_, h4, by omega⟩
      intro x hvx hrx
      rw [h3 x hvx hrx, hc x hvx hrx]

theorem mem_insertKey (key : Nat → Nat) (x y : Nat) (l : List Nat) : y ∈ insertKey key x l ↔ y = x ∨ y ∈ l := by
  induction l with
  | nil => simp [insertKey]
  | cons a l ih =>
    unfold insertKey
    by_cases h1 : x = a
    · subst h1; simp
    · rw [if_neg h1]
      by_cases h2 : key x < key a
      · rw [if_pos h2]; simp
      · rw [if_neg h2, List.mem_cons, ih, List.mem_cons]
        constructor
        · rintro (h | h | h)
          · exact Or.inr (Or.inl h)
          · exact Or.inl h
          · exact Or.inr (Or.inr h)
        · rintro (h | h | h)
          · exact Or.inr (Or.inl h)
          · exact Or.inl h
          · exact Or.inr (Or.inr h)

theorem mem_sortedSet (key : Nat → Nat) (x : Nat) (l : List Nat) : x ∈ sortedSet key l ↔ x ∈ l := by
  unfold sortedSet
  have : ∀ (acc : List Nat), x ∈ l.foldl (fun acc y => insertKey key y acc) acc ↔ x ∈ l ∨ x ∈ acc := by
    induction l with
    | nil => intro acc; simp
    | cons a l ih =>
      intro acc
      rw [List.foldl_cons, ih, mem_insertKey, List.mem_cons]
      constructor
      · rintro (h | h | h)
        · exact Or.inl (Or.inr h)
        · exact Or.inl (Or.inl h)
        · exact Or.inr h
      · rintro ((h | h) | h)
        · exact Or.inr (Or.inl h)
        · exact Or.inl h
        · exact Or.inr (Or.inr h)
  rw [this]; simp

/-- `compact` on any list of valid ids -/
theorem compact_spec (L : Nat) (X : List Nat) (hval : AllValid L X) :
    ∃ Y, compact X = .ok Y ∧ AllValid L Y ∧
      (∀ x, ValidId x → getResolution x = (L : Int) → (CoveredBy Y x ↔ CoveredBy X x)) ∧
      scanPass Y = .ok (Y, false) := by
  unfold compact
  by_cases he : X.isEmpty
  · rw [if_pos he]
    have : X = [] := by simpa using he
    subst this
    exact ⟨[], rfl, hval, fun _ _ _ => Iff.rfl, by rw [scanPass]⟩
  · rw [if_neg he]
    simp only
    have hv' : AllValid L (sortedSet hierarchicalKey X) := fun c hc => hval c ((mem_sortedSet _ _ _).1 hc)
    obtain ⟨out, h1, h2, h3, h4, _⟩ := loop_spec L _ (sortedSet hierarchicalKey X) (Nat.lt_succ_self _) hv'
    refine ⟨out, h1, h2, ?_, h4⟩
    intro x hvx hrx
    rw [h3 x hvx hrx]
    unfold CoveredBy
    constructor
    · rintro ⟨z, hz, hc⟩; exact ⟨z, (mem_sortedSet _ _ _).1 hz, hc⟩
    · rintro ⟨z, hz, hc⟩; exact ⟨z, (mem_sortedSet _ _ _).2 hz, hc⟩

end A5
