/-
  Spans: every valid id covers a half-open interval [lo, hi) of finest-level (resolution 29) cell indices, taken in
  hierarchical order.  Ancestors contain their descendants' spans, unrelated cells have disjoint spans (laminar family),
  and the sort key of `compact` lies inside 4·span.
-/
import A5.Proofs.Cover

attribute [local instance 2000] instPowNat

namespace A5

def P28 : Nat := 4 ^ 28

/-- index of a resolution-r cell (r ≥ 1) among the cells of its level, in hierarchical order -/
def idxF (t S r : Nat) : Nat := t * 4 ^ (r - 1) + S
/-- number of finest-level cells under a resolution-r cell (r ≥ 1) -/
def widthF (r : Nat) : Nat := 4 ^ (29 - r)

def loF (t S r : Nat) : Nat := if r = 0 then 5 * t * P28 else idxF t S r * widthF r
def hiF (t S r : Nat) : Nat := if r = 0 then 5 * (t + 1) * P28 else (idxF t S r + 1) * widthF r

theorem widthF_pos (r : Nat) : 0 < widthF r := Nat.pow_pos (by omega)

theorem lo_lt_hi (t S r : Nat) : loF t S r < hiF t S r := by
  unfold loF hiF
  have hP : 0 < P28 := Nat.pow_pos (by omega)
  split
  · have : 5 * t * P28 + 5 * P28 = 5 * (t + 1) * P28 := by ring
    omega
  · have := widthF_pos r
    rw [Nat.add_mul, Nat.one_mul]; omega

theorem width_split (a r : Nat) (har : a ≤ r) (hr : r ≤ 29) : widthF a = 4 ^ (r - a) * widthF r := by
  unfold widthF; rw [← Nat.pow_add]; congr 1; omega

theorem width_one : widthF 1 = P28 := rfl

/-- generic block arithmetic: a fine block `[j·w, (j+1)·w)` against the coarse block `[i·D·w, (i+1)·D·w)` -/
theorem block_tri (i j D w : Nat) (hD : 0 < D) :
    (j / D = i ∧ i * (D * w) ≤ j * w ∧ (j + 1) * w ≤ (i + 1) * (D * w)) ∨
    (j / D < i ∧ (j + 1) * w ≤ i * (D * w)) ∨ (i < j / D ∧ (i + 1) * (D * w) ≤ j * w) := by
  have hdm := Nat.div_add_mod j D
  have hm := Nat.mod_lt j hD
  generalize j / D = q at *
  generalize j % D = m at *
  subst hdm
  rcases Nat.lt_trichotomy q i with h | h | h
  · right; left
    refine ⟨h, ?_⟩
    have h1 : (D * q + m + 1) ≤ D * (q + 1) := by rw [Nat.mul_add]; omega
    have h2 : D * (q + 1) ≤ D * i := Nat.mul_le_mul_left _ h
    calc (D * q + m + 1) * w ≤ (D * i) * w := Nat.mul_le_mul_right _ (by omega)
      _ = i * (D * w) := by ring
  · left
    subst h
    refine ⟨rfl, ?_, ?_⟩
    · calc q * (D * w) = (D * q) * w := by ring
        _ ≤ (D * q + m) * w := Nat.mul_le_mul_right _ (by omega)
    · have h1 : (D * q + m + 1) ≤ D * (q + 1) := by rw [Nat.mul_add]; omega
      calc (D * q + m + 1) * w ≤ (D * (q + 1)) * w := Nat.mul_le_mul_right _ h1
        _ = (q + 1) * (D * w) := by ring
  · right; right
    refine ⟨h, ?_⟩
    have h2 : D * (i + 1) ≤ D * q := Nat.mul_le_mul_left _ h
    calc (i + 1) * (D * w) = (D * (i + 1)) * w := by ring
      _ ≤ (D * q + m) * w := Nat.mul_le_mul_right _ (by omega)

/-- the index of the level-a ancestor (1 ≤ a ≤ r) is the index divided by 4^(r-a) -/
theorem idx_anc {t S r : Nat} (h : WF t S r) (a : Nat) (ha1 : 1 ≤ a) (har : a ≤ r) :
    idxF (ancT t r a) (ancS S r a) a = idxF t S r / 4 ^ (r - a) := by
  obtain ⟨hr, hS, _⟩ := h
  have hT : ancT t r a = t := by unfold ancT; rw [if_neg (by omega)]
  rw [hT]
  unfold idxF
  have hsplit : 4 ^ (r - 1) = 4 ^ (a - 1) * 4 ^ (r - a) := by rw [← Nat.pow_add]; congr 1; omega
  have hpos : 0 < 4 ^ (r - a) := Nat.pow_pos (by omega)
  have hR : (t * 4 ^ (r - 1) + S) / 4 ^ (r - a) = t * 4 ^ (a - 1) + S / 4 ^ (r - a) := by
    rw [hsplit, ← Nat.mul_assoc, Nat.add_comm, Nat.add_mul_div_right _ _ hpos, Nat.add_comm]
  rw [hR]
  congr 1
  unfold ancS
  by_cases h2 : a < 2
  · rw [if_pos h2]
    have ha : a = 1 := by omega
    subst ha
    rw [npos_eq_pow r (by omega)] at hS
    exact (Nat.div_eq_of_lt hS).symm
  · rw [if_neg h2]

theorem idx_lt {t S r : Nat} (h : WF t S r) (hr1 : 1 ≤ r) : idxF t S r < 60 * 4 ^ (r - 1) := by
  obtain ⟨hr, hS, ht⟩ := h
  rw [if_neg (by omega)] at ht
  rw [npos_eq_pow r hr1] at hS
  unfold idxF
  have : (t + 1) * 4 ^ (r - 1) ≤ 60 * 4 ^ (r - 1) := Nat.mul_le_mul_right _ ht
  rw [Nat.add_mul, Nat.one_mul] at this
  omega

theorem idx_inj {t S t' S' r : Nat} (h : WF t S r) (h' : WF t' S' r) (hr1 : 1 ≤ r) (e : idxF t S r = idxF t' S' r) :
    t = t' ∧ S = S' := by
  have hS := h.2.1; have hS' := h'.2.1
  rw [npos_eq_pow r hr1] at hS hS'
  unfold idxF at e
  have hp : 0 < 4 ^ (r - 1) := Nat.pow_pos (by omega)
  have e1 : (t * 4 ^ (r - 1) + S) / 4 ^ (r - 1) = t := by
    rw [Nat.add_comm, Nat.add_mul_div_right _ _ hp, Nat.div_eq_of_lt hS, Nat.zero_add]
  have e2 : (t' * 4 ^ (r - 1) + S') / 4 ^ (r - 1) = t' := by
    rw [Nat.add_comm, Nat.add_mul_div_right _ _ hp, Nat.div_eq_of_lt hS', Nat.zero_add]
  have ht : t = t' := by rw [← e1, ← e2, e]
  subst ht
  exact ⟨rfl, by omega⟩

/-- field-level coverage for levels ≥ 1 is "index divided" -/
theorem descOf_iff_idx {ta Sa ra t S r : Nat} (ha : WF ta Sa ra) (h : WF t S r) (h1 : 1 ≤ ra) (hle : ra ≤ r) :
    DescOf ta Sa ra t S r ↔ idxF t S r / 4 ^ (r - ra) = idxF ta Sa ra := by
  rw [← idx_anc h ra h1 hle]
  constructor
  · rintro ⟨e1, e2⟩; rw [e1, e2]
  · intro e
    have := idx_inj (WF_anc h ra hle) ha h1 e
    exact ⟨this.1, this.2⟩

/-- trichotomy (laminarity) and span monotonicity for two well-formed cells, the first not finer than the second -/
theorem span_tri {ta Sa ra t S r : Nat} (ha : WF ta Sa ra) (h : WF t S r) (hle : ra ≤ r) :
    (DescOf ta Sa ra t S r ∧ loF ta Sa ra ≤ loF t S r ∧ hiF t S r ≤ hiF ta Sa ra) ∨
    (¬ DescOf ta Sa ra t S r ∧ hiF t S r ≤ loF ta Sa ra) ∨ (¬ DescOf ta Sa ra t S r ∧ hiF ta Sa ra ≤ loF t S r) := by
  have hr29 := h.1
  by_cases ha1 : 1 ≤ ra
  · -- both at level ≥ 1: pure block arithmetic
    have hr1 : 1 ≤ r := by omega
    rw [descOf_iff_idx ha h ha1 hle]
    unfold loF hiF
    rw [if_neg (by omega), if_neg (by omega), if_neg (by omega), if_neg (by omega)]
    rw [width_split ra r hle hr29]
    rcases block_tri (idxF ta Sa ra) (idxF t S r) (4 ^ (r - ra)) (widthF r) (Nat.pow_pos (by omega)) with h1 | h1 | h1
    · exact Or.inl h1
    · exact Or.inr (Or.inl ⟨by omega, h1.2⟩)
    · exact Or.inr (Or.inr ⟨by omega, h1.2⟩)
  · have hra : ra = 0 := by omega
    subst hra
    have hSa := npos_small 0 Sa (by omega) ha.2.1
    subst hSa
    have hta : ta < 12 := by have := ha.2.2; simpa using this
    have hS0 : ancS S r 0 = 0 := ancS_low S r 0 (by omega)
    unfold DescOf
    rw [hS0]
    by_cases hr0 : r = 0
    · subst hr0
      have hS := npos_small 0 S (by omega) h.2.1
      subst hS
      have hT : ancT t 0 0 = t := ancT_self t 0
      rw [hT]
      unfold loF hiF
      simp only [if_true]
      rcases Nat.lt_trichotomy t ta with hlt | heq | hgt
      · right; left
        exact ⟨by omega, by have : 5 * (t + 1) ≤ 5 * ta := by omega
                            exact Nat.mul_le_mul_right _ this⟩
      · left; subst heq; exact ⟨⟨rfl, trivial⟩, Nat.le_refl _, Nat.le_refl _⟩
      · right; right
        exact ⟨by omega, by have : 5 * (ta + 1) ≤ 5 * t := by omega
                            exact Nat.mul_le_mul_right _ this⟩
    · have hr1 : 1 ≤ r := by omega
      have hT : ancT t r 0 = t / 5 := by unfold ancT; rw [if_pos ⟨rfl, hr0⟩]
      rw [hT]
      -- level-1 ancestor index is t; face ta covers level-1 indices 5ta .. 5ta+4
      have ht : t < 60 := by have := h.2.2; rw [if_neg hr0] at this; exact this
      have hidx1 := idx_anc h 1 (by omega) hr1
      have hT1 : ancT t r 1 = t := by unfold ancT; rw [if_neg (by omega)]
      have hS1 : ancS S r 1 = 0 := ancS_low S r 1 (by omega)
      rw [hT1, hS1] at hidx1
      have hidx1' : t = idxF t S r / 4 ^ (r - 1) := by simpa [idxF] using hidx1
      unfold loF hiF
      rw [if_pos rfl, if_pos rfl, if_neg hr0, if_neg hr0]
      have hw : P28 = 4 ^ (r - 1) * widthF r := by rw [← width_one]; exact width_split 1 r hr1 hr29
      rcases block_tri t (idxF t S r) (4 ^ (r - 1)) (widthF r) (Nat.pow_pos (by omega)) with h1 | h1 | h1
      · obtain ⟨_, hlo, hhi⟩ := h1
        rw [← hw] at hlo hhi
        rcases Nat.lt_trichotomy (t / 5) ta with hlt | heq | hgt
        · right; left
          refine ⟨by omega, ?_⟩
          have : (t + 1) * P28 ≤ 5 * ta * P28 := Nat.mul_le_mul_right _ (by omega)
          omega
        · left
          refine ⟨⟨heq, rfl⟩, ?_, ?_⟩
          · have : 5 * ta * P28 ≤ t * P28 := Nat.mul_le_mul_right _ (by omega)
            omega
          · have : (t + 1) * P28 ≤ 5 * (ta + 1) * P28 := Nat.mul_le_mul_right _ (by omega)
            omega
        · right; right
          refine ⟨by omega, ?_⟩
          have : 5 * (ta + 1) * P28 ≤ t * P28 := Nat.mul_le_mul_right _ (by omega)
          omega
      · omega
      · omega

end A5
