/-
  hex text: `parse ∘ print = id` for every natural number (not only below 2^64).
-/
import A5.Model.Hex
import Mathlib.Tactic.IntervalCases

namespace A5

def hexDigitCharU (d : Nat) : Char :=
  if d < 10 then Char.ofNat (48 + d) else Char.ofNat (55 + d)

/-- numeric value of a digit string, most significant first -/
def digitsValue (ds : List Nat) : Nat := ds.foldl (fun a d => 16 * a + d) 0

theorem digitsValue_append (xs : List Nat) (d : Nat) : digitsValue (xs ++ [d]) = 16 * digitsValue xs + d := by
  simp [digitsValue, List.foldl_append]

/-- a character that prints digit `d` in either case -/
def PrintsAs (d : Nat) (c : Char) : Prop := c = hexDigitChar d ∨ c = hexDigitCharU d

theorem printsAs_facts (d : Nat) (hd : d < 16) (c : Char) (h : PrintsAs d c) :
    hexVal c = some d ∧ c ≠ '_' ∧ c ≠ '+' ∧ c ≠ '-' ∧ c ≠ 'x' ∧ c ≠ 'X' ∧ isPySpace c = false ∧ (c = '0' → d = 0) := by
  rcases h with rfl | rfl <;> interval_cases d <;> decide

theorem hexDigits_lt (n : Nat) : ∀ d ∈ hexDigits n, d < 16 := by
  induction n using hexDigits.induct with
  | case1 n h => intro d hd; rw [hexDigits, dif_pos h] at hd; simp at hd; omega
  | case2 n h ih =>
    intro d hd
    rw [hexDigits, dif_neg h] at hd
    simp only [List.mem_append, List.mem_singleton] at hd
    rcases hd with hd | rfl
    · exact ih d hd
    · omega

theorem hexDigits_value (n : Nat) : digitsValue (hexDigits n) = n := by
  induction n using hexDigits.induct with
  | case1 n h => rw [hexDigits, dif_pos h]; simp [digitsValue]
  | case2 n h ih => rw [hexDigits, dif_neg h, digitsValue_append, ih]; omega

theorem hexDigits_ne_nil (n : Nat) : hexDigits n ≠ [] := by
  rw [hexDigits]; split <;> simp

/-- no leading zero unless the number is zero (and then the string is exactly "0") -/
theorem hexDigits_head (n : Nat) : ∃ h t, hexDigits n = h :: t ∧ (h = 0 → n = 0 ∧ t = []) := by
  induction n using hexDigits.induct with
  | case1 n h => exact ⟨n, [], by rw [hexDigits, dif_pos h], fun h0 => ⟨h0, rfl⟩⟩
  | case2 n h ih =>
    obtain ⟨h', t', e, hz⟩ := ih
    refine ⟨h', t' ++ [n % 16], by rw [hexDigits, dif_neg h, e]; rfl, ?_⟩
    intro h0
    have := (hz h0).1
    omega

theorem parseDigits_digits (ds : List Nat) (cs : List Char) (hf : List.Forall₂ PrintsAs ds cs) (hlt : ∀ d ∈ ds, d < 16)
    (acc : Option Nat) :
    parseDigits cs false acc = if ds = [] then acc else some (ds.foldl (fun a d => 16 * a + d) (acc.getD 0)) := by
  induction hf generalizing acc with
  | nil => simp [parseDigits]
  | @cons d c ds cs hdc _ ih =>
    obtain ⟨hv, hu, _⟩ := printsAs_facts d (hlt d (by simp)) c hdc
    unfold parseDigits
    rw [if_neg hu, hv]
    simp only
    rw [ih (fun x hx => hlt x (by simp [hx]))]
    by_cases hnil : ds = []
    · subst hnil; simp
    · simp [hnil]

theorem dropWhile_head_false {α : Type} (p : α → Bool) (a : α) (l : List α) (h : p a = false) :
    (a :: l).dropWhile p = a :: l := by
  simp [List.dropWhile_cons, h]

theorem forall₂_right_mem {α β : Type} {R : α → β → Prop} {l₁ : List α} {l₂ : List β} (h : List.Forall₂ R l₁ l₂)
    {b : β} (hb : b ∈ l₂) : ∃ a, a ∈ l₁ ∧ R a b := by
  induction h with
  | nil => simp at hb
  | @cons a b' l₁ l₂ hab _ ih =>
    simp only [List.mem_cons] at hb
    rcases hb with rfl | hb
    · exact ⟨a, by simp, hab⟩
    · obtain ⟨a', ha', hr⟩ := ih hb
      exact ⟨a', by simp [ha'], hr⟩

/-- the general parsing statement: any non-empty string of hex digits (either case, leading zeros allowed) parses to its value -/
theorem parse_digit_string (ds : List Nat) (cs : List Char) (hf : List.Forall₂ PrintsAs ds cs) (hlt : ∀ d ∈ ds, d < 16)
    (hne : ds ≠ []) : parseHexChars cs = some (digitsValue ds : Int) := by
  -- first and last characters are digits
  obtain ⟨d0, ds', rfl⟩ := List.exists_cons_of_ne_nil hne
  cases hf with
  | @cons _ c0 _ cs' h0 hrest =>
  have f0 := printsAs_facts d0 (hlt d0 (by simp)) c0 h0
  have hall : ∀ c ∈ c0 :: cs', isPySpace c = false := by
    intro c hc
    have hf' : List.Forall₂ PrintsAs (d0 :: ds') (c0 :: cs') := List.Forall₂.cons h0 hrest
    obtain ⟨d, hd, hp⟩ := forall₂_right_mem hf' hc
    exact (printsAs_facts d (hlt d hd) c hp).2.2.2.2.2.2.1
  unfold parseHexChars
  dsimp only
  rw [dropWhile_head_false _ _ _ f0.2.2.2.2.2.2.1]
  have hrev : ((c0 :: cs').reverse.dropWhile isPySpace).reverse = c0 :: cs' := by
    have hne' : (c0 :: cs').reverse ≠ [] := by simp
    obtain ⟨x, xs, hx⟩ := List.exists_cons_of_ne_nil hne'
    rw [hx, dropWhile_head_false _ _ _ (hall x (by
      have : x ∈ (c0 :: cs').reverse := by rw [hx]; simp
      exact List.mem_reverse.1 this)), ← hx, List.reverse_reverse]
  rw [hrev]
  have hsign : stripSign (c0 :: cs') = (false, c0 :: cs') := by
    simp only [stripSign, if_neg f0.2.2.1, if_neg f0.2.2.2.1]
  rw [hsign]
  simp only
  have hpre : stripPrefix (c0 :: cs') = c0 :: cs' := by
    cases hrest with
    | nil => rfl
    | @cons d1 c1 _ _ h1 _ =>
      have f1 := printsAs_facts d1 (hlt d1 (by simp)) c1 h1
      have hc : ¬ (c0 = '0' ∧ (c1 = 'x' ∨ c1 = 'X')) := by
        rintro ⟨_, hx | hx⟩
        · exact f1.2.2.2.2.1 hx
        · exact f1.2.2.2.2.2.1 hx
      simp only [stripPrefix, if_neg hc]
  rw [hpre]
  simp only
  rw [if_neg f0.2.1]
  rw [parseDigits_digits (d0 :: ds') (c0 :: cs') (List.Forall₂.cons h0 hrest) hlt none, if_neg (by simp)]
  simp [digitsValue]

end A5
