/-
  Structure of the ring returned by `cell_to_boundary` (facts that hold whatever the floating-point values are).
  Core Lean only.
-/
import A5.Model.CellGeo

namespace A5.CellGeo

theorem FHR_eq' : FHR = 2 := by decide
open A5.F A5.Geo

theorem mapM_length {α β : Type} (f : α → PyM β) : ∀ (l : List α) (l' : List β), l.mapM f = .ok l' → l'.length = l.length := by
  intro l
  induction l with
  | nil => intro l' h; rw [List.mapM_nil] at h; cases h; rfl
  | cons a l ih =>
    intro l' h
    rw [List.mapM_cons] at h
    cases hfa : f a with
    | error e => rw [hfa] at h; cases h
    | ok b =>
      rw [hfa] at h
      cases hl : l.mapM f with
      | error e => rw [hl] at h; cases h
      | ok bs =>
        rw [hl] at h
        cases h
        simp [ih bs hl]

theorem mkShape_length (vs : List V2) : (mkShape vs).length = vs.length := by
  unfold mkShape; split <;> simp

theorem triangle_mode_off : Tables.TRIANGLE_MODE = false := by decide

theorem planar_mkShape_length {α : Type} [Hilbert.Scalar α] (vs : List (α × α)) : (Planar.mkShape vs).length = vs.length := by
  unfold Planar.mkShape; split <;> simp

theorem place_length {α : Type} [Hilbert.Scalar α] (base : List (α × α)) (basis : α × α × α × α) (sl sr : α × α) (rot : α × α × α × α)
    (h : Nat) (a : Hilbert.Anchor) : (Planar.place base basis sl sr rot h a).length = base.length := by
  unfold Planar.place
  simp only [Planar.transform, Planar.scaleBy, Planar.translate, List.length_map]
  repeat' split
  all_goals simp [Planar.rotate180, Planar.reflectY, Planar.translate, planar_mkShape_length]

theorem pentagonVertices_length (h q : Nat) (a : Hilbert.Anchor) : (pentagonVertices h q a).length = 5 := by
  unfold pentagonVertices
  rw [place_length]
  simp [triangle_mode_off, pentagonBase]

theorem normalizeLongitudes_length (c : List V2) : (normalizeLongitudes c).length = c.length := by
  unfold normalizeLongitudes; simp

/-- normalisation never touches a latitude -/
theorem normalizeLongitudes_lat (c : List V2) : (normalizeLongitudes c).map (·.2) = c.map (·.2) := by
  unfold normalizeLongitudes; simp [Function.comp_def]

theorem splitEdges_length (vs : List V2) (seg : Int) : (splitEdges vs seg).length = vs.length * (max seg 1).toNat := by
  unfold splitEdges
  by_cases h : seg ≤ 1
  · rw [if_pos h, show (max seg 1) = 1 by omega]; simp
  · rw [if_neg h, mkShape_length, List.length_flatMap]
    have hs : (max seg 1).toNat = seg.toNat := by omega
    rw [hs]
    have hconst : ∀ i, (fun i => ((vs.getD i (0, 0)) :: List.map (fun j => v2lerp (vs.getD i (0, 0)) (vs.getD ((i + 1) % vs.length) (0, 0))
        (Float.ofNat (j + 1) / Float.ofNat seg.toNat)) (List.range (seg.toNat - 1))).length) i = seg.toNat := by
      intro i; simp; omega
    simp only [List.length_cons, List.length_map, List.length_range]
    have : ∀ (l : List Nat) (c : Nat), (l.map (fun _ => c)).sum = l.length * c := by
      intro l c; induction l with
      | nil => simp
      | cons a l ih => simp [ih, Nat.add_mul, Nat.add_comm]
    rw [show (fun (a : Nat) => seg.toNat - 1 + 1) = (fun _ => seg.toNat) from by funext a; omega, this, List.length_range]

/-- number of corner points of a cell's planar shape -/
def cornerCount (res : Int) : Nat := if res = 1 then 3 else 5

theorem getPentagon_length (c : Cell) (p : List V2) (h : getPentagon c = .ok p) : p.length = cornerCount c.res := by
  unfold getPentagon at h
  simp only [FHR_eq'] at h
  unfold cornerCount
  by_cases h1 : c.res = 2 - 1
  · rw [if_pos h1] at h
    have := Except.ok.inj h
    subst this
    rw [if_pos (by omega)]
    simp [quintantShape, transformShape, mkShape_length, triangleBase]
  · rw [if_neg h1] at h
    by_cases h0 : c.res = 2 - 2
    · rw [if_pos h0] at h
      have := Except.ok.inj h
      subst this
      rw [if_neg (by omega)]
      unfold faceVertices
      rw [mkShape_length, List.length_map, List.length_range]
    · rw [if_neg h0] at h
      rw [if_neg (by omega)]
      cases ha : Hilbert.sToAnchor c.S.toNat (c.res - 2 + 1).toNat (segmentToQuintant c.segment c.origin).2 with
      | error e => rw [ha] at h; cases h
      | ok a =>
        rw [ha] at h
        have := Except.ok.inj h
        subst this
        exact pentagonVertices_length _ _ _

/-- the segment count actually used -/
def effectiveSegments (res : Int) (segments : Option Int) : Int :=
  match segments with
  | some s => s
  | none => max 1 (if 6 - res ≥ 0 then (2 : Int) ^ (6 - res).toNat else 0)

theorem bind_eq_ok {α β : Type} {x : PyM α} {f : α → PyM β} {b : β} (h : x.bind f = .ok b) : ∃ a, x = .ok a ∧ f a = .ok b := by
  cases x with
  | error e => cases h
  | ok a => exact ⟨a, rfl, h⟩

/-- C12 structure: vertex count, closure, and latitudes of the ring -/
theorem ring_structure (cellId : Nat) (closed : Bool) (segments : Option Int) (ring : List V2) (cell : Cell)
    (hne : cellId ≠ WORLD_CELL) (hd : deserialize cellId = .ok cell) (hr : cellToBoundary cellId closed segments = .ok ring) :
    ring.length = cornerCount cell.res * (max (effectiveSegments cell.res segments) 1).toNat + (if closed then 1 else 0) ∧
      (closed = true → ring.head? = ring.getLast?) := by
  unfold cellToBoundary at hr
  rw [if_neg hne, hd] at hr
  obtain ⟨cell', hc', hr⟩ := bind_eq_ok hr
  cases hc'
  obtain ⟨pent, hp, hr⟩ := bind_eq_ok hr
  have hlen := getPentagon_length cell pent hp
  obtain ⟨boundary, hm, hr⟩ := bind_eq_ok hr
  have hb : boundary.length = cornerCount cell.res * (max (effectiveSegments cell.res segments) 1).toNat := by
    rw [mapM_length _ _ _ hm, splitEdges_length, hlen]; rfl
  have hnl := normalizeLongitudes_length boundary
  cases closed with
  | false =>
    simp only [Bool.false_eq_true, if_false] at hr
    cases hr
    exact ⟨by simp [hnl, hb], by intro h; cases h⟩
  | true =>
    simp only [if_true] at hr
    cases hr
    refine ⟨by simp [hnl, hb], fun _ => ?_⟩
    cases hnb : normalizeLongitudes boundary with
    | nil => simp
    | cons x xs =>
      have e : ((x :: xs) ++ [(x :: xs).headD (0, 0)]).reverse = x :: (xs.reverse ++ [x]) := by simp
      rw [e]
      have e2 : x :: (xs.reverse ++ [x]) = (x :: xs.reverse) ++ [x] := rfl
      rw [e2, List.getLast?_concat]
      rfl

end A5.CellGeo
