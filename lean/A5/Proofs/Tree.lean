/-
  `cell_to_parent` / `cell_to_children` on well-formed ids, in terms of the fields (t, S, r).
-/
import A5.Proofs.Codec
import A5.Model.CellInfo
import Mathlib.Data.List.Nodup

-- keep `2 ^ n : Nat` on the core instance (Mathlib would elaborate it through `Monoid.npow`)
attribute [local instance 2000] instPowNat

namespace A5
open A5.Bits

/-! ### ancestors -/

/-- top-6 value of the resolution-`a` ancestor of a resolution-`r` cell with top-6 value `t` -/
def ancT (t r a : Nat) : Nat := if a = 0 ∧ r ≠ 0 then t / 5 else t

/-- position of the resolution-`a` ancestor -/
def ancS (S r a : Nat) : Nat := if a < 2 then 0 else S / 4 ^ (r - a)

theorem npos_mul (a r : Nat) (ha : 2 ≤ a) (har : a ≤ r) : npos r = npos a * 4 ^ (r - a) := by
  unfold npos; rw [if_neg (by omega), if_neg (by omega), ← Nat.pow_add]; congr 1; omega

theorem npos_pos (r : Nat) : 0 < npos r := by
  unfold npos; split
  · omega
  · exact Nat.pow_pos (by omega)

theorem WF_anc {t S r : Nat} (h : WF t S r) (a : Nat) (ha : a ≤ r) : WF (ancT t r a) (ancS S r a) a := by
  obtain ⟨hr, hS, ht⟩ := h
  refine ⟨by omega, ?_, ?_⟩
  · unfold ancS
    by_cases h2 : a < 2
    · rw [if_pos h2]; exact npos_pos a
    · rw [if_neg h2]
      rw [npos_mul a r (by omega) ha] at hS
      exact Nat.div_lt_of_lt_mul (by rw [Nat.mul_comm]; exact hS)
  · unfold ancT
    by_cases h0 : r = 0
    · have : a = 0 := by omega
      subst this; subst h0; simpa using ht
    · rw [if_neg h0] at ht
      by_cases ha0 : a = 0
      · subst ha0; simp [h0]; omega
      · rw [if_neg (by omega), if_neg ha0]; exact ht

theorem topOf_decode_anc (t r a : Nat) (ht : t < 60) (hr : r ≠ 0) :
    topOf (t / 5) (((t : Int) + firstQuintant (t / 5)) % 5) a = ancT t r a := by
  unfold topOf ancT
  by_cases h0 : a = 0
  · subst h0; simp [hr]
  · rw [if_neg h0, if_neg (by omega)]
    have hq := firstQuintant_range (t / 5) (by omega)
    omega

theorem cellToParent_encId {t S r : Nat} (h : WF t S r) (a : Nat) (ha : a ≤ r) :
    cellToParent (encId t S r) (some (a : Int)) = .ok (encId (ancT t r a) (ancS S r a) a) := by
  unfold cellToParent
  rw [deserialize_encId h]
  simp only [Except.bind, Option.getD_some, WORLD_CELL_eq]
  have hres : (decodeCell t S r).res = (r : Int) := by unfold decodeCell; split <;> simp_all
  rw [hres]
  have c1 : ¬ ((a : Int) = -1) := by omega
  have c2 : ¬ ((a : Int) < -1) := by omega
  have c3 : ¬ ((a : Int) > (r : Int)) := by omega
  simp only [c1, c2, c3, if_false]
  by_cases hEq : a = r
  · subst hEq
    simp only [if_true]
    obtain ⟨hr, hS, ht⟩ := h
    have e1 : ancT t a a = t := by unfold ancT; rw [if_neg (by omega)]
    have e2 : ancS S a a = S := by
      unfold ancS
      by_cases h2 : a < 2
      · have := npos_small a S h2 hS
        subst this
        rw [if_pos h2]
      · rw [if_neg h2, Nat.sub_self, Nat.pow_zero, Nat.div_one]
    rw [e1, e2]
  · have c4 : ¬ ((a : Int) = (r : Int)) := by omega
    simp only [c4, if_false]
    obtain ⟨hr, hS, ht⟩ := h
    have hr0 : r ≠ 0 := by omega
    rw [if_neg hr0] at ht
    have hwfa := WF_anc ⟨hr, hS, by rw [if_neg hr0]; exact ht⟩ a ha
    have hd : decodeCell t S r =
        { origin := t / 5, segment := ((t : Int) + firstQuintant (t / 5)) % 5, S := (if r < 2 then 0 else (S : Int)), res := (r : Int) } := by
      unfold decodeCell; rw [if_neg hr0]
    rw [hd]
    simp only
    have hSdiv : (if r < 2 then (0 : Int) else (S : Int)) / 2 ^ (2 * ((r : Int) - (a : Int))).toNat = ((ancS S r a : Nat) : Int) := by
      have e : (2 * ((r : Int) - (a : Int))).toNat = 2 * (r - a) := by omega
      rw [e]
      by_cases hr2 : r < 2
      · rw [if_pos hr2]; unfold ancS; rw [if_pos (by omega)]; simp
      · rw [if_neg hr2]
        unfold ancS
        by_cases ha2 : a < 2
        · rw [if_pos ha2]
          have : S < 2 ^ (2 * (r - a)) := by
            have h1 : npos r ≤ 2 ^ (2 * (r - a)) := by
              unfold npos; rw [if_neg hr2, show (4:Nat) = 2 ^ 2 by rfl, ← Nat.pow_mul]
              exact Nat.pow_le_pow_right (by omega) (by omega)
            omega
          have : S / 2 ^ (2 * (r - a)) = 0 := Nat.div_eq_of_lt this
          exact_mod_cast this
        · rw [if_neg ha2, show (4:Nat) = 2 ^ 2 by rfl, ← Nat.pow_mul]
          push_cast; rfl
    rw [hSdiv, ← topOf_decode_anc t r a ht hr0]
    exact serialize_ok _ _ _ a (by omega) hwfa.2.1

theorem ancT_self (t r : Nat) : ancT t r r = t := by unfold ancT; rw [if_neg (by omega)]

theorem ancS_self {S r : Nat} (hS : S < npos r) : ancS S r r = S := by
  unfold ancS
  by_cases h2 : r < 2
  · rw [if_pos h2]; exact (npos_small r S h2 hS).symm
  · rw [if_neg h2, Nat.sub_self, Nat.pow_zero, Nat.div_one]

theorem cellToParent_world_target (n : Nat) (c : Cell) (h : deserialize n = .ok c) :
    cellToParent n (some (-1)) = .ok 0 := by
  unfold cellToParent; rw [h]; simp [Except.bind]

theorem cellToParent_too_coarse {t S r : Nat} (h : WF t S r) (a : Int) (ha : a < -1) :
    cellToParent (encId t S r) (some a) = .error .value := by
  unfold cellToParent
  rw [deserialize_encId h]
  simp only [Except.bind, Option.getD_some]
  rw [if_neg (by omega), if_pos ha]

theorem decodeCell_res (t S r : Nat) : (decodeCell t S r).res = (r : Int) := by
  unfold decodeCell; split <;> simp_all

theorem cellToParent_finer {t S r : Nat} (h : WF t S r) (a : Int) (ha : (r : Int) < a) :
    cellToParent (encId t S r) (some a) = .error .value := by
  unfold cellToParent
  rw [deserialize_encId h]
  simp only [Except.bind, Option.getD_some, decodeCell_res]
  rw [if_neg (by omega), if_neg (by omega), if_pos (by omega)]

/-- default target = one level up -/
theorem cellToParent_default {t S r : Nat} (h : WF t S r) :
    cellToParent (encId t S r) none = cellToParent (encId t S r) (some ((r : Int) - 1)) := by
  unfold cellToParent
  rw [deserialize_encId h]
  simp only [Except.bind, Option.getD_some, Option.getD_none, decodeCell_res]

/-! ### ancestors compose -/

theorem anc_anc_T (t r a b : Nat) (hab : a ≤ b) (hbr : b ≤ r) : ancT (ancT t r b) b a = ancT t r a := by
  unfold ancT
  by_cases ha : a = 0 <;> by_cases hb : b = 0 <;> by_cases hr : r = 0 <;> simp_all

theorem anc_anc_S (S r a b : Nat) (hab : a ≤ b) (hbr : b ≤ r) : ancS (ancS S r b) b a = ancS S r a := by
  unfold ancS
  by_cases ha : a < 2
  · simp [ha]
  · rw [if_neg ha, if_neg ha, if_neg (by omega), Nat.div_div_eq_div_mul, ← Nat.pow_add]
    congr 2; omega

/-! ### children -/

theorem mapM_ok {α β : Type} (f : α → PyM β) (g : α → β) (l : List α) (h : ∀ x ∈ l, f x = .ok (g x)) :
    l.mapM f = .ok (l.map g) := by
  induction l with
  | nil => rfl
  | cons a l ih =>
    rw [List.mapM_cons, h a (by simp), ih (fun x hx => h x (by simp [hx]))]
    rfl

/-- the ids `encId T (S*cnt + i) b`, `i < cnt`, in increasing `i` -/
def childIds (T S cnt b : Nat) : List Nat := (List.range cnt).map fun i => encId T (S * cnt + i) b

/-- relative segment written for (origin, segment) -/
def segN (o : Nat) (s : Int) : Nat := ((s - firstQuintant o + 5) % 5).toNat

/-- what `serialize` is asked for inside the children loop -/
theorem serialize_child (o : Nat) (s : Int) (S d i b : Nat) (hb : b ≤ 29) (hpos : S * 4 ^ d + i < npos b) :
    serialize { origin := o, segment := s, S := (S : Int) * 2 ^ (2 * d) + (i : Int), res := (b : Int) }
      = .ok (encId (topOf o s b) (S * 4 ^ d + i) b) := by
  have : (S : Int) * 2 ^ (2 * d) + (i : Int) = ((S * 4 ^ d + i : Nat) : Int) := by
    push_cast; rw [show (4:Int) = 2 ^ 2 by rfl, ← Int.pow_mul]
  rw [this]
  exact serialize_ok o s _ b hb hpos

theorem child_pos_lt {S r b i : Nat} (hr1 : 1 ≤ r) (hrb : r ≤ b) (hS : S < npos r) (hi : i < 4 ^ (b - r)) :
    S * 4 ^ (b - r) + i < npos b := by
  by_cases h2 : r < 2
  · have hr : r = 1 := by omega
    subst hr
    have := npos_small 1 S (by omega) hS
    subst this
    by_cases hb : b < 2
    · have : b = 1 := by omega
      subst this
      have hi' : i < 1 := by simpa using hi
      unfold npos; simp; omega
    · unfold npos; rw [if_neg hb]; simpa using hi
  · rw [npos_mul r b (by omega) hrb]
    have : (S + 1) * 4 ^ (b - r) ≤ npos r * 4 ^ (b - r) := Nat.mul_le_mul_right _ hS
    rw [Nat.add_mul, Nat.one_mul] at this
    omega

theorem cellToChildren_self {t S r : Nat} (h : WF t S r) :
    cellToChildren (encId t S r) (some (r : Int)) = .ok [encId t S r] := by
  unfold cellToChildren
  rw [deserialize_encId h]
  simp only [Except.bind, Option.getD_some, decodeCell_res, MAXR_eq]
  have := h.1
  rw [if_neg (by omega), if_neg (by omega)]
  simp only [if_true]

theorem cellToChildren_coarser {t S r : Nat} (h : WF t S r) (b : Int) (hb : b < (r : Int)) :
    cellToChildren (encId t S r) (some b) = .error .value := by
  unfold cellToChildren
  rw [deserialize_encId h]
  simp only [Except.bind, Option.getD_some, decodeCell_res]
  rw [if_pos hb]

theorem cellToChildren_too_fine {t S r : Nat} (h : WF t S r) (b : Int) (hb : 30 < b) :
    cellToChildren (encId t S r) (some b) = .error .value := by
  unfold cellToChildren
  rw [deserialize_encId h]
  simp only [Except.bind, Option.getD_some, decodeCell_res, MAXR_eq]
  have := h.1
  rw [if_neg (by omega), if_pos hb]

/-- children of a cell of resolution ≥ 1: same top-6 value, position `S*4^d + i` -/
theorem cellToChildren_hilbert {t S r : Nat} (h : WF t S r) (hr1 : 1 ≤ r) (b : Nat) (hrb : r < b) (hb : b ≤ 29) :
    cellToChildren (encId t S r) (some (b : Int)) = .ok (childIds t S (4 ^ (b - r)) b) := by
  unfold cellToChildren
  rw [deserialize_encId h]
  obtain ⟨hr, hS, ht⟩ := h
  have hr0 : r ≠ 0 := by omega
  rw [if_neg hr0] at ht
  have hd : decodeCell t S r =
      { origin := t / 5, segment := ((t : Int) + firstQuintant (t / 5)) % 5, S := (if r < 2 then 0 else (S : Int)), res := (r : Int) } := by
    unfold decodeCell; rw [if_neg hr0]
  rw [hd]
  simp only [Except.bind, Option.getD_some, MAXR_eq, FHR_eq]
  have c1 : ¬ ((b : Int) < (r : Int)) := by omega
  have c2 : ¬ ((b : Int) > 30) := by omega
  have c3 : ¬ ((b : Int) = (r : Int)) := by omega
  have c4 : ¬ ((r : Int) = -1) := by omega
  have c5 : ¬ ((r : Int) = 0) := by omega
  simp only [c1, c2, c3, c4, c5, if_false, false_and, false_or]
  have hmax : max (r : Int) (2 - 1) = (r : Int) := by omega
  have hd0 : max (0 : Int) ((b : Int) - (r : Int)) = ((b - r : Nat) : Int) := by omega
  rw [hmax, hd0]
  simp only [Int.toNat_natCast, show (2 * ((b - r : Nat) : Int)).toNat = 2 * (b - r) by omega]
  have hS' : (if r < 2 then (0:Int) else (S:Int)) = (S : Int) := by
    by_cases hr2 : r < 2
    · have := npos_small r S hr2 hS
      subst this; simp
    · rw [if_neg hr2]
  rw [hS']
  simp only [childTriples, List.flatMap_cons, List.flatMap_nil, List.append_nil]
  rw [mapM_ok _ (fun p : Nat × Int × Nat => encId t (S * 4 ^ (b - r) + p.2.2) b)]
  · simp only [childIds, List.map_map]; rfl
  · intro x hx
    simp only [List.mem_map, List.mem_range] at hx
    obtain ⟨i, hi, rfl⟩ := hx
    simp only
    rw [serialize_child _ _ S (b - r) i b hb (child_pos_lt hr1 (by omega) hS hi)]
    have := topOf_decode_anc t r b ht hr0
    unfold ancT at this
    rw [if_neg (by omega)] at this
    rw [this]

/-- the fan-out part of `cell_to_children` (world cell and resolution-0 cells): every origin × segment × position -/
theorem children_fan (os : List Nat) (segs : List Int) (b : Nat) (hb1 : 1 ≤ b) (hb : b ≤ 29) :
    (childTriples os segs (4 ^ (b - 1))).mapM
        (fun p : Nat × Int × Nat => serialize { origin := p.1, segment := p.2.1, S := (0 : Int) * 2 ^ (2 * (b - 1)) + (p.2.2 : Int), res := (b : Int) })
      = .ok (os.flatMap fun o => segs.flatMap fun s => childIds (topOf o s b) 0 (4 ^ (b - 1)) b) := by
  rw [mapM_ok _ (fun p : Nat × Int × Nat => encId (topOf p.1 p.2.1 b) (0 * 4 ^ (b - 1) + p.2.2) b)]
  · simp only [childTriples, childIds, List.map_flatMap, List.map_map]; rfl
  · intro x hx
    simp only [childTriples, List.mem_flatMap, List.mem_map, List.mem_range] at hx
    obtain ⟨o, _, s, _, i, hi, rfl⟩ := hx
    simp only
    have := serialize_child o s 0 (b - 1) i b hb (by
      have : npos b = 4 ^ (b - 1) := by
        unfold npos
        by_cases h2 : b < 2
        · have : b = 1 := by omega
          subst this; simp
        · rw [if_neg h2]
      rw [this]; omega)
    simpa using this

theorem deserialize_world : deserialize 0 = .ok { origin := 0, segment := 0, S := 0, res := -1 } := by decide

theorem cellToChildren_world_zero :
    cellToChildren 0 (some 0) = .ok ((List.range 12).map fun o => encId o 0 0) := by decide

theorem cellToChildren_world (b : Nat) (hb1 : 1 ≤ b) (hb : b ≤ 29) :
    cellToChildren 0 (some (b : Int)) =
      .ok ((List.range 12).flatMap fun o => ([0, 1, 2, 3, 4] : List Int).flatMap fun s => childIds (topOf o s b) 0 (4 ^ (b - 1)) b) := by
  unfold cellToChildren
  rw [deserialize_world]
  simp only [Except.bind, Option.getD_some, MAXR_eq, FHR_eq, ORIGIN_IDS_eq]
  have c1 : ¬ ((b : Int) < -1) := by omega
  have c2 : ¬ ((b : Int) > 30) := by omega
  have c3 : ¬ ((b : Int) = -1) := by omega
  have c4 : (b : Int) > 0 := by omega
  simp only [c1, c2, c3, c4, if_false, if_true, true_and, true_or]
  have hd0 : max (0 : Int) ((b : Int) - max (-1) (2 - 1)) = ((b - 1 : Nat) : Int) := by omega
  rw [hd0]
  simp only [Int.toNat_natCast, show (2 * ((b - 1 : Nat) : Int)).toNat = 2 * (b - 1) by omega]
  exact children_fan (List.range 12) [0, 1, 2, 3, 4] b hb1 hb

theorem cellToChildren_face (t : Nat) (ht : t < 12) (b : Nat) (hb1 : 1 ≤ b) (hb : b ≤ 29) :
    cellToChildren (encId t 0 0) (some (b : Int)) =
      .ok (([0, 1, 2, 3, 4] : List Int).flatMap fun s => childIds (topOf t s b) 0 (4 ^ (b - 1)) b) := by
  have hwf : WF t 0 0 := ⟨by omega, by decide, by simpa using ht⟩
  unfold cellToChildren
  rw [deserialize_encId hwf]
  have hd : decodeCell t 0 0 = { origin := t, segment := 0, S := 0, res := 0 } := by
    unfold decodeCell; simp
  rw [hd]
  simp only [Except.bind, Option.getD_some, MAXR_eq, FHR_eq]
  have c1 : ¬ ((b : Int) < 0) := by omega
  have c2 : ¬ ((b : Int) > 30) := by omega
  have c3 : ¬ ((b : Int) = 0) := by omega
  have c4 : ¬ ((0 : Int) = -1) := by omega
  simp only [c1, c2, c3, c4, if_false, if_true, false_and, false_or]
  have hd0 : max (0 : Int) ((b : Int) - max 0 (2 - 1)) = ((b - 1 : Nat) : Int) := by omega
  rw [hd0]
  simp only [Int.toNat_natCast, show (2 * ((b - 1 : Nat) : Int)).toNat = 2 * (b - 1) by omega]
  have := children_fan [t] [0, 1, 2, 3, 4] b hb1 hb
  simpa using this

/-! ### the children list as a set: exactly the descendants -/

theorem mem_childIds {T S cnt b x : Nat} : x ∈ childIds T S cnt b ↔ ∃ i, i < cnt ∧ x = encId T (S * cnt + i) b := by
  simp only [childIds, List.mem_map, List.mem_range]
  constructor
  · rintro ⟨i, hi, rfl⟩; exact ⟨i, hi, rfl⟩
  · rintro ⟨i, hi, rfl⟩; exact ⟨i, hi, rfl⟩

theorem childIds_length (T S cnt b : Nat) : (childIds T S cnt b).length = cnt := by
  simp [childIds]

theorem childIds_nodup {T S cnt b : Nat} (hwf : ∀ i, i < cnt → WF T (S * cnt + i) b) : (childIds T S cnt b).Nodup := by
  unfold childIds
  refine List.Nodup.map_on ?_ List.nodup_range
  intro i hi j hj e
  have := encId_inj (hwf i (List.mem_range.1 hi)) (hwf j (List.mem_range.1 hj)) e
  omega

/-- `d` (fields t' S' at resolution b) descends from the resolution-`r` cell with fields t S -/
def DescOf (t S r t' S' b : Nat) : Prop := ancT t' b r = t ∧ ancS S' b r = S

theorem npos_eq_pow (b : Nat) (hb : 1 ≤ b) : npos b = 4 ^ (b - 1) := by
  unfold npos
  by_cases h2 : b < 2
  · have : b = 1 := by omega
    subst this; simp
  · rw [if_neg h2]

/-- resolution ≥ 1: the children list is exactly the set of well-formed descendants -/
theorem mem_children_hilbert {t S r b : Nat} (h : WF t S r) (hr1 : 1 ≤ r) (hrb : r < b) (hb : b ≤ 29) (x : Nat) :
    x ∈ childIds t S (4 ^ (b - r)) b ↔ ∃ t' S', WF t' S' b ∧ x = encId t' S' b ∧ DescOf t S r t' S' b := by
  rw [mem_childIds]
  obtain ⟨hr, hS, ht⟩ := h
  have hr0 : r ≠ 0 := by omega
  rw [if_neg hr0] at ht
  constructor
  · rintro ⟨i, hi, rfl⟩
    refine ⟨t, S * 4 ^ (b - r) + i, ⟨hb, child_pos_lt hr1 (by omega) hS hi, by rw [if_neg (by omega)]; exact ht⟩, rfl, ?_, ?_⟩
    · unfold ancT; rw [if_neg (by omega)]
    · unfold ancS
      by_cases h2 : r < 2
      · rw [if_pos h2]; exact (npos_small r S h2 hS).symm
      · rw [if_neg h2, Nat.mul_comm, Nat.mul_add_div (Nat.pow_pos (by omega)), Nat.div_eq_of_lt hi, Nat.add_zero]
  · rintro ⟨t', S', ⟨_, hS', ht'⟩, rfl, hT, hSS⟩
    unfold ancT at hT; rw [if_neg (by omega)] at hT
    subst hT
    refine ⟨S' % 4 ^ (b - r), Nat.mod_lt _ (Nat.pow_pos (by omega)), ?_⟩
    congr 1
    unfold ancS at hSS
    by_cases h2 : r < 2
    · rw [if_pos h2] at hSS
      subst hSS
      have hr1' : r = 1 := by omega
      subst hr1'
      rw [npos_eq_pow b (by omega)] at hS'
      rw [Nat.zero_mul, Nat.zero_add, Nat.mod_eq_of_lt hS']
    · rw [if_neg h2] at hSS
      subst hSS
      rw [Nat.mul_comm, Nat.div_add_mod]

theorem hilbert_children_wf {t S r b : Nat} (h : WF t S r) (hr1 : 1 ≤ r) (hrb : r < b) (hb : b ≤ 29) :
    ∀ i, i < 4 ^ (b - r) → WF t (S * 4 ^ (b - r) + i) b := by
  intro i hi
  obtain ⟨hr, hS, ht⟩ := h
  rw [if_neg (by omega)] at ht
  exact ⟨hb, child_pos_lt hr1 (by omega) hS hi, by rw [if_neg (by omega)]; exact ht⟩

/-- the segments 0..4 hit every relative segment exactly once -/
theorem topOf_fan (o : Nat) (ho : o < 12) (b : Nat) (hb : b ≠ 0) (T : Nat) :
    (∃ s, s ∈ ([0, 1, 2, 3, 4] : List Int) ∧ topOf o s b = T) ↔ T / 5 = o := by
  have hq := firstQuintant_range o ho
  unfold topOf; simp only [if_neg hb]
  constructor
  · rintro ⟨s, _, rfl⟩; omega
  · intro hT
    refine ⟨(((T % 5 : Nat) : Int) + firstQuintant o) % 5, ?_, ?_⟩
    · have h5 : 0 ≤ (((T % 5 : Nat) : Int) + firstQuintant o) % 5 ∧ (((T % 5 : Nat) : Int) + firstQuintant o) % 5 < 5 := by omega
      generalize (((T % 5 : Nat) : Int) + firstQuintant o) % 5 = v at h5
      obtain ⟨h0, h5⟩ := h5
      have : v = 0 ∨ v = 1 ∨ v = 2 ∨ v = 3 ∨ v = 4 := by omega
      simp only [List.mem_cons, List.not_mem_nil, or_false]
      exact this
    · omega

theorem topOf_inj_seg (o : Nat) (ho : o < 12) (b : Nat) (hb : b ≠ 0) (s₁ s₂ : Int)
    (h₁ : s₁ ∈ ([0, 1, 2, 3, 4] : List Int)) (h₂ : s₂ ∈ ([0, 1, 2, 3, 4] : List Int))
    (e : topOf o s₁ b = topOf o s₂ b) : s₁ = s₂ := by
  have hq := firstQuintant_range o ho
  unfold topOf at e; rw [if_neg hb, if_neg hb] at e
  simp only [List.mem_cons, List.not_mem_nil, or_false] at h₁ h₂
  omega

/-- fan-out lists: membership -/
theorem mem_fan (os : List Nat) (hos : ∀ o ∈ os, o < 12) (b : Nat) (hb1 : 1 ≤ b) (hb : b ≤ 29) (x : Nat) :
    x ∈ (os.flatMap fun o => ([0, 1, 2, 3, 4] : List Int).flatMap fun s => childIds (topOf o s b) 0 (4 ^ (b - 1)) b)
      ↔ ∃ t' S', WF t' S' b ∧ x = encId t' S' b ∧ t' / 5 ∈ os := by
  simp only [List.mem_flatMap, mem_childIds]
  constructor
  · rintro ⟨o, ho, s, hs, i, hi, rfl⟩
    have hT := (topOf_fan o (hos o ho) b (by omega) (topOf o s b)).1 ⟨s, hs, rfl⟩
    refine ⟨topOf o s b, 0 * 4 ^ (b - 1) + i, ⟨hb, by rw [npos_eq_pow b hb1]; omega, topOf_lt o s b (hos o ho)⟩, rfl, by rw [hT]; exact ho⟩
  · rintro ⟨t', S', ⟨_, hS', ht'⟩, rfl, hmem⟩
    obtain ⟨s, hs, hTs⟩ := (topOf_fan (t' / 5) (hos _ hmem) b (by omega) t').2 rfl
    rw [npos_eq_pow b hb1] at hS'
    exact ⟨t' / 5, hmem, s, hs, S', hS', by rw [hTs, Nat.zero_mul, Nat.zero_add]⟩

theorem fan_nodup (os : List Nat) (hos : ∀ o ∈ os, o < 12) (hnd : os.Nodup) (b : Nat) (hb1 : 1 ≤ b) (hb : b ≤ 29) :
    (os.flatMap fun o => ([0, 1, 2, 3, 4] : List Int).flatMap fun s => childIds (topOf o s b) 0 (4 ^ (b - 1)) b).Nodup := by
  have hwf : ∀ o ∈ os, ∀ s : Int, ∀ i, i < 4 ^ (b - 1) → WF (topOf o s b) (0 * 4 ^ (b - 1) + i) b := by
    intro o ho s i hi
    exact ⟨hb, by rw [npos_eq_pow b hb1]; omega, topOf_lt o s b (hos o ho)⟩
  unfold List.Nodup
  rw [List.pairwise_flatMap]
  constructor
  · intro o ho
    rw [List.pairwise_flatMap]
    constructor
    · intro s _
      exact childIds_nodup (hwf o ho s)
    · have : ([0, 1, 2, 3, 4] : List Int).Nodup := by decide
      refine List.Pairwise.imp_of_mem ?_ this
      intro s₁ s₂ h₁ h₂ hne x hx y hy hxy
      rw [mem_childIds] at hx hy
      obtain ⟨i, hi, rfl⟩ := hx
      obtain ⟨j, hj, rfl⟩ := hy
      have := (encId_inj (hwf o ho s₁ i hi) (hwf o ho s₂ j hj) hxy).1
      exact hne (topOf_inj_seg o (hos o ho) b (by omega) s₁ s₂ h₁ h₂ this)
  · refine List.Pairwise.imp_of_mem ?_ hnd
    intro o₁ o₂ h₁ h₂ hne x hx y hy hxy
    simp only [List.mem_flatMap, mem_childIds] at hx hy
    obtain ⟨s₁, hs₁, i, hi, rfl⟩ := hx
    obtain ⟨s₂, hs₂, j, hj, rfl⟩ := hy
    have := (encId_inj (hwf o₁ h₁ s₁ i hi) (hwf o₂ h₂ s₂ j hj) hxy).1
    have e₁ := (topOf_fan o₁ (hos o₁ h₁) b (by omega) _).1 ⟨s₁, hs₁, rfl⟩
    have e₂ := (topOf_fan o₂ (hos o₂ h₂) b (by omega) _).1 ⟨s₂, hs₂, rfl⟩
    rw [this] at e₁
    exact hne (e₁.symm.trans e₂)

theorem fan_length (os : List Nat) (b : Nat) :
    (os.flatMap fun o => ([0, 1, 2, 3, 4] : List Int).flatMap fun s => childIds (topOf o s b) 0 (4 ^ (b - 1)) b).length
      = os.length * (5 * 4 ^ (b - 1)) := by
  induction os with
  | nil => simp
  | cons o os ih =>
    rw [List.flatMap_cons, List.length_append, ih]
    simp [childIds_length, Nat.add_mul]
    omega

/-! ### enumeration of a whole level -/

@[simp] theorem CIFHR_eq : CIFHR = 2 := by decide

theorem getNumCells_nat (r : Nat) : getNumCells (r : Int) = if r = 0 then 12 else 60 * 4 ^ (r - 1) := by
  unfold getNumCells
  rw [if_neg (by omega)]
  by_cases h : r = 0
  · subst h; simp
  · rw [if_neg (by omega), if_neg h]; congr 2; omega

theorem validId_res {x : Nat} {r : Nat} (hv : ValidId x) (hr : getResolution x = (r : Int)) :
    ∃ t S, WF t S r ∧ x = encId t S r := by
  rcases hv with rfl | ⟨t, S, r', hwf, rfl⟩
  · rw [getResolution_zero] at hr; omega
  · rw [getResolution_encId hwf] at hr
    have : r' = r := by omega
    subst this
    exact ⟨t, S, hwf, rfl⟩

theorem world_children_enumeration (r : Nat) (hr : r ≤ 29) :
    ∃ L, cellToChildren WORLD_CELL (some (r : Int)) = .ok L ∧ L.Nodup ∧ L.length = getNumCells r ∧
      ∀ x, x ∈ L ↔ (ValidId x ∧ getResolution x = (r : Int)) := by
  rw [WORLD_CELL_eq]
  by_cases h0 : r = 0
  · subst h0
    refine ⟨_, cellToChildren_world_zero, ?_, by decide, ?_⟩
    · refine List.Nodup.map_on ?_ List.nodup_range
      intro i hi j hj e
      have hi' := List.mem_range.1 hi
      have hj' := List.mem_range.1 hj
      exact (encId_inj (t := i) (S := 0) (r := 0) ⟨by omega, by decide, by simpa using hi'⟩
        (t' := j) (S' := 0) (r' := 0) ⟨by omega, by decide, by simpa using hj'⟩ e).1
    · intro x
      simp only [List.mem_map, List.mem_range]
      constructor
      · rintro ⟨o, ho, rfl⟩
        have hwf : WF o 0 0 := ⟨by omega, by decide, by simpa using ho⟩
        exact ⟨Or.inr ⟨o, 0, 0, hwf, rfl⟩, getResolution_encId hwf⟩
      · rintro ⟨hv, hres⟩
        obtain ⟨t, S, hwf, rfl⟩ := validId_res hv hres
        have hS := npos_small 0 S (by omega) hwf.2.1
        subst hS
        exact ⟨t, by simpa using hwf.2.2, rfl⟩
  · have hr1 : 1 ≤ r := by omega
    have hos : ∀ o ∈ List.range 12, o < 12 := fun o ho => List.mem_range.1 ho
    refine ⟨_, cellToChildren_world r hr1 hr, fan_nodup _ hos List.nodup_range r hr1 hr, ?_, ?_⟩
    · rw [fan_length, getNumCells_nat, if_neg h0, List.length_range]; omega
    · intro x
      rw [mem_fan _ hos r hr1 hr]
      constructor
      · rintro ⟨t', S', hwf, rfl, _⟩
        exact ⟨Or.inr ⟨t', S', r, hwf, rfl⟩, getResolution_encId hwf⟩
      · rintro ⟨hv, hres⟩
        obtain ⟨t, S, hwf, rfl⟩ := validId_res hv hres
        have ht := hwf.2.2
        rw [if_neg h0] at ht
        exact ⟨t, S, hwf, rfl, List.mem_range.2 (by omega)⟩

end A5
