/-
  Order structure of ids, child counts, stride and first-child test on well-formed ids.
-/
import A5.Proofs.Tree

-- keep `2 ^ n : Nat` on the core instance (Mathlib would elaborate it through `Monoid.npow`)
attribute [local instance 2000] instPowNat

namespace A5
open A5.Bits

/-! ### numeric order of ids of one resolution = lexicographic order of (top6, position) -/

theorem encId_add (t S i r : Nat) : encId t (S + i) r = encId t S r + i * 2 ^ (mpos r + 1) := by
  unfold encId; rw [Nat.add_mul]; omega

theorem encId_lt_of_top {t S t' S' r : Nat} (h : WF t S r) (h' : WF t' S' r) (hlt : t < t') :
    encId t S r < encId t' S' r := by
  have hl := low_lt_of_WF h
  unfold encId
  have : (t + 1) * 2 ^ 58 ≤ t' * 2 ^ 58 := Nat.mul_le_mul_right _ hlt
  rw [Nat.add_mul, Nat.one_mul] at this
  generalize 2 ^ (mpos r + 1) = P at *
  generalize 2 ^ mpos r = Q at *
  omega

theorem encId_lt_of_pos {t S S' r : Nat} (hlt : S < S') : encId t S r < encId t S' r := by
  unfold encId
  have : (S + 1) * 2 ^ (mpos r + 1) ≤ S' * 2 ^ (mpos r + 1) := Nat.mul_le_mul_right _ hlt
  rw [Nat.add_mul, Nat.one_mul] at this
  have hp := Nat.two_pow_pos (mpos r + 1)
  generalize 2 ^ (mpos r + 1) = P at *
  generalize 2 ^ mpos r = Q at *
  omega

theorem encId_le_iff {t S t' S' r : Nat} (h : WF t S r) (h' : WF t' S' r) :
    encId t S r ≤ encId t' S' r ↔ t < t' ∨ (t = t' ∧ S ≤ S') := by
  constructor
  · intro hle
    by_cases htt : t < t'
    · exact Or.inl htt
    · right
      have hge : t' ≤ t := by omega
      by_cases heq : t = t'
      · subst heq
        refine ⟨rfl, ?_⟩
        by_cases hS : S ≤ S'
        · exact hS
        · have := encId_lt_of_pos (t := t) (r := r) (show S' < S by omega)
          omega
      · have := encId_lt_of_top h' h (show t' < t by omega)
        omega
  · rintro (hlt | ⟨rfl, hS⟩)
    · exact Nat.le_of_lt (encId_lt_of_top h h' hlt)
    · rcases Nat.eq_or_lt_of_le hS with rfl | hS
      · exact Nat.le_refl _
      · exact Nat.le_of_lt (encId_lt_of_pos hS)

/-! ### child counts -/

theorem getNumChildren_nat (r b : Nat) (hrb : r < b) :
    getNumChildren (r : Int) (b : Int) = if 2 ≤ r then 4 ^ (b - r) else if r = 1 then 4 ^ (b - 1) else 5 * 4 ^ (b - 1) := by
  unfold getNumChildren
  rw [if_neg (by omega), if_neg (by omega), CIFHR_eq]
  by_cases h2 : 2 ≤ r
  · rw [if_pos (by omega), if_pos h2]; congr 1; omega
  · rw [if_neg (by omega), if_neg h2]
    have hb0 : b ≠ 0 := by omega
    have hpow := Nat.pow_pos (n := b - 1) (show 0 < 4 by omega)
    by_cases h1 : r = 1
    · subst h1
      rw [getNumCells_nat 1, getNumCells_nat b, if_neg hb0]
      simp only [if_true, show ¬ ((1:Nat) = 0) by omega, if_false, Nat.sub_self, Nat.pow_zero, Nat.mul_one]
      rw [if_neg (by omega)]
      omega
    · have h0 : r = 0 := by omega
      subst h0
      rw [getNumCells_nat 0, getNumCells_nat b, if_neg hb0]
      simp only [if_true]
      rw [if_neg (by omega), if_neg (by omega)]
      omega

theorem getNumChildren_self (r : Int) : getNumChildren r r = 1 := by
  unfold getNumChildren; rw [if_neg (by omega), if_pos rfl]

theorem getNumChildren_world (b : Nat) : getNumChildren (-1) (b : Int) = getNumCells (b : Int) := by
  unfold getNumChildren
  rw [if_neg (by omega), if_neg (by omega), CIFHR_eq, if_neg (by omega)]
  have : getNumCells (-1) = 0 := by decide
  rw [this]; simp

theorem getNumChildren_coarser (r b : Int) (h : b < r) : getNumChildren r b = 0 := by
  unfold getNumChildren; rw [if_pos h]

/-! ### stride and first-child test -/

theorem getStride_hilbert (r : Nat) (h2 : 2 ≤ r) (hr : r ≤ 29) : getStride (r : Int) = .ok (2 ^ (mpos r + 1)) := by
  unfold getStride
  rw [if_neg (by omega), MAXR_eq, shl_ok 1 (2 * (30 - (r : Int))) (by omega), Nat.shiftLeft_eq, Nat.one_mul]
  congr 2
  unfold mpos; rw [if_neg (by omega), if_neg (by omega)]; omega

theorem getStride_low (r : Int) (h : r < 2) : getStride r = .ok (2 ^ 58) := by
  unfold getStride
  rw [if_pos h, HSB_eq, shl_ok _ _ (by omega), Nat.shiftLeft_eq, Nat.one_mul]; rfl

theorem isFirstChild_hilbert {t S r : Nat} (h : WF t S r) (h2 : 2 ≤ r) :
    isFirstChild (encId t S r) (some (r : Int)) = .ok (decide (S % 4 = 0)) := by
  unfold isFirstChild
  simp only [Option.getD_some, MAXR_eq]
  have hr29 := h.1
  rw [if_neg (by omega), shl_ok 3 (2 * (30 - (r : Int))) (by omega)]
  simp only [Except.bind]
  congr 1
  have hm : (2 * (30 - (r : Int))).toNat = mpos r + 1 := by
    unfold mpos; rw [if_neg (by omega), if_neg (by omega)]; have := h.1; omega
  rw [hm]
  -- index & (3 << (m+1)) = 0  ↔  (index / 2^(m+1)) % 4 = 0
  have hkey : (encId t S r &&& 3 <<< (mpos r + 1)) = ((encId t S r / 2 ^ (mpos r + 1)) % 4) * 2 ^ (mpos r + 1) := by
    apply Nat.eq_of_testBit_eq
    intro i
    rw [Nat.testBit_and, Nat.testBit_shiftLeft, Nat.testBit_mul_two_pow]
    by_cases hi : mpos r + 1 ≤ i
    · simp only [hi, decide_true, Bool.true_and]
      rw [show (4:Nat) = 2 ^ 2 by rfl, Nat.testBit_mod_two_pow, Nat.testBit_div_two_pow]
      have h3 : ∀ j, Nat.testBit 3 j = decide (j < 2) := by
        intro j
        match j with
        | 0 => rfl
        | 1 => rfl
        | j + 2 =>
          have : (3 : Nat) < 2 ^ (j + 2) := by
            have := Nat.pow_le_pow_right (show 0 < 2 by omega) (show 2 ≤ j + 2 by omega)
            omega
          rw [Nat.testBit_lt_two_pow this]; simp
      rw [h3, Nat.sub_add_cancel hi, Bool.and_comm]
    · simp [hi]
  rw [hkey]
  have hdiv : encId t S r / 2 ^ (mpos r + 1) = t * 2 ^ (57 - mpos r) + S := by
    unfold encId
    have hm57 := mpos_le r h.1
    rw [two_pow_58_split' (mpos r) hm57, ← Nat.mul_assoc, ← Nat.add_mul, Nat.add_comm, Nat.add_mul_div_right _ _ (Nat.two_pow_pos _),
      Nat.div_eq_of_lt (Nat.pow_lt_pow_right (by omega) (by omega)), Nat.zero_add]
  rw [hdiv]
  have h4 : (t * 2 ^ (57 - mpos r) + S) % 4 = S % 4 := by
    have : 57 - mpos r = 2 + (2 * r - 4) := by
      unfold mpos; rw [if_neg (by omega), if_neg (by omega)]; have := h.1; omega
    rw [this, Nat.pow_add, show t * (2 ^ 2 * 2 ^ (2 * r - 4)) = 4 * (t * 2 ^ (2 * r - 4)) by ring]
    omega
  rw [h4]
  have hp := Nat.two_pow_pos (mpos r + 1)
  by_cases hS : S % 4 = 0
  · simp [hS]
  · simp only [hS, decide_false]
    have : S % 4 * 2 ^ (mpos r + 1) ≠ 0 := Nat.mul_ne_zero hS (by omega)
    simpa using this

theorem isFirstChild_low {t S r : Nat} (h : WF t S r) (h2 : r < 2) :
    isFirstChild (encId t S r) (some (r : Int)) = .ok (t % (if r = 0 then 12 else 5) == 0) := by
  unfold isFirstChild
  simp only [Option.getD_some, HSB_eq]
  rw [if_pos (by omega), shr_ok _ _ (by omega)]
  simp only [Except.bind, show (58 : Int).toNat = 58 from rfl, encId_top h]
  by_cases h0 : r = 0
  · subst h0; simp
  · simp [h0]

end A5
