/-
  C07, structural half: the lattice cell of an index and the lattice cell of its parent index (s / 4) share everything except the last
  step of the digit transducer — the shifted digit strings are `o ++ [r₁, r₂]` and `o ++ [P]` with `(r₁, r₂) = shiftStep P c`.
-/
import A5.Proofs.HilbertFill

namespace A5.Hilbert

/-- the transducer run with its state exposed: emitted digits, pending digit, flips after the emitted digits -/
def run (pat : List Nat) (inv : Bool) : Nat → Flips → List Nat → List Nat × Nat × Flips
  | P, f, [] => ([], P, f)
  | P, f, c :: cs =>
    let r := shiftStep pat inv f P c
    let t := run pat inv r.2 (fmul f (qflips r.1)) cs
    (r.1 :: t.1, t.2.1, t.2.2)

theorem fwd_eq_run (pat : List Nat) (inv : Bool) : ∀ (cs : List Nat) (P : Nat) (f : Flips),
    fwd pat inv P f cs = (run pat inv P f cs).1 ++ [(run pat inv P f cs).2.1] := by
  intro cs
  induction cs with
  | nil => intro P f; simp [fwd, run]
  | cons c cs ih => intro P f; simp only [fwd, run, List.cons_append]; rw [ih]

theorem run_snoc (pat : List Nat) (inv : Bool) : ∀ (cs : List Nat) (P : Nat) (f : Flips) (c : Nat),
    run pat inv P f (cs ++ [c]) =
      (let t := run pat inv P f cs
       let r := shiftStep pat inv t.2.2 t.2.1 c
       (t.1 ++ [r.1], r.2, fmul t.2.2 (qflips r.1))) := by
  intro cs
  induction cs with
  | nil => intro P f c; simp [run]
  | cons d cs ih => intro P f c; simp only [List.cons_append, run]; rw [ih]

/-- flips after accumulating the emitted digits = the flips the transducer carries -/
theorem accumulate_run_flips (pat : List Nat) (inv : Bool) : ∀ (cs : List Nat) (P : Nat) (f : Flips) (off : Int × Int),
    (accumulate (run pat inv P f cs).1 f off).2 = (run pat inv P f cs).2.2 := by
  intro cs
  induction cs with
  | nil => intro P f off; simp [run, accumulate]
  | cons c cs ih => intro P f off; simp only [run, accumulate]; rw [ih]

theorem accumulate_append : ∀ (xs ys : List Nat) (f : Flips) (off : Int × Int),
    accumulate (xs ++ ys) f off = accumulate ys (accumulate xs f off).2 (accumulate xs f off).1 := by
  intro xs
  induction xs with
  | nil => intro ys f off; simp [accumulate]
  | cons x xs ih => intro ys f off; simp only [List.cons_append, accumulate]; rw [ih]

theorem digitsMSB_snoc (n s : Nat) (hs : s < 4 ^ (n + 1)) : digitsMSB s (n + 1) = digitsMSB (s / 4) n ++ [s % 4] := by
  have hs4 : s / 4 < 4 ^ n := by rw [Nat.pow_succ] at hs; omega
  rw [digitsMSB_eq _ _ hs, digitsMSB_eq _ _ hs4, List.range_succ_eq_map, List.map_cons, List.map_map, List.reverse_cons]
  congr 2
  · apply List.map_congr_left
    intro k _
    simp only [Function.comp, Nat.pow_succ]
    rw [Nat.mul_comm (4 ^ k) 4, ← Nat.div_div_eq_div_mul]
  · simp

/-- anchor built from a kj offset, a flip state and the last digits -/
def anchorOf (base : Int × Int) (f : Flips) (ds : List Nat) : Anchor :=
  let r := accumulate ds f base
  let ij := kjToIj r.1
  { k := ds.getLastD 0, i := ij.1, j := ij.2, flips := r.2 }

/-- C07 structure: parent and child cells differ only in the last transducer step -/
theorem parent_child_core (n s : Nat) (hn : 0 < n) (hs : s < 4 ^ (n + 1)) (inv flipIJ : Bool) :
    ∃ (base : Int × Int) (f : Flips) (P c : Nat), P < 4 ∧ c < 4 ∧
      sToAnchorCore (s / 4) n inv flipIJ = anchorOf base f [P] ∧
      sToAnchorCore s (n + 1) inv flipIJ = anchorOf base f
        [(shiftStep (if flipIJ then PATTERN_FLIPPED else PATTERN) inv f P c).1, (shiftStep (if flipIJ then PATTERN_FLIPPED else PATTERN) inv f P c).2] := by
  have hs4 : s / 4 < 4 ^ n := by rw [Nat.pow_succ] at hs; omega
  obtain ⟨hlen, hlt, _⟩ := digits_spec n (s / 4) hs4
  set pat := (if flipIJ then PATTERN_FLIPPED else PATTERN) with hpat
  cases hds : digitsMSB (s / 4) n with
  | nil => rw [hds] at hlen; simp at hlen; omega
  | cons d0 cs =>
    rw [hds] at hlt
    have hd0 : d0 < 4 := hlt d0 (by simp)
    have hcs : ∀ c ∈ cs, c < 4 := fun c hc => hlt c (by simp [hc])
    have hrun := fwd_digits flipIJ inv cs d0 (false, false) hd0 hcs
    rw [← hpat, fwd_eq_run] at hrun
    refine ⟨(accumulate (run pat inv d0 (false, false) cs).1 (false, false) (0, 0)).1, (run pat inv d0 (false, false) cs).2.2,
      (run pat inv d0 (false, false) cs).2.1, s % 4, ?_, by omega, ?_, ?_⟩
    · exact hrun.1 _ (by simp)
    · unfold sToAnchorCore anchorOf
      simp only [← hpat, hds, shiftAll, fwd_eq_run, accumulate_append, accumulate_run_flips, List.getLastD_concat]
      simp
    · unfold sToAnchorCore anchorOf
      rw [digitsMSB_snoc n s hs, hds]
      simp only [← hpat, List.cons_append, shiftAll, fwd_eq_run, run_snoc, accumulate_append, accumulate_run_flips]
      simp [accumulate]

end A5.Hilbert
