/-
  Order-theoretic facts about `Covers` on valid ids: it is a partial order whose up-sets are chains,
  every cell has a finest-level descendant, every non-world cell has a parent.
-/
import A5.Proofs.Canonical
import A5.Props.C06

attribute [local instance 2000] instPowNat

namespace A5

theorem covers_res {a b : Nat} (ha : ValidId a) (hb : ValidId b) (h : Covers a b) : getResolution a ≤ getResolution b := by
  rcases ha with rfl | ⟨ta, Sa, ra, h', rfl⟩
  · rw [getResolution_zero]; exact (getResolution_range b).1
  · rcases hb with rfl | ⟨t, S, r, hw, rfl⟩
    · exfalso
      have := covers_span (Or.inr ⟨ta, Sa, ra, h', rfl⟩) (Or.inl rfl) h
      -- only the world covers the world: spans
      unfold Covers at h
      rw [getResolution_encId h'] at h
      have : cellToParent 0 (some (ra : Int)) = .error .value := by
        unfold cellToParent
        rw [deserialize_world]
        simp only [Except.bind, Option.getD_some]
        rw [if_neg (by omega), if_neg (by omega), if_pos (by omega)]
      rw [this] at h; cases h
    · rw [covers_fields h' hw] at h
      rw [getResolution_encId h', getResolution_encId hw]; omega

theorem covers_world_only {c : Nat} (hc : ValidId c) (h : Covers c 0) : c = 0 := by
  have := covers_res hc (Or.inl rfl) h
  rw [getResolution_zero] at this
  rcases hc with rfl | ⟨t, S, r, hw, rfl⟩
  · rfl
  · rw [getResolution_encId hw] at this; omega

theorem covers_eq_of_res {a b : Nat} (ha : ValidId a) (hb : ValidId b) (h : Covers a b)
    (hr : getResolution a = getResolution b) : a = b := by
  rcases ha with rfl | ⟨ta, Sa, ra, h', rfl⟩
  · rcases hb with rfl | ⟨t, S, r, hw, rfl⟩
    · rfl
    · rw [getResolution_zero, getResolution_encId hw] at hr; omega
  · rcases hb with rfl | ⟨t, S, r, hw, rfl⟩
    · rw [getResolution_zero, getResolution_encId h'] at hr; omega
    · rw [getResolution_encId h', getResolution_encId hw] at hr
      have : ra = r := by omega
      subst this
      rw [covers_fields h' hw] at h
      obtain ⟨_, h1, h2⟩ := h
      rw [ancT_self] at h1; rw [ancS_self hw.2.1] at h2
      rw [h1, h2]

theorem covers_trans {a b c : Nat} (ha : ValidId a) (hb : ValidId b) (hc : ValidId c)
    (h1 : Covers a b) (h2 : Covers b c) : Covers a c := by
  rcases ha with rfl | ⟨ta, Sa, ra, wa, rfl⟩
  · rcases hc with rfl | ⟨t, S, r, wc, rfl⟩
    · exact covers_self (Or.inl rfl)
    · exact covers_world wc
  · rcases hb with rfl | ⟨tb, Sb, rb, wb, rfl⟩
    · have := covers_world_only (Or.inr ⟨ta, Sa, ra, wa, rfl⟩) h1
      exact absurd this (encId_ne_zero _ _ _)
    · rcases hc with rfl | ⟨t, S, r, wc, rfl⟩
      · have := covers_world_only (Or.inr ⟨tb, Sb, rb, wb, rfl⟩) h2
        exact absurd this (encId_ne_zero _ _ _)
      · rw [covers_fields wa wb] at h1
        rw [covers_fields wb wc] at h2
        rw [covers_fields wa wc]
        obtain ⟨l1, e1, e2⟩ := h1
        obtain ⟨l2, e3, e4⟩ := h2
        refine ⟨by omega, ?_, ?_⟩
        · rw [← anc_anc_T t r ra rb l1 l2, e3, e1]
        · rw [← anc_anc_S S r ra rb l1 l2, e4, e2]

/-- the cells covering one cell form a chain -/
theorem covers_chain {a b x : Nat} (ha : ValidId a) (hb : ValidId b) (hx : ValidId x)
    (h1 : Covers a x) (h2 : Covers b x) (hr : getResolution a ≤ getResolution b) : Covers a b := by
  rcases ha with rfl | ⟨ta, Sa, ra, wa, rfl⟩
  · rcases hb with rfl | ⟨tb, Sb, rb, wb, rfl⟩
    · exact covers_self (Or.inl rfl)
    · exact covers_world wb
  · rcases hb with rfl | ⟨tb, Sb, rb, wb, rfl⟩
    · rw [getResolution_zero, getResolution_encId wa] at hr; omega
    · rcases hx with rfl | ⟨t, S, r, wx, rfl⟩
      · have := covers_world_only (Or.inr ⟨ta, Sa, ra, wa, rfl⟩) h1
        exact absurd this (encId_ne_zero _ _ _)
      · rw [getResolution_encId wa, getResolution_encId wb] at hr
        rw [covers_fields wa wx] at h1
        rw [covers_fields wb wx] at h2
        rw [covers_fields wa wb]
        obtain ⟨l1, e1, e2⟩ := h1
        obtain ⟨l2, e3, e4⟩ := h2
        have hle : ra ≤ rb := by omega
        refine ⟨hle, ?_, ?_⟩
        · rw [← e3, anc_anc_T t r ra rb hle l2, e1]
        · rw [← e4, anc_anc_S S r ra rb hle l2, e2]

/-- every valid cell has a descendant at the finest level -/
theorem exists_leaf {c : Nat} (hc : ValidId c) : ∃ x, ValidId x ∧ getResolution x = 29 ∧ Covers c x := by
  rcases hc with rfl | ⟨t, S, r, w, rfl⟩
  · exact ⟨encId 0 0 29, Or.inr ⟨0, 0, 29, by decide, rfl⟩, getResolution_encId (by decide), covers_world (by decide)⟩
  · obtain ⟨L, _, _, hlen, hmem⟩ := C06.children_spec w 29 w.1 (Nat.le_refl _)
    have hpos : 0 < L.length := by
      rw [hlen]
      rcases Nat.eq_or_lt_of_le w.1 with h | h
      · subst h; rw [getNumChildren_self]; omega
      · rw [getNumChildren_nat r 29 h]
        have := Nat.pow_pos (n := 29 - r) (show 0 < 4 by omega)
        have := Nat.pow_pos (n := 29 - 1) (show 0 < 4 by omega)
        split <;> [omega; (split <;> omega)]
    obtain ⟨x, hx⟩ := List.exists_mem_of_length_pos hpos
    have := (hmem x).1 hx
    refine ⟨x, this.1, this.2.1, ?_⟩
    unfold Covers; rw [getResolution_encId w]; exact this.2.2

/-- every valid non-world cell has a parent one level up -/
theorem exists_parent {d : Nat} (hd : ValidId d) (h0 : d ≠ 0) :
    ∃ q, ValidId q ∧ getResolution q = getResolution d - 1 ∧ Covers q d := by
  rcases hd with rfl | ⟨t, S, r, w, rfl⟩
  · exact absurd rfl h0
  · rw [getResolution_encId w]
    by_cases hr0 : r = 0
    · subst hr0
      exact ⟨0, Or.inl rfl, by rw [getResolution_zero]; rfl, covers_world w⟩
    · have hwa := WF_anc w (r - 1) (by omega)
      refine ⟨encId (ancT t r (r - 1)) (ancS S r (r - 1)) (r - 1), Or.inr ⟨_, _, _, hwa, rfl⟩, ?_, ?_⟩
      · rw [getResolution_encId hwa]; omega
      · rw [covers_fields hwa w]; exact ⟨by omega, rfl, rfl⟩

end A5
