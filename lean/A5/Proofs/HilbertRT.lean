/-
  C18: the round trip `ij_to_s(anchor(s) + δ) = s` in exact arithmetic, for every level and every index.
-/
import A5.Proofs.HilbertG

namespace A5.Hilbert

/-! ### digits -/

theorem digitsLSB_eq : ∀ (need fuel s : Nat), need < fuel → s < 4 ^ need →
    digitsLSB fuel s need = (List.range need).map (fun k => s / 4 ^ k % 4) := by
  intro need
  induction need with
  | zero =>
    intro fuel s hf hs
    obtain ⟨f, rfl⟩ : ∃ f, fuel = f + 1 := ⟨fuel - 1, by omega⟩
    have : s = 0 := by simpa using hs
    subst this
    simp [digitsLSB]
  | succ need ih =>
    intro fuel s hf hs
    obtain ⟨f, rfl⟩ : ∃ f, fuel = f + 1 := ⟨fuel - 1, by omega⟩
    unfold digitsLSB
    rw [if_pos (Or.inr (by omega))]
    have hs4 : s / 4 < 4 ^ need := by
      rw [Nat.pow_succ] at hs; omega
    rw [show need + 1 - 1 = need by omega, ih f (s / 4) (by omega) hs4, List.range_succ_eq_map, List.map_cons, List.map_map]
    congr 1
    · simp
    · apply List.map_congr_left
      intro k _
      simp only [Function.comp, Nat.pow_succ, Nat.div_div_eq_div_mul, Nat.mul_comm]

theorem valueMSB_append (xs : List Nat) (d : Nat) : valueMSB (xs ++ [d]) = 4 * valueMSB xs + d := by
  simp [valueMSB, List.foldl_append]

theorem digits_spec (n s : Nat) (hs : s < 4 ^ n) :
    (digitsMSB s n).length = n ∧ (∀ d ∈ digitsMSB s n, d < 4) ∧ valueMSB (digitsMSB s n) = s := by
  unfold digitsMSB
  rw [digitsLSB_eq n (s + n + 1) s (by omega) hs]
  refine ⟨by simp, ?_, ?_⟩
  · intro d hd
    simp only [List.mem_reverse, List.mem_map] at hd
    obtain ⟨k, _, rfl⟩ := hd
    omega
  · have : ∀ (n s : Nat), s < 4 ^ n → valueMSB ((List.range n).map (fun k => s / 4 ^ k % 4)).reverse = s := by
      intro n
      induction n with
      | zero => intro s hs; have : s = 0 := by simpa using hs
                subst this; rfl
      | succ n ih =>
        intro s hs
        have hs4 : s / 4 < 4 ^ n := by rw [Nat.pow_succ] at hs; omega
        rw [List.range_succ_eq_map, List.map_cons, List.map_map, List.reverse_cons, valueMSB_append]
        have : (List.map ((fun k => s / 4 ^ k % 4) ∘ Nat.succ) (List.range n)) = (List.range n).map (fun k => (s / 4) / 4 ^ k % 4) := by
          apply List.map_congr_left
          intro k _
          simp only [Function.comp, Nat.pow_succ, Nat.div_div_eq_div_mul, Nat.mul_comm]
        rw [this, ih (s / 4) hs4]
        simp; omega
    exact this n s hs

/-! ### the accumulation loop computes G -/

/-- G in integer kj coordinates -/
def Gint : List Nat → Flips → (Int × Int) × Flips
  | [], f => ((0, 0), f)
  | d :: ds, f =>
    let r := Gint ds (fmul f (qflips d))
    let c := kjOf d f
    ((c.1 * 2 ^ ds.length + r.1.1, c.2 * 2 ^ ds.length + r.1.2), r.2)

theorem accumulate_eq : ∀ (ds : List Nat) (f : Flips) (k j : Int),
    accumulate ds f (k, j) = ((k * 2 ^ ds.length + (Gint ds f).1.1, j * 2 ^ ds.length + (Gint ds f).1.2), (Gint ds f).2) := by
  intro ds
  induction ds with
  | nil => intro f k j; simp [accumulate, Gint]
  | cons d ds ih =>
    intro f k j
    simp only [accumulate, Gint, List.length_cons]
    rw [ih]
    congr 2 <;> ring

theorem G_cast : ∀ (ds : List Nat) (f : Flips),
    (G ds f).1.1 = (((Gint ds f).1.1 - (Gint ds f).1.2 : Int) : ℚ) ∧ (G ds f).1.2 = (((Gint ds f).1.2 : Int) : ℚ) ∧
      (G ds f).2 = (Gint ds f).2 := by
  intro ds
  induction ds with
  | nil => intro f; simp [G, Gint]
  | cons d ds ih =>
    intro f
    obtain ⟨h1, h2, h3⟩ := ih (fmul f (qflips d))
    simp only [G, Gint, childQ, kjToIj]
    rw [h1, h2, h3]
    refine ⟨?_, ?_, rfl⟩
    · push_cast; ring
    · push_cast; ring

/-! ### the core round trip -/

theorem shiftAll_spec (flipIJ inv : Bool) (ds : List Nat) (h : ∀ d ∈ ds, d < 4) :
    (∀ x ∈ shiftAll (if flipIJ then PATTERN_FLIPPED else PATTERN) inv ds, x < 4) ∧
      (shiftAll (if flipIJ then PATTERN_FLIPPED else PATTERN) inv ds).length = ds.length := by
  cases ds with
  | nil => simp [shiftAll]
  | cons d rest =>
    have := fwd_digits flipIJ inv rest d (false, false) (h d (by simp)) (fun c hc => h c (by simp [hc]))
    simp only [shiftAll, List.length_cons]
    exact this

/-- `_ij_to_s(_s_to_anchor(s) + δ) = s` for every level `n`, every `s < 4^n`, both patterns, both `invert_j`,
    and every rational point δ strictly inside the unit triangle of the anchor's flip state -/
theorem roundtrip_core (n s : Nat) (hs : s < 4 ^ n) (inv flipIJ : Bool) (u v : ℚ)
    (hδ : Tri (sToAnchorCore s n inv flipIJ).flips 1 u v) :
    ijToSCore (((sToAnchorCore s n inv flipIJ).i : ℚ) + u) (((sToAnchorCore s n inv flipIJ).j : ℚ) + v) inv flipIJ n = s := by
  obtain ⟨hlen, hlt, hval⟩ := digits_spec n s hs
  obtain ⟨hslt, hslen⟩ := shiftAll_spec flipIJ inv (digitsMSB s n) hlt
  unfold sToAnchorCore at hδ ⊢
  simp only at hδ ⊢
  generalize hsd : shiftAll (if flipIJ then PATTERN_FLIPPED else PATTERN) inv (digitsMSB s n) = sd at *
  have hacc := accumulate_eq sd (false, false) 0 0
  obtain ⟨g1, g2, g3⟩ := G_cast sd (false, false)
  rw [hacc] at hδ ⊢
  simp only [Int.zero_mul, Int.zero_add, kjToIj] at hδ ⊢
  rw [← g3] at hδ
  unfold ijToSCore
  simp only [Scalar.ofInt, Int.cast_zero]
  have hn : n = sd.length := by rw [hslen, hlen]
  have hdec := decode_G sd hslt (false, false) 0 0 u v hδ
  rw [g1, g2] at hdec
  simp only [zero_add] at hdec
  rw [hn, hdec, ← hsd, unshift_shift flipIJ inv (digitsMSB s n) hlt, hval]

/-! ### the orientation wrappers -/

theorem FLIP_SHIFT_eq' : Tables.FLIP_SHIFT = (-1, 1) := by decide


theorem tri_swap_shift (f : Flips) (u v : ℚ) (h : Tri f 1 u v) :
    Tri f 1 (v + (((if f.1 then (1:Int) else 0) - (if f.2 then (1:Int) else 0) : Int) : ℚ))
            (u + (((if f.2 then (1:Int) else 0) - (if f.1 then (1:Int) else 0) : Int) : ℚ)) := by
  obtain ⟨fx, fy⟩ := f
  cases fx <;> cases fy <;> simp only [Tri] at h ⊢ <;> obtain ⟨h1, h2, h3⟩ := h <;> norm_num <;> refine ⟨?_, ?_, ?_⟩ <;> linarith

theorem tri_invert (f : Flips) (u v : ℚ) (h : Tri (!f.1, f.2) 1 u v) : Tri f 1 u (-u - v) := by
  obtain ⟨fx, fy⟩ := f
  cases fx <;> cases fy <;> simp only [Tri, Bool.not_false, Bool.not_true] at h ⊢ <;> obtain ⟨h1, h2, h3⟩ := h <;>
    refine ⟨?_, ?_, ?_⟩ <;> linarith

/-- the three orientation flags as the code computes them from the six orientation names -/
theorem orient_flags :
    (orientReverse "uv", orientInvertJ "uv", orientFlipIJ "uv") = (false, false, false) ∧
    (orientReverse "vu", orientInvertJ "vu", orientFlipIJ "vu") = (true, false, false) ∧
    (orientReverse "uw", orientInvertJ "uw", orientFlipIJ "uw") = (false, false, true) ∧
    (orientReverse "wu", orientInvertJ "wu", orientFlipIJ "wu") = (true, false, true) ∧
    (orientReverse "vw", orientInvertJ "vw", orientFlipIJ "vw") = (true, true, false) ∧
    (orientReverse "wv", orientInvertJ "wv", orientFlipIJ "wv") = (false, true, false) := by decide

/-- C18 round trip for an orientation with flags (rev, inv, flip), never both `inv` and `flip` -/
theorem roundtrip_flags (o : String) (hnot : ¬ (orientInvertJ o = true ∧ orientFlipIJ o = true))
    (n s : Nat) (hs : s < 4 ^ n) (a : Anchor) (ha : sToAnchor s n o = .ok a) (u v : ℚ) (hδ : Tri a.flips 1 u v) :
    ijToS ((a.i : ℚ) + u) ((a.j : ℚ) + v) n o = (s : Int) := by
  unfold sToAnchor at ha
  unfold ijToS
  simp only [FLIP_SHIFT_eq'] at ha
  generalize orientReverse o = rev at *
  generalize orientInvertJ o = inv at *
  generalize orientFlipIJ o = flip at *
  -- the index handed to the core
  have hpow : (0:Int) < 4 ^ n := by positivity
  have hsI : ¬ ((if rev = true then (4 ^ n : Int) - (s : Int) - 1 else (s : Int)) < 0) := by
    have : (s : Int) < 4 ^ n := by exact_mod_cast hs
    split <;> omega
  simp only [if_false, hsI] at ha
  set s' : Nat := (if rev = true then (4 ^ n : Int) - (s : Int) - 1 else (s : Int)).toNat with hs'
  have hs'lt : s' < 4 ^ n := by
    have : (s : Int) < 4 ^ n := by exact_mod_cast hs
    have h4 : ((4 ^ n : Nat) : Int) = 4 ^ n := by push_cast; rfl
    rw [hs']; cases rev <;> simp <;> omega
  have hback : (if rev = true then (4 ^ n : Int) - (s' : Int) - 1 else (s' : Int)) = (s : Int) := by
    have : (s : Int) < 4 ^ n := by exact_mod_cast hs
    rw [hs']; cases rev <;> simp <;> omega
  cases flip with
  | true =>
    have hinv : inv = false := by cases inv <;> simp_all
    subst hinv
    simp only [if_true, Bool.false_eq_true, if_false] at ha ⊢
    have ha' := Except.ok.inj ha
    subst ha'
    simp only at hδ ⊢
    have key := roundtrip_core n s' hs'lt false true _ _ (tri_swap_shift _ u v hδ)
    -- rewrite the swapped/shifted point into core offset + δ
    set c := sToAnchorCore s' n false true with hc
    have e1 : ((c.i : ℚ) + (v + (((if c.flips.1 then (1:Int) else 0) - (if c.flips.2 then (1:Int) else 0) : Int) : ℚ)))
        = (((if c.flips.2 = true then
              ((if c.flips.1 = true then (c.j + -1, c.i + 1) else (c.j, c.i)).1 - -1, (if c.flips.1 = true then (c.j + -1, c.i + 1) else (c.j, c.i)).2 - 1)
            else (if c.flips.1 = true then (c.j + -1, c.i + 1) else (c.j, c.i))).2 : Int) : ℚ) + v := by
      cases c.flips.1 <;> cases c.flips.2 <;> simp <;> ring
    have e2 : ((c.j : ℚ) + (u + (((if c.flips.2 then (1:Int) else 0) - (if c.flips.1 then (1:Int) else 0) : Int) : ℚ)))
        = (((if c.flips.2 = true then
              ((if c.flips.1 = true then (c.j + -1, c.i + 1) else (c.j, c.i)).1 - -1, (if c.flips.1 = true then (c.j + -1, c.i + 1) else (c.j, c.i)).2 - 1)
            else (if c.flips.1 = true then (c.j + -1, c.i + 1) else (c.j, c.i))).1 : Int) : ℚ) + u := by
      cases c.flips.1 <;> cases c.flips.2 <;> simp <;> ring
    rw [e1, e2] at key
    rw [key]
    exact hback
  | false =>
    simp only [Bool.false_eq_true, if_false] at ha ⊢
    cases inv with
    | false =>
      simp only [Bool.false_eq_true, if_false] at ha ⊢
      have ha' := Except.ok.inj ha
      subst ha'
      rw [roundtrip_core n s' hs'lt false false u v hδ]
      exact hback
    | true =>
      simp only [if_true] at ha ⊢
      have ha' := Except.ok.inj ha
      subst ha'
      simp only at hδ ⊢
      set c := sToAnchorCore s' n true false with hc
      have key := roundtrip_core n s' hs'lt true false u (-u - v) (tri_invert c.flips u v hδ)
      have e2 : (Scalar.sub (Scalar.ofInt (2 ^ n)) (Scalar.add ((c.i : ℚ) + u) ((((2 ^ n : Int) - (c.i + c.j) : Int) : ℚ) + v)) : ℚ)
          = (c.j : ℚ) + (-u - v) := by
        simp only [Scalar.sub, Scalar.add, Scalar.ofInt]; push_cast; ring
      rw [e2, key]
      exact hback

end A5.Hilbert
