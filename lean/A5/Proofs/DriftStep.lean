/-
  C07: every parent → child step of the real index → anchor function, at every level and for every orientation, is one of the 192 table
  steps: the centroid of the child cell differs from the centroid of the parent cell by `rot · δ / 2^n` with |δ|² ≤ 0.46² · (unit cell area).
-/
import A5.Proofs.DriftTable

namespace A5.Planar
open A5.Hilbert

theorem anchorOf_rel (base : Int × Int) (f : Flips) (ds : List Nat) :
    (anchorOf base f ds).i = (base.1 - base.2) * 2 ^ ds.length + (anchorOf (0, 0) f ds).i ∧
    (anchorOf base f ds).j = base.2 * 2 ^ ds.length + (anchorOf (0, 0) f ds).j ∧
    (anchorOf base f ds).flips = (anchorOf (0, 0) f ds).flips ∧ (anchorOf base f ds).k = (anchorOf (0, 0) f ds).k := by
  unfold anchorOf
  simp only [kjToIj]
  obtain ⟨b1, b2⟩ := base
  rw [accumulate_eq, accumulate_eq]
  simp only [Int.zero_mul, Int.zero_add]
  refine ⟨?_, ?_, ?_, ?_⟩ <;> first | trivial | rfl | ring

/-- the orientation wrapper of `s_to_anchor` at level n -/
def wrapN (inv flip : Bool) (n : Nat) (a : Anchor) : Anchor :=
  let a :=
    if flip then
      let i := a.j
      let j := a.i
      let (i, j) := if a.flips.1 then (i + (-1), j + 1) else (i, j)
      let (i, j) := if a.flips.2 then (i - (-1), j - 1) else (i, j)
      { a with i := i, j := j }
    else a
  if inv then { a with j := (2 ^ n : Int) - (a.i + a.j), flips := (!a.flips.1, a.flips.2) } else a

theorem sToAnchor_eq (s n : Nat) (o : String) (hs : s < 4 ^ n) :
    sToAnchor s n o = .ok (wrapN (orientInvertJ o) (orientFlipIJ o) n
      (sToAnchorCore (if orientReverse o then 4 ^ n - 1 - s else s) n (orientInvertJ o) (orientFlipIJ o))) := by
  unfold sToAnchor wrapN
  simp only [FLIP_SHIFT_eq', if_false]
  have hsI : (s : Int) < 4 ^ n := by exact_mod_cast hs
  have h4 : ((4 ^ n : Nat) : Int) = 4 ^ n := by push_cast; rfl
  have e : (if (if orientReverse o = true then (4 ^ n : Int) - (s : Int) - 1 else (s : Int)) < 0 then
      ((if orientReverse o = true then (4 ^ n : Int) - (s : Int) - 1 else (s : Int)) % (4 ^ n : Int)).toNat
      else (if orientReverse o = true then (4 ^ n : Int) - (s : Int) - 1 else (s : Int)).toNat)
      = (if orientReverse o then 4 ^ n - 1 - s else s) := by
    generalize orientReverse o = rev
    generalize hP : (4 : Int) ^ n = Pw at *
    generalize hQ : (4 : Nat) ^ n = Q at *
    cases rev
    · simp only [Bool.false_eq_true, if_false]; rw [if_neg (by omega)]; omega
    · simp only [if_true]; rw [if_neg (by omega)]; omega
  rw [e]

/-- the parent's internal index is the child's internal index divided by 4, reversed or not -/
theorem rev_parent (rev : Bool) (n s : Nat) (hs : s < 4 ^ (n + 1)) :
    (if rev then 4 ^ n - 1 - s / 4 else s / 4) = (if rev then 4 ^ (n + 1) - 1 - s else s) / 4 ∧
    (if rev then 4 ^ (n + 1) - 1 - s else s) < 4 ^ (n + 1) := by
  have : 4 ^ (n + 1) = 4 * 4 ^ n := by rw [Nat.pow_succ]; ring
  have hp : 0 < 4 ^ n := by positivity
  generalize (4:Nat) ^ n = Q at *
  cases rev <;> simp <;> omega

theorem step_flags (o : String) (hnot : ¬ (orientInvertJ o = true ∧ orientFlipIJ o = true))
    (n : Nat) (hn : 0 < n) (s : Nat) (hs : s < 4 ^ (n + 1)) (ac ap : Anchor)
    (hc : sToAnchor s (n + 1) o = .ok ac) (hp : sToAnchor (s / 4) n o = .ok ap) :
    ∃ δ : ℚ × ℚ, normsq δ ≤ kappa2 * unitArea ∧ ∀ rot : ℚ × ℚ × ℚ × ℚ,
      (cen (place baseQ basisQ slQ srQ rot (n + 1) ac)).1 - (cen (place baseQ basisQ slQ srQ rot n ap)).1
        = (applyMat rot (δ.1 / 2 ^ n, δ.2 / 2 ^ n)).1 ∧
      (cen (place baseQ basisQ slQ srQ rot (n + 1) ac)).2 - (cen (place baseQ basisQ slQ srQ rot n ap)).2
        = (applyMat rot (δ.1 / 2 ^ n, δ.2 / 2 ^ n)).2 := by
  have hs4 : s / 4 < 4 ^ n := by rw [Nat.pow_succ] at hs; omega
  rw [sToAnchor_eq s (n + 1) o hs] at hc
  rw [sToAnchor_eq (s / 4) n o hs4] at hp
  obtain ⟨e1, e2⟩ := rev_parent (orientReverse o) n s hs
  rw [e1] at hp
  generalize (if orientReverse o = true then 4 ^ (n + 1) - 1 - s else s) = s' at *
  generalize orientInvertJ o = inv at *
  generalize orientFlipIJ o = flip at *
  obtain ⟨base, f, P, c, hP, hc4, hpar, hchild⟩ := parent_child_core n s' hn e2 inv flip
  rw [hchild] at hc
  rw [hpar] at hp
  have hc' := (Except.ok.inj hc).symm
  have hp' := (Except.ok.inj hp).symm
  set pat := (if flip then PATTERN_FLIPPED else PATTERN) with hpat
  set r := shiftStep pat inv f P c with hr
  obtain ⟨ci, cj, cf, ck⟩ := anchorOf_rel base f [r.1, r.2]
  obtain ⟨pi, pj, pf, pk⟩ := anchorOf_rel base f [P]
  simp only [List.length_cons, List.length_nil] at ci cj pi pj
  obtain ⟨b1, b2⟩ := base
  simp only at ci cj pi pj
  -- which class of the table
  have hcls : ∃ cls : Fin 3, (cls == 1) = inv ∧ (cls == 2) = flip := by
    cases inv <;> cases flip
    · exact ⟨0, by decide, by decide⟩
    · exact ⟨2, by decide, by decide⟩
    · exact ⟨1, by decide, by decide⟩
    · exact absurd ⟨rfl, rfl⟩ hnot
  obtain ⟨cls, hci', hcf'⟩ := hcls
  have hb := table_bound cls f.1 f.2 ⟨P, hP⟩ ⟨c, hc4⟩
  simp only [hci', hcf', Prod.mk.eta] at hb
  refine ⟨tableδ inv flip f P c, hb, ?_⟩
  intro rot
  -- the common part (u, v) of the two offsets, per orientation class
  have key : ∃ u v : Int,
      ac.i = 2 * u + (wrap0 inv flip (anchorOf (0, 0) f [r.1, r.2])).i ∧ ac.j = 2 * v + (wrap0 inv flip (anchorOf (0, 0) f [r.1, r.2])).j ∧
      ap.i = u + (wrap0 inv flip (anchorOf (0, 0) f [P])).i ∧ ap.j = v + (wrap0 inv flip (anchorOf (0, 0) f [P])).j ∧
      ac.flips = (wrap0 inv flip (anchorOf (0, 0) f [r.1, r.2])).flips ∧ ac.k = (wrap0 inv flip (anchorOf (0, 0) f [r.1, r.2])).k ∧
      ap.flips = (wrap0 inv flip (anchorOf (0, 0) f [P])).flips ∧ ap.k = (wrap0 inv flip (anchorOf (0, 0) f [P])).k := by
    rw [hc', hp']
    cases flip with
    | true =>
      have : inv = false := by cases inv <;> simp_all
      subst this
      refine ⟨2 * b2, 2 * (b1 - b2), ?_⟩
      simp only [wrapN, wrap0, if_true, Bool.false_eq_true, if_false, cf, pf, ck, pk, ci, cj, pi, pj]
      refine ⟨?_, ?_, ?_, ?_, ?_, ?_, ?_, ?_⟩ <;>
        first
        | trivial
        | rfl
        | (cases (anchorOf (0, 0) f [r.1, r.2]).flips.1 <;> cases (anchorOf (0, 0) f [r.1, r.2]).flips.2 <;>
           cases (anchorOf (0, 0) f [P]).flips.1 <;> cases (anchorOf (0, 0) f [P]).flips.2 <;> simp <;> ring)
    | false =>
      cases inv with
      | false =>
        refine ⟨2 * (b1 - b2), 2 * b2, ?_⟩
        simp only [wrapN, wrap0, Bool.false_eq_true, if_false, cf, pf, ck, pk, ci, cj, pi, pj]
        refine ⟨?_, ?_, ?_, ?_, ?_, ?_, ?_, ?_⟩ <;> first | trivial | rfl | ring
      | true =>
        refine ⟨2 * (b1 - b2), 2 ^ n - 2 * b1, ?_⟩
        simp only [wrapN, wrap0, Bool.false_eq_true, if_false, if_true, cf, pf, ck, pk, ci, cj, pi, pj]
        refine ⟨?_, ?_, ?_, ?_, ?_, ?_, ?_, ?_⟩ <;> first | trivial | rfl | ring
  obtain ⟨u, v, k1, k2, k3, k4, k5, k6, k7, k8⟩ := key
  have := cen_diff baseQ baseQ_length basisQ slQ srQ rot n ac ap u v _ _ _ _ k1 k2 k3 k4
  simp only [k5, k6, k7, k8] at this
  exact this

end A5.Planar
