/-
  Spans at id level: `lo x`, `hi x` for any id, laminarity/monotonicity for valid ids, position of the sort key,
  and the spans of a complete sibling group.
-/
import A5.Proofs.Span

attribute [local instance 2000] instPowNat

namespace A5
open A5.Bits

def lo (x : Nat) : Nat :=
  if x = 0 then 0
  else loF (x >>> 58) ((x % 2 ^ 58) / 2 ^ (mpos (getResolution x).toNat + 1)) (getResolution x).toNat

def hi (x : Nat) : Nat :=
  if x = 0 then 60 * P28
  else hiF (x >>> 58) ((x % 2 ^ 58) / 2 ^ (mpos (getResolution x).toNat + 1)) (getResolution x).toNat

theorem lo_encId {t S r : Nat} (h : WF t S r) : lo (encId t S r) = loF t S r := by
  unfold lo
  rw [if_neg (encId_ne_zero t S r)]
  simp only [getResolution_encId h, Int.toNat_natCast, encId_top h, encId_low h, Bits.div_pos]

theorem hi_encId {t S r : Nat} (h : WF t S r) : hi (encId t S r) = hiF t S r := by
  unfold hi
  rw [if_neg (encId_ne_zero t S r)]
  simp only [getResolution_encId h, Int.toNat_natCast, encId_top h, encId_low h, Bits.div_pos]

theorem lo_world : lo 0 = 0 := by unfold lo; rw [if_pos rfl]
theorem hi_world : hi 0 = 60 * P28 := by unfold hi; rw [if_pos rfl]

theorem hiF_le {t S r : Nat} (h : WF t S r) : hiF t S r ≤ 60 * P28 := by
  unfold hiF
  by_cases h0 : r = 0
  · rw [if_pos h0]
    have ht : t < 12 := by have := h.2.2; rw [if_pos h0] at this; exact this
    exact Nat.mul_le_mul_right _ (by omega)
  · rw [if_neg h0]
    have hi := idx_lt h (by omega)
    have hw : 4 ^ (r - 1) * widthF r = P28 := by
      unfold widthF P28; rw [← Nat.pow_add]; congr 1; have := h.1; omega
    calc (idxF t S r + 1) * widthF r ≤ (60 * 4 ^ (r - 1)) * widthF r := Nat.mul_le_mul_right _ hi
      _ = 60 * P28 := by rw [Nat.mul_assoc, hw]

theorem lo_lt_hi_valid {x : Nat} (hv : ValidId x) : lo x < hi x := by
  rcases hv with rfl | ⟨t, S, r, h, rfl⟩
  · rw [lo_world, hi_world]; have : 0 < P28 := Nat.pow_pos (by omega); omega
  · rw [lo_encId h, hi_encId h]; exact lo_lt_hi t S r

/-- ancestors contain their descendants' spans -/
theorem covers_span {a x : Nat} (ha : ValidId a) (hx : ValidId x) (hc : Covers a x) : lo a ≤ lo x ∧ hi x ≤ hi a := by
  rcases hx with rfl | ⟨t, S, r, h, rfl⟩
  · -- x = world: only the world covers it
    rcases ha with rfl | ⟨ta, Sa, ra, h', rfl⟩
    · exact ⟨Nat.le_refl _, Nat.le_refl _⟩
    · exfalso
      unfold Covers at hc
      rw [getResolution_encId h'] at hc
      have : cellToParent 0 (some (ra : Int)) = .error .value := by
        unfold cellToParent
        rw [deserialize_world]
        simp only [Except.bind, Option.getD_some]
        rw [if_neg (by omega), if_neg (by omega), if_pos (by omega)]
      rw [this] at hc; cases hc
  · rcases ha with rfl | ⟨ta, Sa, ra, h', rfl⟩
    · rw [lo_world, hi_world, hi_encId h]; exact ⟨Nat.zero_le _, hiF_le h⟩
    · rw [covers_fields h' h] at hc
      obtain ⟨hle, hd⟩ := hc
      rw [lo_encId h, hi_encId h, lo_encId h', hi_encId h']
      rcases span_tri h' h hle with h1 | h1 | h1
      · exact h1.2
      · exact absurd hd h1.1
      · exact absurd hd h1.1

/-- laminar family: two valid ids are comparable or have disjoint spans -/
theorem laminar {a x : Nat} (ha : ValidId a) (hx : ValidId x) :
    Covers a x ∨ Covers x a ∨ hi a ≤ lo x ∨ hi x ≤ lo a := by
  rcases ha with rfl | ⟨ta, Sa, ra, h', rfl⟩
  · rcases hx with rfl | ⟨t, S, r, h, rfl⟩
    · left; unfold Covers; rw [getResolution_zero]; exact cellToParent_world_target _ _ deserialize_world
    · left; exact covers_world h
  · rcases hx with rfl | ⟨t, S, r, h, rfl⟩
    · right; left; exact covers_world h'
    · rw [lo_encId h, hi_encId h, lo_encId h', hi_encId h']
      by_cases hle : ra ≤ r
      · rcases span_tri h' h hle with h1 | h1 | h1
        · left; exact (covers_fields h' h).2 ⟨hle, h1.1⟩
        · right; right; right; exact h1.2
        · right; right; left; exact h1.2
      · rcases span_tri h h' (by omega) with h1 | h1 | h1
        · right; left; exact (covers_fields h h').2 ⟨by omega, h1.1⟩
        · right; right; left; exact h1.2
        · right; right; right; exact h1.2

@[simp] theorem hkey_world : hierarchicalKey 0 = 0 := by decide

/-- the sort key sits inside 4·span -/
theorem key_span {x : Nat} (hv : ValidId x) : 4 * lo x ≤ hierarchicalKey x ∧ hierarchicalKey x < 4 * hi x := by
  rcases hv with rfl | ⟨t, S, r, h, rfl⟩
  · rw [hkey_world, lo_world, hi_world]; have : 0 < P28 := Nat.pow_pos (by omega); omega
  · rw [lo_encId h, hi_encId h]
    unfold hierarchicalKey
    rw [getResolution_encId h]
    have hr := h.1
    by_cases h0 : r = 0
    · subst h0
      have hS := npos_small 0 S (by omega) h.2.1
      subst hS
      simp only [Nat.cast_zero, if_true, HSB_eq, show (58 : Int).toNat = 58 from rfl, encId_top h]
      unfold loF hiF encId mpos P28
      simp only [if_true, Nat.shiftLeft_eq]
      constructor <;> omega
    · rw [if_neg (by omega)]
      unfold loF hiF
      rw [if_neg h0, if_neg h0]
      unfold encId idxF widthF
      -- 2^58 = 4 * 4^(r-1) * 4^(29-r); 2^(m+1) = 4 * 4^(29-r) for r ≥ 2
      have e58 : (2:Nat) ^ 58 = 4 * (4 ^ (r - 1) * 4 ^ (29 - r)) := by
        rw [← Nat.pow_add, show r - 1 + (29 - r) = 28 by omega]; rfl
      by_cases h1 : r = 1
      · subst h1
        have hS := npos_small 1 S (by omega) h.2.1
        subst hS
        simp only [mpos]
        norm_num
        constructor <;> omega
      · have hm1 : mpos r + 1 = 2 + 2 * (29 - r) := by unfold mpos; rw [if_neg h0, if_neg h1]; omega
        have hm0 : mpos r = 1 + 2 * (29 - r) := by omega
        have em : (2:Nat) ^ (mpos r + 1) = 4 * 4 ^ (29 - r) := by
          rw [hm1, Nat.pow_add, Nat.pow_mul]
        have em' : (2:Nat) ^ mpos r = 2 * 4 ^ (29 - r) := by
          rw [hm0, Nat.pow_add, Nat.pow_mul]
        rw [e58, em, em']
        have hw : 0 < 4 ^ (29 - r) := Nat.pow_pos (by omega)
        generalize 4 ^ (29 - r) = W at *
        generalize 4 ^ (r - 1) = Q at *
        constructor
        · have : 4 * ((t * Q + S) * W) = t * (4 * (Q * W)) + S * (4 * W) := by ring
          omega
        · have : 4 * ((t * Q + S + 1) * W) = t * (4 * (Q * W)) + S * (4 * W) + 4 * W := by ring
          omega

end A5
