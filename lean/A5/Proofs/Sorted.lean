/-
  `compact` on antichains: the working list stays sorted by span (hence duplicate free and an antichain),
  and a pass that changes nothing leaves no complete sibling group.
-/
import A5.Proofs.SpanIds
import A5.Proofs.CompactProof

attribute [local instance 2000] instPowNat

namespace A5

/-- spans of a complete sibling group headed by the first child `c` -/
structure MergeSpans (c k s p : Nat) : Prop where
  lo_parent : lo p = lo c
  hi_parent : hi p = hi (c + (k - 1) * s)
  consecutive : ∀ j, j + 1 < k → hi (c + j * s) = lo (c + (j + 1) * s)

theorem idx_add (t S j r : Nat) : idxF t (S + j) r = idxF t S r + j := by unfold idxF; omega

theorem mergeSpans_hilbert {t S r : Nat} (h : WF t S r) (h2 : 2 ≤ r) (hS : S % 4 = 0) :
    MergeSpans (encId t S r) 4 (2 ^ (mpos r + 1)) (encId t (ancS S r (r - 1)) (r - 1)) := by
  obtain ⟨hr, hSlt, ht⟩ := h
  have hwf : WF t S r := ⟨hr, hSlt, ht⟩
  rw [if_neg (by omega)] at ht
  have hnp : npos r % 4 = 0 := by
    unfold npos; rw [if_neg (by omega)]
    obtain ⟨e, he⟩ : ∃ e, r - 1 = e + 1 := ⟨r - 2, by omega⟩
    rw [he, Nat.pow_succ]; omega
  have hsib : ∀ j, j < 4 → WF t (S + j) r := fun j hj => ⟨hr, by omega, by rw [if_neg (by omega)]; exact ht⟩
  have hanc : ancT t r (r - 1) = t := by unfold ancT; rw [if_neg (by omega)]
  have hwfp : WF t (ancS S r (r - 1)) (r - 1) := by
    have := WF_anc hwf (r - 1) (by omega); rwa [hanc] at this
  -- idx of the parent = idx / 4, and idx is a multiple of 4
  have hidx := idx_anc hwf (r - 1) (by omega) (by omega)
  rw [hanc, show r - (r - 1) = 1 by omega, Nat.pow_one] at hidx
  have hmod : idxF t S r % 4 = 0 := by
    unfold idxF
    obtain ⟨e, he⟩ : ∃ e, r - 1 = e + 1 := ⟨r - 2, by omega⟩
    rw [he, Nat.pow_succ, ← Nat.mul_assoc]; omega
  have hw : widthF (r - 1) = 4 * widthF r := by
    have := width_split (r - 1) r (by omega) hr
    rw [show r - (r - 1) = 1 by omega, Nat.pow_one] at this; exact this
  have hlo : ∀ j, j < 4 → lo (encId t S r + j * 2 ^ (mpos r + 1)) = (idxF t S r + j) * widthF r := by
    intro j hj
    rw [← encId_add, lo_encId (hsib j hj)]; unfold loF; rw [if_neg (by omega), idx_add]
  have hhi : ∀ j, j < 4 → hi (encId t S r + j * 2 ^ (mpos r + 1)) = (idxF t S r + j + 1) * widthF r := by
    intro j hj
    rw [← encId_add, hi_encId (hsib j hj)]; unfold hiF; rw [if_neg (by omega), idx_add]
  refine ⟨?_, ?_, ?_⟩
  · have := hlo 0 (by omega)
    simp only [Nat.zero_mul, Nat.add_zero] at this
    rw [this, lo_encId hwfp]; unfold loF; rw [if_neg (by omega), hidx, hw]
    have : idxF t S r = 4 * (idxF t S r / 4) := by omega
    generalize idxF t S r / 4 = q at *
    rw [this]; ring
  · rw [hhi 3 (by omega), hi_encId hwfp]; unfold hiF; rw [if_neg (by omega), hidx, hw]
    have : idxF t S r = 4 * (idxF t S r / 4) := by omega
    generalize idxF t S r / 4 = q at *
    rw [this]; ring
  · intro j hj
    rw [hhi j (by omega), hlo (j + 1) (by omega), Nat.add_assoc]

theorem mergeSpans_seg {t : Nat} (h : WF t 0 1) (ht5 : t % 5 = 0) :
    MergeSpans (encId t 0 1) 5 (2 ^ 58) (encId (t / 5) 0 0) := by
  have ht : t < 60 := by have := h.2.2; simpa using this
  have hwfp : WF (t / 5) 0 0 := ⟨by omega, by decide, by simp; omega⟩
  have hsib : ∀ j, j < 5 → WF (t + j) 0 1 := fun j hj => ⟨by omega, by decide, by simp; omega⟩
  have hlo : ∀ j, j < 5 → lo (encId t 0 1 + j * 2 ^ 58) = (t + j) * P28 := by
    intro j hj
    rw [← encId_add_top, lo_encId (hsib j hj)]; unfold loF idxF; simp [width_one]
  have hhi : ∀ j, j < 5 → hi (encId t 0 1 + j * 2 ^ 58) = (t + j + 1) * P28 := by
    intro j hj
    rw [← encId_add_top, hi_encId (hsib j hj)]; unfold hiF idxF; simp [width_one]
  refine ⟨?_, ?_, ?_⟩
  · have := hlo 0 (by omega)
    simp only [Nat.zero_mul, Nat.add_zero] at this
    rw [this, lo_encId hwfp]; unfold loF; rw [if_pos rfl]
    congr 1; omega
  · rw [hhi 4 (by omega), hi_encId hwfp]; unfold hiF; rw [if_pos rfl]
    congr 1; omega
  · intro j hj
    rw [hhi j (by omega), hlo (j + 1) (by omega), Nat.add_assoc]

theorem mergeSpans_face : MergeSpans (encId 0 0 0) 12 (2 ^ 58) 0 := by
  have hsib : ∀ j, j < 12 → WF (0 + j) 0 0 := fun j hj => ⟨by omega, by decide, by simp; omega⟩
  have hlo : ∀ j, j < 12 → lo (encId 0 0 0 + j * 2 ^ 58) = 5 * j * P28 := by
    intro j hj
    rw [← encId_add_top, lo_encId (hsib j hj)]; unfold loF; simp
  have hhi : ∀ j, j < 12 → hi (encId 0 0 0 + j * 2 ^ 58) = 5 * (j + 1) * P28 := by
    intro j hj
    rw [← encId_add_top, hi_encId (hsib j hj)]; unfold hiF; simp
  refine ⟨?_, ?_, ?_⟩
  · have := hlo 0 (by omega)
    simp only [Nat.zero_mul, Nat.add_zero] at this
    rw [this, lo_world]; simp
  · rw [hhi 11 (by omega), hi_world]
  · intro j hj
    rw [hhi j (by omega), hlo (j + 1) (by omega)]

/-- the group found by the first-child test comes with its spans -/
theorem mergeInfo_spans_of_first {t S r : Nat} (h : WF t S r) (hf : isFirstChild (encId t S r) (some (r : Int)) = .ok true) :
    ∃ k s p, MergeInfo (encId t S r) r k s p ∧ MergeSpans (encId t S r) k s p := by
  by_cases h2 : 2 ≤ r
  · rw [isFirstChild_hilbert h h2] at hf
    have hS : S % 4 = 0 := by simpa using Except.ok.inj hf
    exact ⟨_, _, _, mergeInfo_hilbert h h2 hS, mergeSpans_hilbert h h2 hS⟩
  · rw [isFirstChild_low h (by omega)] at hf
    have hS := npos_small r S (by omega) h.2.1
    subst hS
    by_cases h0 : r = 0
    · subst h0
      have ht : t % 12 = 0 := by simpa using Except.ok.inj hf
      have ht' : t < 12 := by have := h.2.2; simpa using this
      have : t = 0 := by omega
      subst this
      exact ⟨_, _, _, mergeInfo_face, mergeSpans_face⟩
    · have h1 : r = 1 := by omega
      subst h1
      have ht : t % 5 = 0 := by simpa using Except.ok.inj hf
      exact ⟨_, _, _, mergeInfo_seg h ht, mergeSpans_seg h ht⟩

/-- `has_all_siblings`, with the spans of the group when it is true -/
theorem hasAll_spec' {t S r : Nat} (h : WF t S r) (rest : List Nat) :
    ∃ b, hasAllSiblings (encId t S r) (r : Int) rest = .ok b ∧
      (b = true → ∃ k s p, MergeInfo (encId t S r) r k s p ∧ MergeSpans (encId t S r) k s p ∧ k ≤ rest.length + 1 ∧
        rest.take (k - 1) = (List.range (k - 1)).map (fun j => encId t S r + (j + 1) * s)) := by
  unfold hasAllSiblings
  simp only
  by_cases hk : expectedChildren (r : Int) ≤ rest.length + 1
  · rw [if_pos hk]
    obtain ⟨b, hb⟩ := isFirstChild_total h
    rw [hb, bind_ok]
    cases b with
    | false => exact ⟨false, by simp, by intro h; cases h⟩
    | true =>
      obtain ⟨k, s, p, mi, ms⟩ := mergeInfo_spans_of_first h hb
      rw [if_pos rfl, mi.stride, bind_ok]
      refine ⟨_, rfl, ?_⟩
      intro hsf
      rw [mi.expected] at hsf hk
      exact ⟨k, s, p, mi, ms, hk, (siblingsFollow_iff _ _ _ _).1 hsf⟩
  · rw [if_neg hk]
    exact ⟨false, rfl, by intro h; cases h⟩

/-- and conversely: a complete group sitting in place makes `has_all_siblings` true -/
theorem hasAll_true_of_group {t S r : Nat} (h : WF t S r) (rest : List Nat) (k s p : Nat)
    (mi : MergeInfo (encId t S r) r k s p) (hf : isFirstChild (encId t S r) (some (r : Int)) = .ok true)
    (hk : k ≤ rest.length + 1)
    (htake : rest.take (k - 1) = (List.range (k - 1)).map (fun j => encId t S r + (j + 1) * s)) :
    hasAllSiblings (encId t S r) (r : Int) rest = .ok true := by
  unfold hasAllSiblings
  simp only
  rw [mi.expected, if_pos hk, hf, bind_ok, if_pos rfl, mi.stride, bind_ok]
  congr 1
  exact (siblingsFollow_iff _ _ _ _).2 htake

/-- the working list is sorted by span: each cell's span ends before the next one's begins -/
def SpanSorted (l : List Nat) : Prop := l.Pairwise (fun a b => hi a ≤ lo b)

theorem scan_sorted (L : Nat) : ∀ (n : Nat) (cur : List Nat), cur.length = n → AllValid L cur → SpanSorted cur →
    ∀ (B : Nat), (∀ e, e ∈ cur → B ≤ lo e) → ∀ out ch, scanPass cur = .ok (out, ch) →
      SpanSorted out ∧ (∀ e, e ∈ out → B ≤ lo e) := by
  intro n
  induction n using Nat.strongRecOn with
  | _ n ih =>
  intro cur hlen hval hss B hB out ch hscan
  cases cur with
  | nil =>
    rw [scanPass] at hscan
    cases hscan
    exact ⟨List.Pairwise.nil, by intro e he; cases he⟩
  | cons c rest =>
    have hvc := hval c (by simp)
    have hvrest : AllValid L rest := fun x hx => hval x (by simp [hx])
    have hss' := List.pairwise_cons.1 hss
    rw [scanPass] at hscan
    simp only at hscan
    -- the non-merging step, shared by the world cell and the `false` branch
    have keep : ∀ out' ch', scanPass rest = .ok (out', ch') →
        SpanSorted (c :: out') ∧ (∀ e, e ∈ c :: out' → B ≤ lo e) := by
      intro out' ch' hs
      have := ih rest.length (by simp at hlen; omega) rest rfl hvrest hss'.2 (hi c) hss'.1 out' ch' hs
      refine ⟨List.pairwise_cons.2 ⟨this.2, this.1⟩, ?_⟩
      intro e he
      simp only [List.mem_cons] at he
      rcases he with rfl | he
      · exact hB _ (by simp)
      · have h1 := this.2 e he
        have h2 := lo_lt_hi_valid hvc.1
        have h3 := hB c (by simp)
        omega
    obtain ⟨out0, ch0, hs0, _⟩ := scan_spec L rest.length rest rfl hvrest
    rcases hvc.1 with rfl | ⟨t, S, r, hwf, rfl⟩
    · rw [if_pos (by rw [getResolution_zero]; omega), hs0, bind_ok] at hscan
      cases hscan
      exact keep out0 ch0 hs0
    · have hres := getResolution_encId hwf
      rw [hres, if_neg (by omega)] at hscan
      obtain ⟨b, hb, hbt⟩ := hasAll_spec' hwf rest
      rw [hb, bind_ok] at hscan
      cases b with
      | false =>
        rw [if_neg (by simp), hs0, bind_ok] at hscan
        cases hscan
        exact keep out0 ch0 hs0
      | true =>
        obtain ⟨k, s, p, mi, ms, hk, htake⟩ := hbt rfl
        have hk4 : 4 ≤ k := by rw [← mi.expected]; exact expectedChildren_ge _
        have hvdrop : AllValid L (rest.drop (k - 1)) := fun x hx => hvrest x (List.mem_of_mem_drop hx)
        obtain ⟨out1, ch1, hs1, _⟩ := scan_spec L (rest.drop (k - 1)).length _ rfl hvdrop
        rw [if_pos rfl, mi.parent, mi.expected, bind_ok, hs1, bind_ok] at hscan
        cases hscan
        -- the last sibling is in the list, right before the dropped part
        have hlast : encId t S r + (k - 1) * s ∈ rest.take (k - 1) := by
          rw [htake, List.mem_map]
          exact ⟨k - 2, List.mem_range.2 (by omega), by congr 2; omega⟩
        have hsplit := List.take_append_drop (k - 1) rest
        have hss_rest : SpanSorted (rest.take (k - 1) ++ rest.drop (k - 1)) := by rw [hsplit]; exact hss'.2
        have hpw := List.pairwise_append.1 hss_rest
        have hbound : ∀ e, e ∈ rest.drop (k - 1) → hi p ≤ lo e := by
          intro e he
          rw [ms.hi_parent]
          exact hpw.2.2 _ hlast e he
        have := ih (rest.drop (k - 1)).length (by simp at hlen; simp; omega) _ rfl hvdrop hpw.2.1 (hi p) hbound out1 ch1 hs1
        refine ⟨List.pairwise_cons.2 ⟨this.2, this.1⟩, ?_⟩
        intro e he
        simp only [List.mem_cons] at he
        rcases he with rfl | he
        · rw [ms.lo_parent]; exact hB _ (by simp)
        · have h1 := this.2 e he
          have h2 := lo_lt_hi_valid mi.parent_valid
          have h3 := hB (encId t S r) (by simp)
          rw [ms.lo_parent] at h2
          omega

/-- a pass that reports `changed = False` met no complete group at any position -/
theorem scan_false_all (L : Nat) : ∀ (l : List Nat), AllValid L l → (∃ out, scanPass l = .ok (out, false)) →
    ∀ pre c rest, l = pre ++ c :: rest → 0 ≤ getResolution c → hasAllSiblings c (getResolution c) rest = .ok false := by
  intro l
  induction l with
  | nil => intro _ _ pre c rest h; simp at h
  | cons a l ih =>
    intro hval ⟨out, hscan⟩ pre c rest hsplit hres
    have hva := hval a (by simp)
    have hvl : AllValid L l := fun x hx => hval x (by simp [hx])
    obtain ⟨out0, ch0, hs0, _⟩ := scan_spec L l.length l rfl hvl
    rw [scanPass] at hscan
    simp only at hscan
    -- in every branch the tail is scanned with `changed = False`, and the head has no complete group
    have tail_false : ∀ o ch, scanPass l = .ok (o, ch) →
        ((scanPass l).bind fun (x : List Nat × Bool) => Except.ok (a :: x.1, x.2)) = Except.ok (out, false) → ch = false := by
      intro o ch hs h
      rw [hs, bind_ok] at h
      exact (Prod.mk.inj (Except.ok.inj h)).2
    have head_tail : (0 ≤ getResolution a → hasAllSiblings a (getResolution a) l = .ok false) ∧ ∃ o, scanPass l = .ok (o, false) := by
      rcases hva.1 with rfl | ⟨t, S, r, hwf, rfl⟩
      · rw [if_pos (by rw [getResolution_zero]; omega)] at hscan
        have := tail_false out0 ch0 hs0 hscan
        subst this
        exact ⟨by intro h; rw [getResolution_zero] at h; omega, out0, hs0⟩
      · have hr := getResolution_encId hwf
        rw [hr, if_neg (by omega)] at hscan
        obtain ⟨b, hb, _⟩ := hasAll_spec' hwf l
        rw [hb, bind_ok] at hscan
        cases b with
        | true =>
          exfalso
          rw [if_pos rfl] at hscan
          -- the merge branch always reports `changed = True`
          cases hp : cellToParent (encId t S r) none with
          | error e => rw [hp] at hscan; cases hscan
          | ok p =>
            rw [hp, bind_ok] at hscan
            cases hd : scanPass (List.drop (expectedChildren (r : Int) - 1) l) with
            | error e => rw [hd] at hscan; cases hscan
            | ok v =>
              rw [hd, bind_ok] at hscan
              have := (Prod.mk.inj (Except.ok.inj hscan)).2
              cases this
        | false =>
          rw [if_neg (by simp)] at hscan
          have := tail_false out0 ch0 hs0 hscan
          subst this
          exact ⟨fun _ => by rw [hr]; exact hb, out0, hs0⟩
    cases pre with
    | nil =>
      simp only [List.nil_append, List.cons.injEq] at hsplit
      obtain ⟨rfl, rfl⟩ := hsplit
      exact head_tail.1 hres
    | cons b pre' =>
      simp only [List.cons_append, List.cons.injEq] at hsplit
      obtain ⟨rfl, rfl⟩ := hsplit
      exact ih hvl head_tail.2 pre' c rest rfl hres

/-- in a span-sorted list, a cell whose span starts exactly where `a`'s ends comes right after `a` -/
theorem next_adjacent (pre rest : List Nat) (a b : Nat) (hs : SpanSorted (pre ++ a :: rest))
    (hpos : ∀ e, e ∈ pre ++ a :: rest → lo e < hi e) (hb : b ∈ pre ++ a :: rest) (hab : hi a = lo b) :
    ∃ rest', rest = b :: rest' := by
  have hpw := List.pairwise_append.1 hs
  have hpa := hpos a (by simp)
  have hpb := hpos b hb
  rw [List.mem_append, List.mem_cons] at hb
  rcases hb with hb | rfl | hb
  · have := hpw.2.2 b hb a (by simp); omega
  · omega
  · cases rest with
    | nil => simp at hb
    | cons e rest' =>
      have hcons := List.pairwise_cons.1 hpw.2.1
      simp only [List.mem_cons] at hb
      rcases hb with rfl | hb
      · exact ⟨rest', rfl⟩
      · exfalso
        have h1 := hcons.1 e (by simp)
        have h2 := (List.pairwise_cons.1 hcons.2).1 b hb
        have h3 := hpos e (by simp)
        omega

/-- a chain of cells with consecutive spans, all present in a span-sorted list, sits there contiguously and in order -/
theorem chain_adjacent (l : List Nat) (hs : SpanSorted l) (hpos : ∀ e, e ∈ l → lo e < hi e) :
    ∀ (k : Nat) (f : Nat → Nat), (∀ j, j < k + 1 → f j ∈ l) → (∀ j, j + 1 < k + 1 → hi (f j) = lo (f (j + 1))) →
      ∀ pre rest, l = pre ++ f 0 :: rest → rest.take k = (List.range k).map (fun j => f (j + 1)) ∧ k ≤ rest.length := by
  intro k
  induction k with
  | zero => intro f _ _ pre rest _; simp
  | succ k ih =>
    intro f hmem hcons pre rest hl
    subst hl
    obtain ⟨rest', rfl⟩ := next_adjacent pre rest (f 0) (f 1) hs hpos (hmem 1 (by omega)) (hcons 0 (by omega))
    have := ih (fun j => f (j + 1)) (fun j hj => hmem (j + 1) (by omega)) (fun j hj => hcons (j + 1) (by omega))
      (pre ++ [f 0]) rest' (by simp)
    constructor
    · rw [List.take_succ_cons, this.1, List.range_succ_eq_map, List.map_cons, List.map_map]
      rfl
    · simp only [List.length_cons]; omega

/-- no complete sibling group survives a pass that changes nothing -/
theorem no_group_after_quiet_pass (L : Nat) (l : List Nat) (hval : AllValid L l) (hs : SpanSorted l)
    (hq : ∃ out, scanPass l = .ok (out, false))
    {t S r : Nat} (h : WF t S r) (hf : isFirstChild (encId t S r) (some (r : Int)) = .ok true)
    (k s p : Nat) (mi : MergeInfo (encId t S r) r k s p) (ms : MergeSpans (encId t S r) k s p)
    (hall : ∀ j, j < k → encId t S r + j * s ∈ l) : False := by
  have hk4 : 4 ≤ k := by rw [← mi.expected]; exact expectedChildren_ge _
  have h0 : encId t S r ∈ l := by have := hall 0 (by omega); simpa using this
  obtain ⟨pre, rest, hl⟩ := List.append_of_mem h0
  have hpos : ∀ e, e ∈ l → lo e < hi e := fun e he => lo_lt_hi_valid (hval e he).1
  obtain ⟨k', rfl⟩ : ∃ k', k = k' + 1 := ⟨k - 1, by omega⟩
  have hch := chain_adjacent l hs hpos k' (fun j => encId t S r + j * s) hall ms.consecutive pre rest (by simpa using hl)
  have hfalse := scan_false_all L l hval hq pre (encId t S r) rest hl (by rw [getResolution_encId h]; omega)
  rw [getResolution_encId h] at hfalse
  have htrue := hasAll_true_of_group h rest (k' + 1) s p mi hf (by omega) (by simpa using hch.1)
  rw [htrue] at hfalse
  cases hfalse

/-! ### the initial sort of an antichain is a sort by span -/

/-- no cell of the list is an ancestor of another (duplicates allowed) -/
def Antichain (X : List Nat) : Prop := ∀ a, a ∈ X → ∀ b, b ∈ X → Covers a b → a = b

theorem disjoint_of_incomparable {a b : Nat} (ha : ValidId a) (hb : ValidId b) (h1 : ¬ Covers a b) (h2 : ¬ Covers b a) :
    hi a ≤ lo b ∨ hi b ≤ lo a := by
  rcases laminar ha hb with h | h | h | h
  · exact absurd h h1
  · exact absurd h h2
  · exact Or.inl h
  · exact Or.inr h

theorem key_lt_of_span {a b : Nat} (ha : ValidId a) (hb : ValidId b) (h : hi a ≤ lo b) :
    hierarchicalKey a < hierarchicalKey b := by
  have h1 := (key_span ha).2
  have h2 := (key_span hb).1
  omega

theorem insertKey_sorted (x : Nat) (hx : ValidId x) :
    ∀ (acc : List Nat), SpanSorted acc → (∀ y, y ∈ acc → ValidId y) →
      (∀ y, y ∈ acc → y = x ∨ (¬ Covers x y ∧ ¬ Covers y x)) → SpanSorted (insertKey hierarchicalKey x acc) := by
  intro acc
  induction acc with
  | nil => intro _ _ _; unfold insertKey; exact List.pairwise_singleton _ _
  | cons y ys ih =>
    intro hs hv hinc
    have hs' := List.pairwise_cons.1 hs
    unfold insertKey
    by_cases hxy : x = y
    · rw [if_pos hxy]; exact hs
    · rw [if_neg hxy]
      have hy := hv y (by simp)
      have hincy := hinc y (by simp)
      have hdis : hi x ≤ lo y ∨ hi y ≤ lo x := by
        rcases hincy with h | ⟨h1, h2⟩
        · exact absurd h.symm hxy
        · exact disjoint_of_incomparable hx hy h1 h2
      by_cases hk : hierarchicalKey x < hierarchicalKey y
      · rw [if_pos hk]
        have hxy' : hi x ≤ lo y := by
          rcases hdis with h | h
          · exact h
          · have := key_lt_of_span hy hx h; omega
        refine List.pairwise_cons.2 ⟨?_, hs⟩
        intro z hz
        simp only [List.mem_cons] at hz
        rcases hz with rfl | hz
        · exact hxy'
        · have h1 := hs'.1 z hz
          have h2 := lo_lt_hi_valid hy
          omega
      · rw [if_neg hk]
        have hyx : hi y ≤ lo x := by
          rcases hdis with h | h
          · have := key_lt_of_span hx hy h; omega
          · exact h
        refine List.pairwise_cons.2 ⟨?_, ih hs'.2 (fun z hz => hv z (by simp [hz])) (fun z hz => hinc z (by simp [hz]))⟩
        intro z hz
        rw [mem_insertKey] at hz
        rcases hz with rfl | hz
        · exact hyx
        · exact hs'.1 z hz

theorem sortedSet_sorted (X : List Nat) (hv : ∀ y, y ∈ X → ValidId y) (hanti : Antichain X) :
    SpanSorted (sortedSet hierarchicalKey X) := by
  unfold sortedSet
  have : ∀ (Y acc : List Nat), (∀ y, y ∈ Y → y ∈ X) → (∀ y, y ∈ acc → y ∈ X) → SpanSorted acc →
      SpanSorted (Y.foldl (fun acc y => insertKey hierarchicalKey y acc) acc) := by
    intro Y
    induction Y with
    | nil => intro acc _ _ hs; exact hs
    | cons a Y ih =>
      intro acc hY hacc hs
      rw [List.foldl_cons]
      have haX := hY a (by simp)
      apply ih _ (fun y hy => hY y (by simp [hy]))
      · intro y hy
        rw [mem_insertKey] at hy
        rcases hy with rfl | hy
        · exact haX
        · exact hacc y hy
      · apply insertKey_sorted a (hv a haX) acc hs (fun y hy => hv y (hacc y hy))
        intro y hy
        by_cases hya : y = a
        · exact Or.inl hya
        · right
          exact ⟨fun hc => hya (hanti a haX y (hacc y hy) hc).symm, fun hc => hya (hanti y (hacc y hy) a haX hc)⟩
  exact this X [] (fun _ h => h) (fun _ h => by cases h) List.Pairwise.nil

/-- span-sorted lists of valid ids are duplicate free and antichains -/
theorem SpanSorted.nodup {l : List Nat} (hs : SpanSorted l) (hv : ∀ y, y ∈ l → ValidId y) : l.Nodup := by
  unfold List.Nodup
  refine List.Pairwise.imp_of_mem ?_ hs
  intro a b ha _ hab hne
  subst hne
  have := lo_lt_hi_valid (hv a ha); omega

theorem SpanSorted.antichain {l : List Nat} (hs : SpanSorted l) (hv : ∀ y, y ∈ l → ValidId y) : Antichain l := by
  intro a ha b hb hc
  by_cases hab : a = b
  · exact hab
  · exfalso
    have hsp := covers_span (hv a ha) (hv b hb) hc
    have hpa := lo_lt_hi_valid (hv a ha)
    have hpb := lo_lt_hi_valid (hv b hb)
    -- a and b are at different positions of a pairwise-disjoint list
    have hdis : hi a ≤ lo b ∨ hi b ≤ lo a := by
      rcases List.mem_iff_append.1 ha with ⟨p, q, rfl⟩
      rw [List.mem_append, List.mem_cons] at hb
      have hpw := List.pairwise_append.1 hs
      rcases hb with hb | rfl | hb
      · exact Or.inr (hpw.2.2 b hb a (by simp))
      · exact absurd rfl hab
      · exact Or.inl ((List.pairwise_cons.1 hpw.2.1).1 b hb)
    omega

end A5
