/-
  Arithmetic facts about the id layout, stated with the three "scale" numbers
      A = 2^m            (the marker bit, m = marker position)
      2*A = 2^(m+1)      (unit of the Hilbert position field)
      B = 2^e, e = 57-m  (number of positions),     2*A*B = 2^58
  so that an id is  t*(2*A*B) + S*(2*A) + A  with  S < B.
-/
import Mathlib.Tactic.Ring
import Mathlib.Tactic.Linarith

-- keep `2 ^ n : Nat` on the core instance (Mathlib would elaborate it through `Monoid.npow`)
attribute [local instance 2000] instPowNat

namespace A5.Bits

theorem two_pow_58_split (m : Nat) (hm : m ≤ 57) : (2:Nat) ^ 58 = 2 ^ (m + 1) * 2 ^ (57 - m) := by
  rw [← Nat.pow_add]; congr 1; omega

theorem two_pow_58_split' (m : Nat) (hm : m ≤ 57) : (2:Nat) ^ 58 = 2 ^ (57 - m) * 2 ^ (m + 1) := by
  rw [← Nat.pow_add]; congr 1; omega

/-- the low part of an id is below 2^58 -/
theorem low_lt (A B S : Nat) (hA : 0 < A) (hS : S < B) : S * (2 * A) + A < 2 * A * B := by
  have h1 : (S + 1) * (2 * A) ≤ B * (2 * A) := Nat.mul_le_mul_right _ hS
  nlinarith

theorem low_lt_pow (m S : Nat) (hm : m ≤ 57) (hS : S < 2 ^ (57 - m)) :
    S * 2 ^ (m + 1) + 2 ^ m < 2 ^ 58 := by
  rw [two_pow_58_split m hm, Nat.pow_succ]
  have := low_lt (2 ^ m) (2 ^ (57 - m)) S (Nat.two_pow_pos m) hS
  calc S * (2 ^ m * 2) + 2 ^ m = S * (2 * 2 ^ m) + 2 ^ m := by ring
    _ < 2 * 2 ^ m * 2 ^ (57 - m) := this
    _ = 2 ^ m * 2 * 2 ^ (57 - m) := by ring

/-- top field: dividing by 2^58 recovers `t` -/
theorem div_top (t low : Nat) (h : low < 2 ^ 58) : (t * 2 ^ 58 + low) / 2 ^ 58 = t := by
  rw [Nat.add_comm, Nat.add_mul_div_right _ _ (Nat.two_pow_pos 58), Nat.div_eq_of_lt h, Nat.zero_add]

theorem mod_top (t low : Nat) (h : low < 2 ^ 58) : (t * 2 ^ 58 + low) % 2 ^ 58 = low := by
  rw [Nat.add_comm, Nat.add_mul_mod_self_right, Nat.mod_eq_of_lt h]

/-- position field: the low part divided by 2^(m+1) is `S` -/
theorem div_pos (m S : Nat) : (S * 2 ^ (m + 1) + 2 ^ m) / 2 ^ (m + 1) = S := by
  rw [Nat.add_comm, Nat.add_mul_div_right _ _ (Nat.two_pow_pos (m + 1)),
    Nat.div_eq_of_lt (Nat.pow_lt_pow_right (by omega) (by omega)), Nat.zero_add]

/-- an id is `2^m * odd` -/
theorem id_eq_pow_mul_odd (t S m : Nat) (hm : m ≤ 57) :
    t * 2 ^ 58 + S * 2 ^ (m + 1) + 2 ^ m = 2 ^ m * (2 * (t * 2 ^ (57 - m) + S) + 1) := by
  rw [two_pow_58_split m hm, Nat.pow_succ]; ring

/-- `x | 2^m = x + 2^m` when the low `m+1` bits of `x` are zero -/
theorem or_marker (q m : Nat) : (q * 2 ^ (m + 1)) ||| 2 ^ m = q * 2 ^ (m + 1) + 2 ^ m := by
  have h : (2:Nat) ^ m < 2 ^ (m + 1) := Nat.pow_lt_pow_right (by omega) (by omega)
  rw [Nat.mul_comm q, ← Nat.two_pow_add_eq_or_of_lt h]

theorem bit_zero_of_lt (m q k : Nat) (h : k < m) : ((2 ^ m * (2 * q + 1)) >>> k) &&& 1 = 0 := by
  rw [Nat.and_one_is_mod, Nat.shiftRight_eq_div_pow]
  obtain ⟨d, rfl⟩ : ∃ d, m = k + (d + 1) := ⟨m - k - 1, by omega⟩
  rw [Nat.pow_add, Nat.mul_assoc, Nat.mul_div_cancel_left _ (Nat.two_pow_pos k), Nat.pow_succ]
  rw [Nat.mul_assoc, Nat.mul_comm, Nat.mul_assoc]; omega

theorem bit_one_at (m q : Nat) : ((2 ^ m * (2 * q + 1)) >>> m) &&& 1 = 1 := by
  rw [Nat.and_one_is_mod, Nat.shiftRight_eq_div_pow, Nat.mul_div_cancel_left _ (Nat.two_pow_pos m)]; omega

end A5.Bits
