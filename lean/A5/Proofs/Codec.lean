/-
  `deserialize` and `serialize` on well-formed fields (symbolic S, every resolution 0..29).
-/
import A5.Proofs.Ids

-- keep `2 ^ n : Nat` on the core instance (Mathlib would elaborate it through `Monoid.npow`)
attribute [local instance 2000] instPowNat

namespace A5
open A5.Bits

/-- what `deserialize` returns for the id with fields `t S r` -/
def decodeCell (t S r : Nat) : Cell :=
  if r = 0 then { origin := t, segment := 0, S := 0, res := 0 }
  else { origin := t / 5, segment := ((t : Int) + firstQuintant (t / 5)) % 5, S := if r < 2 then 0 else (S : Int), res := (r : Int) }

theorem originAt_ok (i : Nat) (h : i < 12) : originAt i = .ok i := by
  simp [originAt, h]

theorem shr_ok (a : Nat) (n : Int) (h : 0 ≤ n) : shr a n = .ok (a >>> n.toNat) := by
  simp [shr]; omega

theorem shl_ok (a : Nat) (n : Int) (h : 0 ≤ n) : shl a n = .ok (a <<< n.toNat) := by
  simp [shl]; omega

theorem deserialize_encId {t S r : Nat} (h : WF t S r) : deserialize (encId t S r) = .ok (decodeCell t S r) := by
  have hres := getResolution_encId h
  have htop := encId_top h
  obtain ⟨hr, hS, ht⟩ := h
  unfold deserialize
  simp only [hres, htop]
  by_cases h0 : r = 0
  · subst h0
    simp only [if_pos] at ht
    simp [decodeCell, originAt_ok t ht]
  · rw [if_neg h0] at ht
    have hne : ¬ ((r : Int) = -1) := by omega
    have hne0 : ¬ ((r : Int) = 0) := by omega
    have ho : t / 5 < 12 := by omega
    by_cases h1 : r = 1
    · subst h1
      simp [decodeCell, originAt_ok _ ho]
    · have h2 : ¬ ((r : Int) < 2) := by omega
      have hshift : (0:Int) ≤ 58 - 2 * ((r : Int) - 2 + 1) := by omega
      have hsh : (58 - 2 * ((r : Int) - 2 + 1)).toNat = mpos r + 1 := by
        unfold mpos; rw [if_neg h0, if_neg h1]; omega
      have hlow := encId_low (t := t) (S := S) (r := r) ⟨hr, hS, by rw [if_neg h0]; exact ht⟩
      simp only [hne, hne0, if_false, FHR_eq, h2, HSB_eq, originAt_ok _ ho, REMOVAL_MASK_eq]
      simp only [bind, Except.bind, pure, Except.pure]
      rw [shr_ok _ _ hshift, hsh, Nat.and_two_pow_sub_one_eq_mod, hlow, Nat.shiftRight_eq_div_pow, Bits.div_pos]
      simp [decodeCell, h0]
      omega

end A5

namespace A5
open A5.Bits

/-- top-6 value written by `serialize` -/
def topOf (o : Nat) (sg : Int) (r : Nat) : Nat :=
  if r = 0 then o else 5 * o + ((sg - firstQuintant o + 5) % 5).toNat

theorem topOf_lt (o : Nat) (sg : Int) (r : Nat) (ho : o < 12) : topOf o sg r < (if r = 0 then 12 else 60) := by
  unfold topOf; split
  · exact ho
  · omega

theorem npos_int (r : Nat) (h2 : 2 ≤ r) : ((npos r : Nat) : Int) = ((1 <<< (2 * ((r : Int) - 2 + 1)).toNat : Nat) : Int) := by
  unfold npos; rw [if_neg (by omega), Nat.shiftLeft_eq, Nat.one_mul]
  rw [show (4:Nat) = 2 ^ 2 by rfl, ← Nat.pow_mul]; congr 2; omega

theorem serialize_r0 (o : Nat) (sg : Int) :
    serialize { origin := o, segment := sg, S := 0, res := 0 } = .ok (o * 2 ^ 58 + 2 ^ 57) := by
  unfold serialize
  simp only [MAXR_eq, FHR_eq, HSB_eq, WORLD_CELL_eq]
  have c1 : ¬ ((0 : Int) > 30) := by omega
  have c2 : ¬ ((0 : Int) = -1) := by omega
  have c3 : ¬ ((0 : Int) < 0) := by omega
  have c4 : ¬ ((0 : Int) < 2 ∧ (0 : Int) ≠ 0) := by omega
  have c5 : ((0 : Int) < 2) := by omega
  have c6 : ¬ ((0 : Int) ≥ 2) := by omega
  have e : (58 - ((0 : Int) + 1)).toNat = 57 := by omega
  simp only [c1, c2, c3, c5, c6, ne_eq, not_true_eq_false, and_false, if_false, if_true, bind, Except.bind, pure, Except.pure,
      shl_ok _ 58 (by omega), shl_ok _ (58 - ((0 : Int) + 1)) (by omega), e, show (58 : Int).toNat = 58 from rfl]
  congr 1
  rw [Nat.shiftLeft_eq, Nat.shiftLeft_eq, Nat.one_mul]
  exact or_marker o 57

theorem serialize_r1 (o : Nat) (sg : Int) :
    serialize { origin := o, segment := sg, S := 0, res := 1 } =
      .ok ((5 * o + ((sg - firstQuintant o + 5) % 5).toNat) * 2 ^ 58 + 2 ^ 56) := by
  unfold serialize
  simp only [MAXR_eq, FHR_eq, HSB_eq, WORLD_CELL_eq]
  have c1 : ¬ ((1 : Int) > 30) := by omega
  have c2 : ¬ ((1 : Int) = -1) := by omega
  have c3 : ¬ ((0 : Int) < 0) := by omega
  have c4 : ¬ ((1 : Int) < 2 ∧ (0 : Int) ≠ 0) := by omega
  have c5 : ((1 : Int) < 2) := by omega
  have c6 : ¬ ((1 : Int) ≥ 2) := by omega
  have c7 : ¬ ((1 : Int) = 0) := by omega
  have e : (58 - ((1 : Int) + 1)).toNat = 56 := by omega
  simp only [c1, c2, c3, c5, c6, c7, ne_eq, not_true_eq_false, and_false, if_false, if_true, bind, Except.bind, pure, Except.pure,
      shl_ok _ 58 (by omega), shl_ok _ (58 - ((1 : Int) + 1)) (by omega), e, show (58 : Int).toNat = 58 from rfl]
  congr 1
  rw [Nat.shiftLeft_eq, Nat.shiftLeft_eq, Nat.one_mul]
  have := or_marker (2 * (5 * o + ((sg - firstQuintant o + 5) % 5).toNat)) 56
  rw [show 2 * (5 * o + ((sg - firstQuintant o + 5) % 5).toNat) * 2 ^ (56 + 1)
        = (5 * o + ((sg - firstQuintant o + 5) % 5).toNat) * 2 ^ 58 by ring] at this
  exact this

theorem serialize_ok (o : Nat) (sg : Int) (S r : Nat) (hr : r ≤ 29) (hS : S < npos r) :
    serialize { origin := o, segment := sg, S := (S : Int), res := (r : Int) } = .ok (encId (topOf o sg r) S r) := by
  by_cases h0 : r = 0
  · subst h0
    have hS0 : S = 0 := by unfold npos at hS; simp at hS; exact hS
    subst hS0
    have := serialize_r0 o sg
    simpa [encId, mpos, topOf] using this
  by_cases h1 : r = 1
  · subst h1
    have hS0 : S = 0 := by unfold npos at hS; simp at hS; exact hS
    subst hS0
    have := serialize_r1 o sg
    simpa [encId, mpos, topOf] using this
  · unfold serialize
    have c1 : ¬ ((r : Int) > 30) := by omega
    have c2 : ¬ ((r : Int) = -1) := by omega
    have c3 : ¬ ((S : Int) < 0) := by omega
    have h2 : 2 ≤ r := by omega
    have c5 : ¬ ((r : Int) = 0) := by omega
    have c6 : (r : Int) ≥ 2 := by omega
    have c7 : ¬ ((r : Int) < 2) := by omega
    have hb : (0 : Int) ≤ 2 * ((r : Int) - 2 + 1) := by omega
    have hsh : (0 : Int) ≤ 58 - 2 * ((r : Int) - 2 + 1) := by omega
    have hmk : (0 : Int) ≤ 58 - (2 * (1 + (r : Int) - 2) + 1) := by omega
    have e1 : (58 - 2 * ((r : Int) - 2 + 1)).toNat = mpos r + 1 := by
      unfold mpos; rw [if_neg h0, if_neg h1]; omega
    have e2 : (58 - (2 * (1 + (r : Int) - 2) + 1)).toNat = mpos r := by
      unfold mpos; rw [if_neg h0, if_neg h1]; omega
    have hlim : ¬ ((S : Int) ≥ ((1 <<< (2 * ((r : Int) - 2 + 1)).toNat : Nat) : Int)) := by
      rw [← npos_int r h2]; omega
    simp only [MAXR_eq, FHR_eq, HSB_eq, WORLD_CELL_eq]
    simp only [c1, c2, c3, c5, c6, c7, false_and, if_false, if_true, bind, Except.bind, pure, Except.pure,
      shl_ok _ _ hb, shl_ok _ _ hsh, shl_ok _ _ hmk, shl_ok _ 58 (by omega), hlim, e1, e2, Int.toNat_natCast]
    simp only [Nat.shiftLeft_eq, Nat.one_mul, topOf, if_neg h0, encId, show (58 : Int).toNat = 58 from rfl]
    congr 1
    have hm := mpos_le r hr
    have := or_marker ((5 * o + ((sg - firstQuintant o + 5) % 5).toNat) * 2 ^ (57 - mpos r) + S) (mpos r)
    rw [Nat.add_mul, Nat.mul_assoc, ← two_pow_58_split' (mpos r) hm] at this
    exact this

/-! ### rejections -/

/-- resolution 30 = MAX_RESOLUTION cannot be encoded: the marker would sit at bit −1 (the known finding) -/
theorem serialize_res30 (o : Nat) (sg S : Int) : serialize { origin := o, segment := sg, S := S, res := 30 } = .error .value := by
  unfold serialize
  simp only [MAXR_eq, FHR_eq, HSB_eq, WORLD_CELL_eq]
  have c1 : ¬ ((30 : Int) > 30) := by omega
  have c2 : ¬ ((30 : Int) = -1) := by omega
  have c5 : ¬ ((30 : Int) < 2) := by omega
  have c6 : ((30 : Int) ≥ 2) := by omega
  have c7 : ¬ ((30 : Int) = 0) := by omega
  have hm : shl 1 (58 - (2 * (1 + (30:Int) - 2) + 1)) = .error .value := by
    simp only [shl]; rw [if_pos (by omega)]
  simp only [c1, c2, c5, c6, c7, false_and, if_false, if_true, hm, bind, Except.bind, pure, Except.pure,
    shl_ok _ 58 (by omega), shl_ok _ (2 * ((30:Int) - 2 + 1)) (by omega), shl_ok _ (58 - 2 * ((30:Int) - 2 + 1)) (by omega)]
  by_cases hS : S < 0
  · simp only [hS, if_true]
  · simp only [hS, if_false]
    by_cases hl : S ≥ ((1 <<< (2 * ((30:Int) - 2 + 1)).toNat : Nat) : Int)
    · simp only [hl, if_true]
    · simp only [hl, if_false]

theorem serialize_too_fine (o : Nat) (sg S r : Int) (h : 30 < r) :
    serialize { origin := o, segment := sg, S := S, res := r } = .error .value := by
  unfold serialize
  simp only [MAXR_eq]
  rw [if_pos (by omega)]

/-- `serialize` succeeds only on a position that fits its resolution -/
theorem serialize_fits (c : Cell) (n : Nat) (h : serialize c = .ok n) (hw : c.res ≠ -1) :
    0 ≤ c.S ∧ (c.res < 2 → c.S = 0) ∧ (2 ≤ c.res → c.S < 4 ^ (c.res - 1).toNat) := by
  unfold serialize at h
  simp only [MAXR_eq, FHR_eq, HSB_eq, WORLD_CELL_eq] at h
  by_cases c1 : c.res > 30
  · rw [if_pos c1] at h; cases h
  rw [if_neg c1, if_neg hw] at h
  by_cases c3 : c.S < 0
  · rw [if_pos c3] at h; cases h
  rw [if_neg c3] at h
  by_cases c4 : c.res < 2 ∧ c.S ≠ 0
  · rw [if_pos c4] at h; cases h
  rw [if_neg c4] at h
  refine ⟨by omega, fun h2 => by omega, fun h2 => ?_⟩
  have c6 : c.res ≥ 2 := h2
  have hb : (0 : Int) ≤ 2 * (c.res - 2 + 1) := by omega
  by_cases c7 : c.S ≥ ((1 <<< (2 * (c.res - 2 + 1)).toNat : Nat) : Int)
  · exfalso
    simp only [c6, if_true, bind, Except.bind, shl_ok _ _ hb, c7] at h
    split at h <;> cases h
  · have e : (1 <<< (2 * (c.res - 2 + 1)).toNat : Nat) = 4 ^ (c.res - 1).toNat := by
      rw [Nat.shiftLeft_eq, Nat.one_mul, show (4:Nat) = 2 ^ 2 by rfl, ← Nat.pow_mul]; congr 1; omega
    rw [e] at c7
    push_cast at c7 ⊢
    omega

/-! ### round trips -/

/-- a well-formed cell as the API hands it around -/
structure Cell.Valid (c : Cell) : Prop where
  origin : c.origin < 12
  seg : 0 ≤ c.segment ∧ c.segment < 5
  res : 0 ≤ c.res ∧ c.res ≤ 29
  pos : 0 ≤ c.S ∧ c.S.toNat < npos c.res.toNat

/-- canonical form: the segment is not part of a resolution-0 cell's identity -/
def Cell.canon (c : Cell) : Cell := if c.res = 0 then { c with segment := 0 } else c

theorem topOf_div (o : Nat) (sg : Int) (r : Nat) (h0 : r ≠ 0) : topOf o sg r / 5 = o := by
  unfold topOf; rw [if_neg h0]; omega

theorem npos_small (r S : Nat) (h : r < 2) (hS : S < npos r) : S = 0 := by
  unfold npos at hS; rw [if_pos h] at hS; omega

theorem decodeCell_topOf (o : Nat) (sg : Int) (S r : Nat) (ho : o < 12) (hs : 0 ≤ sg ∧ sg < 5) (hS : S < npos r) :
    decodeCell (topOf o sg r) S r = Cell.canon { origin := o, segment := sg, S := (S : Int), res := (r : Int) } := by
  by_cases h0 : r = 0
  · subst h0
    have := npos_small 0 S (by omega) hS
    subst this
    simp [topOf, decodeCell, Cell.canon]
  · have hq := firstQuintant_range o ho
    have hne : ¬ ((r : Int) = 0) := by omega
    have hS' : (if r < 2 then (0:Int) else (S:Int)) = (S : Int) := by
      by_cases hr2 : r < 2
      · have := npos_small r S hr2 hS
        subst this; simp
      · rw [if_neg hr2]
    simp only [decodeCell, Cell.canon, if_neg h0, hne, if_false, topOf_div o sg r h0, hS', Cell.mk.injEq, true_and, and_true]
    unfold topOf; rw [if_neg h0]
    push_cast
    omega

/-- encode then decode returns the (canonical) cell, and `get_resolution` its resolution -/
theorem des_ser (c : Cell) (hv : c.Valid) :
    ∃ n, serialize c = .ok n ∧ 1 ≤ n ∧ n < 2 ^ 64 ∧ getResolution n = c.res ∧ deserialize n = .ok c.canon := by
  obtain ⟨o, sg, S, r⟩ := c
  obtain ⟨ho, hs, hr, hp⟩ := hv
  simp only at ho hs hr hp
  obtain ⟨r', rfl⟩ : ∃ r' : Nat, r = (r' : Int) := ⟨r.toNat, by omega⟩
  obtain ⟨S', rfl⟩ : ∃ S' : Nat, S = (S' : Int) := ⟨S.toNat, by omega⟩
  simp only [Int.toNat_natCast] at hp
  have hr' : r' ≤ 29 := by omega
  have hwf : WF (topOf o sg r') S' r' := ⟨hr', hp.2, topOf_lt o sg r' ho⟩
  refine ⟨encId (topOf o sg r') S' r', serialize_ok o sg S' r' hr' hp.2, encId_pos _ _ _, encId_lt hwf,
    getResolution_encId hwf, ?_⟩
  rw [deserialize_encId hwf, decodeCell_topOf o sg S' r' ho hs hp.2]

/-- an id is valid iff it is the code of well-formed fields (or the world cell) -/
def ValidId (n : Nat) : Prop := n = 0 ∨ ∃ t S r, WF t S r ∧ n = encId t S r

theorem topOf_decode (t r : Nat) (ht : t < 60) :
    topOf (if r = 0 then t else t / 5) (if r = 0 then 0 else ((t : Int) + firstQuintant (t / 5)) % 5) r = t := by
  unfold topOf
  by_cases h0 : r = 0
  · simp [h0]
  · rw [if_neg h0, if_neg h0, if_neg h0]
    have hq := firstQuintant_range (t / 5) (by omega)
    omega

/-- decode then encode returns the id -/
theorem ser_des_encId {t S r : Nat} (h : WF t S r) :
    (deserialize (encId t S r)).bind serialize = .ok (encId t S r) := by
  rw [deserialize_encId h]
  simp only [Except.bind]
  obtain ⟨hr, hS, ht⟩ := h
  have ht60 : t < 60 := by split at ht <;> omega
  have key := topOf_decode t r ht60
  unfold decodeCell
  by_cases h0 : r = 0
  · subst h0
    have : S = 0 := by unfold npos at hS; simp at hS; exact hS
    subst this
    simp only [if_true] at key ⊢
    have := serialize_ok t 0 0 0 (by omega) (by unfold npos; simp)
    rw [key] at this
    simpa using this
  · rw [if_neg h0] at key ⊢
    rw [if_neg h0] at key
    have hS' : (if r < 2 then (0:Int) else (S:Int)) = (S : Int) := by
      split
      · have : S = 0 := by unfold npos at hS; rw [if_pos (by omega)] at hS; omega
        subst this; rfl
      · rfl
    rw [hS']
    have := serialize_ok (t / 5) (((t : Int) + firstQuintant (t / 5)) % 5) S r hr hS
    rw [key] at this
    exact this

theorem ser_des_world : (deserialize 0).bind serialize = .ok 0 := by decide

/-- distinct well-formed fields give distinct ids -/
theorem encId_inj {t S r t' S' r' : Nat} (h : WF t S r) (h' : WF t' S' r') (e : encId t S r = encId t' S' r') :
    t = t' ∧ S = S' ∧ r = r' := by
  have hr : (r : Int) = r' := by rw [← getResolution_encId h, ← getResolution_encId h', e]
  have hr : r = r' := by omega
  subst hr
  have ht : t = t' := by rw [← encId_top h, ← encId_top h', e]
  subst ht
  have hl : S * 2 ^ (mpos r + 1) + 2 ^ mpos r = S' * 2 ^ (mpos r + 1) + 2 ^ mpos r := by
    rw [← encId_low h, ← encId_low h', e]
  have : S = S' := by rw [← Bits.div_pos (mpos r) S, ← Bits.div_pos (mpos r) S', hl]
  exact ⟨rfl, this, rfl⟩

theorem encId_ne_zero (t S r : Nat) : encId t S r ≠ 0 := by have := encId_pos t S r; omega

end A5
