/-
  Coverage: "a is the ancestor-or-self of x" at code level, its field characterisation, and the sibling-group lemma
  that makes one merge step of `compact` sound.
-/
import A5.Model.Compact
import A5.Proofs.Order

attribute [local instance 2000] instPowNat

namespace A5

/-- code-level: `cell_to_parent(x, resolution(a)) == a` -/
def Covers (a x : Nat) : Prop := cellToParent x (some (getResolution a)) = .ok a

def CoveredBy (Z : List Nat) (x : Nat) : Prop := ∃ z, z ∈ Z ∧ Covers z x

theorem coveredBy_cons (c : Nat) (Z : List Nat) (x : Nat) : CoveredBy (c :: Z) x ↔ Covers c x ∨ CoveredBy Z x := by
  simp [CoveredBy]

theorem coveredBy_append (A B : List Nat) (x : Nat) : CoveredBy (A ++ B) x ↔ CoveredBy A x ∨ CoveredBy B x := by
  simp only [CoveredBy, List.mem_append]
  constructor
  · rintro ⟨c, hc | hc, h⟩
    · exact Or.inl ⟨c, hc, h⟩
    · exact Or.inr ⟨c, hc, h⟩
  · rintro (⟨c, hc, h⟩ | ⟨c, hc, h⟩)
    · exact ⟨c, Or.inl hc, h⟩
    · exact ⟨c, Or.inr hc, h⟩

theorem covers_fields {ta Sa ra t S r : Nat} (ha : WF ta Sa ra) (h : WF t S r) :
    Covers (encId ta Sa ra) (encId t S r) ↔ ra ≤ r ∧ DescOf ta Sa ra t S r := by
  unfold Covers
  rw [getResolution_encId ha]
  by_cases hle : ra ≤ r
  · rw [cellToParent_encId h ra hle]
    constructor
    · intro e
      have := encId_inj (WF_anc h ra hle) ha (Except.ok.inj e)
      exact ⟨hle, this.1, this.2.1⟩
    · rintro ⟨_, h1, h2⟩; rw [h1, h2]
  · rw [cellToParent_finer h _ (by omega)]
    constructor
    · intro e; cases e
    · rintro ⟨hle', _⟩; exact absurd hle' hle

theorem covers_world {t S r : Nat} (h : WF t S r) : Covers 0 (encId t S r) := by
  unfold Covers
  rw [getResolution_zero]
  exact cellToParent_world_target _ _ (deserialize_encId h)

/-- everything one needs to know about a complete sibling group headed by the first child `c` -/
structure MergeInfo (c : Nat) (r : Int) (k s p : Nat) : Prop where
  expected : expectedChildren r = k
  stride : getStride r = .ok s
  parent : cellToParent c none = .ok p
  parent_valid : ValidId p
  parent_res : getResolution p = r - 1
  sib_valid : ∀ j, j < k → ValidId (c + j * s) ∧ getResolution (c + j * s) = r
  cover : ∀ x, ValidId x → r ≤ getResolution x → (Covers p x ↔ ∃ j, j < k ∧ Covers (c + j * s) x)

@[simp] theorem CFHR_eq : CFHR = 2 := by decide

theorem mergeInfo_hilbert {t S r : Nat} (h : WF t S r) (h2 : 2 ≤ r) (hS : S % 4 = 0) :
    MergeInfo (encId t S r) r 4 (2 ^ (mpos r + 1)) (encId t (ancS S r (r - 1)) (r - 1)) := by
  obtain ⟨hr, hSlt, ht⟩ := h
  have hwf : WF t S r := ⟨hr, hSlt, ht⟩
  rw [if_neg (by omega)] at ht
  have hnp : npos r % 4 = 0 := by
    unfold npos; rw [if_neg (by omega)]
    obtain ⟨e, he⟩ : ∃ e, r - 1 = e + 1 := ⟨r - 2, by omega⟩
    rw [he, Nat.pow_succ]; omega
  have hsib : ∀ j, j < 4 → WF t (S + j) r := by
    intro j hj
    exact ⟨hr, by omega, by rw [if_neg (by omega)]; exact ht⟩
  have hanc : ancT t r (r - 1) = t := by unfold ancT; rw [if_neg (by omega)]
  have hp := cellToParent_encId hwf (r - 1) (by omega)
  rw [hanc] at hp
  have hwfp : WF t (ancS S r (r - 1)) (r - 1) := by
    have := WF_anc hwf (r - 1) (by omega); rwa [hanc] at this
  refine ⟨by unfold expectedChildren; rw [CFHR_eq, if_pos (by omega)], getStride_hilbert r h2 hr, ?_, Or.inr ⟨_, _, _, hwfp, rfl⟩, ?_, ?_, ?_⟩
  · rw [cellToParent_default hwf]
    have : ((r : Int) - 1) = ((r - 1 : Nat) : Int) := by omega
    rw [this]; exact hp
  · rw [getResolution_encId hwfp]; omega
  · intro j hj
    rw [← encId_add]
    exact ⟨Or.inr ⟨_, _, _, hsib j hj, rfl⟩, getResolution_encId (hsib j hj)⟩
  · intro x hv hres
    rcases hv with rfl | ⟨t', S', r', hwf', rfl⟩
    · rw [getResolution_zero] at hres; omega
    · rw [getResolution_encId hwf'] at hres
      have hrr : r ≤ r' := by omega
      rw [covers_fields hwfp hwf']
      constructor
      · rintro ⟨_, hT, hSS⟩
        have hT' : t' = t := by unfold ancT at hT; rw [if_neg (by omega)] at hT; exact hT
        subst hT'
        -- position of x's ancestor at level r
        have hc := anc_anc_S S' r' (r - 1) r (by omega) hrr
        rw [hSS] at hc
        have hwfr := WF_anc hwf' r hrr
        have hT2 : ancT t' r' r = t' := by unfold ancT; rw [if_neg (by omega)]
        rw [hT2] at hwfr
        have hlt := hwfr.2.1
        -- ancS (S'') r (r-1) = ancS S r (r-1)  ⇒  S'' = S + j
        have key : ancS S' r' r / 4 = S / 4 ∨ r = 2 := by
          by_cases h3 : r = 2
          · exact Or.inr h3
          · left
            have hdiv : ∀ X, ancS X r (r - 1) = X / 4 := by
              intro X; unfold ancS
              rw [if_neg (by omega), show r - (r - 1) = 1 by omega, Nat.pow_one]
            rw [hdiv, hdiv] at hc
            exact hc
        refine ⟨ancS S' r' r - S, ?_, ?_⟩
        · rcases key with key | key
          · omega
          · subst key
            have : npos 2 = 4 := by decide
            omega
        · rw [← encId_add, covers_fields (hsib _ (by
            rcases key with key | key
            · omega
            · subst key
              have : npos 2 = 4 := by decide
              omega)) hwf']
          refine ⟨hrr, hT2, ?_⟩
          rcases key with key | key
          · omega
          · subst key
            have : npos 2 = 4 := by decide
            omega
      · rintro ⟨j, hj, hcov⟩
        rw [← encId_add, covers_fields (hsib j hj) hwf'] at hcov
        obtain ⟨_, hT, hSS⟩ := hcov
        refine ⟨by omega, ?_, ?_⟩
        · rw [← anc_anc_T t' r' (r - 1) r (by omega) hrr, hT]; exact hanc
        · rw [← anc_anc_S S' r' (r - 1) r (by omega) hrr, hSS]
          unfold ancS
          by_cases h3 : r - 1 < 2
          · rw [if_pos h3, if_pos h3]
          · rw [if_neg h3, if_neg h3, show r - (r - 1) = 1 by omega, Nat.pow_one]; omega

theorem encId_add_top (t j r : Nat) : encId (t + j) 0 r = encId t 0 r + j * 2 ^ 58 := by
  unfold encId; rw [Nat.add_mul]; omega

theorem ancS_low (S r a : Nat) (ha : a < 2) : ancS S r a = 0 := by unfold ancS; rw [if_pos ha]

theorem mergeInfo_seg {t : Nat} (h : WF t 0 1) (ht5 : t % 5 = 0) :
    MergeInfo (encId t 0 1) 1 5 (2 ^ 58) (encId (t / 5) 0 0) := by
  have ht : t < 60 := by have := h.2.2; simpa using this
  have hwfp : WF (t / 5) 0 0 := ⟨by omega, by decide, by simp; omega⟩
  have hsib : ∀ j, j < 5 → WF (t + j) 0 1 := fun j hj => ⟨by omega, by decide, by simp; omega⟩
  have hp := cellToParent_encId h 0 (by omega)
  have e1 : ancT t 1 0 = t / 5 := by unfold ancT; simp
  rw [e1, ancS_low 0 1 0 (by omega)] at hp
  refine ⟨by decide, getStride_low 1 (by omega), ?_, Or.inr ⟨_, _, _, hwfp, rfl⟩, ?_, ?_, ?_⟩
  · rw [cellToParent_default h]; exact hp
  · rw [getResolution_encId hwfp]; rfl
  · intro j hj
    rw [← encId_add_top]
    exact ⟨Or.inr ⟨_, _, _, hsib j hj, rfl⟩, getResolution_encId (hsib j hj)⟩
  · intro x hv hres
    rcases hv with rfl | ⟨t', S', r', hwf', rfl⟩
    · rw [getResolution_zero] at hres; omega
    · rw [getResolution_encId hwf'] at hres
      have hrr : 1 ≤ r' := by omega
      have ht' : t' < 60 := by have := hwf'.2.2; rw [if_neg (by omega)] at this; exact this
      rw [covers_fields hwfp hwf']
      have eT0 : ancT t' r' 0 = t' / 5 := by unfold ancT; rw [if_pos ⟨rfl, by omega⟩]
      have eT1 : ancT t' r' 1 = t' := by unfold ancT; rw [if_neg (by omega)]
      constructor
      · rintro ⟨_, hT, _⟩
        rw [eT0] at hT
        refine ⟨t' - t, by omega, ?_⟩
        rw [← encId_add_top, covers_fields (hsib _ (by omega)) hwf']
        exact ⟨hrr, by rw [eT1]; omega, ancS_low _ _ _ (by omega)⟩
      · rintro ⟨j, hj, hcov⟩
        rw [← encId_add_top, covers_fields (hsib j hj) hwf'] at hcov
        obtain ⟨_, hT, _⟩ := hcov
        rw [eT1] at hT
        exact ⟨by omega, by rw [eT0]; omega, ancS_low _ _ _ (by omega)⟩

theorem mergeInfo_face : MergeInfo (encId 0 0 0) 0 12 (2 ^ 58) 0 := by
  have h : WF 0 0 0 := by decide
  have hsib : ∀ j, j < 12 → WF (0 + j) 0 0 := fun j hj => ⟨by omega, by decide, by simp; omega⟩
  refine ⟨by decide, getStride_low 0 (by omega), ?_, Or.inl rfl, ?_, ?_, ?_⟩
  · rw [cellToParent_default h]
    have := cellToParent_world_target _ _ (deserialize_encId h)
    simpa using this
  · rw [getResolution_zero]; rfl
  · intro j hj
    rw [← encId_add_top]
    exact ⟨Or.inr ⟨_, _, _, hsib j hj, rfl⟩, getResolution_encId (hsib j hj)⟩
  · intro x hv hres
    rcases hv with rfl | ⟨t', S', r', hwf', rfl⟩
    · rw [getResolution_zero] at hres; omega
    · constructor
      · intro _
        have hlt : ancT t' r' 0 < 12 := by
          have := (WF_anc hwf' 0 (by omega)).2.2; simpa using this
        refine ⟨ancT t' r' 0, hlt, ?_⟩
        rw [← encId_add_top, covers_fields (hsib _ hlt) hwf']
        exact ⟨by omega, by omega, ancS_low _ _ _ (by omega)⟩
      · intro _; exact covers_world hwf'

/-- the first-child test on a valid id of resolution r ≥ 0, and what it yields when true -/
theorem mergeInfo_of_first {t S r : Nat} (h : WF t S r) (hf : isFirstChild (encId t S r) (some (r : Int)) = .ok true) :
    ∃ k s p, MergeInfo (encId t S r) r k s p := by
  by_cases h2 : 2 ≤ r
  · rw [isFirstChild_hilbert h h2] at hf
    have hS : S % 4 = 0 := by simpa using Except.ok.inj hf
    exact ⟨_, _, _, mergeInfo_hilbert h h2 hS⟩
  · rw [isFirstChild_low h (by omega)] at hf
    have hS := npos_small r S (by omega) h.2.1
    subst hS
    by_cases h0 : r = 0
    · subst h0
      have ht : t % 12 = 0 := by simpa using Except.ok.inj hf
      have ht' : t < 12 := by have := h.2.2; simpa using this
      have : t = 0 := by omega
      subst this
      exact ⟨_, _, _, mergeInfo_face⟩
    · have h1 : r = 1 := by omega
      subst h1
      have ht : t % 5 = 0 := by simpa using Except.ok.inj hf
      exact ⟨_, _, _, mergeInfo_seg h ht⟩

theorem isFirstChild_total {t S r : Nat} (h : WF t S r) : ∃ b, isFirstChild (encId t S r) (some (r : Int)) = .ok b := by
  by_cases h2 : 2 ≤ r
  · exact ⟨_, isFirstChild_hilbert h h2⟩
  · exact ⟨_, isFirstChild_low h (by omega)⟩

end A5
