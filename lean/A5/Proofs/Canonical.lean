/-
  `compact` on an antichain: the output is span-sorted, has no complete sibling group, and is the unique such
  representation of its region.
-/
import A5.Proofs.Sorted

attribute [local instance 2000] instPowNat

namespace A5

theorem loop_sorted (L : Nat) : ∀ (fuel : Nat) (cur out : List Nat), AllValid L cur → SpanSorted cur →
    compactLoop fuel cur = .ok out → SpanSorted out := by
  intro fuel
  induction fuel with
  | zero => intro cur out _ _ h; unfold compactLoop at h; cases h
  | succ fuel ih =>
    intro cur out hval hs hloop
    obtain ⟨o, ch, hsc, hv, _⟩ := scan_spec L cur.length cur rfl hval
    have hso := (scan_sorted L cur.length cur rfl hval hs 0 (fun _ _ => Nat.zero_le _) o ch hsc).1
    unfold compactLoop at hloop
    simp only [bind, pure, Except.pure] at hloop
    rw [hsc, bind_ok] at hloop
    cases ch with
    | false => simp only [Bool.false_eq_true, if_false] at hloop; cases hloop; exact hso
    | true => simp only [if_true] at hloop; exact ih o out hv hso hloop

/-- `compact` on an antichain of valid ids -/
theorem compact_antichain (L : Nat) (X : List Nat) (hval : AllValid L X) (hanti : Antichain X) :
    ∃ Y, compact X = .ok Y ∧ AllValid L Y ∧
      (∀ x, ValidId x → getResolution x = (L : Int) → (CoveredBy Y x ↔ CoveredBy X x)) ∧
      SpanSorted Y ∧ scanPass Y = .ok (Y, false) := by
  obtain ⟨Y, h1, h2, h3, h4⟩ := compact_spec L X hval
  refine ⟨Y, h1, h2, h3, ?_, h4⟩
  unfold compact at h1
  by_cases he : X.isEmpty
  · rw [if_pos he] at h1; cases h1; exact List.Pairwise.nil
  · rw [if_neg he] at h1
    simp only at h1
    have hv' : AllValid L (sortedSet hierarchicalKey X) := fun c hc => hval c ((mem_sortedSet _ _ _).1 hc)
    exact loop_sorted L _ _ Y hv' (sortedSet_sorted X (fun y hy => (hval y hy).1) hanti) h1

theorem covers_self {x : Nat} (hv : ValidId x) : Covers x x := by
  rcases hv with rfl | ⟨t, S, r, h, rfl⟩
  · unfold Covers; rw [getResolution_zero]; exact cellToParent_world_target _ _ deserialize_world
  · rw [covers_fields h h]; exact ⟨Nat.le_refl _, ancT_self t r, ancS_self h.2.1⟩

/-- every valid cell coarser than resolution 29 has a first child heading its complete sibling group -/
theorem first_child_exists {q : Nat} (hq : ValidId q) (hres : getResolution q ≤ 28) :
    ∃ t S r k s, WF t S r ∧ (r : Int) = getResolution q + 1 ∧
      isFirstChild (encId t S r) (some (r : Int)) = .ok true ∧
      MergeInfo (encId t S r) r k s q ∧ MergeSpans (encId t S r) k s q := by
  rcases hq with rfl | ⟨t, S, r, h, rfl⟩
  · refine ⟨0, 0, 0, 12, 2 ^ 58, by decide, by rw [getResolution_zero]; rfl, ?_, mergeInfo_face, mergeSpans_face⟩
    rw [isFirstChild_low (by decide) (by omega)]; rfl
  · rw [getResolution_encId h] at hres ⊢
    have hr28 : r ≤ 28 := by omega
    by_cases h0 : r = 0
    · subst h0
      have hS := npos_small 0 S (by omega) h.2.1
      subst hS
      have ht : t < 12 := by have := h.2.2; simpa using this
      have hwf : WF (5 * t) 0 1 := ⟨by omega, by decide, by simp; omega⟩
      have mi := mergeInfo_seg hwf (by omega)
      have ms := mergeSpans_seg hwf (by omega)
      rw [show 5 * t / 5 = t by omega] at mi ms
      refine ⟨5 * t, 0, 1, 5, 2 ^ 58, hwf, by simp, ?_, mi, ms⟩
      rw [isFirstChild_low hwf (by omega)]
      simp
    · have hr1 : 1 ≤ r := by omega
      have hwf : WF t (4 * S) (r + 1) := by
        obtain ⟨_, hS, ht⟩ := h
        rw [if_neg h0] at ht
        refine ⟨by omega, ?_, by rw [if_neg (by omega)]; exact ht⟩
        rw [npos_eq_pow (r + 1) (by omega), show r + 1 - 1 = (r - 1) + 1 by omega, Nat.pow_succ]
        rw [npos_eq_pow r hr1] at hS
        omega
      have hS4 : 4 * S % 4 = 0 := by omega
      have mi := mergeInfo_hilbert hwf (by omega) hS4
      have ms := mergeSpans_hilbert hwf (by omega) hS4
      have hanc : ancS (4 * S) (r + 1) (r + 1 - 1) = S := by
        unfold ancS
        rw [show r + 1 - 1 = r by omega]
        by_cases h2 : r < 2
        · rw [if_pos h2]; exact (npos_small r S h2 h.2.1).symm
        · rw [if_neg h2, show r + 1 - r = 1 by omega, Nat.pow_one]; omega
      rw [hanc, show r + 1 - 1 = r by omega] at mi ms
      refine ⟨t, 4 * S, r + 1, 4, _, hwf, by push_cast; rfl, ?_, mi, ms⟩
      rw [isFirstChild_hilbert hwf (by omega)]
      simp

/-- all children of `q` (the next-finer cells it covers) are in the list -/
def HasCompleteGroup (Y : List Nat) (q : Nat) : Prop :=
  ∀ x, ValidId x → getResolution x = getResolution q + 1 → Covers q x → x ∈ Y

/-- the output of a quiet pass over a span-sorted list contains no complete sibling group -/
theorem no_complete_group (L : Nat) (Y : List Nat) (hval : AllValid L Y) (hs : SpanSorted Y)
    (hq : scanPass Y = .ok (Y, false)) (q : Nat) (hvq : ValidId q) (hres : getResolution q ≤ 28) :
    ¬ HasCompleteGroup Y q := by
  intro hg
  obtain ⟨t, S, r, k, s, hwf, hr, hf, mi, ms⟩ := first_child_exists hvq hres
  apply no_group_after_quiet_pass L Y hval hs ⟨Y, hq⟩ hwf hf k s q mi ms
  intro j hj
  obtain ⟨hv, hrj⟩ := mi.sib_valid j hj
  apply hg _ hv (by rw [hrj, hr])
  exact (mi.cover _ hv (by rw [hrj])).2 ⟨j, hj, covers_self hv⟩

end A5
