/-
  C18, geometric half in exact arithmetic (ℚ ⊇ every IEEE double): decoding the lattice position of a shifted digit
  string plus any point strictly inside its unit triangle returns the digit string — for every length.
-/
import A5.Proofs.HilbertT
import Mathlib.Tactic.Linarith
import Mathlib.Tactic.Ring
import Mathlib.Tactic.FieldSimp
import Mathlib.Tactic.IntervalCases
import Mathlib.Algebra.Order.Field.Basic
import Mathlib.Algebra.Order.Ring.Rat

namespace A5.Hilbert

instance : Scalar ℚ where
  ofInt := fun z => (z : ℚ)
  add := (· + ·)
  sub := (· - ·)
  mul := (· * ·)
  div := (· / ·)
  neg := fun x => -x
  lt := fun a b => decide (a < b)

/-- `kj_to_ij(quaternary_to_kj(d, f))` as rationals -/
def childQ (d : Nat) (f : Flips) : ℚ × ℚ := (((kjToIj (kjOf d f)).1 : Int), ((kjToIj (kjOf d f)).2 : Int))

/-- open unit-lattice triangle of side `s` belonging to flip state `f`, anchored at the origin -/
def Tri (f : Flips) (s u v : ℚ) : Prop :=
  match f with
  | (false, false) => 0 < u ∧ 0 < v ∧ u + v < s
  | (false, true)  => u < 0 ∧ v < s ∧ 0 < u + v
  | (true,  false) => 0 < u ∧ -s < v ∧ u + v < 0
  | (true,  true)  => u < 0 ∧ v < 0 ∧ -s < u + v

theorem quat_unfold (u v : ℚ) (f : Flips) :
    ijToQuaternary u v f =
      (let a := if f.1 then -(u + v) else u + v
       let b := if f.2 then -u else u
       let c := if f.1 then -v else v
       if f.1 != f.2 then
         if c < 1 then 0 else if 1 < b then 3 else if 1 < a then 2 else 1
       else
         if a < 1 then 0 else if 1 < b then 3 else if 1 < c then 2 else 1) := by
  simp only [ijToQuaternary, Scalar.lt, Scalar.neg, Scalar.add, Scalar.ofInt, Int.cast_one, decide_eq_true_eq]

/-- inside the child's triangle the digit test returns the child -/
theorem child_region (f : Flips) (d : Nat) (hd : d < 4) (u v : ℚ) (h : Tri (fmul f (qflips d)) 1 u v) :
    ijToQuaternary ((childQ d f).1 + u) ((childQ d f).2 + v) f = d := by
  rw [quat_unfold]
  obtain ⟨fx, fy⟩ := f
  interval_cases d <;> cases fx <;> cases fy <;>
    simp only [fmul, qflips, Tri, Bool.xor_false, Bool.xor_true, Bool.not_false, Bool.not_true,
      Bool.false_xor, Bool.true_xor] at h <;>
    (try simp (config := {decide := true}) only [] at h) <;>
    obtain ⟨h1, h2, h3⟩ := h <;>
    simp only [childQ, kjOf, kjToIj] <;> norm_num <;>
    (repeat' split_ifs) <;> first | rfl | (exfalso; linarith) | (intro hh; linarith) | linarith

/-- a child's triangle sits inside the parent's triangle at double scale -/
theorem child_inside (f : Flips) (d : Nat) (hd : d < 4) (s u v : ℚ) (hs : 0 < s) (h : Tri (fmul f (qflips d)) s u v) :
    Tri f (2 * s) ((childQ d f).1 * s + u) ((childQ d f).2 * s + v) := by
  obtain ⟨fx, fy⟩ := f
  interval_cases d <;> cases fx <;> cases fy <;>
    simp only [fmul, qflips, Tri, Bool.xor_false, Bool.xor_true, Bool.not_false, Bool.not_true,
      Bool.false_xor, Bool.true_xor] at h ⊢ <;>
    (try simp (config := {decide := true}) only [] at h) <;>
    obtain ⟨h1, h2, h3⟩ := h <;>
    simp only [childQ, kjOf, kjToIj] <;> norm_num <;> refine ⟨?_, ?_, ?_⟩ <;> linarith

theorem Tri_scale (f : Flips) (s t u v : ℚ) (ht : 0 < t) : Tri f s u v ↔ Tri f (s * t) (u * t) (v * t) := by
  obtain ⟨fx, fy⟩ := f
  cases fx <;> cases fy <;> simp only [Tri] <;> constructor <;> rintro ⟨h1, h2, h3⟩ <;> refine ⟨?_, ?_, ?_⟩ <;> nlinarith

/-- G: lattice offset (ij units) of a shifted digit string, most significant digit first, and the final flips -/
def G : List Nat → Flips → (ℚ × ℚ) × Flips
  | [], f => ((0, 0), f)
  | d :: ds, f =>
    let r := G ds (fmul f (qflips d))
    let c := childQ d f
    ((c.1 * 2 ^ ds.length + r.1.1, c.2 * 2 ^ ds.length + r.1.2), r.2)

theorem G_inside : ∀ (ds : List Nat) (_ : ∀ d ∈ ds, d < 4) (f : Flips) (u v : ℚ), Tri (G ds f).2 1 u v →
    Tri f (2 ^ ds.length) ((G ds f).1.1 + u) ((G ds f).1.2 + v)
  | [], _, f, u, v, h => by simpa [G] using h
  | d :: ds, hd, f, u, v, h => by
    have ih := G_inside ds (fun x hx => hd x (by simp [hx])) (fmul f (qflips d)) u v (by simpa [G] using h)
    have := child_inside f d (hd d (by simp)) (2 ^ ds.length) _ _ (by positivity) ih
    simp only [G, List.length_cons, pow_succ]
    convert this using 1 <;> ring

/-- the decoding loop of `_ij_to_s` (with its running pivot) recovers the digit string -/
theorem decode_G : ∀ (ds : List Nat) (_ : ∀ d ∈ ds, d < 4) (f : Flips) (px py u v : ℚ), Tri (G ds f).2 1 u v →
    decodeDigits ds.length (px + (G ds f).1.1 + u) (py + (G ds f).1.2 + v) px py f = ds
  | [], _, f, px, py, u, v, _ => by simp [decodeDigits]
  | d :: ds, hd, f, px, py, u, v, h => by
    have hds : ∀ x ∈ ds, x < 4 := fun x hx => hd x (by simp [hx])
    have hd4 := hd d (by simp)
    have hin := G_inside ds hds (fmul f (qflips d)) u v (by simpa [G] using h)
    have hpow : (0:ℚ) < 2 ^ ds.length := by positivity
    have hq : ijToQuaternary ((px + (G (d :: ds) f).1.1 + u - px) / 2 ^ ds.length)
        ((py + (G (d :: ds) f).1.2 + v - py) / 2 ^ ds.length) f = d := by
      have h1 := (Tri_scale (fmul f (qflips d)) (2 ^ ds.length) (1 / 2 ^ ds.length) _ _ (by positivity)).1 hin
      rw [mul_one_div_cancel (ne_of_gt hpow)] at h1
      have := child_region f d hd4 _ _ h1
      have e1 : (px + (G (d :: ds) f).1.1 + u - px) / 2 ^ ds.length
          = (childQ d f).1 + ((G ds (fmul f (qflips d))).1.1 + u) * (1 / 2 ^ ds.length) := by
        simp only [G]; field_simp; ring
      have e2 : (py + (G (d :: ds) f).1.2 + v - py) / 2 ^ ds.length
          = (childQ d f).2 + ((G ds (fmul f (qflips d))).1.2 + v) * (1 / 2 ^ ds.length) := by
        simp only [G]; field_simp; ring
      rw [e1, e2]; exact this
    simp only [List.length_cons, decodeDigits, Scalar.sub, Scalar.div, Scalar.ofInt, Scalar.add, Scalar.mul]
    have hcast : ((2 ^ ds.length : Int) : ℚ) = 2 ^ ds.length := by push_cast; rfl
    rw [hcast, hq]
    have ih := decode_G ds hds (fmul f (qflips d)) (px + (childQ d f).1 * 2 ^ ds.length) (py + (childQ d f).2 * 2 ^ ds.length) u v
      (by simpa [G] using h)
    have a1 : px + (G (d :: ds) f).1.1 + u = px + (childQ d f).1 * 2 ^ ds.length + (G ds (fmul f (qflips d))).1.1 + u := by
      simp only [G]; ring
    have a2 : py + (G (d :: ds) f).1.2 + v = py + (childQ d f).2 * 2 ^ ds.length + (G ds (fmul f (qflips d))).1.2 + v := by
      simp only [G]; ring
    rw [a1, a2]
    congr 1

end A5.Hilbert
